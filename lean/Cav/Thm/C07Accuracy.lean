/-
  C07 (accuracy clause, exact class) — for POLYNOMIAL data the value attached to every display
  piece is the true Riemann–Stieltjes integral `∫ f dg = ∫ f·g'` over that piece up to the table
  defect of the Gauss–Kronrod rule, the reported estimate is honest, and the pieces of `[a,b]`
  add up to `∫_a^b f dg` — end to end through the display models `genDisplayRs` /
  `genDisplayCav` over `Rat` (exact arithmetic), with the integral taken over `ℝ` (Mathlib's
  interval integral) and `g'` the true derivative (Mathlib's `deriv`).

  Data: `f = adPoly pf`, `g = adPoly pg` resp. `c = adPoly pc` — Horner closures on the GENERATED
  `AD.add`/`AD.mul` (`Lemmas/AccAD.lean`; `evalAD_hornerE` ties them to `E.evalAD`).
  `deg cs = cs.length - 1` is the FORMAL degree of a coefficient list (low degree first,
  trailing zeros count).

  (T1) `rs_piece_accuracy`, `rs_piece_accuracy_of_deg`, `rs_pieces_accurate`
  (T2) `cav_piece_accuracy`, `cav_piece_accuracy_of_deg`, `cav_pieces_accurate` — every degree
       of `c` (the chain rule through `D1::composition` is `adPoly_d`)
  (T3) `rs_total_accuracy`, `cav_total_accuracy` (+ `_of_deg`), `rs_integral_pieces_sum`,
       `cav_integral_pieces_sum`; a uniform bound under the extra hypothesis that the pieces run
       in the direction of `[a,b]` (`rs_total_accuracy_uniform`, `cav_total_accuracy_uniform`)

  Model path: `genDisplayRs`, `genDisplayCav`, `rsPiece`, `pieceInteg`, `cavG`, `gk1d`;
  generated: `AD.add`, `AD.sub`, `AD.mul`, `D1.f`, `D1.df`, `D1.fdf`, `D1.composition`.
-/
import Cav.Thm.C01
import Cav.Thm.C07
import Cav.Lemmas.AccPoly
import Cav.Lemmas.AccAD
import Cav.Lemmas.AccExamples

namespace Cav.C07Accuracy
open Cav Num Gen Cav.C01

/-- formal degree of a coefficient list -/
def deg (cs : List Rat) : Nat := cs.length - 1

/-- the accuracy bound of one piece: `|b−a|/2 · 1e-16 · Σ_k |cs[k]|·max(|a|,|b|)^k` -/
def pieceBound (cs : List Rat) (a b : Rat) : Rat :=
  |(b - a) / 2| * (1 / 10 ^ 16) * absPolyAt cs (max |a| |b|)

/-- the value reported on a piece (`0` when integration is off) -/
def reportedValue (d : Disp2D Rat) : Rat := (d.integ.getD (0, 0)).1

theorem reportedValue_eq {d : Disp2D Rat} {v e : Rat} (h : d.integ = some (v, e)) :
    reportedValue d = v := by
  simp [reportedValue, h]

theorem pieceBound_cast (cs : List Rat) (a b : Rat) :
    ((pieceBound cs a b : Rat) : ℝ) =
      |(((b : ℝ) - (a : ℝ)) / 2)| * (1 / 10 ^ 16) * ((absPolyAt cs (max |a| |b|) : Rat) : ℝ) := by
  rw [pieceBound]; push_cast; rfl

theorem pieceBound_nonneg (cs : List Rat) (a b : Rat) : 0 ≤ pieceBound cs a b := by
  have hR : (0 : Rat) ≤ max |a| |b| := le_trans (abs_nonneg a) (le_max_left _ _)
  have := absPolyAt_nonneg cs hR
  rw [pieceBound]; positivity

theorem exactInt_same (cs : List Rat) (a : Rat) : exactInt cs a a = 0 := by
  have := exactInt_adjacent cs a a a
  linarith

/-! ### one quadrature call, all bounds (including `a = b`) -/

/-- `gk1d` on a polynomial of degree ≤ 31, ANY bounds: value within the table defect of the exact
    integral, estimate non-negative, and below the tolerance unless the piece is degenerate and
    the tolerance is not positive (the routine then returns `(0, 0)`) -/
theorem gk1d_poly_piece (cs : List Rat) (hdeg : cs.length ≤ 32) (a b tol : Rat) (mi : Option Nat)
    (v e : Rat) (h : (gk1d (evalPoly cs) a b tol mi).res = .ok (v, e)) :
    |v - exactInt cs a b| ≤ pieceBound cs a b ∧ 0 ≤ e ∧ ((a ≠ b ∨ 0 < tol) → e < tol) := by
  by_cases hab : a = b
  · subst hab
    have h0 := (gk1d_poly_accuracy_eq cs a tol mi).1
    rw [h0] at h
    cases h
    rw [exactInt_same]
    refine ⟨?_, le_refl _, ?_⟩
    · simpa using pieceBound_nonneg cs a a
    · rintro (h1 | h1)
      · exact absurd rfl h1
      · exact h1
  · have h1 := gk1d_poly_accuracy_rat cs hdeg a b tol mi v e hab h
    have h2 := gk1d_ok_estimate _ a b tol mi v e hab h
    exact ⟨h1, h2.2, fun _ => h2.1⟩

/-- the same against Mathlib's interval integral -/
theorem gk1d_poly_piece_real (cs : List Rat) (hdeg : cs.length ≤ 32) (a b tol : Rat)
    (mi : Option Nat) (v e : Rat) (h : (gk1d (evalPoly cs) a b tol mi).res = .ok (v, e)) :
    |(v : ℝ) - ∫ x in (a : ℝ)..(b : ℝ), evalPolyR cs x| ≤ ((pieceBound cs a b : Rat) : ℝ) ∧
      0 ≤ e ∧ ((a ≠ b ∨ 0 < tol) → e < tol) := by
  obtain ⟨h1, h2⟩ := gk1d_poly_piece cs hdeg a b tol mi v e h
  refine ⟨?_, h2⟩
  rw [integral_eq_exactInt]
  have := (Rat.cast_le (K := ℝ)).mpr h1
  push_cast at this
  exact this

/-! ### (T1) Riemann–Stieltjes display -/

/-- what the quadrature of an RS piece is, for polynomial data -/
theorem rs_piece_gk1d (pf pg : List Rat) (ivs : List (Rat × Rat)) (cfg : Cfg2D Rat)
    (ds : List (Disp2D Rat)) (h : genDisplayRs (adPoly pf) (adPoly pg) ivs cfg = .ok ds)
    (d : Disp2D Rat) (hd : d ∈ ds) (w : Rat × Rat) (hw : d.integ = some w) :
    (gk1d (evalPoly (rsCoeffs pf pg)) d.a d.b cfg.tol (some cfg.maxIntIters)).res = .ok w := by
  have hc : cfg.computeInteg = true := by
    by_contra hn
    have := (C07.rs_integ_none_iff _ _ _ _ _ h d hd).mpr (by simpa using hn)
    rw [this] at hw; cases hw
  obtain ⟨w', hw', hg⟩ := C07.rs_piece_integ_is_gk1d _ _ _ _ _ h d hd hc
  rw [hw] at hw'; cases hw'
  rwa [rs_integrand_eq] at hg

/-- **(T1)**  `f = pf`, `g = pg` polynomials with `deg (f·g') ≤ 31` (as a coefficient list:
    `rsCoeffs pf pg = pf · pg'`).  Every piece `d` of a successful `gen_display_rs` run that
    carries a value `(v, e)` satisfies
    `|v − ∫_{d.a}^{d.b} f(x)·g'(x) dx| ≤ |d.b−d.a|/2 · 1e-16 · Σ_k |(f g')_k|·max(|d.a|,|d.b|)^k`
    — the real integral, `g'` the true derivative, independent of the number of bisections —
    `0 ≤ e`, and `e < tol` (unless `d.a = d.b` and `tol ≤ 0`: such a piece reports `(0, 0)`). -/
theorem rs_piece_accuracy (pf pg : List Rat) (ivs : List (Rat × Rat)) (cfg : Cfg2D Rat)
    (ds : List (Disp2D Rat)) (h : genDisplayRs (adPoly pf) (adPoly pg) ivs cfg = .ok ds)
    (hdeg : (rsCoeffs pf pg).length ≤ 32)
    (d : Disp2D Rat) (hd : d ∈ ds) (v e : Rat) (hv : d.integ = some (v, e)) :
    |(v : ℝ) - ∫ x in (d.a : ℝ)..(d.b : ℝ), evalPolyR pf x * deriv (evalPolyR pg) x| ≤
        |(((d.b : ℝ) - (d.a : ℝ)) / 2)| * (1 / 10 ^ 16) *
          ((absPolyAt (rsCoeffs pf pg) (max |d.a| |d.b|) : Rat) : ℝ) ∧
      0 ≤ e ∧ ((d.a ≠ d.b ∨ 0 < cfg.tol) → e < cfg.tol) := by
  have hg := rs_piece_gk1d pf pg ivs cfg ds h d hd (v, e) hv
  have := gk1d_poly_piece_real _ hdeg _ _ _ _ v e hg
  rw [pieceBound_cast] at this
  simpa only [evalPolyR_rsCoeffs] using this

/-- formal degrees: `deg f + deg g − 1 ≤ 31` suffices -/
theorem rsCoeffs_length_of_deg (pf pg : List Rat) (hdeg : deg pf + deg pg - 1 ≤ 31) :
    (rsCoeffs pf pg).length ≤ 32 := by
  have := rsCoeffs_length_le pf pg
  unfold deg at hdeg
  omega

/-- **(T1)** with the degree hypothesis `deg f + deg g − 1 ≤ 31` -/
theorem rs_piece_accuracy_of_deg (pf pg : List Rat) (ivs : List (Rat × Rat)) (cfg : Cfg2D Rat)
    (ds : List (Disp2D Rat)) (h : genDisplayRs (adPoly pf) (adPoly pg) ivs cfg = .ok ds)
    (hdeg : deg pf + deg pg - 1 ≤ 31)
    (d : Disp2D Rat) (hd : d ∈ ds) (v e : Rat) (hv : d.integ = some (v, e)) :
    |(v : ℝ) - ∫ x in (d.a : ℝ)..(d.b : ℝ), evalPolyR pf x * deriv (evalPolyR pg) x| ≤
        |(((d.b : ℝ) - (d.a : ℝ)) / 2)| * (1 / 10 ^ 16) *
          ((absPolyAt (rsCoeffs pf pg) (max |d.a| |d.b|) : Rat) : ℝ) ∧
      0 ≤ e ∧ ((d.a ≠ d.b ∨ 0 < cfg.tol) → e < cfg.tol) :=
  rs_piece_accuracy pf pg ivs cfg ds h (rsCoeffs_length_of_deg pf pg hdeg) d hd v e hv

/-- **(T1)**, existence form: with integration on, EVERY piece carries a value with the above
    properties -/
theorem rs_pieces_accurate (pf pg : List Rat) (ivs : List (Rat × Rat)) (cfg : Cfg2D Rat)
    (ds : List (Disp2D Rat)) (h : genDisplayRs (adPoly pf) (adPoly pg) ivs cfg = .ok ds)
    (hc : cfg.computeInteg = true) (hdeg : (rsCoeffs pf pg).length ≤ 32) :
    ∀ d ∈ ds, ∃ v e, d.integ = some (v, e) ∧
      |(v : ℝ) - ∫ x in (d.a : ℝ)..(d.b : ℝ), evalPolyR pf x * deriv (evalPolyR pg) x| ≤
        |(((d.b : ℝ) - (d.a : ℝ)) / 2)| * (1 / 10 ^ 16) *
          ((absPolyAt (rsCoeffs pf pg) (max |d.a| |d.b|) : Rat) : ℝ) ∧
      0 ≤ e ∧ ((d.a ≠ d.b ∨ 0 < cfg.tol) → e < cfg.tol) := by
  intro d hd
  obtain ⟨⟨v, e⟩, hv, _⟩ := C07.rs_piece_integ_is_gk1d _ _ _ _ _ h d hd hc
  exact ⟨v, e, hv, rs_piece_accuracy pf pg ivs cfg ds h hdeg d hd v e hv⟩

/-! ### (T2) Cavalieri display -/

/-- what the quadrature of a Cavalieri piece is, for polynomial data -/
theorem cav_piece_gk1d (pf pc : List Rat) (ivs : List (Rat × Rat)) (cfg : Cfg2D Rat)
    (ds : List (Disp2D Rat)) (h : genDisplayCav (adPoly pf) (adPoly pc) ivs cfg = .ok ds)
    (d : Disp2D Rat) (hd : d ∈ ds) (w : Rat × Rat) (hw : d.integ = some w) :
    (gk1d (evalPoly (cavCoeffs pf pc)) d.a d.b cfg.tol (some cfg.maxIntIters)).res = .ok w := by
  have hc : cfg.computeInteg = true := by
    by_contra hn
    have := (C07.integ_none_iff _ _ _ _ _ h d hd).mpr (by simpa using hn)
    rw [this] at hw; cases hw
  obtain ⟨w', hw', hg⟩ := C07.piece_integ_is_gk1d _ _ _ _ _ h d hd hc
  rw [hw] at hw'; cases hw'
  rwa [cav_integrand_eq] at hg

/-- the closure `g` of `gen_display_cav` is (on rationals) the real function `cavGR`:
    `g(x) = x − c(f(x)) + c(0)` -/
theorem cavG_value (pf pc : List Rat) (x : Rat) :
    ((D1.f (cavG (adPoly pf) (adPoly pc) (D1.f (adPoly pc) zero)) x : Rat) : ℝ) =
      cavGR pf pc (x : ℝ) := by
  have h0 : evalPolyR pc 0 = ((evalPoly pc 0 : Rat) : ℝ) := by
    rw [← evalPolyR_cast, Rat.cast_zero]
  rw [D1_f_cavG_adPoly, D1_f_adPoly, QuadTiling.zero_eq, cavGR, h0, evalPolyR_cast,
    evalPolyR_cast]
  push_cast
  rfl

/-- **(T2)**  `f = pf`, `c = pc` polynomials of ANY degrees with `deg (f·g') ≤ 31`, where
    `g(x) = x − c(f(x)) + c(0)` (`cavGR`), `g'(x) = 1 − c'(f(x))·f'(x)` (as a coefficient list:
    `cavCoeffs pf pc = pf · (1 − pf' · (pc' ∘ pf))`).  Every piece `d` of a successful
    `gen_display_cav` run that carries a value `(v, e)` satisfies
    `|v − ∫_{d.a}^{d.b} f(x)·g'(x) dx| ≤ |d.b−d.a|/2 · 1e-16 · Σ_k |(f g')_k|·max(|d.a|,|d.b|)^k`,
    `0 ≤ e`, and `e < tol` (unless `d.a = d.b` and `tol ≤ 0`). -/
theorem cav_piece_accuracy (pf pc : List Rat) (ivs : List (Rat × Rat)) (cfg : Cfg2D Rat)
    (ds : List (Disp2D Rat)) (h : genDisplayCav (adPoly pf) (adPoly pc) ivs cfg = .ok ds)
    (hdeg : (cavCoeffs pf pc).length ≤ 32)
    (d : Disp2D Rat) (hd : d ∈ ds) (v e : Rat) (hv : d.integ = some (v, e)) :
    |(v : ℝ) - ∫ x in (d.a : ℝ)..(d.b : ℝ), evalPolyR pf x * deriv (cavGR pf pc) x| ≤
        |(((d.b : ℝ) - (d.a : ℝ)) / 2)| * (1 / 10 ^ 16) *
          ((absPolyAt (cavCoeffs pf pc) (max |d.a| |d.b|) : Rat) : ℝ) ∧
      0 ≤ e ∧ ((d.a ≠ d.b ∨ 0 < cfg.tol) → e < cfg.tol) := by
  have hg := cav_piece_gk1d pf pc ivs cfg ds h d hd (v, e) hv
  have := gk1d_poly_piece_real _ hdeg _ _ _ _ v e hg
  rw [pieceBound_cast] at this
  simpa only [evalPolyR_cavCoeffs] using this

/-- formal degrees: `deg f + deg g' ≤ 31` with `deg g' = max 0 (deg c · deg f − 1)`
    (`= (deg c − 1)·deg f + deg f − 1` for `deg c ≥ 1`) suffices -/
theorem cavCoeffs_length_of_deg (pf pc : List Rat)
    (hdeg : deg pf + (max 1 (deg pc * deg pf) - 1) ≤ 31) : (cavCoeffs pf pc).length ≤ 32 := by
  have := cavCoeffs_length_le pf pc
  unfold deg at hdeg
  omega

/-- **(T2)** with the degree hypothesis -/
theorem cav_piece_accuracy_of_deg (pf pc : List Rat) (ivs : List (Rat × Rat)) (cfg : Cfg2D Rat)
    (ds : List (Disp2D Rat)) (h : genDisplayCav (adPoly pf) (adPoly pc) ivs cfg = .ok ds)
    (hdeg : deg pf + (max 1 (deg pc * deg pf) - 1) ≤ 31)
    (d : Disp2D Rat) (hd : d ∈ ds) (v e : Rat) (hv : d.integ = some (v, e)) :
    |(v : ℝ) - ∫ x in (d.a : ℝ)..(d.b : ℝ), evalPolyR pf x * deriv (cavGR pf pc) x| ≤
        |(((d.b : ℝ) - (d.a : ℝ)) / 2)| * (1 / 10 ^ 16) *
          ((absPolyAt (cavCoeffs pf pc) (max |d.a| |d.b|) : Rat) : ℝ) ∧
      0 ≤ e ∧ ((d.a ≠ d.b ∨ 0 < cfg.tol) → e < cfg.tol) :=
  cav_piece_accuracy pf pc ivs cfg ds h (cavCoeffs_length_of_deg pf pc hdeg) d hd v e hv

/-- **(T2)**, existence form -/
theorem cav_pieces_accurate (pf pc : List Rat) (ivs : List (Rat × Rat)) (cfg : Cfg2D Rat)
    (ds : List (Disp2D Rat)) (h : genDisplayCav (adPoly pf) (adPoly pc) ivs cfg = .ok ds)
    (hc : cfg.computeInteg = true) (hdeg : (cavCoeffs pf pc).length ≤ 32) :
    ∀ d ∈ ds, ∃ v e, d.integ = some (v, e) ∧
      |(v : ℝ) - ∫ x in (d.a : ℝ)..(d.b : ℝ), evalPolyR pf x * deriv (cavGR pf pc) x| ≤
        |(((d.b : ℝ) - (d.a : ℝ)) / 2)| * (1 / 10 ^ 16) *
          ((absPolyAt (cavCoeffs pf pc) (max |d.a| |d.b|) : Rat) : ℝ) ∧
      0 ≤ e ∧ ((d.a ≠ d.b ∨ 0 < cfg.tol) → e < cfg.tol) := by
  intro d hd
  obtain ⟨⟨v, e⟩, hv, _⟩ := C07.piece_integ_is_gk1d _ _ _ _ _ h d hd hc
  exact ⟨v, e, hv, cav_piece_accuracy pf pc ivs cfg ds h hdeg d hd v e hv⟩

/-! ### (T3) totals over one interval `[a,b]` -/

/-- the real integrals over the pieces of a chain add up (interval additivity of the integral of
    a polynomial) -/
theorem integral_pieces_sum (cs : List Rat) (ds : List (Disp2D Rat)) (a b : Rat)
    (hsum : (ds.map (fun d => exactInt cs d.a d.b)).sum = exactInt cs a b) :
    (ds.map (fun d => ∫ x in (d.a : ℝ)..(d.b : ℝ), evalPolyR cs x)).sum =
      ∫ x in (a : ℝ)..(b : ℝ), evalPolyR cs x := by
  rw [integral_eq_exactInt, ← hsum, Rat.cast_list_sum, List.map_map]
  congr 1
  apply List.map_congr_left
  intro d _
  exact integral_eq_exactInt cs d.a d.b

/-- sum of the piece errors, given a per-piece quadrature fact -/
theorem total_of_pieces (cs : List Rat) (hdeg : cs.length ≤ 32) (ds : List (Disp2D Rat))
    (a b tol : Rat) (mi : Option Nat)
    (hsum : (ds.map (fun d => exactInt cs d.a d.b)).sum = exactInt cs a b)
    (hp : ∀ d ∈ ds, ∃ w, d.integ = some w ∧ (gk1d (evalPoly cs) d.a d.b tol mi).res = .ok w) :
    |(((ds.map reportedValue).sum : Rat) : ℝ) - ∫ x in (a : ℝ)..(b : ℝ), evalPolyR cs x| ≤
      (((ds.map (fun d => pieceBound cs d.a d.b)).sum : Rat) : ℝ) := by
  rw [integral_eq_exactInt, ← hsum, ← Rat.cast_sub, ← Rat.cast_abs, Rat.cast_le]
  refine abs_sum_sub_sum_le ds _ _ _ (fun d hd => ?_)
  obtain ⟨⟨v, e⟩, hv, hg⟩ := hp d hd
  rw [reportedValue_eq hv]
  exact (gk1d_poly_piece cs hdeg _ _ _ _ v e hg).1

/-- **(T3), RS**: the integrals over the pieces add up to the integral over `[a,b]` -/
theorem rs_integral_pieces_sum (pf pg : List Rat) (a b : Rat) (cfg : Cfg2D Rat)
    (ds : List (Disp2D Rat)) (h : genDisplayRs (adPoly pf) (adPoly pg) [(a, b)] cfg = .ok ds) :
    (ds.map (fun d => ∫ x in (d.a : ℝ)..(d.b : ℝ),
        evalPolyR pf x * deriv (evalPolyR pg) x)).sum =
      ∫ x in (a : ℝ)..(b : ℝ), evalPolyR pf x * deriv (evalPolyR pg) x := by
  have := integral_pieces_sum (rsCoeffs pf pg) ds a b
    (C07.rs_chain_total _ _ a b cfg ds h _ (exactInt_adjacent _))
  simpa only [evalPolyR_rsCoeffs] using this

/-- **(T3), RS**: `|Σ_k v_k − ∫_a^b f dg| ≤ Σ_k bound_k` -/
theorem rs_total_accuracy (pf pg : List Rat) (a b : Rat) (cfg : Cfg2D Rat)
    (ds : List (Disp2D Rat)) (h : genDisplayRs (adPoly pf) (adPoly pg) [(a, b)] cfg = .ok ds)
    (hc : cfg.computeInteg = true) (hdeg : (rsCoeffs pf pg).length ≤ 32) :
    |(((ds.map reportedValue).sum : Rat) : ℝ) -
        ∫ x in (a : ℝ)..(b : ℝ), evalPolyR pf x * deriv (evalPolyR pg) x| ≤
      (((ds.map (fun d => pieceBound (rsCoeffs pf pg) d.a d.b)).sum : Rat) : ℝ) := by
  have := total_of_pieces (rsCoeffs pf pg) hdeg ds a b cfg.tol (some cfg.maxIntIters)
    (C07.rs_chain_total _ _ a b cfg ds h _ (exactInt_adjacent _))
    (fun d hd => by
      obtain ⟨w, hw, _⟩ := C07.rs_piece_integ_is_gk1d _ _ _ _ _ h d hd hc
      exact ⟨w, hw, rs_piece_gk1d pf pg _ cfg ds h d hd w hw⟩)
  simpa only [evalPolyR_rsCoeffs] using this

theorem rs_total_accuracy_of_deg (pf pg : List Rat) (a b : Rat) (cfg : Cfg2D Rat)
    (ds : List (Disp2D Rat)) (h : genDisplayRs (adPoly pf) (adPoly pg) [(a, b)] cfg = .ok ds)
    (hc : cfg.computeInteg = true) (hdeg : deg pf + deg pg - 1 ≤ 31) :
    |(((ds.map reportedValue).sum : Rat) : ℝ) -
        ∫ x in (a : ℝ)..(b : ℝ), evalPolyR pf x * deriv (evalPolyR pg) x| ≤
      (((ds.map (fun d => pieceBound (rsCoeffs pf pg) d.a d.b)).sum : Rat) : ℝ) :=
  rs_total_accuracy pf pg a b cfg ds h hc (rsCoeffs_length_of_deg pf pg hdeg)

/-- **(T3), Cavalieri**: the integrals over the pieces add up to the integral over `[a,b]` -/
theorem cav_integral_pieces_sum (pf pc : List Rat) (a b : Rat) (cfg : Cfg2D Rat)
    (ds : List (Disp2D Rat)) (h : genDisplayCav (adPoly pf) (adPoly pc) [(a, b)] cfg = .ok ds) :
    (ds.map (fun d => ∫ x in (d.a : ℝ)..(d.b : ℝ),
        evalPolyR pf x * deriv (cavGR pf pc) x)).sum =
      ∫ x in (a : ℝ)..(b : ℝ), evalPolyR pf x * deriv (cavGR pf pc) x := by
  have := integral_pieces_sum (cavCoeffs pf pc) ds a b
    (C07.chain_total _ _ a b cfg ds h _ (exactInt_adjacent _))
  simpa only [evalPolyR_cavCoeffs] using this

/-- **(T3), Cavalieri**: `|Σ_k v_k − ∫_a^b f dg| ≤ Σ_k bound_k` -/
theorem cav_total_accuracy (pf pc : List Rat) (a b : Rat) (cfg : Cfg2D Rat)
    (ds : List (Disp2D Rat)) (h : genDisplayCav (adPoly pf) (adPoly pc) [(a, b)] cfg = .ok ds)
    (hc : cfg.computeInteg = true) (hdeg : (cavCoeffs pf pc).length ≤ 32) :
    |(((ds.map reportedValue).sum : Rat) : ℝ) -
        ∫ x in (a : ℝ)..(b : ℝ), evalPolyR pf x * deriv (cavGR pf pc) x| ≤
      (((ds.map (fun d => pieceBound (cavCoeffs pf pc) d.a d.b)).sum : Rat) : ℝ) := by
  have := total_of_pieces (cavCoeffs pf pc) hdeg ds a b cfg.tol (some cfg.maxIntIters)
    (C07.chain_total _ _ a b cfg ds h _ (exactInt_adjacent _))
    (fun d hd => by
      obtain ⟨w, hw, _⟩ := C07.piece_integ_is_gk1d _ _ _ _ _ h d hd hc
      exact ⟨w, hw, cav_piece_gk1d pf pc _ cfg ds h d hd w hw⟩)
  simpa only [evalPolyR_cavCoeffs] using this

theorem cav_total_accuracy_of_deg (pf pc : List Rat) (a b : Rat) (cfg : Cfg2D Rat)
    (ds : List (Disp2D Rat)) (h : genDisplayCav (adPoly pf) (adPoly pc) [(a, b)] cfg = .ok ds)
    (hc : cfg.computeInteg = true) (hdeg : deg pf + (max 1 (deg pc * deg pf) - 1) ≤ 31) :
    |(((ds.map reportedValue).sum : Rat) : ℝ) -
        ∫ x in (a : ℝ)..(b : ℝ), evalPolyR pf x * deriv (cavGR pf pc) x| ≤
      (((ds.map (fun d => pieceBound (cavCoeffs pf pc) d.a d.b)).sum : Rat) : ℝ) :=
  cav_total_accuracy pf pc a b cfg ds h hc (cavCoeffs_length_of_deg pf pc hdeg)

/-! ### a uniform bound for the total (extra hypothesis: the pieces run in the direction of
`[a,b]`; the split points are ordered only under the cell hypotheses of `C13Split`) -/

/-- for a directed chain the piece bounds sum to at most the bound of the whole interval -/
theorem pieceBound_sum_le (cs : List Rat) (a b : Rat) (hab : a ≠ b) (L : List (Rat × Rat))
    (hc : C02.IsChain a b L) (hd : C02.Directed a b L) :
    (L.map (fun p => pieceBound cs p.1 p.2)).sum ≤ pieceBound cs a b := by
  have hR : (0 : Rat) ≤ max |a| |b| := le_trans (abs_nonneg a) (le_max_left _ _)
  have hA := absPolyAt_nonneg cs hR
  have h1 : (L.map (fun p => pieceBound cs p.1 p.2)).sum ≤
      (L.map (fun p => (1 / 10 ^ 16 * absPolyAt cs (max |a| |b|) / 2) * |p.2 - p.1|)).sum := by
    apply List.sum_le_sum
    intro p hp
    have hmono : absPolyAt cs (max |p.1| |p.2|) ≤ absPolyAt cs (max |a| |b|) :=
      absPolyAt_mono cs (le_trans (abs_nonneg p.1) (le_max_left _ _))
        (chain_piece_abs_le hc hd hab p hp)
    have hnn : (0 : Rat) ≤ |(p.2 - p.1) / 2| * (1 / 10 ^ 16) := by positivity
    have := mul_le_mul_of_nonneg_left hmono hnn
    simp only [pieceBound]
    rw [abs_div, abs_two] at this ⊢
    linarith
  refine le_trans h1 (le_of_eq ?_)
  rw [List.sum_map_mul_left, chain_abs_length_sum hc hd hab, pieceBound, abs_div, abs_two]
  ring

theorem rs_total_accuracy_uniform (pf pg : List Rat) (a b : Rat) (hab : a ≠ b) (cfg : Cfg2D Rat)
    (ds : List (Disp2D Rat)) (h : genDisplayRs (adPoly pf) (adPoly pg) [(a, b)] cfg = .ok ds)
    (hc : cfg.computeInteg = true) (hdeg : (rsCoeffs pf pg).length ≤ 32)
    (hdir : C02.Directed a b (C13.ends ds)) :
    |(((ds.map reportedValue).sum : Rat) : ℝ) -
        ∫ x in (a : ℝ)..(b : ℝ), evalPolyR pf x * deriv (evalPolyR pg) x| ≤
      |(((b : ℝ) - (a : ℝ)) / 2)| * (1 / 10 ^ 16) *
        ((absPolyAt (rsCoeffs pf pg) (max |a| |b|) : Rat) : ℝ) := by
  refine le_trans (rs_total_accuracy pf pg a b cfg ds h hc hdeg) ?_
  rw [← pieceBound_cast, Rat.cast_le]
  have := pieceBound_sum_le (rsCoeffs pf pg) a b hab _ (C13.rs_pieces_isChain _ _ a b cfg ds h) hdir
  simpa [C13.ends, List.map_map, Function.comp_def] using this

theorem cav_total_accuracy_uniform (pf pc : List Rat) (a b : Rat) (hab : a ≠ b) (cfg : Cfg2D Rat)
    (ds : List (Disp2D Rat)) (h : genDisplayCav (adPoly pf) (adPoly pc) [(a, b)] cfg = .ok ds)
    (hc : cfg.computeInteg = true) (hdeg : (cavCoeffs pf pc).length ≤ 32)
    (hdir : C02.Directed a b (C11.ends ds)) :
    |(((ds.map reportedValue).sum : Rat) : ℝ) -
        ∫ x in (a : ℝ)..(b : ℝ), evalPolyR pf x * deriv (cavGR pf pc) x| ≤
      |(((b : ℝ) - (a : ℝ)) / 2)| * (1 / 10 ^ 16) *
        ((absPolyAt (cavCoeffs pf pc) (max |a| |b|) : Rat) : ℝ) := by
  refine le_trans (cav_total_accuracy pf pc a b cfg ds h hc hdeg) ?_
  rw [← pieceBound_cast, Rat.cast_le]
  have := pieceBound_sum_le (cavCoeffs pf pc) a b hab _ (C11.cav_pieces_isChain _ _ a b cfg ds h) hdir
  simpa [C11.ends, List.map_map, Function.comp_def] using this

/-! ### non-vacuity: concrete runs (kernel-evaluated, `Lemmas/AccExamples.lean`) -/

/-- the sum of the piece bounds, from the end points of the pieces -/
theorem pieceBound_sum_of_ends (cs : List Rat) (ds : List (Disp2D Rat)) (l : List (Rat × Rat))
    (he : ds.map (fun d => (d.a, d.b)) = l) :
    (ds.map (fun d => pieceBound cs d.a d.b)).sum = (l.map (fun p => pieceBound cs p.1 p.2)).sum := by
  rw [← he, List.map_map]; rfl

/-- `f = 1 + x²`, `g = x³` on `[0,1]` (`f·g' = 3x² + 3x⁴`, `∫_0^1 f dg = 8/5`): the RS display
    runs, has one piece, the piece carries a value with the properties of (T1), and the total
    is within `3e-16` of `8/5` -/
example : ∃ ds, genDisplayRs (adPoly [1, 0, 1]) (adPoly [0, 0, 0, 1]) [(0, 1)] DispEx.cfgEx = .ok ds ∧
    DispEx.cfgEx.computeInteg = true ∧ deg [1, 0, 1] + deg [0, 0, 0, 1] - 1 ≤ 31 ∧ ds ≠ [] ∧
    (∀ d ∈ ds, ∃ v e, d.integ = some (v, e) ∧
      |(v : ℝ) - ∫ x in (d.a : ℝ)..(d.b : ℝ),
          evalPolyR [1, 0, 1] x * deriv (evalPolyR [0, 0, 0, 1]) x| ≤
        |(((d.b : ℝ) - (d.a : ℝ)) / 2)| * (1 / 10 ^ 16) *
          ((absPolyAt (rsCoeffs [1, 0, 1] [0, 0, 0, 1]) (max |d.a| |d.b|) : Rat) : ℝ) ∧
      0 ≤ e ∧ ((d.a ≠ d.b ∨ 0 < DispEx.cfgEx.tol) → e < DispEx.cfgEx.tol)) ∧
    (∫ x in ((0 : Rat) : ℝ)..((1 : Rat) : ℝ),
      evalPolyR [1, 0, 1] x * deriv (evalPolyR [0, 0, 0, 1]) x) = ((8 / 5 : Rat) : ℝ) ∧
    |(((ds.map reportedValue).sum : Rat) : ℝ) - ((8 / 5 : Rat) : ℝ)| ≤ ((3 / 10 ^ 16 : Rat) : ℝ) := by
  obtain ⟨ds, h, he⟩ := DispEx.ends_some rs_ex_ends
  have hdeg : deg [1, 0, 1] + deg [0, 0, 0, 1] - 1 ≤ 31 := by decide
  have hint : (∫ x in ((0 : Rat) : ℝ)..((1 : Rat) : ℝ),
      evalPolyR [1, 0, 1] x * deriv (evalPolyR [0, 0, 0, 1]) x) = ((8 / 5 : Rat) : ℝ) := by
    simp only [← evalPolyR_rsCoeffs]
    rw [integral_eq_exactInt]
    congr 1
    decide +kernel
  have htot := rs_total_accuracy_of_deg _ _ 0 1 _ ds h rfl hdeg
  rw [hint, pieceBound_sum_of_ends _ ds _ he] at htot
  refine ⟨ds, h, rfl, hdeg, C13.rs_pieces_ne_nil _ _ _ _ _ _ h,
    rs_pieces_accurate _ _ _ _ ds h rfl (rsCoeffs_length_of_deg _ _ hdeg), hint, ?_⟩
  refine le_trans htot (le_of_eq ?_)
  congr 1
  decide +kernel

example : exactInt (rsCoeffs [1, 0, 1] [0, 0, 0, 1]) 0 1 = 8 / 5 := by decide +kernel

/-- `f = x`, `c = y²` on `[0,1]` (`g = x − x²`, `f·g' = x − 2x²`, `∫_0^1 f dg = −1/6`): the
    Cavalieri display runs, has the two pieces `[0,1/2]`, `[1/2,1]`, every piece carries a value
    with the properties of (T2), the integrals over the pieces add up, and the total is within
    `1e-16` of `−1/6` -/
example : ∃ ds, genDisplayCav (adPoly [0, 1]) (adPoly [0, 0, 1]) [(0, 1)] DispEx.cfgEx = .ok ds ∧
    DispEx.cfgEx.computeInteg = true ∧
    deg [0, 1] + (max 1 (deg [0, 0, 1] * deg [0, 1]) - 1) ≤ 31 ∧
    ds.map (fun d => (d.a, d.b)) = [(0, 1/2), (1/2, 1)] ∧
    (∀ d ∈ ds, ∃ v e, d.integ = some (v, e) ∧
      |(v : ℝ) - ∫ x in (d.a : ℝ)..(d.b : ℝ),
          evalPolyR [0, 1] x * deriv (cavGR [0, 1] [0, 0, 1]) x| ≤
        |(((d.b : ℝ) - (d.a : ℝ)) / 2)| * (1 / 10 ^ 16) *
          ((absPolyAt (cavCoeffs [0, 1] [0, 0, 1]) (max |d.a| |d.b|) : Rat) : ℝ) ∧
      0 ≤ e ∧ ((d.a ≠ d.b ∨ 0 < DispEx.cfgEx.tol) → e < DispEx.cfgEx.tol)) ∧
    (ds.map (fun d => ∫ x in (d.a : ℝ)..(d.b : ℝ),
        evalPolyR [0, 1] x * deriv (cavGR [0, 1] [0, 0, 1]) x)).sum = ((-1 / 6 : Rat) : ℝ) ∧
    |(((ds.map reportedValue).sum : Rat) : ℝ) - ((-1 / 6 : Rat) : ℝ)| ≤ ((1 / 10 ^ 16 : Rat) : ℝ) := by
  obtain ⟨ds, h, he⟩ := DispEx.ends_some cav_ex_ends
  have hdeg : deg [0, 1] + (max 1 (deg [0, 0, 1] * deg [0, 1]) - 1) ≤ 31 := by decide
  have hint : (∫ x in ((0 : Rat) : ℝ)..((1 : Rat) : ℝ),
      evalPolyR [0, 1] x * deriv (cavGR [0, 1] [0, 0, 1]) x) = ((-1 / 6 : Rat) : ℝ) := by
    simp only [← evalPolyR_cavCoeffs]
    rw [integral_eq_exactInt]
    congr 1
    decide +kernel
  have htot := cav_total_accuracy_of_deg _ _ 0 1 _ ds h rfl hdeg
  rw [hint, pieceBound_sum_of_ends _ ds _ he] at htot
  refine ⟨ds, h, rfl, hdeg, he,
    cav_pieces_accurate _ _ _ _ ds h rfl (cavCoeffs_length_of_deg _ _ hdeg), ?_, ?_⟩
  · rw [cav_integral_pieces_sum _ _ 0 1 _ ds h, hint]
  · refine le_trans htot (le_of_eq ?_)
    congr 1
    decide +kernel

/-- the direction hypothesis of the uniform total bound is satisfiable on that run -/
example : ∃ ds, genDisplayCav (adPoly [0, 1]) (adPoly [0, 0, 1]) [(0, 1)] DispEx.cfgEx = .ok ds ∧
    C02.Directed 0 1 (C11.ends ds) := by
  obtain ⟨ds, h, he⟩ := DispEx.ends_some cav_ex_ends
  refine ⟨ds, h, ?_⟩
  rw [C11.ends, he]
  intro p hp
  simp only [List.mem_cons, List.not_mem_nil, or_false] at hp
  rcases hp with rfl | rfl <;> norm_num

/-- the RS display with two pieces (`f = x`, `g = x − x²`) and the reversed Cavalieri run
    (`[1,0]`: pieces `[1,1/2]`, `[1/2,0]`) also succeed -/
example : (∃ ds, genDisplayRs (adPoly [0, 1]) (adPoly [0, 1, -1]) [(0, 1)] DispEx.cfgEx = .ok ds ∧
      ds.map (fun d => (d.a, d.b)) = [(0, 1/2), (1/2, 1)]) ∧
    (∃ ds, genDisplayCav (adPoly [0, 1]) (adPoly [0, 0, 1]) [(1, 0)] DispEx.cfgEx = .ok ds ∧
      ds.map (fun d => (d.a, d.b)) = [(1, 1/2), (1/2, 0)]) :=
  ⟨DispEx.ends_some rs_ex2_ends, DispEx.ends_some cav_ex_ends_rev⟩

/-- the closures are what the expression evaluator computes on the Horner tree
    `c0 + x·(c1 + x·c2)` whose coefficients are named constants of the context -/
example (env : EnvAD Rat) (x : AD Rat) :
    (hornerE ["c0", "c1", "c2"]).evalAD env [x] =
      some (adPoly [env.cst "c0", env.cst "c1", env.cst "c2"] x) :=
  evalAD_hornerE env _ x

end Cav.C07Accuracy
