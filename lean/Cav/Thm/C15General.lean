/-
  C15 (the triangulator is total) for GENERAL INPUT IN GENERAL POSITION: for every list of
  polygons with `General polys` (`C16General.lean`: at least three vertices per polygon, pairwise
  different vertex abscissae, `NoSpike`, `NoTouch` — nothing about simplicity or nesting) the
  sweep model over `XQ` has exactly two possible outcomes:

    * a triangle list, and then the ghost flag is `true`
      (`sweep = .ok T`, `sweepMon = .ok (T, true)`), or
    * `.error (.overlap k p)` with `p` an input point.

  It never panics (borrow conflict, `unreachable!`, index, B-tree range, bad cell), never runs
  out of fuel, and never returns `NoPointType`, `Duplicate`, `NonFinite` or `NoPolygon`
  (`general_total`, `general_error_is_overlap`, `general_never_panics`, `general_never_oof`).

  The two outcomes are characterised exactly (`general_accept_iff`, `general_reject_iff`): in
  general position the input is accepted iff its vertex ring is valid in the sense `NoCross`
  (two different left-to-right ring edges have equal heights only in a common end point) iff no
  two ring edges without a common vertex meet inside their abscissa ranges (`MeetAt`); it is
  rejected iff there is such a meeting point.

  Proof: `Cav/Lemmas/GenXTotal.lean` — the event loop under the invariant `XInv` of
  `C16General.lean` runs to the end or stops with `.overlap` (`xinv_handleNext` at every event),
  after the set-up phase of `GenSetup.lean`; exactness from `C04General` (`accept_of_noCross`) and
  `C16General` (`rejected_of_meet`).
-/
import Cav.Lemmas.GenXTotal
import Cav.Thm.C16General
import Cav.Thm.C04General

set_option linter.unusedSimpArgs false
set_option linter.unusedVariables false

namespace Cav.C15General
open Cav Num Cav.Geo Cav.Sweep Cav.TriRun Cav.QuadRun Cav.QuadGeom
open Cav.GenGeom Cav.GenInv Cav.GenRing Cav.GenValid Cav.GenXGeom Cav.GenXStep Cav.GenXLoop Cav.GenXMain
open Cav.GenXTotal Cav.GenAccept Cav.C16General

/-! ### (T1) the dichotomy -/

/-- **in general position: a triangle list with `mono = true`, or `.overlap` at an input point**
    (both entry points of the model) -/
theorem general_total' (polys : List (Array (Rat × Rat))) (hg : General polys) :
    (∃ T, sweep (toInput polys) = .ok T ∧ sweepMon (toInput polys) = .ok (T, true)) ∨
    (∃ k p, sweep (toInput polys) = .error (.overlap k p) ∧
      sweepMon (toInput polys) = .error (.overlap k p) ∧ IsInput polys p) := by
  obtain ⟨h3, hx, hS, hT⟩ := hg
  rcases total_of_general polys h3 hx hS hT with h | ⟨k, z, hz, r1, r2⟩
  · exact Or.inl h
  · exact Or.inr ⟨k, _, r1, r2, z, hz, rfl⟩

/-- **the triangulator is total in general position** -/
theorem general_total (polys : List (Array (Rat × Rat))) (hg : General polys) :
    (∃ T, sweepMon (toInput polys) = .ok (T, true)) ∨
    (∃ k p, sweep (toInput polys) = .error (.overlap k p) ∧
      sweepMon (toInput polys) = .error (.overlap k p) ∧ IsInput polys p) := by
  rcases general_total' polys hg with ⟨T, -, h⟩ | h
  · exact Or.inl ⟨T, h⟩
  · exact Or.inr h

/-- every error in general position is `.overlap` at an input point -/
theorem general_error_is_overlap (polys : List (Array (Rat × Rat))) (hg : General polys)
    {e : SErr XQ} (h : sweep (toInput polys) = .error e ∨ sweepMon (toInput polys) = .error e) :
    ∃ k p, e = .overlap k p ∧ IsInput polys p := by
  rcases general_total' polys hg with ⟨T, r1, r2⟩ | ⟨k, p, r1, r2, hp⟩
  · rcases h with h | h
    · rw [r1] at h; cases h
    · rw [r2] at h; cases h
  · rcases h with h | h
    · rw [r1] at h; cases h; exact ⟨k, p, rfl, hp⟩
    · rw [r2] at h; cases h; exact ⟨k, p, rfl, hp⟩

/-- no panic of any kind -/
theorem general_never_panics (polys : List (Array (Rat × Rat))) (hg : General polys) :
    ∀ k, sweep (toInput polys) ≠ .error (.panic k) ∧ sweepMon (toInput polys) ≠ .error (.panic k) := by
  intro k
  constructor
  · intro h
    obtain ⟨_, _, e, -⟩ := general_error_is_overlap polys hg (Or.inl h)
    cases e
  · intro h
    obtain ⟨_, _, e, -⟩ := general_error_is_overlap polys hg (Or.inr h)
    cases e

/-- the fuel of the event loop suffices -/
theorem general_never_oof (polys : List (Array (Rat × Rat))) (hg : General polys) :
    sweep (toInput polys) ≠ .error .oof ∧ sweepMon (toInput polys) ≠ .error .oof := by
  constructor
  · intro h
    obtain ⟨_, _, e, -⟩ := general_error_is_overlap polys hg (Or.inl h)
    cases e
  · intro h
    obtain ⟨_, _, e, -⟩ := general_error_is_overlap polys hg (Or.inr h)
    cases e

/-- none of the input errors -/
theorem general_no_input_error (polys : List (Array (Rat × Rat))) (hg : General polys) :
    sweep (toInput polys) ≠ .error .noPolygon ∧ sweep (toInput polys) ≠ .error .nonFinite ∧
    (∀ p, sweep (toInput polys) ≠ .error (.duplicate p)) ∧
    (∀ p, sweep (toInput polys) ≠ .error (.noPointType p)) := by
  refine ⟨?_, ?_, ?_, ?_⟩
  · intro h
    obtain ⟨_, _, e, -⟩ := general_error_is_overlap polys hg (Or.inl h)
    cases e
  · intro h
    obtain ⟨_, _, e, -⟩ := general_error_is_overlap polys hg (Or.inl h)
    cases e
  · intro p h
    obtain ⟨_, _, e, -⟩ := general_error_is_overlap polys hg (Or.inl h)
    cases e
  · intro p h
    obtain ⟨_, _, e, -⟩ := general_error_is_overlap polys hg (Or.inl h)
    cases e

/-! ### (T2) the two outcomes exactly -/

/-- in general position: no meeting point ⇔ the semantic validity of the vertex ring -/
theorem noMeet_iff_noCross (polys : List (Array (Rat × Rat))) (hg : General polys) :
    (¬ ∃ u v u' v' x, MeetAt (ringOf polys) u v u' v' x) ↔ NoCross (ringOf polys) :=
  ⟨noCross_of_noMeet (ringOK polys hg.1 hg.2.1) hg.2.2.1 hg.2.2.2, noMeet_of_noCross⟩

/-- **acceptance characterises validity in general position** -/
theorem general_accept_iff (polys : List (Array (Rat × Rat))) (hg : General polys) :
    ((∃ T, sweepMon (toInput polys) = .ok (T, true)) ↔ NoCross (ringOf polys)) ∧
    ((∃ T, sweep (toInput polys) = .ok T) ↔ NoCross (ringOf polys)) ∧
    ((∃ T, sweep (toInput polys) = .ok T) ↔ ¬ ∃ u v u' v' x, MeetAt (ringOf polys) u v u' v' x) := by
  have key : (∃ T, sweep (toInput polys) = .ok T) → NoCross (ringOf polys) := by
    rintro ⟨T, hok⟩
    apply (noMeet_iff_noCross polys hg).mp
    rintro ⟨u, v, u', v', x, hM⟩
    obtain ⟨k, z, -, -, r1, -⟩ := rejected_of_meet polys hg.1 hg.2.1 hg.2.2.1 hg.2.2.2 hM
    have e : sweep (toInput polys) = .error (.overlap k (Fq ((ringOf polys).pt z))) := r1
    rw [hok] at e; cases e
  have back : NoCross (ringOf polys) →
      ∃ T, sweep (toInput polys) = .ok T ∧ sweepMon (toInput polys) = .ok (T, true) := by
    intro hN
    obtain ⟨T, hT⟩ := accept_of_noCross polys hg.1 hg.2.1 hN
    have hT' : sweepMon (toInput polys) = .ok (T, true) := hT
    rcases general_total' polys hg with ⟨T', r1, r2⟩ | ⟨k, p, -, r2, -⟩
    · exact ⟨T', r1, r2⟩
    · rw [r2] at hT'; cases hT'
  refine ⟨⟨?_, fun hN => ?_⟩, ⟨key, fun hN => ?_⟩, ⟨fun h => (noMeet_iff_noCross polys hg).mpr (key h),
    fun h => ?_⟩⟩
  · rintro ⟨T, hT⟩
    rcases general_total' polys hg with ⟨T', r1, -⟩ | ⟨k, p, -, r2, -⟩
    · exact key ⟨T', r1⟩
    · rw [r2] at hT; cases hT
  · obtain ⟨T, -, h⟩ := back hN; exact ⟨T, h⟩
  · obtain ⟨T, h, -⟩ := back hN; exact ⟨T, h⟩
  · obtain ⟨T, h', -⟩ := back ((noMeet_iff_noCross polys hg).mp h); exact ⟨T, h'⟩

/-- **rejection in general position ⇔ two ring edges without a common vertex meet** -/
theorem general_reject_iff (polys : List (Array (Rat × Rat))) (hg : General polys) :
    (∃ k p, sweep (toInput polys) = .error (.overlap k p)) ↔
      ∃ u v u' v' x, MeetAt (ringOf polys) u v u' v' x := by
  constructor
  · rintro ⟨k, p, h⟩
    by_contra hno
    obtain ⟨T, hT⟩ := (general_accept_iff polys hg).2.2.mpr hno
    rw [hT] at h; cases h
  · rintro ⟨u, v, u', v', x, hM⟩
    obtain ⟨k, z, -, -, r1, -⟩ := rejected_of_meet polys hg.1 hg.2.1 hg.2.2.1 hg.2.2.2 hM
    exact ⟨k, _, r1⟩

/-! ### non-vacuity -/

/-- a quadrilateral with a triangular hole (valid) -/
def Holed : List (Array (Rat × Rat)) := [#[(0, 0), (10, 1), (9, 9), (1, 8)], #[(3, 3), (6, 4), (5, 6)]]

example : General Holed ∧ General CrossTri ∧ General CrossHole ∧ General CrossNest := by decide +kernel

-- both outcomes occur
example : (match sweepMon (toInput Holed) with | .ok (_, m) => m | _ => false) = true := by
  decide +kernel
example : stopsAt (sweep (toInput CrossNest)) .bend (F 6 9) = true := by decide +kernel

-- the theorems on these inputs
example : (∃ T, sweepMon (toInput Holed) = .ok (T, true)) ∨
    (∃ k p, sweep (toInput Holed) = .error (.overlap k p) ∧
      sweepMon (toInput Holed) = .error (.overlap k p) ∧ IsInput Holed p) :=
  general_total Holed (by decide +kernel)
example : (∃ T, sweepMon (toInput CrossNest) = .ok (T, true)) ∨
    (∃ k p, sweep (toInput CrossNest) = .error (.overlap k p) ∧
      sweepMon (toInput CrossNest) = .error (.overlap k p) ∧ IsInput CrossNest p) :=
  general_total CrossNest (by decide +kernel)
example : ∀ k, sweep (toInput CrossHole) ≠ .error (.panic k) ∧ sweepMon (toInput CrossHole) ≠ .error (.panic k) :=
  general_never_panics CrossHole (by decide +kernel)
-- exactness: `Holed` is accepted (kernel), hence its ring is valid; `CrossTri` has a crossing,
-- hence a meeting point, hence it is rejected
example : NoCross (ringOf Holed) :=
  (general_accept_iff Holed (by decide +kernel)).1.mp
    (C04General.general_accepted Holed (by decide +kernel))
example : ∃ k p, sweep (toInput CrossTri) = .error (.overlap k p) :=
  (general_reject_iff CrossTri (by decide +kernel)).mpr
    (meetAt_of_crossing (ringOK CrossTri (by decide) (by decide +kernel)) (by decide +kernel))

end Cav.C15General
