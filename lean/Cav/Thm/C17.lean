/-
  C17 — the expression compiler is total and rejects malformed input; evaluating a compiled
  expression never indexes out of range.

  (A) soundness of the parser model w.r.t. the grammar `Spec/Grammar.lean`
      (`parse_sound`, proved in `Lemmas/ParseSound.lean` by a simultaneous fuel induction);
  (B) totality of `compile` (the unreachability of `.outOfFuel` belongs to the completeness
      direction and is not proved here);
  (C) variable indices of a compiled tree are below the arity, hence evaluation is total;
  (D) rejection corollaries, each derived from `parse_sound` and a property of the grammar
      relation proved by induction on derivations (`Lemmas/GrammarInv.lean`,
      `Lemmas/GrammarRuns.lean`);
  (F) non-vacuity: concrete accepted / rejected strings, evaluated in the kernel.
  The repair of `parse_const` (a number word `inf` / `nan` directly followed by a letter is not a
  number, so names like `info`, `nano` are no longer shadowed) is covered by `parseConst_sound`
  and `parseConst_spec` in part (A); no statement of parts (A)–(D) had to change.
  (E), the list parsers, is `Thm/C18.lean`.
-/
import Cav.Lemmas.ParseSound
import Cav.Lemmas.GrammarInv
import Cav.Lemmas.GrammarRuns

namespace Cav.C17
open Cav Grammar ParseSound

/-! ## (A) soundness -/

/-- every accepted string is in the language: all strings, all contexts, all arities -/
theorem parse_sound (arity : Nat) (ctx : Ctx) (src : List Char) (t : E)
    (h : compile arity ctx src = .ok t) : Grammar.Prints ctx t (stripWs src) :=
  ParseSound.parse_sound arity ctx src t h

/-- the per-function statements, for every fuel -/
theorem parseExpr_sound (fuel : Nat) (ctx : Ctx) (s rest : List Char) (t : E)
    (h : parseExpr fuel ctx s = .ok rest t) : ∃ pre, s = pre ++ rest ∧ PExpr ctx t pre :=
  (soundAt ctx fuel).expr s rest t h

theorem loopAdd_sound (fuel : Nat) (ctx : Ctx) (s rest pre0 : List Char) (acc t : E)
    (hacc : PExpr ctx acc pre0) (h : loopAdd fuel ctx s acc = .ok rest t) :
    ∃ pre, s = pre ++ rest ∧ PExpr ctx t (pre0 ++ pre) :=
  (soundAt ctx fuel).ladd s acc rest t pre0 hacc h

theorem parseMul_sound (fuel : Nat) (ctx : Ctx) (s rest : List Char) (a : Bool) (t : E)
    (h : parseMul fuel ctx s a = .ok rest t) : ∃ pre, s = pre ++ rest ∧ PMul ctx a t pre :=
  (soundAt ctx fuel).mul s a rest t h

theorem loopMul_sound (fuel : Nat) (ctx : Ctx) (s rest pre0 : List Char) (a : Bool) (acc t : E)
    (hacc : PMul ctx a acc pre0) (h : loopMul fuel ctx s acc = .ok rest t) :
    ∃ pre, s = pre ++ rest ∧ PMul ctx a t (pre0 ++ pre) :=
  (soundAt ctx fuel).lmul s a acc rest t pre0 hacc h

theorem parseTerm_sound (fuel : Nat) (ctx : Ctx) (s rest : List Char) (a : Bool) (t : E)
    (h : parseTerm fuel ctx s a = .ok rest t) : ∃ pre, s = pre ++ rest ∧ PTerm ctx a t pre :=
  (soundAt ctx fuel).term s a rest t h

theorem parseParenth_sound (fuel : Nat) (ctx : Ctx) (s rest : List Char) (t : E)
    (h : parseParenth fuel ctx s = .ok rest t) : ∃ pre, s = pre ++ rest ∧ PAtom ctx t pre :=
  (soundAt ctx fuel).par s rest t h

theorem parseFunc_sound (fuel : Nat) (ctx : Ctx) (s rest : List Char) (t : E)
    (h : parseFunc fuel ctx s = .ok rest t) : ∃ pre, s = pre ++ rest ∧ PAtom ctx t pre :=
  (soundAt ctx fuel).func s rest t h

theorem parseVar_sound (ctx : Ctx) (s rest : List Char) (t : E)
    (h : parseVar ctx s = .ok rest t) : ∃ pre, s = pre ++ rest ∧ PAtom ctx t pre :=
  ParseSound.parseVar_sound h

/-- `lexDouble` accepts a leading '-' that `NumLeaf` does not have; `parseTerm` only calls it on
    `(negCount s).2`, which never starts with '-' (`negCount_no_minus`) -/
theorem lexDouble_sound (s rest : List Char) (t : E) (h : lexDouble s = some (rest, t))
    (hneg : s.head? ≠ some '-') : ∃ pre, s = pre ++ rest ∧ NumLeaf t pre :=
  ParseSound.lexDouble_sound h hneg

theorem negCount_no_minus (s : List Char) : (negCount s).2.head? ≠ some '-' :=
  (negCount_spec s).2

/-- `parse_const` (= `double` plus the guard "a number word directly followed by a letter is not a
    number") accepts only what `lexDouble` accepts, hence only number leaves -/
theorem parseConst_sound (s rest : List Char) (t : E) (h : parseConst s = some (rest, t))
    (hneg : s.head? ≠ some '-') : ∃ pre, s = pre ++ rest ∧ NumLeaf t pre :=
  ParseSound.parseConst_sound h hneg

/-- WHAT THE REPAIR OF `parse_const` CHANGES, exactly: on an input that does not start with '-'
    (`parse_term` has removed the minus signs) `parseConst` differs from `lexDouble` — the
    behaviour before the repair — if and only if `lexDouble` returns one of the number words
    (`nan`, `inf`, any case) AND the rest starts with an ASCII letter; then `parseConst` fails,
    and `parse_term` goes on to `parse_func` / `parse_var`.  (The code tests "the consumed text
    ends with a letter"; a decimal literal ends with a digit or '.', `Grammar.numLeaf_last`.) -/
theorem parseConst_spec (s : List Char) (hneg : s.head? ≠ some '-') :
    parseConst s =
      match lexDouble s with
      | some (rest, t) => if isWord t && startsWithAlpha rest then none else some (rest, t)
      | none => none := by
  unfold parseConst
  cases hl : lexDouble s with
  | none => rfl
  | some p =>
    obtain ⟨r, t⟩ := p
    obtain ⟨pre, hs, hn⟩ := ParseSound.lexDouble_sound hl hneg
    have htake : s.take (s.length - r.length) = pre := by rw [hs]; simp
    have hend : endsWithAlpha pre = isWord t := by
      obtain ⟨c, hc, hiff⟩ := numLeaf_last hn
      unfold endsWithAlpha; rw [hc]; exact hiff
    simp only [htake, hend]

/-- in particular nothing changes for an input on which `double` did not match a number word … -/
theorem parseConst_eq_lexDouble_of_not_word (s : List Char) (hneg : s.head? ≠ some '-')
    (h : ∀ rest t, lexDouble s = some (rest, t) → isWord t = false) : parseConst s = lexDouble s := by
  rw [parseConst_spec s hneg]
  cases hl : lexDouble s with
  | none => rfl
  | some p => obtain ⟨r, t⟩ := p; simp [h r t hl]

/-- … or matched one that is not directly followed by a letter -/
theorem parseConst_eq_lexDouble_of_stop (s : List Char) (hneg : s.head? ≠ some '-')
    (h : ∀ rest t, lexDouble s = some (rest, t) → startsWithAlpha rest = false) :
    parseConst s = lexDouble s := by
  rw [parseConst_spec s hneg]
  cases hl : lexDouble s with
  | none => rfl
  | some p => obtain ⟨r, t⟩ := p; simp [h r t hl]

example : lexDouble "info+1".toList = some ("o+1".toList, .litInf) := by decide
example : parseConst "info+1".toList = none := by decide
example : parseConst "inf+1".toList = some ("+1".toList, .litInf) := by decide
example : parseConst "NaN)".toList = some (")".toList, .litNan) := by decide
example : parseConst "nanometre".toList = none := by decide
example : parseConst "infinity".toList = none := by decide
/-- the guard looks at the text `double` consumed, not at what `double` returned: an exponent
    marker is inside the literal, and a literal followed by a letter is still a number -/
example : parseConst "2e3x".toList = some ("x".toList, .lit 2 3) := by decide
example : parseConst "2.x".toList = some ("x".toList, .lit 2 0) := by decide

/-- the hypothesis of `lexDouble_sound` cannot be dropped: the signed branch leaves the grammar -/
example : lexDouble "-5".toList = some ([], .un .neg (.lit 5 0)) := by decide

theorem lexI32_sound (s rest : List Char) (n : Int) (h : lexI32 s = some (rest, n)) :
    ∃ pre, s = pre ++ rest ∧ I32Text n pre :=
  ParseSound.lexI32_sound h

/-! ## (B) totality -/

/-- `compile` is a total function; its result is a tree or one of the four error values
    (`.outOfFuel` is excluded by `fuel_suffices`, proved with completeness) -/
theorem compile_total (arity : Nat) (ctx : Ctx) (src : List Char) :
    (∃ t, compile arity ctx src = .ok t) ∨ compile arity ctx src = .error .paramOOB ∨
    compile arity ctx src = .error .parsing ∨ compile arity ctx src = .error .residue ∨
    compile arity ctx src = .error .outOfFuel := by
  cases h : compile arity ctx src with
  | ok t => exact .inl ⟨t, rfl⟩
  | error e => cases e <;> simp

/-- not accepted = rejected with an error value (never a panic or divergence) -/
theorem rejected_of_not_ok {arity : Nat} {ctx : Ctx} {src : List Char}
    (h : ∀ t, compile arity ctx src ≠ .ok t) : ∃ e, compile arity ctx src = .error e := by
  cases hc : compile arity ctx src with
  | ok t => exact absurd hc (h t)
  | error e => exact ⟨e, rfl⟩

/-- the generic rejection principle: a string violating a necessary condition of the grammar is
    rejected -/
theorem rejected_of_not_prints {arity : Nat} {ctx : Ctx} {src : List Char}
    (h : ∀ t, ¬ Prints ctx t (stripWs src)) : ∃ e, compile arity ctx src = .error e :=
  rejected_of_not_ok fun t hc => h t (parse_sound arity ctx src t hc)

/-! ## (C) no out-of-range index -/

/-- every variable index of a compiled tree is below the arity -/
theorem compile_vars_lt_arity {arity : Nat} {ctx : Ctx} {src : List Char} {t : E}
    (h : compile arity ctx src = .ok t) : t.varsLt arity = true :=
  prints_varsLt (ctxOOB_false (compile_ok_iff.1 h).1) (parse_sound arity ctx src t h)

/-- `Expr::<I, f64>::eval` never takes the out-of-range branch when the tree's indices are in range -/
theorem eval_in_bounds {α : Type} [Num α] (env : EnvF α) (vars : List α) (t : E)
    (h : t.varsLt vars.length = true) : ∃ v, t.evalF env vars = some v := by
  induction t with
  | var i =>
    have : i < vars.length := by simpa [E.varsLt] using h
    exact ⟨vars[i], by simp [E.evalF, this]⟩
  | lit m e => exact ⟨_, rfl⟩
  | litInf => exact ⟨_, rfl⟩
  | litNan => exact ⟨_, rfl⟩
  | cst n => exact ⟨_, rfl⟩
  | un f x ih =>
    obtain ⟨v, hv⟩ := ih (by simpa [E.varsLt] using h)
    simp [E.evalF, hv]
  | bin op l r ihl ihr =>
    have h' : l.varsLt vars.length = true ∧ r.varsLt vars.length = true := by simpa [E.varsLt] using h
    obtain ⟨a, ha⟩ := ihl h'.1
    obtain ⟨b, hb⟩ := ihr h'.2
    simp [E.evalF, ha, hb]
  | powi x n ih =>
    obtain ⟨v, hv⟩ := ih (by simpa [E.varsLt] using h)
    simp [E.evalF, hv]

/-- the same for `Expr::<I, AD>::eval` -/
theorem evalAD_in_bounds {α : Type} [Num α] (env : EnvAD α) (vars : List (Gen.AD α)) (t : E)
    (h : t.varsLt vars.length = true) : ∃ v, t.evalAD env vars = some v := by
  induction t with
  | var i =>
    have : i < vars.length := by simpa [E.varsLt] using h
    exact ⟨vars[i], by simp [E.evalAD, this]⟩
  | lit m e => exact ⟨_, rfl⟩
  | litInf => exact ⟨_, rfl⟩
  | litNan => exact ⟨_, rfl⟩
  | cst n => exact ⟨_, rfl⟩
  | un f x ih =>
    obtain ⟨v, hv⟩ := ih (by simpa [E.varsLt] using h)
    simp [E.evalAD, hv]
  | bin op l r ihl ihr =>
    have h' : l.varsLt vars.length = true ∧ r.varsLt vars.length = true := by simpa [E.varsLt] using h
    obtain ⟨a, ha⟩ := ihl h'.1
    obtain ⟨b, hb⟩ := ihr h'.2
    simp [E.evalAD, ha, hb]
  | powi x n ih =>
    obtain ⟨v, hv⟩ := ih (by simpa [E.varsLt] using h)
    simp [E.evalAD, hv]

theorem varsLt_mono {t : E} {n m : Nat} (hnm : n ≤ m) (h : t.varsLt n = true) : t.varsLt m = true := by
  induction t with
  | var i => simp [E.varsLt] at h ⊢; omega
  | un f x ih => simp [E.varsLt] at h ⊢; exact ih h
  | bin op l r ihl ihr => simp [E.varsLt] at h ⊢; exact ⟨ihl h.1, ihr h.2⟩
  | powi x n ih => simp [E.varsLt] at h ⊢; exact ih h
  | _ => rfl

/-- a compiled expression evaluates without an index panic on every argument vector that has at
    least `arity` entries, at `f64` and at `AD` -/
theorem compiled_eval_total {α : Type} [Num α] {arity : Nat} {ctx : Ctx} {src : List Char} {t : E}
    (h : compile arity ctx src = .ok t) :
    (∀ (env : EnvF α) (vars : List α), arity ≤ vars.length → ∃ v, t.evalF env vars = some v) ∧
    (∀ (env : EnvAD α) (vars : List (Gen.AD α)), arity ≤ vars.length → ∃ v, t.evalAD env vars = some v) :=
  ⟨fun env vars hl => eval_in_bounds env vars t (varsLt_mono hl (compile_vars_lt_arity h)),
   fun env vars hl => evalAD_in_bounds env vars t (varsLt_mono hl (compile_vars_lt_arity h))⟩

/-- the converse witness: an index at the arity does reach the `none` (= panic) branch, so the
    bound of `compile_vars_lt_arity` is what keeps evaluation total -/
example {α : Type} [Num α] (env : EnvF α) (x : α) : (E.var 1).evalF env [x] = none := rfl

/-! ## (D) rejection corollaries — for ALL source strings -/

/-- the empty (or all-whitespace) string is rejected -/
theorem empty_rejected (arity : Nat) (ctx : Ctx) (src : List Char) (h : stripWs src = []) :
    ∃ e, compile arity ctx src = .error e :=
  rejected_of_not_prints fun _ hp => prints_nonempty hp h

/-- unbalanced brackets are rejected: unequal totals, or a prefix with more ')' than '(' -/
theorem unbalanced_rejected (arity : Nat) (ctx : Ctx) (src : List Char)
    (h : (stripWs src).count '(' ≠ (stripWs src).count ')' ∨
         ∃ n, ((stripWs src).take n).count '(' < ((stripWs src).take n).count ')') :
    ∃ e, compile arity ctx src = .error e :=
  rejected_of_not_prints fun _ hp => by
    obtain ⟨h1, h2⟩ := prints_balanced hp
    rcases h with h | ⟨n, hn⟩
    · exact h h1
    · have := h2 n; omega

/-- a double negation "--" anywhere is rejected -/
theorem double_neg_rejected (arity : Nat) (ctx : Ctx) (src : List Char)
    (h : ['-', '-'] <:+: stripWs src) : ∃ e, compile arity ctx src = .error e :=
  rejected_of_not_prints fun _ hp => prints_no_double_minus hp h

/-- a trailing operator or open bracket is rejected -/
theorem trailing_operator_rejected (arity : Nat) (ctx : Ctx) (src : List Char)
    (h : ∃ c ∈ ['+', '-', '*', '/', '^', '('], (stripWs src).getLast? = some c) :
    ∃ e, compile arity ctx src = .error e :=
  rejected_of_not_prints fun _ hp => by
    obtain ⟨c, hc, hl⟩ := h
    exact prints_last_not_op hp c hc hl

/-- a leading binary operator or closing bracket is rejected -/
theorem leading_operator_rejected (arity : Nat) (ctx : Ctx) (src : List Char)
    (h : ∃ c ∈ ['*', '/', '^', ')'], (stripWs src).head? = some c) :
    ∃ e, compile arity ctx src = .error e :=
  rejected_of_not_prints fun _ hp => by
    obtain ⟨c, hc, hl⟩ := h
    exact prints_first_not_op hp c hc hl

/-- a '(' directly followed by `* / ^ )` (missing operand, empty brackets) is rejected.
    NOTE: "(+" is not in this list: `(+5)` is accepted (`nom`'s `double` takes a sign), see the
    `example` below; "(-" is ordinary negation. -/
theorem missing_operand_rejected (arity : Nat) (ctx : Ctx) (src : List Char)
    (h : ∃ y ∈ ['*', '/', '^', ')'], ['(', y] <:+: stripWs src) :
    ∃ e, compile arity ctx src = .error e :=
  rejected_of_not_prints fun _ hp => by
    obtain ⟨y, hy, hxy⟩ := h
    exact prints_no_lp_then_op hp y hy hxy

/-- an operator or '(' directly followed by '/' or '^', or one of `+ - / ^ (` directly followed by
    '*', is rejected -/
theorem op_then_mul_div_pow_rejected (arity : Nat) (ctx : Ctx) (src : List Char)
    (h : (∃ x ∈ ['+', '-', '*', '/', '^', '('], ∃ y ∈ ['/', '^'], [x, y] <:+: stripWs src) ∨
         (∃ x ∈ ['+', '-', '/', '^', '('], [x, '*'] <:+: stripWs src)) :
    ∃ e, compile arity ctx src = .error e :=
  rejected_of_not_prints fun _ hp => by
    rcases h with ⟨x, hx, y, hy, hxy⟩ | ⟨x, hx, hxy⟩
    · exact (prints_no_op_then_muldivpow hp).1 x hx y hy hxy
    · exact (prints_no_op_then_muldivpow hp).2 x hx hxy

/-- a binary '+'/'-' directly followed by '-' (`a+-b`) is rejected -/
theorem sign_then_minus_rejected (arity : Nat) (ctx : Ctx) (src : List Char)
    (h : ∃ x ∈ ['+', '-'], [x, '-'] <:+: stripWs src) :
    ∃ e, compile arity ctx src = .error e :=
  rejected_of_not_prints fun _ hp => by
    obtain ⟨x, hx, hxy⟩ := h
    exact prints_no_sign_then_minus hp x hx hxy

/-- any character outside the alphabet (after whitespace removal) is rejected -/
theorem illegal_char_rejected (arity : Nat) (ctx : Ctx) (src : List Char)
    (h : ∃ c ∈ stripWs src, isDigit c = false ∧ isAlpha c = false ∧
      c ∉ ['.', '+', '-', '*', '/', '^', '(', ')']) :
    ∃ e, compile arity ctx src = .error e :=
  rejected_of_not_prints fun _ hp => by
    obtain ⟨c, hc, h1, h2, h3⟩ := h
    rcases prints_alphabet hp c hc with h | h | h
    · rw [h1] at h; cases h
    · rw [h2] at h; cases h
    · exact h3 h

/-- a context entry whose index is not below the arity makes EVERY source fail with
    `ParameterOutOfBounds` -/
theorem ctx_index_out_of_arity_rejected (arity : Nat) (ctx : Ctx) (src : List Char)
    (h : ∃ p ∈ ctx, ∃ i, p.2 = .var i ∧ arity ≤ i) : compile arity ctx src = .error .paramOOB := by
  rw [compile_eq, ctxOOB_true h]; rfl

/-- unconsumed input after a successful `parse_expression` is a `ResidueError`.  The context
    hypothesis is needed: `compile` checks the context first, so with an out-of-arity entry the
    result is `.paramOOB` whatever the source is (see the `example` in part F). -/
theorem residue_rejected (arity : Nat) (ctx : Ctx) (src : List Char) (rest : List Char) (t : E)
    (hctx : ∀ p ∈ ctx, ∀ i, p.2 = .var i → i < arity)
    (h : parseExpr (fuelFor (stripWs src)) ctx (stripWs src) = .ok rest t) (hr : rest ≠ []) :
    compile arity ctx src = .error .residue := by
  have hc : ctxOOB arity ctx = false := by
    cases hb : ctxOOB arity ctx with
    | false => rfl
    | true =>
      unfold ctxOOB at hb
      rw [List.any_eq_true] at hb
      obtain ⟨p, hp, hv⟩ := hb
      split at hv
      · rename_i i hi
        have := hctx p hp i hi
        simp at hv; omega
      · cases hv
  rw [compile_eq, hc, h]
  cases rest with
  | nil => exact absurd rfl hr
  | cons c r => rfl


/-! ### names (maximal ASCII-letter runs) -/

/-- checkable form of `MaxRun` for concrete strings -/
theorem maxRun_of_check (s pre w post : List Char) (hs : s = pre ++ w ++ post) (h1 : w ≠ [])
    (h2 : w.all isAlpha = true) (h3 : (pre.getLast?.map isAlpha).getD false = false)
    (h4 : (post.head?.map isAlpha).getD false = false) : MaxRun s pre w post := by
  refine ⟨hs, h1, by simpa using h2, ?_, ?_⟩
  · intro c hc; rw [hc] at h3; simpa using h3
  · intro c hc; rw [hc] at h4; simpa using h4

/-- a maximal letter run that is not a registered name and not part of a number token
    (`nan`, `inf`, exponent marker after a digit or '.') is rejected -/
theorem unknown_name_rejected (arity : Nat) (ctx : Ctx) (src : List Char) {pre w post : List Char}
    (hr : MaxRun (stripWs src) pre w post) (hget : ctx.get (String.ofList w) = none)
    (hnan : w.map lower ≠ ['n', 'a', 'n']) (hinf : w.map lower ≠ ['i', 'n', 'f'])
    (hexp : ¬ ((w = ['e'] ∨ w = ['E']) ∧ ∃ d, pre.getLast? = some d ∧ (isDigit d = true ∨ d = '.'))) :
    ∃ e, compile arity ctx src = .error e :=
  rejected_of_not_prints fun _ hp => by
    rcases prints_letter_runs hp hr with ⟨h1, -⟩ | ⟨h1 | ⟨i, h1⟩, -⟩ | ⟨h1 | h1, -⟩ | ⟨h1, h2, -⟩
    · rw [hget] at h1; cases h1
    · rw [hget] at h1; cases h1
    · rw [hget] at h1; cases h1
    · exact hnan h1
    · exact hinf h1
    · exact hexp ⟨h1, h2⟩

/-- a registered function name (as a maximal letter run) that is not directly followed by '(' is
    rejected — unless the run is a number token part, which the extra hypotheses exclude -/
theorem func_without_call_rejected (arity : Nat) (ctx : Ctx) (src : List Char) {pre w post : List Char}
    (hr : MaxRun (stripWs src) pre w post) (hget : ctx.get (String.ofList w) = some .uop)
    (hpost : post.head? ≠ some '(')
    (hnan : w.map lower ≠ ['n', 'a', 'n']) (hinf : w.map lower ≠ ['i', 'n', 'f'])
    (hexp : ¬ ((w = ['e'] ∨ w = ['E']) ∧ ∃ d, pre.getLast? = some d ∧ (isDigit d = true ∨ d = '.'))) :
    ∃ e, compile arity ctx src = .error e :=
  rejected_of_not_prints fun _ hp => by
    rcases prints_letter_runs hp hr with ⟨-, h2⟩ | ⟨h1 | ⟨i, h1⟩, -⟩ | ⟨h1 | h1, -⟩ | ⟨h1, h2, -⟩
    · exact hpost h2
    · rw [hget] at h1; cases h1
    · rw [hget] at h1; cases h1
    · exact hnan h1
    · exact hinf h1
    · exact hexp ⟨h1, h2⟩

/-- a maximal letter run directly followed by '(' must be a registered FUNCTION name: a constant
    or variable (or unknown name, or `nan`/`inf`) with an argument list is rejected -/
theorem var_with_args_rejected (arity : Nat) (ctx : Ctx) (src : List Char) {pre w post : List Char}
    (hr : MaxRun (stripWs src) pre w post) (hget : ctx.get (String.ofList w) ≠ some .uop)
    (hpost : post.head? = some '(') : ∃ e, compile arity ctx src = .error e :=
  rejected_of_not_prints fun _ hp => by
    rcases prints_letter_runs hp hr with ⟨h1, -⟩ | ⟨-, h2⟩ | ⟨-, h2⟩ | ⟨-, -, d, hd, h3⟩
    · exact hget h1
    · exact h2 hpost
    · exact h2 hpost
    · rw [hpost] at hd; cases hd
      revert h3; decide

/-! ## (F) non-vacuity -/

def xctx : Ctx := defaultCtx.insert "x" (.var 0)

/-- Boolean test "the result is `.ok t`" (for kernel evaluation of concrete instances) -/
def okIs (r : Except CompileErr E) (t : E) : Bool := match r with | .ok t' => t' == t | _ => false
def errIs (r : Except CompileErr E) (e : CompileErr) : Bool := match r with | .error e' => e' == e | _ => false
theorem of_okIs {r : Except CompileErr E} {t : E} (h : okIs r t = true) : r = .ok t := by
  cases r with
  | ok t' => simp [okIs] at h; rw [h]
  | error e => simp [okIs] at h
theorem of_errIs {r : Except CompileErr E} {e : CompileErr} (h : errIs r e = true) : r = .error e := by
  cases r with
  | ok t' => simp [errIs] at h
  | error e' => simp [errIs] at h; rw [h]

def rokIs (r : R E) (rest : List Char) (t : E) : Bool :=
  match r with | .ok rest' t' => rest' == rest && t' == t | _ => false
theorem of_rokIs {r : R E} {rest : List Char} {t : E} (h : rokIs r rest t = true) : r = .ok rest t := by
  cases r with
  | ok rest' t' => simp [rokIs] at h; rw [h.1, h.2]
  | fail => simp [rokIs] at h
  | oof => simp [rokIs] at h

def tEx : E := .bin .add (.bin .mul (.un .neg (.bin .pow (.var 0) (.lit 2 0))) (.un .sin (.var 0))) (.lit 3 0)

theorem ex_ok : compile 1 xctx " -x^2 * sin(x) + 3".toList = .ok tEx := of_okIs (by decide +kernel)

/-- a derivation obtained through `parse_sound` -/
example : Prints xctx tEx "-x^2*sin(x)+3".toList := by
  have := parse_sound 1 xctx _ _ ex_ok
  have hs : stripWs " -x^2 * sin(x) + 3".toList = "-x^2*sin(x)+3".toList := by decide +kernel
  rwa [hs] at this

example {α : Type} [Num α] (env : EnvF α) (x : α) : ∃ v, tEx.evalF env [x] = some v :=
  (compiled_eval_total ex_ok).1 env [x] (by simp)

example : ∃ e, compile 1 xctx "  ".toList = .error e := empty_rejected _ _ _ (by decide +kernel)
example : ∃ e, compile 1 xctx "(x+1))*(2".toList = .error e :=
  unbalanced_rejected _ _ _ (.inr ⟨6, by decide +kernel⟩)
example : ∃ e, compile 1 xctx "((x+1)".toList = .error e :=
  unbalanced_rejected _ _ _ (.inl (by decide +kernel))
example : ∃ e, compile 1 xctx "1--x".toList = .error e := double_neg_rejected _ _ _ (by decide +kernel)
example : ∃ e, compile 1 xctx "x+".toList = .error e :=
  trailing_operator_rejected _ _ _ ⟨'+', by decide +kernel, by decide +kernel⟩
example : ∃ e, compile 1 xctx "2*(/x)".toList = .error e :=
  missing_operand_rejected _ _ _ ⟨'/', by decide +kernel, by decide +kernel⟩
example : ∃ e, compile 1 xctx "sin()".toList = .error e :=
  missing_operand_rejected _ _ _ ⟨')', by decide +kernel, by decide +kernel⟩
example : ∃ e, compile 1 xctx "x+/2".toList = .error e :=
  op_then_mul_div_pow_rejected _ _ _ (.inl ⟨'+', by decide +kernel, '/', by decide +kernel, by decide +kernel⟩)
example : ∃ e, compile 1 xctx "x^*2".toList = .error e :=
  op_then_mul_div_pow_rejected _ _ _ (.inr ⟨'^', by decide +kernel, by decide +kernel⟩)
example : ∃ e, compile 1 xctx "x+-2".toList = .error e :=
  sign_then_minus_rejected _ _ _ ⟨'+', by decide +kernel, by decide +kernel⟩
example : ∃ e, compile 1 xctx "x#2".toList = .error e :=
  illegal_char_rejected _ _ _ ⟨'#', by decide +kernel, by decide +kernel⟩
example : compile 1 (xctx.insert "y" (.var 1)) "x".toList = .error .paramOOB :=
  ctx_index_out_of_arity_rejected _ _ _ ⟨("y", .var 1), by decide +kernel, 1, rfl, Nat.le_refl 1⟩
/-- the concrete error values (kernel evaluation of the model) -/
example : compile 1 xctx "".toList = .error .parsing := of_errIs (by decide +kernel)
example : compile 1 xctx "(x+1))*(2".toList = .error .residue := of_errIs (by decide +kernel)
example : compile 1 xctx "1--x".toList = .error .parsing := of_errIs (by decide +kernel)
example : compile 1 xctx "x+".toList = .error .parsing := of_errIs (by decide +kernel)
example : compile 1 xctx "x 2".toList = .error .residue := of_errIs (by decide +kernel)
/-- "(+5)" IS accepted (the sign is part of `nom`'s `double`), so '(' followed by '+' cannot be in
    `missing_operand_rejected` -/
example : compile 1 xctx "(+5)".toList = .ok (.lit 5 0) := of_okIs (by decide +kernel)
example : compile 1 xctx "(-x)".toList = .ok (.un .neg (.var 0)) := of_okIs (by decide +kernel)

/-- `residue_rejected` needs its context hypothesis: here `parseExpr` succeeds with residue ")",
    but the context check fires first -/
example : compile 0 [("x", .var 0)] "1)".toList = .error .paramOOB := of_errIs (by decide +kernel)
example : compile 1 [("x", .var 0)] "1)".toList = .error .residue :=
  residue_rejected 1 _ _ ")".toList (.lit 1 0)
    (by intro p hp i hi; simp at hp; subst hp; cases hi; exact Nat.zero_lt_one)
    (of_rokIs (by decide +kernel)) (by simp)

/-- names -/
example : ∃ e, compile 1 xctx "2*y+x".toList = .error e :=
  unknown_name_rejected 1 xctx _ (pre := "2*".toList) (w := "y".toList) (post := "+x".toList)
    (maxRun_of_check _ _ _ _ (by decide +kernel) (by decide +kernel) (by decide +kernel) (by decide +kernel) (by decide +kernel))
    (by decide +kernel) (by decide +kernel) (by decide +kernel) (by decide +kernel)
example : ∃ e, compile 1 xctx "sin+x".toList = .error e :=
  func_without_call_rejected 1 xctx _ (pre := []) (w := "sin".toList) (post := "+x".toList)
    (maxRun_of_check _ _ _ _ (by decide +kernel) (by decide +kernel) (by decide +kernel) (by decide +kernel) (by decide +kernel))
    (by decide +kernel) (by decide +kernel) (by decide +kernel) (by decide +kernel) (by decide +kernel)
example : ∃ e, compile 1 xctx "2*x(3)".toList = .error e :=
  var_with_args_rejected 1 xctx _ (pre := "2*".toList) (w := "x".toList) (post := "(3)".toList)
    (maxRun_of_check _ _ _ _ (by decide +kernel) (by decide +kernel) (by decide +kernel) (by decide +kernel) (by decide +kernel))
    (by decide +kernel) (by decide +kernel)

/-- the exceptions in `unknown_name_rejected` are needed: with the EMPTY context the letter runs
    `e`, `nan`, `inf` are unknown names and still accepted, as parts of number tokens -/
example : compile 0 [] "2e3".toList = .ok (.lit 2 3) := of_okIs (by decide +kernel)
example : compile 0 [] "NaN+Inf".toList = .ok (.bin .add .litNan .litInf) := of_okIs (by decide +kernel)

/-! ### names that start with a number word (the repaired `parse_const`) -/

/-- a context with such names -/
def wctx : Ctx := xctx.insert "info" .const |>.insert "nano" (.var 0) |>.insert "infimum" .uop

/-- the whole name is looked up (before the repair all three were `.error .residue` resp.
    `.error .parsing`: `inf` / `nan` was taken as a number and the remaining letters were left over) -/
example : compile 1 wctx "info+1".toList = .ok (.bin .add (.cst "info") (.lit 1 0)) :=
  of_okIs (by decide +kernel)
example : compile 1 wctx "2*-nano^info".toList =
    .ok (.bin .mul (.lit 2 0) (.un .neg (.bin .pow (.var 0) (.cst "info")))) := of_okIs (by decide +kernel)
example : compile 1 wctx "infimum(inf)/NaN".toList =
    .ok (.bin .div (.un (.user "infimum") .litInf) .litNan) := of_okIs (by decide +kernel)
/-- an unregistered name that starts with a number word is rejected like any unknown name
    (`unknown_name_rejected` applies: the run is not `nan` / `inf`) — now as a parsing error at the
    name; before the repair as a residue after the number `inf` -/
example : ∃ e, compile 1 xctx "2*infx".toList = .error e :=
  unknown_name_rejected 1 xctx _ (pre := "2*".toList) (w := "infx".toList) (post := [])
    (maxRun_of_check _ _ _ _ (by decide +kernel) (by decide +kernel) (by decide +kernel) (by decide +kernel) (by decide +kernel))
    (by decide +kernel) (by decide +kernel) (by decide +kernel) (by decide +kernel)
example : compile 1 xctx "2*infx".toList = .error .parsing := of_errIs (by decide +kernel)
example : compile 1 xctx "infinity".toList = .error .parsing := of_errIs (by decide +kernel)
/-- a registered name is case-sensitive, the number words are not -/
example : compile 1 wctx "Info".toList = .error .parsing := of_errIs (by decide +kernel)
example : compile 1 wctx "INF".toList = .ok .litInf := of_okIs (by decide +kernel)
/-- a name that IS a number word stays shadowed (this is what `Grammar.CtxOK'` excludes) -/
example : compile 1 (xctx.insert "inf" .const) "inf".toList = .ok .litInf := of_okIs (by decide +kernel)
example : compile 1 (xctx.insert "nan" .uop) "nan(1)".toList = .error .residue := of_errIs (by decide +kernel)

end Cav.C17
