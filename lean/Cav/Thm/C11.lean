/-
  C11 — `gen_display_cav`: the pieces of one interval are a gap-free chain from `a` to `b`, and
  several intervals are handled independently.

  STRUCTURAL theorems (every `Num α`, no law of arithmetic used; they therefore also hold for
  the `Float` instance the implementation is compared with), plus the `Rat` form with
  `C02.IsChain`.

  Model path: `genDisplayCav` (`pieces`, `ivs`), `chainPairs`, `pieceInteg`,
  `splitStrictlyMonotone` (as an opaque function: only its result is named).
  `DispL.ChainG a b L` (Cav/Lemmas/DispList.lean): `L ≠ []`, first piece starts at `a`, last
  ends at `b`, consecutive pieces share their end point.
-/
import Cav.Lemmas.Disp2D
import Cav.Lemmas.DispExamples
import Cav.Lemmas.DispChainRat

namespace Cav.C11
open Cav Num Gen Cav.DispL

variable {α : Type} [Num α]

/-- the end points `(a_k, b_k)` of a list of displays -/
def ends (ds : List (Disp2D α)) : List (α × α) := ds.map fun d => (d.a, d.b)

theorem cavPieceE_ends {f : AD α → AD α} {cfg : Cfg2D α} {g : AD α → AD α} {cc : α → α}
    (p : α × α) (d : Disp2D α) (h : cavPieceE f cfg g cc p = .ok d) : (d.a, d.b) = p := by
  unfold cavPieceE at h
  split at h
  · cases h
  · cases h; rfl

/-- **C11 main**: a successful run on the single interval `[a,b]` is: `split_strictly_monotone`
    on the grid of `[a,b]` succeeded with some `splits`, and the displays' end points are exactly
    the consecutive pairs of `a :: splits ++ [b]`. -/
theorem cav_pieces_chain (f c : AD α → AD α) (a b : α) (cfg : Cfg2D α) (ds : List (Disp2D α))
    (h : genDisplayCav f c [(a, b)] cfg = .ok ds) :
    ∃ splits, splitStrictlyMonotone (cavG f c (D1.f c zero)) (vecFromRes a b cfg.xRes) cfg.tol
        cfg.maxRfIters = .ok splits ∧
      ends ds = chainPairs (a :: splits ++ [b]) := by
  rw [genDisplayCav_eq, bindListE_singleton] at h
  unfold cavIntervalE at h
  split at h
  · cases h
  · rename_i splits hS
    exact ⟨splits, hS, by
      have := mapE_map_eq h (fun d => (d.a, d.b)) id (fun p d hp => cavPieceE_ends p d hp)
      simpa [ends] using this⟩

/-- the end points form a chain from `a` to `b` -/
theorem cav_pieces_chainG (f c : AD α → AD α) (a b : α) (cfg : Cfg2D α) (ds : List (Disp2D α))
    (h : genDisplayCav f c [(a, b)] cfg = .ok ds) : ChainG a b (ends ds) := by
  obtain ⟨splits, _, he⟩ := cav_pieces_chain f c a b cfg ds h
  rw [he]; exact chainPairs_chainG a b splits

/-- at least one piece -/
theorem cav_pieces_ne_nil (f c : AD α → AD α) (a b : α) (cfg : Cfg2D α) (ds : List (Disp2D α))
    (h : genDisplayCav f c [(a, b)] cfg = .ok ds) : ds ≠ [] := by
  have := (cav_pieces_chainG f c a b cfg ds h).ne_nil
  intro h0; subst h0; exact this rfl

/-- one piece more than split points -/
theorem cav_pieces_count (f c : AD α → AD α) (a b : α) (cfg : Cfg2D α) (ds : List (Disp2D α))
    (h : genDisplayCav f c [(a, b)] cfg = .ok ds) :
    ∃ splits, splitStrictlyMonotone (cavG f c (D1.f c zero)) (vecFromRes a b cfg.xRes) cfg.tol
        cfg.maxRfIters = .ok splits ∧ ds.length = splits.length + 1 := by
  obtain ⟨splits, hS, he⟩ := cav_pieces_chain f c a b cfg ds h
  refine ⟨splits, hS, ?_⟩
  have := congrArg List.length he
  rw [chainPairs_length] at this
  simpa [ends] using this

/-- the first piece starts at `a` -/
theorem cav_pieces_first (f c : AD α → AD α) (a b : α) (cfg : Cfg2D α) (ds : List (Disp2D α))
    (h : genDisplayCav f c [(a, b)] cfg = .ok ds) : ds.head?.map (·.a) = some a := by
  have := (cav_pieces_chainG f c a b cfg ds h).head
  cases ds with
  | nil => simp [ends] at this
  | cons d _ => simpa [ends] using this

/-- the last piece ends at `b` -/
theorem cav_pieces_last (f c : AD α → AD α) (a b : α) (cfg : Cfg2D α) (ds : List (Disp2D α))
    (h : genDisplayCav f c [(a, b)] cfg = .ok ds) : ds.getLast?.map (·.b) = some b := by
  have := (cav_pieces_chainG f c a b cfg ds h).last
  simpa [ends, List.getLast?_map] using this

/-- consecutive pieces share their end point: `b_k = a_{k+1}` -/
theorem cav_pieces_consecutive (f c : AD α → AD α) (a b : α) (cfg : Cfg2D α)
    (ds : List (Disp2D α)) (h : genDisplayCav f c [(a, b)] cfg = .ok ds)
    (i : Nat) (hi : i + 1 < ds.length) :
    (ds[i]'(Nat.lt_of_succ_lt hi)).b = (ds[i + 1]'hi).a := by
  have := (cav_pieces_chainG f c a b cfg ds h).consecutive i (by simpa [ends] using hi)
  simpa [ends] using this

/-- over `Rat`: the pieces form a chain in the sense of C02 -/
theorem cav_pieces_isChain (f c : AD Rat → AD Rat) (a b : Rat) (cfg : Cfg2D Rat)
    (ds : List (Disp2D Rat)) (h : genDisplayCav f c [(a, b)] cfg = .ok ds) :
    C02.IsChain a b (ends ds) :=
  (chainG_iff_isChain a b _).mp (cav_pieces_chainG f c a b cfg ds h)

/-- **several intervals are handled independently**: if both parts succeed, the run on
    `I₁ ++ I₂` succeeds with the concatenation -/
theorem genDisplayCav_append (f c : AD α → AD α) (I₁ I₂ : List (α × α)) (cfg : Cfg2D α)
    (ds₁ ds₂ : List (Disp2D α)) (h₁ : genDisplayCav f c I₁ cfg = .ok ds₁)
    (h₂ : genDisplayCav f c I₂ cfg = .ok ds₂) :
    genDisplayCav f c (I₁ ++ I₂) cfg = .ok (ds₁ ++ ds₂) := by
  rw [genDisplayCav_eq] at h₁ h₂ ⊢
  exact bindListE_append h₁ h₂

/-- conversely, a successful run on `I₁ ++ I₂` is the concatenation of successful runs -/
theorem genDisplayCav_append_ok (f c : AD α → AD α) (I₁ I₂ : List (α × α)) (cfg : Cfg2D α)
    (ds : List (Disp2D α)) (h : genDisplayCav f c (I₁ ++ I₂) cfg = .ok ds) :
    ∃ ds₁ ds₂, genDisplayCav f c I₁ cfg = .ok ds₁ ∧ genDisplayCav f c I₂ cfg = .ok ds₂ ∧
      ds = ds₁ ++ ds₂ := by
  rw [genDisplayCav_eq] at h
  obtain ⟨r1, r2, h1, h2, rfl⟩ := bindListE_append_ok h
  exact ⟨r1, r2, by rw [genDisplayCav_eq]; exact h1, by rw [genDisplayCav_eq]; exact h2, rfl⟩

/-- no interval, no display -/
theorem genDisplayCav_nil (f c : AD α → AD α) (cfg : Cfg2D α) : genDisplayCav f c [] cfg = .ok [] := by
  rw [genDisplayCav_eq]; rfl

/-- every display of a run over several intervals belongs to the chain of one of them -/
theorem cav_mem_interval (f c : AD α → AD α) (ivs : List (α × α)) (cfg : Cfg2D α)
    (ds : List (Disp2D α)) (h : genDisplayCav f c ivs cfg = .ok ds) (d : Disp2D α) (hd : d ∈ ds) :
    ∃ p ∈ ivs, ∃ dsp, genDisplayCav f c [p] cfg = .ok dsp ∧ d ∈ dsp ∧ ChainG p.1 p.2 (ends dsp) := by
  rw [genDisplayCav_eq] at h
  obtain ⟨p, hp, rx, hrx, hdx⟩ := bindListE_mem h hd
  have h1 : genDisplayCav f c [p] cfg = .ok rx := by
    rw [genDisplayCav_eq, bindListE_singleton]; exact hrx
  exact ⟨p, hp, rx, h1, hdx, cav_pieces_chainG f c p.1 p.2 cfg rx h1⟩

/-! ### concrete instances (hypotheses are satisfiable)

`f(x) = x`, `c(y) = y²` over `Rat`, `xRes = 2`: `g' = 1 − 2x` vanishes at the grid point `1/2`,
so `[0,1]` is cut into `[0,1/2]`, `[1/2,1]` (kernel evaluation of the model). -/

open Cav.DispEx in
example : ∃ ds, genDisplayCav idF sqC [(0, 1)] cfgEx = .ok ds ∧
    ends ds = [(0, 1/2), (1/2, 1)] ∧ C02.IsChain 0 1 (ends ds) ∧ ds.length = 2 := by
  obtain ⟨ds, h, he⟩ := DispEx.ends_some cav_run_ends
  exact ⟨ds, h, he, cav_pieces_isChain _ _ _ _ _ _ h, by simpa using congrArg List.length he⟩

open Cav.DispEx in
example : ∃ ds₁ ds₂, genDisplayCav idF sqC [(0, 1)] cfgExNoInt = .ok ds₁ ∧
    genDisplayCav idF sqC [(2, 3)] cfgExNoInt = .ok ds₂ ∧
    genDisplayCav idF sqC ([(0, 1)] ++ [(2, 3)]) cfgExNoInt = .ok (ds₁ ++ ds₂) ∧
    ends (ds₁ ++ ds₂) = [(0, 1/2), (1/2, 1), (2, 3)] := by
  obtain ⟨ds₁, h₁, he₁⟩ := DispEx.ends_some cav_run_ends_noInt
  obtain ⟨ds₂, h₂, he₂⟩ := DispEx.ends_some cav_run_ends_second
  refine ⟨ds₁, ds₂, h₁, h₂, genDisplayCav_append _ _ _ _ _ _ _ h₁ h₂, ?_⟩
  simp only [ends, List.map_append] at he₁ he₂ ⊢
  rw [he₁, he₂]; rfl

end Cav.C11
