/-
  C01 (approximable class) — a sinusoid instance of `Thm/C01Approx`.

  `gk1d_sin_accuracy`: the integrand handed to the adaptive Gauss–Kronrod model is any
  `f : Rat → Rat` within `η` of `sin` at the rational points of `[0,1]`; every successful run
  returns a value within `2e-16 + (1 + 1e-16)·η` of `∫_0^1 sin = 1 − cos 1`.
  Instance of `gk1d_approx_accuracy_continuous` with the degree-31 Taylor polynomial of `sin`
  (`sinCoeffs 32`, remainder `≤ 1e-35` on `[-1,1]` from `Complex.exp_bound` by taking imaginary
  parts; `Lemmas/AccApproxTrig.lean`).
-/
import Cav.Thm.C01Approx
import Cav.Lemmas.AccApproxTrig

namespace Cav.C01Trig
open Cav Num Cav.C01 Cav.C01Approx

/-- **`sin` on `[0,1]`.**  Let `f : Rat → Rat` be any integrand whose values are within `η` of
    `sin x` at every rational `x ∈ [0,1]`.  Whenever the adaptive integrator reports success
    `(v, e)` on `f` over `[0,1]`, the value `v` is within `2e-16 + (1 + 1e-16)·η` of the true
    integral `∫_0^1 sin = 1 − cos 1`, and `0 ≤ e < tol`.
    (Instance of the main theorem with `ε = 1e-35`, `W ≤ 2 + 1e-16`, `Σ|c_k| ≤ 2`.) -/
theorem gk1d_sin_accuracy (f : Rat → Rat) (η : ℝ) (tol : Rat) (mi : Option Nat) (v e : Rat)
    (hf : ∀ x : Rat, 0 ≤ x → x ≤ 1 → |((f x : Rat) : ℝ) - Real.sin (x : ℝ)| ≤ η)
    (h : (gk1d f 0 1 tol mi).res = .ok (v, e)) :
    |(v : ℝ) - (1 - Real.cos 1)| ≤ 2 / 10 ^ 16 + (1 + 1 / 10 ^ 16) * η ∧ e < tol ∧ 0 ≤ e := by
  have h01 : min (0 : Rat) 1 = 0 := min_eq_left zero_le_one
  have h10 : max (0 : Rat) 1 = 1 := max_eq_right zero_le_one
  obtain ⟨h1, h2⟩ := gk1d_approx_accuracy_continuous (sinCoeffs 32)
    (by rw [sinCoeffs_length]) Real.sin Real.continuous_sin f
    0 1 tol (1 / 10 ^ 35) η mi v e (by norm_num)
    (fun x hx => sin_taylor32 x (by
      rw [Rat.cast_zero, Rat.cast_one, Set.uIcc_of_le zero_le_one, Set.mem_Icc] at hx
      exact abs_le.mpr ⟨by linarith [hx.1], hx.2⟩))
    (fun x hx1 hx2 => hf x (by rwa [h01] at hx1) (by rwa [h10] at hx2)) h
  refine ⟨?_, h2⟩
  rw [Rat.cast_zero, Rat.cast_one, integral_sin, Real.cos_zero, sub_zero, abs_one (α := ℝ),
    show |(1 : ℝ) / 2| = 1 / 2 by norm_num] at h1
  have hA : ((absPolyAt (sinCoeffs 32) (max |(0 : Rat)| |(1 : Rat)|) : Rat) : ℝ) ≤ 2 := by
    exact_mod_cast absPolyAt_sinCoeffs_le
  have hW : (kronrodW : ℝ) ≤ 2 + 1 / 10 ^ 16 := by
    have := (Rat.cast_le (K := ℝ)).mpr kronrodW_le
    push_cast at this
    exact this
  have hη : 0 ≤ η := by
    have := hf 0 le_rfl zero_le_one
    exact le_trans (abs_nonneg _) this
  have ht : (0 : ℝ) ≤ 1 / 10 ^ 35 + η := by positivity
  have hWt := mul_le_mul_of_nonneg_right hW ht
  generalize ((absPolyAt (sinCoeffs 32) (max |(0 : Rat)| |(1 : Rat)|) : Rat) : ℝ) = A at h1 hA
  generalize (kronrodW : ℝ) * (1 / 10 ^ 35 + η) = Wt at h1 hWt
  generalize |(v : ℝ) - (1 - Real.cos 1)| = X at h1 ⊢
  linarith

/-- **`cos` on `[0,1]`.**  Let `f : Rat → Rat` be any integrand whose values are within `η` of
    `cos x` at every rational `x ∈ [0,1]`.  Whenever the adaptive integrator reports success
    `(v, e)` on `f` over `[0,1]`, the value `v` is within `2e-16 + (1 + 1e-16)·η` of the true
    integral `∫_0^1 cos = sin 1`, and `0 ≤ e < tol`.
    (Instance of the main theorem with `ε = 1e-35`, `W ≤ 2 + 1e-16`, `Σ|c_k| ≤ 2`.) -/
theorem gk1d_cos_accuracy (f : Rat → Rat) (η : ℝ) (tol : Rat) (mi : Option Nat) (v e : Rat)
    (hf : ∀ x : Rat, 0 ≤ x → x ≤ 1 → |((f x : Rat) : ℝ) - Real.cos (x : ℝ)| ≤ η)
    (h : (gk1d f 0 1 tol mi).res = .ok (v, e)) :
    |(v : ℝ) - Real.sin 1| ≤ 2 / 10 ^ 16 + (1 + 1 / 10 ^ 16) * η ∧ e < tol ∧ 0 ≤ e := by
  have h01 : min (0 : Rat) 1 = 0 := min_eq_left zero_le_one
  have h10 : max (0 : Rat) 1 = 1 := max_eq_right zero_le_one
  obtain ⟨h1, h2⟩ := gk1d_approx_accuracy_continuous (cosCoeffs 32)
    (by rw [cosCoeffs_length]) Real.cos Real.continuous_cos f
    0 1 tol (1 / 10 ^ 35) η mi v e (by norm_num)
    (fun x hx => cos_taylor32 x (by
      rw [Rat.cast_zero, Rat.cast_one, Set.uIcc_of_le zero_le_one, Set.mem_Icc] at hx
      exact abs_le.mpr ⟨by linarith [hx.1], hx.2⟩))
    (fun x hx1 hx2 => hf x (by rwa [h01] at hx1) (by rwa [h10] at hx2)) h
  refine ⟨?_, h2⟩
  rw [Rat.cast_zero, Rat.cast_one, integral_cos, Real.sin_zero, sub_zero, sub_zero,
    abs_one (α := ℝ), show |(1 : ℝ) / 2| = 1 / 2 by norm_num] at h1
  have hA : ((absPolyAt (cosCoeffs 32) (max |(0 : Rat)| |(1 : Rat)|) : Rat) : ℝ) ≤ 2 := by
    exact_mod_cast absPolyAt_cosCoeffs_le
  have hW : (kronrodW : ℝ) ≤ 2 + 1 / 10 ^ 16 := by
    have := (Rat.cast_le (K := ℝ)).mpr kronrodW_le
    push_cast at this
    exact this
  have hη : 0 ≤ η := by
    have := hf 0 le_rfl zero_le_one
    exact le_trans (abs_nonneg _) this
  have ht : (0 : ℝ) ≤ 1 / 10 ^ 35 + η := by positivity
  have hWt := mul_le_mul_of_nonneg_right hW ht
  generalize ((absPolyAt (cosCoeffs 32) (max |(0 : Rat)| |(1 : Rat)|) : Rat) : ℝ) = A at h1 hA
  generalize (kronrodW : ℝ) * (1 / 10 ^ 35 + η) = Wt at h1 hWt
  generalize |(v : ℝ) - Real.sin 1| = X at h1 ⊢
  linarith

end Cav.C01Trig
