/-
  C01 (success clause, exact class) — on polynomials of degree ≤ 19 the 1-D adaptive integrator
  SUCCEEDS, on its first panel and without bisection, as soon as the tolerance exceeds the sum of
  the two table-defect bounds (exact arithmetic, the rule tables of the source).

  The first-panel test of the model (`gk1dLoop`, first iteration) is: `accu = |G10 − K21|` is not
  NaN (over `Rat` there is no NaN) and `accu < tol`; the loop is entered only if the budget is not
  `0` (`C10.gk1d_zero_budget`: budget `0` with distinct bounds is the convergence error, so the
  hypothesis `mi ≠ some 0` cannot be dropped).  Both embedded rules integrate polynomials of degree
  ≤ 19 up to `1e-16·Σ|coefficients|` on the unit panel (`C01.defect_G10_le`, `C01.defect_K21_le`),
  hence `|G10 − K21| ≤ |b−a|/2 · 2e-16 · Σ_k |cs[k]|·max(|a|,|b|)^k`.

  Model path used: `gk1d`, `gk1dLoop`, `gkApprox`, `symRule`, `unitRule`, `denorm`, `sumVals`;
  `Num` operations used: `+ - * /`, `ofNat`, `lt`, `beq`, `isNaN`, `abs` (instance `instNumRat`).
-/
import Cav.Thm.C01
import Cav.Lemmas.Acc2Success

namespace Cav.C01Success
open Cav Num Cav.C01 Cav.Acc2

/-- the sum of the two defect bounds on `[a,b]`:
    `|b−a|/2 · 2e-16 · Σ_k |cs[k]|·max(|a|,|b|)^k` -/
def successBound (cs : List Rat) (a b : Rat) : Rat :=
  |(b - a) / 2| * (2 / 10 ^ 16) * absPolyAt cs (max |a| |b|)

/-- the first-panel estimate `|G10 − K21|` of a polynomial of degree ≤ 19 is at most
    `successBound` (all bounds, either order) -/
theorem first_panel_estimate_le_successBound (cs : List Rat) (hdeg : cs.length ≤ 20) (a b : Rat) :
    (gkApprox (evalPoly cs) a b).2 ≤ successBound cs a b :=
  first_panel_estimate_le cs hdeg a b

/-- **MAIN THEOREM (success clause).**  For every polynomial of degree ≤ 19 with rational
    coefficients `cs`, all bounds `a ≠ b` in either order, every budget other than `0` (including
    `none`) and every tolerance above `successBound cs a b`: the 1-D adaptive integrator returns
    `.ok (v, e)` having evaluated the rule pair on the single panel `(a, b)` (no bisection);
    `v` is the K21 value of that panel, within `|b−a|/2 · 1e-16 · Σ_k |cs[k]|·max(|a|,|b|)^k` of the
    true integral, and `e = |G10 − K21|` satisfies `0 ≤ e ≤ successBound cs a b < tol`. -/
theorem gk1d_poly_success (cs : List Rat) (hdeg : cs.length ≤ 20) (a b tol : Rat)
    (mi : Option Nat) (hab : a ≠ b) (hmi : mi ≠ some 0) (htol : successBound cs a b < tol) :
    ∃ v e : Rat, (gk1d (evalPoly cs) a b tol mi).res = .ok (v, e) ∧
      (gk1d (evalPoly cs) a b tol mi).panels = [(a, b)] ∧
      v = symRule (evalPoly cs) a b Gen.k21 ∧
      |(v : ℝ) - ∫ x in (a : ℝ)..(b : ℝ), evalPolyR cs x| ≤
        |((b - a) / 2 : ℝ)| * (1 / 10 ^ 16) * ((absPolyAt cs (max |a| |b|) : Rat) : ℝ) ∧
      0 ≤ e ∧ e ≤ successBound cs a b ∧ e < tol := by
  have hle := first_panel_estimate_le cs hdeg a b
  have hlt : (gkApprox (evalPoly cs) a b).2 < tol := lt_of_le_of_lt hle htol
  obtain ⟨hres, hpan⟩ := gk1d_first_panel_full (evalPoly cs) a b tol mi hab hmi hlt
  refine ⟨_, _, hres, hpan, rfl, ?_, ?_, hle, hlt⟩
  · exact (gk1d_poly_accuracy cs (le_trans hdeg (by decide)) a b tol mi _ _ hab hres).1
  · rw [gkApprox_snd]; exact abs_nonneg _

/-- the success clause alone, coincident bounds included (then the routine returns `(0,0)`
    whatever the budget, and `successBound = 0`) -/
theorem gk1d_poly_success_all (cs : List Rat) (hdeg : cs.length ≤ 20) (a b tol : Rat)
    (mi : Option Nat) (hmi : mi ≠ some 0) (htol : successBound cs a b < tol) :
    ∃ v e : Rat, (gk1d (evalPoly cs) a b tol mi).res = .ok (v, e) ∧
      (gk1d (evalPoly cs) a b tol mi).panels.length ≤ 1 := by
  by_cases hab : a = b
  · have hb : Num.beq a b = true := decide_eq_true hab
    obtain ⟨h1, h2⟩ := C10.gk1d_eq_bounds (evalPoly cs) a b tol mi hb
    exact ⟨_, _, h1, by rw [h2]; exact Nat.zero_le _⟩
  · obtain ⟨v, e, h1, h2, _⟩ := gk1d_poly_success cs hdeg a b tol mi hab hmi htol
    exact ⟨v, e, h1, by rw [h2]; exact le_refl _⟩

/-- the hypothesis on the budget is necessary: budget `0` with distinct bounds fails -/
theorem gk1d_zero_budget_fails (cs : List Rat) (a b tol : Rat) (hab : a ≠ b) :
    (gk1d (evalPoly cs) a b tol (some 0)).res = .error .convergence :=
  C10.gk1d_zero_budget (evalPoly cs) a b tol (by simp [Num.beq, hab])

/-! ### non-vacuity

`1 − 3x² + 7x⁵` on `[−1, 2]`, tolerance `1e-9`, budget `1`; and the degree-19 polynomial
`Σ_{k≤19} x^k` on `[1, 0]` (reversed bounds), tolerance `1e-14`, unlimited budget.  The hypotheses
are checked by the kernel (`decide +kernel`). -/

example : ∃ v e : Rat, (gk1d (evalPoly [1, 0, -3, 0, 0, 7]) (-1) 2 (1 / 10 ^ 9) (some 1)).res = .ok (v, e) ∧
    (gk1d (evalPoly [1, 0, -3, 0, 0, 7]) (-1) 2 (1 / 10 ^ 9) (some 1)).panels = [(-1, 2)] ∧
    v = symRule (evalPoly [1, 0, -3, 0, 0, 7]) (-1) 2 Gen.k21 ∧
    |(v : ℝ) - ∫ x in ((-1 : Rat) : ℝ)..((2 : Rat) : ℝ), evalPolyR [1, 0, -3, 0, 0, 7] x| ≤
      |((((2 : Rat) : ℝ) - ((-1 : Rat) : ℝ)) / 2 : ℝ)| * (1 / 10 ^ 16) *
        ((absPolyAt [1, 0, -3, 0, 0, 7] (max |(-1 : Rat)| |(2 : Rat)|) : Rat) : ℝ) ∧
    0 ≤ e ∧ e ≤ successBound [1, 0, -3, 0, 0, 7] (-1) 2 ∧ e < 1 / 10 ^ 9 :=
  gk1d_poly_success [1, 0, -3, 0, 0, 7] (by decide) (-1) 2 (1 / 10 ^ 9) (some 1) (by decide)
    (by decide) (by decide +kernel)

example : successBound [1, 0, -3, 0, 0, 7] (-1) 2 = 237 * (3 / 10 ^ 16) := by decide +kernel

/-- the same run evaluated directly -/
example : (gk1d (evalPoly [1, 0, -3, 0, 0, 7]) (-1) 2 (1 / 10 ^ 9) (some 1)).res.toBool = true ∧
    (gk1d (evalPoly [1, 0, -3, 0, 0, 7]) (-1) 2 (1 / 10 ^ 9) (some 1)).panels = [(-1, 2)] := by
  decide +kernel

example : ∃ v e : Rat, (gk1d (evalPoly (List.replicate 20 1)) 1 0 (1 / 10 ^ 14) none).res = .ok (v, e) ∧
    (gk1d (evalPoly (List.replicate 20 1)) 1 0 (1 / 10 ^ 14) none).panels.length ≤ 1 :=
  gk1d_poly_success_all (List.replicate 20 1) (by decide) 1 0 (1 / 10 ^ 14) none (by decide)
    (by decide +kernel)

end Cav.C01Success
