/-
  C12 — the sampled data of a `gen_display_cav` display: grid, `f`/`g`/`g'` samples, the
  attachment indices of the translated `c`-curves and the points of those curves.

  * STRUCTURAL theorems (every `Num α`; no law of arithmetic): sections 1 and 2.
  * Over `Rat` (`instNumRat`, exact arithmetic; rounding out of scope): sections 3 and 4.

  Model path: `linspace`, `vecFromRes`, `curveIdx`, `cavG`, `genDisplayCav` (`pieces`, `ivs`);
  `Num` operations used by the `Rat` statements: `+ - * /`, `ofNat`, `round`, `toNat`.
-/
import Cav.Lemmas.Disp2D
import Cav.Lemmas.DispHelpers
import Cav.Lemmas.DispCurveIdx
import Cav.Lemmas.DispExamples

namespace Cav.C12
open Cav Num Gen Cav.DispL

/-! ## 1. `linspace` / `vec_from_res` -/

section
variable {α : Type} [Num α]

/-- at least two samples (every `Num α`) -/
theorem linspace_length (a b : α) (n : Nat) : (linspace a b n).length = max n 2 :=
  DispL.linspace_length a b n

theorem vecFromRes_length (a b : α) (res : Nat) : (vecFromRes a b res).length = max (res + 1) 2 :=
  DispL.vecFromRes_length a b res

end

/-- over `Rat` the first sample is `a` … -/
theorem linspace_head (a b : Rat) (n : Nat) : (linspace a b n).head? = some a :=
  DispL.linspace_head a b n

/-- … the last is `b` … -/
theorem linspace_getLast (a b : Rat) (n : Nat) : (linspace a b n).getLast? = some b :=
  DispL.linspace_getLast a b n

/-- … and the `i`-th is the convex combination with weight `i/(m-1)`, `m = max n 2` -/
theorem linspace_get (a b : Rat) (n i : Nat) (hi : i < max n 2) :
    (linspace a b n)[i]? =
      some ((1 - (i : Rat) / (((max n 2 : Nat) : Rat) - 1)) * a
        + ((i : Rat) / (((max n 2 : Nat) : Rat) - 1)) * b) :=
  DispL.linspace_get a b n i hi

/-- all samples lie in `[a,b]` -/
theorem linspace_mem_between (a b : Rat) (n : Nat) (hab : a ≤ b) :
    ∀ x ∈ linspace a b n, a ≤ x ∧ x ≤ b :=
  DispL.linspace_mem_between a b n hab

/-! ## 2. the fields of every display (structural) -/

section
variable {α : Type} [Num α]

/-- the `g` of `gen_display_cav`: `g(x) = x − c(f(x)) + c(0)` as a dual-number closure -/
abbrev gOf (f c : AD α → AD α) : AD α → AD α := cavG f c (D1.f c zero)

/-- **C12 main (structural)**: for every display `d` of a successful run
    * `xv` is the grid of `[d.a, d.b]`, `fv = f(xv)`, `gv = g(xv)`, `dgv = g'(xv)`
      (`g`, `g'` from one dual-number evaluation `fdf`);
    * the curves are attached at the indices `curveIdx xv.length interm_cs`, in that order;
    * the curve attached at index `i` is
      `r ↦ (r·fv[i], gv[i] + (c(r·fv[i]) − c(0)))`, `r` running over `vec_from_res(0,1,y_res)`. -/
theorem cav_piece_fields (f c : AD α → AD α) (ivs : List (α × α)) (cfg : Cfg2D α)
    (ds : List (Disp2D α)) (h : genDisplayCav f c ivs cfg = .ok ds) (d : Disp2D α) (hd : d ∈ ds) :
    d.xv = vecFromRes d.a d.b cfg.xRes ∧
    d.fv = d.xv.map (D1.f f) ∧
    d.gv = d.xv.map (fun x => (D1.fdf (gOf f c) x).1) ∧
    d.dgv = d.xv.map (fun x => (D1.fdf (gOf f c) x).2) ∧
    d.cvs.map (·.1) = curveIdx (α := α) d.xv.length cfg.intermCs ∧
    ∀ cv ∈ d.cvs, cv.2 = (vecFromRes (zero : α) one cfg.yRes).map fun r =>
      (r * d.fv.getD cv.1 zero,
       d.gv.getD cv.1 zero + (D1.f c (r * d.fv.getD cv.1 zero) - D1.f c zero)) := by
  obtain ⟨_, hd'⟩ := genDisplayCav_mem h hd
  have hxv : d.xv = vecFromRes d.a d.b cfg.xRes := by
    conv => lhs; rw [hd']
    rfl
  have hfv : d.fv = d.xv.map (D1.f f) := by
    rw [hxv]; conv => lhs; rw [hd']
    rfl
  have hgv : d.gv = d.xv.map (fun x => (D1.fdf (gOf f c) x).1) := by
    rw [hxv]; conv => lhs; rw [hd']
    rfl
  have hdgv : d.dgv = d.xv.map (fun x => (D1.fdf (gOf f c) x).2) := by
    rw [hxv]; conv => lhs; rw [hd']
    rfl
  have hcvs : d.cvs = cavCurves cfg (cavCC c) d.xv d.fv d.gv := by
    rw [hgv, hfv, hxv]; conv => lhs; rw [hd']
    rfl
  refine ⟨hxv, hfv, hgv, hdgv, ?_, ?_⟩
  · rw [hcvs]
    simp [cavCurves, List.map_map, Function.comp_def]
  · intro cv hcv
    rw [hcvs] at hcv
    simp only [cavCurves, List.mem_map] at hcv
    obtain ⟨i, _, rfl⟩ := hcv
    rfl

/-- all sample vectors have the grid's length `max (x_res+1) 2` -/
theorem cav_piece_lengths (f c : AD α → AD α) (ivs : List (α × α)) (cfg : Cfg2D α)
    (ds : List (Disp2D α)) (h : genDisplayCav f c ivs cfg = .ok ds) (d : Disp2D α) (hd : d ∈ ds) :
    d.xv.length = max (cfg.xRes + 1) 2 ∧ d.fv.length = d.xv.length ∧
      d.gv.length = d.xv.length ∧ d.dgv.length = d.xv.length := by
  obtain ⟨hxv, hfv, hgv, hdgv, _⟩ := cav_piece_fields f c ivs cfg ds h d hd
  refine ⟨by rw [hxv, DispL.vecFromRes_length], ?_, ?_, ?_⟩
  · rw [hfv, List.length_map]
  · rw [hgv, List.length_map]
  · rw [hdgv, List.length_map]

/-- every curve has one point per `y`-sample: `max (y_res+1) 2` points -/
theorem cav_curve_length (f c : AD α → AD α) (ivs : List (α × α)) (cfg : Cfg2D α)
    (ds : List (Disp2D α)) (h : genDisplayCav f c ivs cfg = .ok ds) (d : Disp2D α) (hd : d ∈ ds) :
    ∀ cv ∈ d.cvs, cv.2.length = (vecFromRes (zero : α) one cfg.yRes).length ∧
      cv.2.length = max (cfg.yRes + 1) 2 := by
  intro cv hcv
  obtain ⟨_, _, _, _, _, hc⟩ := cav_piece_fields f c ivs cfg ds h d hd
  rw [hc cv hcv, List.length_map, DispL.vecFromRes_length]
  exact ⟨rfl, rfl⟩

/-- the `j`-th point of the curve attached at index `i = cv.1` -/
theorem cav_curve_point (f c : AD α → AD α) (ivs : List (α × α)) (cfg : Cfg2D α)
    (ds : List (Disp2D α)) (h : genDisplayCav f c ivs cfg = .ok ds) (d : Disp2D α) (hd : d ∈ ds)
    (cv : Nat × List (α × α)) (hcv : cv ∈ d.cvs) (j : Nat) (r : α)
    (hr : (vecFromRes (zero : α) one cfg.yRes)[j]? = some r) :
    cv.2[j]? = some (r * d.fv.getD cv.1 zero,
      d.gv.getD cv.1 zero + (D1.f c (r * d.fv.getD cv.1 zero) - D1.f c zero)) := by
  obtain ⟨_, _, _, _, _, hc⟩ := cav_piece_fields f c ivs cfg ds h d hd
  rw [hc cv hcv, List.getElem?_map, hr]
  rfl

/-- the number of curves is the number of attachment indices -/
theorem cav_curves_count (f c : AD α → AD α) (ivs : List (α × α)) (cfg : Cfg2D α)
    (ds : List (Disp2D α)) (h : genDisplayCav f c ivs cfg = .ok ds) (d : Disp2D α) (hd : d ∈ ds) :
    d.cvs.length = (curveIdx (α := α) d.xv.length cfg.intermCs).length := by
  obtain ⟨_, _, _, _, hi, _⟩ := cav_piece_fields f c ivs cfg ds h d hd
  rw [← hi, List.length_map]

/-- structural facts about the index list: it starts with `0`, ends with `len-1`, and all its
    members are valid indices when `len ≥ 1` -/
theorem curveIdx_first (len k : Nat) : (curveIdx (α := α) len k).head? = some 0 := by
  simp [curveIdx]

theorem curveIdx_last (len k : Nat) : (curveIdx (α := α) len k).getLast? = some (len - 1) := by
  unfold curveIdx
  exact List.getLast?_concat

theorem curveIdx_lt (len k : Nat) (hl : 1 ≤ len) : ∀ i ∈ curveIdx (α := α) len k, i < len := by
  intro i hi
  simp only [curveIdx, List.mem_append, List.mem_filter, decide_eq_true_eq,
    List.cons_append, List.nil_append, List.mem_cons] at hi
  rcases hi with rfl | ⟨_, h⟩ | rfl | h
  · omega
  · exact h
  · omega
  · cases h

theorem curveIdx_length_le (len k : Nat) : (curveIdx (α := α) len k).length ≤ k + 2 := by
  simp only [curveIdx, List.length_append, List.length_cons, List.length_nil]
  have := List.length_filter_le (fun x => decide (x < len))
    ((List.range k).map (fun j =>
      Num.toNat (Num.round ((Num.ofNat (len - 1) * Num.ofNat (j + 1) : α) / Num.ofNat (k + 1)))))
  simp only [List.length_map, List.length_range] at this
  omega

end

/-! ## 3. over `Rat`: the index list and the end points of the curves -/

/-- the `filter (< len)` never drops an index: `round((len−1)·n/(k+1)) ≤ len−1` for `1 ≤ n ≤ k` -/
theorem curveIdx_eq_unfiltered (len k : Nat) (hl : 1 ≤ len) :
    curveIdx (α := Rat) len k = [0] ++ (List.range k).map (midIdx len k) ++ [len - 1] := by
  rw [curveIdx_eq, List.filter_eq_self.mpr]
  intro i hi
  obtain ⟨j, hj, rfl⟩ := List.mem_map.mp hi
  have := midIdx_le len k j (List.mem_range.mp hj)
  simp only [decide_eq_true_eq]
  omega

/-- hence exactly `interm_cs + 2` curves (the task statement has `2 ≤ len`; `1 ≤ len` suffices) -/
theorem curveIdx_length (len k : Nat) (hl : 1 ≤ len) : (curveIdx (α := Rat) len k).length = k + 2 := by
  rw [curveIdx_eq_unfiltered len k hl]
  simp

/-- the attachment indices are non-decreasing -/
theorem curveIdx_mono (len k : Nat) : (curveIdx (α := Rat) len k).Pairwise (· ≤ ·) := by
  rw [curveIdx_eq, List.append_assoc, List.pairwise_append]
  refine ⟨by simp, ?_, ?_⟩
  · rw [List.pairwise_append]
    refine ⟨?_, by simp, ?_⟩
    · apply List.Pairwise.filter
      rw [List.pairwise_map]
      exact (List.pairwise_lt_range).imp (fun h => midIdx_mono len k (Nat.le_of_lt h))
    · intro i hi j hj
      have := (List.mem_filter.mp hi).2
      simp only [decide_eq_true_eq] at this
      simp only [List.mem_singleton] at hj
      omega
  · intro i hi j _
    simp only [List.mem_singleton] at hi
    omega

/-- explicit value of the `j`-th intermediate index -/
theorem curveIdx_mid (len k j : Nat) (hl : 1 ≤ len) (hj : j < k) :
    (curveIdx (α := Rat) len k)[j + 1]? =
      some ⌊((len - 1 : Nat) : Rat) * ((j + 1 : Nat) : Rat) / ((k + 1 : Nat) : Rat) + 1/2⌋.toNat := by
  rw [curveIdx_eq_unfiltered len k hl, List.append_assoc, List.singleton_append,
    List.getElem?_cons_succ, List.getElem?_append_left (by simpa using hj), List.getElem?_map,
    List.getElem?_range hj, Option.map_some, midIdx_eq]

section curves
variable (f c : AD Rat → AD Rat) (ivs : List (Rat × Rat)) (cfg : Cfg2D Rat)
  (ds : List (Disp2D Rat)) (h : genDisplayCav f c ivs cfg = .ok ds) (d : Disp2D Rat) (hd : d ∈ ds)
include h hd

/-- every attachment index is a valid grid index -/
theorem cav_curve_idx_lt : ∀ cv ∈ d.cvs, cv.1 < d.xv.length := by
  intro cv hcv
  obtain ⟨_, _, _, _, hi, _⟩ := cav_piece_fields f c ivs cfg ds h d hd
  have hl := (cav_piece_lengths f c ivs cfg ds h d hd).1
  apply curveIdx_lt (α := Rat) d.xv.length cfg.intermCs (by omega)
  rw [← hi]
  exact List.mem_map_of_mem hcv

/-- the number of curves is `interm_cs + 2` -/
theorem cav_curves_count_rat : d.cvs.length = cfg.intermCs + 2 := by
  rw [cav_curves_count f c ivs cfg ds h d hd, curveIdx_length]
  have := (cav_piece_lengths f c ivs cfg ds h d hd).1
  omega

/-- **curve start** (`r = 0`): every curve starts at `(0, gv[i])`, i.e. on the `x`-axis side at
    abscissa `g(x_i)` -/
theorem curve_first_point : ∀ cv ∈ d.cvs, cv.2.head? = some (0, d.gv.getD cv.1 0) := by
  intro cv hcv
  obtain ⟨_, _, _, _, _, hc⟩ := cav_piece_fields f c ivs cfg ds h d hd
  rw [hc cv hcv, List.head?_map, DispL.vecFromRes_head]
  simp [rat_zero]

/-- **curve end** (`r = 1`): every curve ends at `(fv[i], gv[i] + c(fv[i]) − c(0))` -/
theorem curve_last_point : ∀ cv ∈ d.cvs, cv.2.getLast? =
    some (d.fv.getD cv.1 0, d.gv.getD cv.1 0 + (D1.f c (d.fv.getD cv.1 0) - D1.f c 0)) := by
  intro cv hcv
  obtain ⟨_, _, _, _, _, hc⟩ := cav_piece_fields f c ivs cfg ds h d hd
  rw [hc cv hcv, List.getLast?_map, DispL.vecFromRes_getLast]
  simp [rat_zero, rat_one]

/-- **the curves end on the graph of `f`**: if the value part of `g` is `x − c(f(x)) + c(0)`
    (`ff = D1.f f`, `cf = D1.f c` the plain value functions), the curve attached at grid index
    `i` ends in `(f(x_i), x_i)`. -/
theorem curve_ends_on_graph
    (hg : ∀ x : Rat, (cavG f c (D1.f c 0) ⟨x, 1⟩).v = x - D1.f c (D1.f f x) + D1.f c 0) :
    ∀ cv ∈ d.cvs, ∃ x, d.xv[cv.1]? = some x ∧ cv.2.getLast? = some (D1.f f x, x) := by
  intro cv hcv
  have hlt := cav_curve_idx_lt f c ivs cfg ds h d hd cv hcv
  obtain ⟨_, hfv, hgv, _, _, _⟩ := cav_piece_fields f c ivs cfg ds h d hd
  refine ⟨d.xv[cv.1], List.getElem?_eq_getElem hlt, ?_⟩
  rw [curve_last_point f c ivs cfg ds h d hd cv hcv]
  have h1 : d.fv.getD cv.1 0 = D1.f f d.xv[cv.1] := by
    rw [hfv, List.getD_eq_getElem?_getD, List.getElem?_map, List.getElem?_eq_getElem hlt]
    rfl
  have h2 : d.gv.getD cv.1 0 = d.xv[cv.1] - D1.f c (D1.f f d.xv[cv.1]) + D1.f c 0 := by
    rw [hgv, List.getD_eq_getElem?_getD, List.getElem?_map, List.getElem?_eq_getElem hlt]
    simp only [Option.map_some, Option.getD_some]
    rw [← hg]
    simp [D1.fdf, gOf, rat_zero, rat_ofNat]
  rw [h1, h2]
  congr 2
  ring

end curves

/-- the hypothesis of `curve_ends_on_graph` holds whenever the value parts of `f` and `c` do not
    depend on the tangent they are given (true for every closure built from the `AD` operations) -/
theorem cavG_value_of_tangent_free (f c : AD Rat → AD Rat)
    (hf : ∀ x d, (f ⟨x, d⟩).v = D1.f f x) (hc : ∀ y d, (c ⟨y, d⟩).v = D1.f c y) (x : Rat) :
    (cavG f c (D1.f c 0) ⟨x, 1⟩).v = x - D1.f c (D1.f f x) + D1.f c 0 := by
  simp only [cavG, D1.composition, D1.fdf, AD.add, AD.sub, rat_ofNat, Nat.cast_one]
  rw [hc, hf]

/-! ## 4. over `Rat`: adding a constant to `c` changes nothing -/

/-- the additive constant cancels in `g(x) = x − c(f(x)) + c(0)` … -/
theorem cavG_offset_invariant (f c c' : AD Rat → AD Rat) (k : Rat)
    (hcc : ∀ a, (c' a).v = (c a).v + k ∧ (c' a).d = (c a).d) :
    cavG f c' (D1.f c' zero) = cavG f c (D1.f c zero) := by
  funext x
  simp only [cavG, D1.composition, D1.f, AD.add, AD.sub, (hcc _).1, (hcc _).2, AD.mk.injEq,
    and_true]
  ring

/-- … and in `cc(y) = c(y) − c(0)` -/
theorem cc_offset_invariant (c c' : AD Rat → AD Rat) (k : Rat)
    (hcc : ∀ a, (c' a).v = (c a).v + k ∧ (c' a).d = (c a).d) :
    (fun y => D1.f c' y - D1.f c' zero) = (fun y => D1.f c y - D1.f c zero) := by
  funext y
  simp only [D1.f, (hcc _).1]
  ring

/-- **C12 offset invariance**: the whole result of `gen_display_cav` (split points, samples,
    curves, integration values, errors) is unchanged when `c` is replaced by `c + k` -/
theorem cav_offset_invariant (f c c' : AD Rat → AD Rat) (k : Rat)
    (hcc : ∀ a, (c' a).v = (c a).v + k ∧ (c' a).d = (c a).d)
    (ivs : List (Rat × Rat)) (cfg : Cfg2D Rat) :
    genDisplayCav f c' ivs cfg = genDisplayCav f c ivs cfg := by
  unfold genDisplayCav
  simp only []
  rw [cavG_offset_invariant f c c' k hcc, cc_offset_invariant c c' k hcc]

/-! ## concrete instances (`f = x`, `c = y²`, `x_res = y_res = 2`, one intermediate curve) -/

example : linspace (0 : Rat) 1 3 = [0, 1/2, 1] := by decide +kernel
example : linspace (3 : Rat) 5 0 = [3, 5] := by decide +kernel
example : (linspace (0 : Rat) 1 3)[1]? = some (1/2) := by
  rw [linspace_get 0 1 3 1 (by decide)]; norm_num
example : curveIdx (α := Rat) 3 1 = [0, 1, 2] := by decide +kernel
example : curveIdx (α := Rat) 11 3 = [0, 3, 5, 8, 10] := by decide +kernel
/-- `round` is half away from zero: `(3−1)·1/4 = 1/2 ↦ 1` -/
example : curveIdx (α := Rat) 3 3 = [0, 1, 1, 2, 2] := by decide +kernel

open Cav.DispEx in
/-- the hypotheses of the field theorems are satisfiable and the curves of that run end on the
    graph of `f` -/
example : ∃ ds, genDisplayCav idF sqC [(0, 1)] cfgEx = .ok ds ∧ ds ≠ [] ∧
    ∀ d ∈ ds, d.xv = vecFromRes d.a d.b 2 ∧ d.cvs.length = 3 ∧
      ∀ cv ∈ d.cvs, ∃ x, d.xv[cv.1]? = some x ∧ cv.2.getLast? = some (D1.f idF x, x) := by
  obtain ⟨ds, h, he⟩ := DispEx.ends_some cav_run_ends
  refine ⟨ds, h, by rintro rfl; simp at he, fun d hd => ⟨?_, ?_, ?_⟩⟩
  · exact (cav_piece_fields _ _ _ _ _ h d hd).1
  · exact cav_curves_count_rat _ _ _ _ _ h d hd
  · exact curve_ends_on_graph _ _ _ _ _ h d hd
      (cavG_value_of_tangent_free _ _ (fun _ _ => rfl) (fun _ _ => rfl))

open Cav.DispEx in
/-- `c = y² + 7` is an offset of `c = y²`, so both give the same displays -/
example : genDisplayCav idF sqC7 [(0, 1)] cfgEx = genDisplayCav idF sqC [(0, 1)] cfgEx :=
  cav_offset_invariant idF sqC sqC7 7 (fun a => by simp [sqC, sqC7, AD.add]) _ _

end Cav.C12
