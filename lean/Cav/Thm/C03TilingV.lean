/-
  C03, the tiling clauses — THE TRIANGLES TILE THE EVEN-ODD REGION — WITHOUT THE HYPOTHESIS OF
  DISTINCT ABSCISSAE: every finite list of simple polygons with pairwise disjoint boundaries and
  pairwise different vertices, VERTICAL EDGES and several vertices on one vertical line allowed
  (axis-aligned shapes on small lattices: L, U, plus shapes, rectangles with rectangular holes, …;
  `ValidSetV`, `Cav/Thm/C04GeneralV.lean`).  Everything below is PROVEN (no `sorry`; axioms:
  `propext`, `Classical.choice`, `Quot.sound`).

  MEMBERSHIP, ε-FREE (`Cav/Lemmas/GenOutInVRay.lean`).  A point `q` is tested, for the region and
  for a triangle alike, by the parity of the number of edges / sides crossed by a ray that leaves
  `q` in a direction tilted SLIGHTLY TO THE RIGHT of the downward vertical (direction `(ε, -1)`,
  the same answer for all sufficiently small `ε > 0`).  In lexicographic terms
  (orientation determinants and lexicographic comparisons of rational points only, decidable):
    * `belowL q p r`   : the segment `p → r` is crossed:  `p <_lex q <_lex r ∧ 0 < orient p r q`
      (a vertical segment on the vertical line of `q` is never crossed; a segment ending on that
      line below `q` is not crossed, a segment starting there is);
    * `inRegionL R q`  : the number `nBptL R q` of crossed ring edges is odd (even-odd rule);
    * `inTriL q tr`    : the number of crossed sides of `tr` is odd;
    * `GenericL R q`   : `q` IS NOT A VERTEX.  There is NO condition on the abscissa of `q`: points
      on the vertical lines through the vertices, on edges (vertical or not) and on sides of
      triangles are all allowed.
  Along the tilted line through `q` both notions are half-open sections, so the identity has no
  exceptional points besides the (finitely many) vertices.  For a point whose abscissa is not the
  abscissa of a vertex, `belowL` is `below` of `C03Tiling.lean` (`belowL_iff_below`), so the
  statements extend those of `C03Tiling.lean`.

  MAIN THEOREM (`tiling_count_V`): for every `ValidSetV polys`
      ∃ T, sweepMon (toInput polys) = .ok (T, true) ∧
        ∀ q, GenericL R q → T.countP (inTriL q ·) = if inRegionL R q then 1 else 0
  — every point of the region that is not a vertex lies in EXACTLY ONE triangle, every other
  non-vertex point in NONE.
  COROLLARIES (`tiling_V`, all clauses about one and the same `T`), with the usual notions by
  orientation determinants (`StrictIn`, `ClosedIn` of `C03Tiling.lean`):
    * (T1) `triangles_disjoint_V`: NO point whatsoever lies strictly inside two emitted triangles
      at different positions of the output;
    * (T3) `triangles_inside_V` : a non-vertex point strictly inside an emitted triangle lies in the
      region;  `region_covered_V`: every non-vertex point of the region lies in a closed emitted
      triangle.

  METHOD.  The run of the model is the ORIGINAL one; the bookkeeping is done in the SHEARED picture
  `(x, y) ↦ (x + ε y, y)`:
    * `XInvTV` (`Cav/Lemmas/GenOutInVDefs.lean`) = `XInvV` of `C03GeneralV.lean` + the generic
      identity `GenFV`: the emitted triangles are the sorted UNSHEARED images (`sqU ε`) of clockwise
      ghost triples `Tg` of SHEARED points, and for EVERY antisymmetric edge weight `ω`
      `Σ muW ω t = wDoneW (shearRing ε R) ω xs + Σ pathSumW ω chain`;  the six event steps
      `xbendV_loT`, `xbendV_hiT`, `xstartV_properT`, `xstartV_splitT`, `xendV_closeT`,
      `xendV_mergeT` (`GenOutInVX*.lean`: the steps of `GenOutVX*.lean` with the clause of
      `GenOutInX*.lean`), `xstepTV`, `tloopV`, `ghostV_of_shOK` (`GenOutInVLoop.lean`);
    * for `ω = beta q'` the triangle side is `mu_beta'`; the ring side `region_weight` is the
      theorem of `C03Tiling` applied to the sheared polygon list `shP ε polys`, which is a valid
      set in general position whose ring is the sheared ring: `tiling_ghostV`
      (`GenOutInVTile.lean`) — the tiling identity in the sheared picture, for EVERY admissible `ε`;
    * transport: orientation determinants are shear invariant (`StrictIn_sqU`, `ClosedIn_sqU`);
      for a shear that orders `q` against the vertices lexicographically (`LexAt`; it exists
      together with `ShOK`: `shOK_with`, the `ε` is chosen PER POINT `q` inside the proof) the
      downward vertical ray from the sheared point crosses exactly the sheared images of the
      segments with `belowL` (`below_shear`, `nBpt_shear`, `inTriL_sqU`, `generic_shear`).
      The result `T` does not depend on `ε`: it is the output of the one original run.
-/
import Cav.Lemmas.GenOutInVTile
import Cav.Thm.C03Tiling
import Cav.Thm.C03GeneralV

set_option linter.unusedSimpArgs false
set_option linter.unusedVariables false

namespace Cav.C03TilingV
open Cav Num Cav.Geo Cav.Sweep Cav.QuadGeom Cav.CvxEvents Cav.MonoGeom
open Cav.GenInv Cav.GenRing Cav.GenVShear Cav.GenVAccept Cav.GenOutV Cav.GenOutIn Cav.GenOutInV
open Cav.C04GeneralV
open Cav.C03Tiling (two_le_countP)

/-- for a point whose abscissa differs from those of `p` and `r`, the lexicographic notion is the
    one of `C03Tiling.lean` (downward vertical ray) -/
theorem belowL_iff_below {q p r : Q} (hp : p.1 ≠ q.1) (hr : r.1 ≠ q.1) :
    belowL q p r ↔ below q p r := by
  unfold belowL
  constructor
  · rintro ⟨h1, h2, h3⟩
    have h1' : p.1 < q.1 := by
      rcases h1 with h | ⟨h, -⟩
      · exact h
      · exact absurd h hp
    have h2' : q.1 < r.1 := by
      rcases h2 with h | ⟨h, -⟩
      · exact h
      · exact absurd h.symm hr
    exact (below_iff_orient h1' h2').mpr h3
  · intro h
    exact ⟨Or.inl h.1, Or.inl h.2.1, (below_iff_orient h.1 h.2.1).mp h⟩

/-- **the tiling identity at one non-vertex point, in the sheared picture of a shear chosen for
    that point**: the result `T` is `L.map (sqU ε)` for clockwise triples `L` of sheared vertices
    that `ε` orders lexicographically against `q`, and the number of triples containing the sheared
    point (downward vertical ray) is the indicator of the ε-free region predicate -/
theorem tiling_at (polys : List (Array (Rat × Rat))) (hv : ValidSetV polys) {T : List Tri}
    (hT : sweepMon (toInput polys) = .ok (T, true)) (q : Q) (hq : GenericL (ringOf polys) q) :
    ∃ (ε : Rat) (L : List (Q × Q × Q)), T = L.map (sqU ε) ∧
      (∀ t ∈ L, orient t.1 t.2.1 t.2.2 < 0) ∧
      (∀ t ∈ L, LexAt ε q (unsh ε t.1) ∧ LexAt ε q (unsh ε t.2.1) ∧ LexAt ε q (unsh ε t.2.2)) ∧
      (∀ t ∈ L, (shear ε q).1 ≠ t.1.1 ∧ (shear ε q).1 ≠ t.2.1.1 ∧ (shear ε q).1 ≠ t.2.2.1) ∧
      L.countP (fun t => decide (rayCount (shear ε q) t.1 t.2.1 t.2.2 % 2 = 1)) =
        if inRegionL (ringOf polys) q then 1 else 0 := by
  obtain ⟨h3, hnd, hA, hS⟩ := hv
  obtain ⟨ε, hSh, hlex⟩ := shOK_with polys h3 hnd hA hS [q]
  have hlexq : ∀ v, v < (ringOf polys).n → LexAt ε q ((ringOf polys).pt v) :=
    fun v hv => hlex q List.mem_cons_self v hv
  obtain ⟨L, hrun, hneg, hvert, hcnt⟩ := tiling_ghostV polys h3 hnd hSh
  have hTL : T = L.map (sqU ε) := by
    have h : sweepMon (toInput polys) = .ok (L.map (sqU ε), true) := hrun
    rw [hT] at h
    simp only [Except.ok.injEq, Prod.mk.injEq, and_true] at h
    exact h
  have hgen : Generic (shearRing ε (ringOf polys)) (shear ε q) := generic_shear hlexq hq
  have hcorner : ∀ t ∈ L, ∀ a ∈ [t.1, t.2.1, t.2.2],
      LexAt ε q (unsh ε a) ∧ (shear ε q).1 ≠ a.1 := by
    intro t ht a ha
    obtain ⟨v, hv, hpt⟩ := hvert t ht a ha
    have e : unsh ε a = (ringOf polys).pt v := by
      rw [← hpt]; exact unsh_shear ε _
    refine ⟨by rw [e]; exact hlexq v hv, ?_⟩
    intro e'
    apply hgen v hv
    show ((shearRing ε (ringOf polys)).pt v).1 = (shear ε q).1
    rw [hpt, e']
  refine ⟨ε, L, hTL, hneg, ?_, ?_, ?_⟩
  · intro t ht
    exact ⟨(hcorner t ht _ (by simp)).1, (hcorner t ht _ (by simp)).1, (hcorner t ht _ (by simp)).1⟩
  · intro t ht
    exact ⟨(hcorner t ht _ (by simp)).2, (hcorner t ht _ (by simp)).2, (hcorner t ht _ (by simp)).2⟩
  · rw [hcnt (shear ε q) hgen]
    have := inRegion_shear (R := ringOf polys) (q := q) hSh.ring.nxt_lt hSh.ring.prv_lt hlexq
    by_cases h : inRegionL (ringOf polys) q
    · rw [if_pos h, if_pos (this.mpr h)]
    · rw [if_neg h, if_neg (fun h' => h (this.mp h'))]

/-- **C03, the tiling clauses for every valid polygon set, no hypothesis on the abscissae**
    (vertical edges and vertices on a common vertical line allowed), all clauses about one and
    the same result `T` of the model -/
theorem tiling_V (polys : List (Array (Rat × Rat))) (hv : ValidSetV polys) :
    ∃ T : List Tri, sweepMon (toInput polys) = .ok (T, true) ∧
      -- the tiling identity (parity of the tilted ray), every point that is not a vertex
      (∀ q : Rat × Rat, GenericL (ringOf polys) q →
        T.countP (fun tr => decide (inTriL q tr)) = if inRegionL (ringOf polys) q then 1 else 0) ∧
      -- the open triangles lie in the region
      (∀ tr ∈ T, ∀ q : Rat × Rat, GenericL (ringOf polys) q → StrictIn q tr →
        inRegionL (ringOf polys) q) ∧
      -- the interiors are pairwise disjoint (all points)
      (∀ (i j : Nat) (hij : i < j) (hj : j < T.length) (q : Rat × Rat),
        ¬ (StrictIn q (T[i]'(lt_trans hij hj)) ∧ StrictIn q (T[j]'hj))) ∧
      -- the region is covered by the closed triangles
      (∀ q : Rat × Rat, GenericL (ringOf polys) q → inRegionL (ringOf polys) q →
        ∃ tr ∈ T, ClosedIn q tr) := by
  obtain ⟨ε0, hSh0⟩ := valid_shear polys hv
  obtain ⟨L0, hrun0, hneg0, hvert0, hcnt0⟩ := tiling_ghostV polys hv.1 hv.2.1 hSh0
  have hT : sweepMon (toInput polys) = .ok (L0.map (sqU ε0), true) := hrun0
  -- the count on the result list
  have hcount : ∀ q : Rat × Rat, GenericL (ringOf polys) q →
      (L0.map (sqU ε0)).countP (fun tr => decide (inTriL q tr)) =
        if inRegionL (ringOf polys) q then 1 else 0 := by
    intro q hq
    obtain ⟨ε, L, hTL, hneg, hlex, hne, hcnt⟩ := tiling_at polys hv hT q hq
    rw [hTL, ← hcnt, List.countP_map]
    apply List.countP_congr
    intro t ht
    obtain ⟨l1, l2, l3⟩ := hlex t ht
    simp only [Function.comp, decide_eq_true_eq]
    exact inTriL_sqU t l1 l2 l3
  refine ⟨L0.map (sqU ε0), hT, hcount, ?_, ?_, ?_⟩
  · -- containment
    intro tr htr q hq hs
    obtain ⟨ε, L, hTL, hneg, hlex, hne, hcnt⟩ := tiling_at polys hv hT q hq
    rw [hTL] at htr
    obtain ⟨t, ht, rfl⟩ := List.mem_map.mp htr
    obtain ⟨n1, n2, n3⟩ := hne t ht
    have h1 := StrictIn_inTriV (hneg t ht) n1 n2 n3 ((StrictIn_sqU ε q t).mp hs)
    have h2 := (inTriV_sq (shear ε q) t).mp h1
    have hpos : 0 < L.countP (fun t => decide (rayCount (shear ε q) t.1 t.2.1 t.2.2 % 2 = 1)) :=
      List.countP_pos_iff.mpr ⟨t, ht, by simpa using h2⟩
    rw [hcnt] at hpos
    by_contra hc
    rw [if_neg hc] at hpos
    exact lt_irrefl _ hpos
  · -- disjointness, in the sheared picture of the shear `ε0`
    intro i j hij hj q ⟨h1, h2⟩
    have hj' : j < L0.length := by simpa using hj
    have hi' : i < L0.length := lt_trans hij hj'
    rw [List.getElem_map] at h1 h2
    have g1 := (StrictIn_sqU ε0 q _).mp h1
    have g2 := (StrictIn_sqU ε0 q _).mp h2
    obtain ⟨q', hq', k1, k2⟩ := StrictIn_generic2 (shearRing ε0 (ringOf polys)) g1 g2
    have hne : ∀ t ∈ L0, q'.1 ≠ t.1.1 ∧ q'.1 ≠ t.2.1.1 ∧ q'.1 ≠ t.2.2.1 := by
      intro t ht
      have key : ∀ a : Q, a ∈ [t.1, t.2.1, t.2.2] → q'.1 ≠ a.1 := by
        intro a ha
        obtain ⟨v, hv', hpt⟩ := hvert0 t ht a ha
        intro e
        apply hq' v hv'
        show ((shearRing ε0 (ringOf polys)).pt v).1 = q'.1
        rw [hpt, e]
      exact ⟨key _ (by simp), key _ (by simp), key _ (by simp)⟩
    have hmi : L0[i] ∈ L0 := List.getElem_mem hi'
    have hmj : L0[j] ∈ L0 := List.getElem_mem hj'
    obtain ⟨a1, a2, a3⟩ := hne _ hmi
    obtain ⟨b1, b2, b3⟩ := hne _ hmj
    have c1 := (inTriV_sq q' _).mp (StrictIn_inTriV (hneg0 _ hmi) a1 a2 a3 k1)
    have c2 := (inTriV_sq q' _).mp (StrictIn_inTriV (hneg0 _ hmj) b1 b2 b3 k2)
    have := two_le_countP (fun t : Q × Q × Q => decide (rayCount q' t.1 t.2.1 t.2.2 % 2 = 1)) L0 i j
      hij hj' (by simpa using c1) (by simpa using c2)
    rw [hcnt0 q' hq'] at this
    split at this <;> omega
  · -- covering
    intro q hq hin
    obtain ⟨ε, L, hTL, hneg, hlex, hne, hcnt⟩ := tiling_at polys hv hT q hq
    rw [if_pos hin] at hcnt
    have hpos : 0 < L.countP (fun t => decide (rayCount (shear ε q) t.1 t.2.1 t.2.2 % 2 = 1)) := by
      omega
    obtain ⟨t, ht, hp⟩ := List.countP_pos_iff.mp hpos
    obtain ⟨n1, n2, n3⟩ := hne t ht
    have h1 : inTriV (shear ε q) (GenOutIn.sq t) := (inTriV_sq (shear ε q) t).mpr (by simpa using hp)
    have h2 := inTriV_ClosedIn (hneg t ht) n1 n2 n3 h1
    refine ⟨sqU ε t, ?_, (ClosedIn_sqU ε q t).mpr h2⟩
    rw [hTL]
    exact List.mem_map_of_mem ht

/-- (T2) **THE TILING IDENTITY, no hypothesis on the abscissae**: every point that is not a vertex
    lies in exactly one emitted triangle if it lies in the even-odd region, and in none otherwise
    (membership by the parity of the ray tilted slightly to the right of the downward vertical) -/
theorem tiling_count_V (polys : List (Array (Rat × Rat))) (hv : ValidSetV polys) :
    ∃ T, sweepMon (toInput polys) = .ok (T, true) ∧
      ∀ q : Rat × Rat, GenericL (ringOf polys) q →
        T.countP (fun tr => decide (inTriL q tr)) = if inRegionL (ringOf polys) q then 1 else 0 :=
  let ⟨T, h, h1, _, _, _⟩ := tiling_V polys hv
  ⟨T, h, h1⟩

/-- (T1) **the interiors of the emitted triangles are pairwise disjoint**, vertical edges and equal
    abscissae allowed: no point lies strictly inside two triangles at different positions of the
    output -/
theorem triangles_disjoint_V (polys : List (Array (Rat × Rat))) (hv : ValidSetV polys) :
    ∃ T : List Tri, sweepMon (toInput polys) = .ok (T, true) ∧
      ∀ (i j : Nat) (hij : i < j) (hj : j < T.length) (q : Rat × Rat),
        ¬ (StrictIn q (T[i]'(lt_trans hij hj)) ∧ StrictIn q (T[j]'hj)) :=
  let ⟨T, h, _, _, h3, _⟩ := tiling_V polys hv
  ⟨T, h, h3⟩

/-- (T3) every non-vertex point strictly inside an emitted triangle lies in the even-odd region -/
theorem triangles_inside_V (polys : List (Array (Rat × Rat))) (hv : ValidSetV polys) :
    ∃ T : List Tri, sweepMon (toInput polys) = .ok (T, true) ∧
      ∀ tr ∈ T, ∀ q : Rat × Rat, GenericL (ringOf polys) q → StrictIn q tr →
        inRegionL (ringOf polys) q :=
  let ⟨T, h, _, h2, _, _⟩ := tiling_V polys hv
  ⟨T, h, h2⟩

/-- (T3) every non-vertex point of the even-odd region lies in a closed emitted triangle -/
theorem region_covered_V (polys : List (Array (Rat × Rat))) (hv : ValidSetV polys) :
    ∃ T : List Tri, sweepMon (toInput polys) = .ok (T, true) ∧
      ∀ q : Rat × Rat, GenericL (ringOf polys) q → inRegionL (ringOf polys) q →
        ∃ tr ∈ T, ClosedIn q tr :=
  let ⟨T, h, _, _, _, h4⟩ := tiling_V polys hv
  ⟨T, h, h4⟩

/-- the region predicates agree with those of `C03Tiling.lean` at every point whose abscissa is
    not the abscissa of a vertex -/
theorem inRegionL_iff_inRegionV (R : RingQ) {V : Array (Vtx XQ)} (hR : RingOK R V) {q : Q}
    (hq : Generic R q) : inRegionL R q ↔ inRegionV R q := by
  unfold inRegionL inRegionV nBptL nBpt
  have : ((List.range R.n).map fun u =>
      (if belowL q (R.pt u) (R.pt (R.nxt u)) then 1 else 0) +
        (if belowL q (R.pt u) (R.pt (R.prv u)) then 1 else 0)) =
      ((List.range R.n).map fun u =>
      (if below q (R.pt u) (R.pt (R.nxt u)) then 1 else 0) +
        (if below q (R.pt u) (R.pt (R.prv u)) then 1 else 0)) := by
    apply List.map_congr_left
    intro u hu
    have hu' := List.mem_range.mp hu
    rw [if_congr (belowL_iff_below (hq u hu') (hq _ (hR.nxt_lt u hu'))) rfl rfl,
      if_congr (belowL_iff_below (hq u hu') (hq _ (hR.prv_lt u hu'))) rfl rfl]
  rw [this]

/-- the triangle predicates agree with those of `C03Tiling.lean` at every point whose abscissa is
    not the abscissa of a corner -/
theorem inTriL_iff_inTriV {q : Q} {tr : Tri} (h1 : (toQ tr.1).1 ≠ q.1) (h2 : (toQ tr.2.1).1 ≠ q.1)
    (h3 : (toQ tr.2.2).1 ≠ q.1) : inTriL q tr ↔ inTriV q tr := by
  unfold inTriL inTriV rayCountL rayCount sideBelowL sideBelow
  rw [if_congr (or_congr (belowL_iff_below h1 h2) (belowL_iff_below h2 h1)) rfl rfl,
    if_congr (or_congr (belowL_iff_below h2 h3) (belowL_iff_below h3 h2)) rfl rfl,
    if_congr (or_congr (belowL_iff_below h3 h1) (belowL_iff_below h1 h3)) rfl rfl]

/-! ### non-vacuity: the axis-aligned shapes of `C04GeneralV.lean`, sample points evaluated by the
    kernel (inside, in a hole, in an island, outside; off the vertex lines, ON vertex lines, ON
    edges), and the theorems applied -/

/-- number of emitted triangles containing `q` (parity of the tilted ray) -/
def hitsL (polys : List (Array (Rat × Rat))) (q : Rat × Rat) : Nat :=
  match sweepMon (toInput polys) with
  | .ok (T, _) => T.countP (fun tr => decide (inTriL q tr))
  | .error _ => 0

-- the L-shape: a point off the vertex lines; a point on the vertical line `x = 1` of three
-- vertices; a point in the notch; a point outside
example : GenericL (ringOf Lshape) (1 / 2, 3 / 2) ∧ inRegionL (ringOf Lshape) (1 / 2, 3 / 2) ∧
    hitsL Lshape (1 / 2, 3 / 2) = 1 := by decide +kernel
example : GenericL (ringOf Lshape) (1, 1 / 2) ∧ inRegionL (ringOf Lshape) (1, 1 / 2) ∧
    hitsL Lshape (1, 1 / 2) = 1 := by decide +kernel
example : GenericL (ringOf Lshape) (3 / 2, 3 / 2) ∧ ¬ inRegionL (ringOf Lshape) (3 / 2, 3 / 2) ∧
    hitsL Lshape (3 / 2, 3 / 2) = 0 := by decide +kernel
example : GenericL (ringOf Lshape) (2, 3) ∧ ¬ inRegionL (ringOf Lshape) (2, 3) ∧
    hitsL Lshape (2, 3) = 0 := by decide +kernel
-- points ON edges (not vertices): the left vertical edge belongs to the region, the right vertical
-- edge does not (half-open sections along the tilted line); the bottom edge does not, the top
-- edge does
example : GenericL (ringOf Lshape) (0, 1) ∧ inRegionL (ringOf Lshape) (0, 1) ∧
    hitsL Lshape (0, 1) = 1 := by decide +kernel
example : GenericL (ringOf Lshape) (2, 1 / 2) ∧ ¬ inRegionL (ringOf Lshape) (2, 1 / 2) ∧
    hitsL Lshape (2, 1 / 2) = 0 := by decide +kernel
example : GenericL (ringOf Lshape) (1 / 2, 0) ∧ ¬ inRegionL (ringOf Lshape) (1 / 2, 0) ∧
    hitsL Lshape (1 / 2, 0) = 0 := by decide +kernel
example : GenericL (ringOf Lshape) (1 / 2, 2) ∧ inRegionL (ringOf Lshape) (1 / 2, 2) ∧
    hitsL Lshape (1 / 2, 2) = 1 := by decide +kernel
-- a vertex is excluded
example : ¬ GenericL (ringOf Lshape) (1, 1) := by decide +kernel

-- the plus shape: the centre (on two vertex lines), an arm, a corner notch, outside
example : GenericL (ringOf Plus) (3 / 2, 3 / 2) ∧ inRegionL (ringOf Plus) (3 / 2, 3 / 2) ∧
    hitsL Plus (3 / 2, 3 / 2) = 1 := by decide +kernel
example : GenericL (ringOf Plus) (1, 3 / 2) ∧ inRegionL (ringOf Plus) (1, 3 / 2) ∧
    hitsL Plus (1, 3 / 2) = 1 := by decide +kernel
example : GenericL (ringOf Plus) (5 / 2, 3 / 2) ∧ inRegionL (ringOf Plus) (5 / 2, 3 / 2) ∧
    hitsL Plus (5 / 2, 3 / 2) = 1 := by decide +kernel
example : GenericL (ringOf Plus) (1 / 2, 1 / 2) ∧ ¬ inRegionL (ringOf Plus) (1 / 2, 1 / 2) ∧
    hitsL Plus (1 / 2, 1 / 2) = 0 := by decide +kernel
example : GenericL (ringOf Plus) (2, 5 / 2) ∧ ¬ inRegionL (ringOf Plus) (2, 5 / 2) ∧
    hitsL Plus (2, 5 / 2) = 0 := by decide +kernel

-- the rectangle with a rectangular hole: region (off and on vertex lines), hole (off and on
-- vertex lines), outside
example : GenericL (ringOf RectHole) (1 / 2, 2) ∧ inRegionL (ringOf RectHole) (1 / 2, 2) ∧
    hitsL RectHole (1 / 2, 2) = 1 := by decide +kernel
example : GenericL (ringOf RectHole) (1, 1 / 2) ∧ inRegionL (ringOf RectHole) (1, 1 / 2) ∧
    hitsL RectHole (1, 1 / 2) = 1 := by decide +kernel
example : GenericL (ringOf RectHole) (3, 7 / 2) ∧ inRegionL (ringOf RectHole) (3, 7 / 2) ∧
    hitsL RectHole (3, 7 / 2) = 1 := by decide +kernel
example : GenericL (ringOf RectHole) (2, 2) ∧ ¬ inRegionL (ringOf RectHole) (2, 2) ∧
    hitsL RectHole (2, 2) = 0 := by decide +kernel
example : GenericL (ringOf RectHole) (1, 2) ∧ ¬ inRegionL (ringOf RectHole) (1, 2) ∧
    hitsL RectHole (1, 2) = 0 := by decide +kernel
example : GenericL (ringOf RectHole) (5, 2) ∧ ¬ inRegionL (ringOf RectHole) (5, 2) ∧
    hitsL RectHole (5, 2) = 0 := by decide +kernel

-- the rectangle, the hole, the island in the hole: region, hole, island, outside; the points
-- `(2, 3)`, `(4, 3)` lie on vertical edges of the island, `(1, 3)` on a vertical edge of the hole
example : GenericL (ringOf RectNest) (1 / 2, 3) ∧ inRegionL (ringOf RectNest) (1 / 2, 3) ∧
    hitsL RectNest (1 / 2, 3) = 1 := by decide +kernel
example : GenericL (ringOf RectNest) (3 / 2, 3) ∧ ¬ inRegionL (ringOf RectNest) (3 / 2, 3) ∧
    hitsL RectNest (3 / 2, 3) = 0 := by decide +kernel
example : GenericL (ringOf RectNest) (3, 3) ∧ inRegionL (ringOf RectNest) (3, 3) ∧
    hitsL RectNest (3, 3) = 1 := by decide +kernel
example : GenericL (ringOf RectNest) (2, 3) ∧ inRegionL (ringOf RectNest) (2, 3) ∧
    hitsL RectNest (2, 3) = 1 := by decide +kernel
example : GenericL (ringOf RectNest) (4, 3) ∧ ¬ inRegionL (ringOf RectNest) (4, 3) ∧
    hitsL RectNest (4, 3) = 0 := by decide +kernel
example : GenericL (ringOf RectNest) (1, 3) ∧ ¬ inRegionL (ringOf RectNest) (1, 3) ∧
    hitsL RectNest (1, 3) = 0 := by decide +kernel
example : GenericL (ringOf RectNest) (5, 11 / 2) ∧ inRegionL (ringOf RectNest) (5, 11 / 2) ∧
    hitsL RectNest (5, 11 / 2) = 1 := by decide +kernel
example : GenericL (ringOf RectNest) (7, 3) ∧ ¬ inRegionL (ringOf RectNest) (7, 3) ∧
    hitsL RectNest (7, 3) = 0 := by decide +kernel

-- slanted and vertical edges mixed
example : GenericL (ringOf MixedV) (2, 1) ∧ inRegionL (ringOf MixedV) (2, 1) ∧
    hitsL MixedV (2, 1) = 1 := by decide +kernel
example : GenericL (ringOf MixedV) (2, 3) ∧ ¬ inRegionL (ringOf MixedV) (2, 3) ∧
    hitsL MixedV (2, 3) = 0 := by decide +kernel

-- the theorems instantiated
example : ∃ T, sweepMon (toInput Lshape) = .ok (T, true) ∧
    ∀ q : Rat × Rat, GenericL (ringOf Lshape) q →
      T.countP (fun tr => decide (inTriL q tr)) = if inRegionL (ringOf Lshape) q then 1 else 0 :=
  tiling_count_V Lshape (by decide +kernel)
example : ∃ T, sweepMon (toInput Plus) = .ok (T, true) ∧
    ∀ q : Rat × Rat, GenericL (ringOf Plus) q →
      T.countP (fun tr => decide (inTriL q tr)) = if inRegionL (ringOf Plus) q then 1 else 0 :=
  tiling_count_V Plus (by decide +kernel)
example : ∃ T, sweepMon (toInput RectNest) = .ok (T, true) ∧
    ∀ q : Rat × Rat, GenericL (ringOf RectNest) q →
      T.countP (fun tr => decide (inTriL q tr)) = if inRegionL (ringOf RectNest) q then 1 else 0 :=
  tiling_count_V RectNest (by decide +kernel)
example : ∃ T : List Tri, sweepMon (toInput RectHole) = .ok (T, true) ∧
    ∀ (i j : Nat) (hij : i < j) (hj : j < T.length) (q : Rat × Rat),
      ¬ (StrictIn q (T[i]'(lt_trans hij hj)) ∧ StrictIn q (T[j]'hj)) :=
  triangles_disjoint_V RectHole (by decide +kernel)
example : ∃ T : List Tri, sweepMon (toInput Ushape) = .ok (T, true) ∧
    ∀ tr ∈ T, ∀ q : Rat × Rat, GenericL (ringOf Ushape) q → StrictIn q tr →
      inRegionL (ringOf Ushape) q :=
  triangles_inside_V Ushape (by decide +kernel)
example : ∃ T : List Tri, sweepMon (toInput RectNest) = .ok (T, true) ∧
    ∀ q : Rat × Rat, GenericL (ringOf RectNest) q → inRegionL (ringOf RectNest) q →
      ∃ tr ∈ T, ClosedIn q tr :=
  region_covered_V RectNest (by decide +kernel)
-- the identity at a concrete point on a vertex line, through the theorem
example : ∃ T, sweepMon (toInput RectHole) = .ok (T, true) ∧
    T.countP (fun tr => decide (inTriL (1, 1 / 2) tr)) = 1 := by
  obtain ⟨T, h, hc⟩ := tiling_count_V RectHole (by decide +kernel)
  refine ⟨T, h, ?_⟩
  rw [hc (1, 1 / 2) (by decide +kernel), if_pos (by decide +kernel)]

end Cav.C03TilingV
