/-
  C13 — `split_strictly_monotone`, `is_monotonic_saddle`, `split_translational`.

  Model path: `Cav/Model/Split.lean` (`isMonotonicSaddle`, `unresolvedD`, `stepOffLoop`, `stepOff`,
  `splitLoop`, `splitStrictlyMonotone`, `insertSorted`, `stableSort`, `sumF`, `clusterRoots`,
  `splitTranslational`), `Cav/Model/Brent.lean`, the GENERATED `Gen.D1.f/df/fdf`.
  Sections marked *structural* hold for every `Num α`; the others are over `Rat` (`instNumRat`;
  there `isFinite _ = true`, `isNaN _ = false`, `signBit x = (x < 0)`, so `signVal 0 = signum 0 = 1`).
  The closures `f : AD Rat → AD Rat` are ARBITRARY in every theorem.

  One loop iteration is named in `Cav/Lemmas/SplitLemmas.lean` (`SplitL.leftZero`, `rightZero`,
  `cellL`, `cellR`, `gridSign`, `shiftedGrid`); `SplitL.splitLoop_succ` and
  `SplitL.splitStrictlyMonotone_eq` tie the names to the model text.

  Contents
    5  structural: `splitStrictlyMonotone_short`, `splitLoop_length_le`,
       `splitStrictlyMonotone_length_le`, `splitTranslational_short`, `splitTranslational_ok`
    6  `split_roots_in_cells`, `split_roots_in_cells_simple`, `split_roots_sorted`,
       `split_roots_nondecreasing`, `split_roots_nonincreasing`, `shiftedGrid_getD`, `cellHyp_of_gaps`
    7  `stableSort_perm`, `stableSort_sorted`, `transCmp_lt_iff`, `stableSort_transCmp_sorted`,
       `cluster_width`, `clusterRoots_length_le`, `clusterRoots_mean_between`,
       `splitTranslational_length_le`
    8  `isMonotonicSaddle_iff`
-/
import Cav.Lemmas.SplitLemmas

namespace Cav.C13Split
open Cav Num Gen Cav.SplitL Cav.BrentL

/-! ## examples used below -/

/-- `x³ - x` with its derivative -/
def cubic : AD Rat → AD Rat := fun a => ⟨a.v * a.v * a.v - a.v, (3 * a.v * a.v - 1) * a.d⟩
/-- `x³`: monotone saddle at `0` -/
def cube : AD Rat → AD Rat := fun a => ⟨a.v * a.v * a.v, (3 * a.v * a.v) * a.d⟩
/-- `x²`: extremum at `0` -/
def sqr : AD Rat → AD Rat := fun a => ⟨a.v * a.v, (2 * a.v) * a.d⟩
def grid9 : List Rat := [-2, -3 / 2, -1, -1 / 2, 0, 1 / 2, 1, 3 / 2, 2]

example : splitStrictlyMonotone cubic grid9 (1 / 100) 50 = .ok [-692 / 1197, 692 / 1197] := by
  decide +kernel
/-- decreasing grid: the roots come out in decreasing order -/
example : splitStrictlyMonotone cubic grid9.reverse (1 / 100) 50 = .ok [692 / 1197, -692 / 1197] := by
  decide +kernel
/-- the zero derivative of `x³` at the grid point `0` is a monotone saddle: no split point -/
example : splitStrictlyMonotone cube grid9 (1 / 100) 50 = .ok [] := by decide +kernel
/-- the zero derivative of `x²` at the grid point `0` is recorded as a split point -/
example : splitStrictlyMonotone sqr grid9 (1 / 100) 50 = .ok [0] := by decide +kernel
example : shiftedGrid grid9 (1 / 100) = #[-199 / 100, -3 / 2, -1, -1 / 2, 0, 1 / 2, 1, 3 / 2, 199 / 100] := by
  decide +kernel

/-! ## 5  structural facts (every `Num α`) -/
section Structural
variable {α : Type} [Num α]

theorem splitStrictlyMonotone_short (f : AD α → AD α) (xv : List α) (tol : α) (m : Nat)
    (h : xv.length < 2) : splitStrictlyMonotone f xv tol m = .ok [] := by
  unfold splitStrictlyMonotone
  simp only [if_pos h]

/-- Every loop iteration appends at most one root and advances `i` by at least one: the result has
    at most `xv.size - i` more entries than the accumulator. -/
theorem splitLoop_length_le (f : AD α → AD α) (tol : α) (m : Nat) (xSign : α) (xv : Array α)
    (dfv : Array (α × α)) (fuel i : Nat) (roots res : List α)
    (h : splitLoop f tol m xSign xv dfv fuel i roots = .ok res) :
    res.length ≤ roots.length + (xv.size - i) := by
  obtain ⟨i', roots', hP, rfl⟩ :=
    splitLoop_ok_inv (f := f) (tol := tol) (m := m) (xSign := xSign) (xv := xv) (dfv := dfv)
      (fun j rs => rs.length + (xv.size - j) ≤ roots.length + (xv.size - i))
      (fun j rs hP hj => by simp only [List.length_cons]; omega)
      (fun j rs hP hj => by simp only [List.length_cons]; omega)
      (fun j rs r hP hj _ => by simp only [List.length_cons]; omega)
      (fun j rs hP hj => by omega)
      fuel i roots (le_refl _) h
  rw [List.length_reverse]
  omega

/-- the result is also bounded by the number of iterations (`fuel`) -/
theorem splitLoop_length_le_fuel (f : AD α → AD α) (tol : α) (m : Nat) (xSign : α) (xv : Array α)
    (dfv : Array (α × α)) : ∀ (fuel i : Nat) (roots res : List α),
    splitLoop f tol m xSign xv dfv fuel i roots = .ok res → res.length ≤ roots.length + fuel := by
  intro fuel
  induction fuel with
  | zero =>
    intro i roots res h
    rw [splitLoop_zero] at h
    cases h; simp
  | succ fuel ih =>
    intro i roots res h
    rw [splitLoop_succ] at h
    by_cases hi : i < xv.size
    · rw [if_pos hi] at h
      by_cases c1 : leftZero f tol xv dfv i = true
      · rw [if_pos c1] at h
        have := ih _ _ _ h
        simp only [List.length_cons] at this; omega
      · rw [if_neg c1] at h
        by_cases c2 : rightZero f tol xv dfv i = true
        · rw [if_pos c2] at h
          have := ih _ _ _ h
          simp only [List.length_cons] at this; omega
        · rw [if_neg c2] at h
          by_cases c3 : Num.bne (signum (cellL f tol xSign xv dfv i).2)
              (signum (cellR f tol xSign xv dfv i).2) = true
          · rw [if_pos c3] at h
            cases hbr : findRootBrent (cellL f tol xSign xv dfv i).1 (cellR f tol xSign xv dfv i).1
                (fun x => D1.df f x) tol m with
            | ok r =>
              rw [hbr] at h
              have := ih _ _ _ h
              simp only [List.length_cons] at this; omega
            | error e => rw [hbr] at h; cases h
          · rw [if_neg c3] at h
            have := ih _ _ _ h
            omega
    · rw [if_neg hi] at h
      cases h; simp

/-- at most one split point per cell -/
theorem splitStrictlyMonotone_length_le (f : AD α → AD α) (xv : List α) (tol : α) (m : Nat)
    (r : List α) (h : splitStrictlyMonotone f xv tol m = .ok r) : r.length ≤ xv.length - 1 := by
  by_cases hn : xv.length < 2
  · rw [splitStrictlyMonotone_short f xv tol m hn] at h
    cases h; simp
  · rw [splitStrictlyMonotone_eq f xv tol m hn] at h
    have := splitLoop_length_le _ _ _ _ _ _ _ _ _ _ h
    simpa using this

theorem splitTranslational_short (f g : AD α → AD α) (xv : List α) (tol : α) (m : Nat)
    (h : xv.length < 2) : splitTranslational f g xv tol m = .ok [] := by
  unfold splitTranslational
  simp only [if_pos h]

/-- the comparator of `split_translational` -/
def transCmp (xSign : α) : α → α → Ordering := fun p q =>
  if Num.lt zero (xSign * (p - q)) then .gt else if Num.lt (xSign * (p - q)) zero then .lt else .eq

/-- the direction sign as `split_translational` computes it (`first`/`last` of the slice) -/
def transSign (xv : List α) : α := signVal (xv.getLastD zero - xv.headD zero)

/-- a successful `split_translational` is: both `split_strictly_monotone` calls succeed, their
    results are concatenated, stably sorted by `transCmp`, and clustered -/
theorem splitTranslational_ok (f g : AD α → AD α) (xv : List α) (tol : α) (m : Nat) (res : List α)
    (hn : ¬ xv.length < 2) (h : splitTranslational f g xv tol m = .ok res) :
    ∃ fr gr, splitStrictlyMonotone f xv tol m = .ok fr ∧ splitStrictlyMonotone g xv tol m = .ok gr ∧
      res = clusterRoots tol (stableSort (transCmp (transSign xv)) (fr ++ gr)).toArray := by
  unfold splitTranslational at h
  simp only [if_neg hn] at h
  cases hf : splitStrictlyMonotone f xv tol m with
  | error e => rw [hf] at h; cases h
  | ok fr =>
    rw [hf] at h
    cases hg : splitStrictlyMonotone g xv tol m with
    | error e => rw [hg] at h; cases h
    | ok gr =>
      rw [hg] at h
      refine ⟨fr, gr, rfl, rfl, ?_⟩
      simp only [Except.ok.injEq] at h
      exact h.symm

end Structural

example : splitStrictlyMonotone cubic [0] (1 / 100) 50 = .ok [] := by decide +kernel
example : splitTranslational cubic sqr [0] (1 / 100) 50 = .ok [] := by decide +kernel
example : ([-692 / 1197, 692 / 1197] : List Rat).length ≤ grid9.length - 1 := by decide +kernel

/-! ## 6  where the split points lie (`Rat`) -/

/-- Hypothesis on the END-SHIFTED grid `xv' = shiftedGrid xv tol`, with `σ = gridSign xv = ±1`:
    the tolerance is non-negative and every cell has oriented width at least `tol`
    (in particular the shifted grid is monotone in the direction `σ`).  Needed because the repaired
    `step_off` probes at `x0 ± σ·tol` unconditionally. -/
def CellHyp (xv : List Rat) (tol : Rat) : Prop :=
  0 ≤ tol ∧ ∀ i, i < xv.length → 1 ≤ i →
    tol ≤ gridSign xv * ((shiftedGrid xv tol).getD i 0 - (shiftedGrid xv tol).getD (i - 1) 0)

instance (xv : List Rat) (tol : Rat) : Decidable (CellHyp xv tol) := by
  unfold CellHyp; infer_instance

theorem gridSign_pm (xv : List Rat) : gridSign xv = 1 ∨ gridSign xv = -1 := signVal_pm _

/-- Each returned split point is a point of the shifted grid, or a successful Brent result for the
    derivative on a bracket `[u, v]` whose ends lie in the closed cell `[xv'[i-1], xv'[i]]`, and then
    lies in that closed cell itself (oriented by `σ`: `InCell σ xl xr x := σ·xl ≤ σ·x ≤ σ·xr`). -/
theorem split_roots_in_cells (f : AD Rat → AD Rat) (xv : List Rat) (tol : Rat) (m : Nat)
    (res : List Rat) (hc : CellHyp xv tol) (h : splitStrictlyMonotone f xv tol m = .ok res) :
    ∀ r ∈ res,
      (∃ j, j < xv.length ∧ r = (shiftedGrid xv tol).getD j 0) ∨
      (∃ i u v, 1 ≤ i ∧ i < xv.length ∧
        InCell (gridSign xv) ((shiftedGrid xv tol).getD (i - 1) 0) ((shiftedGrid xv tol).getD i 0) u ∧
        InCell (gridSign xv) ((shiftedGrid xv tol).getD (i - 1) 0) ((shiftedGrid xv tol).getD i 0) v ∧
        findRootBrent u v (fun x => D1.df f x) tol m = .ok r ∧
        InCell (gridSign xv) ((shiftedGrid xv tol).getD (i - 1) 0) ((shiftedGrid xv tol).getD i 0) r) := by
  by_cases hn : xv.length < 2
  · rw [splitStrictlyMonotone_short f xv tol m hn] at h
    cases h; intro r hr; cases hr
  rw [splitStrictlyMonotone_eq f xv tol m hn] at h
  obtain ⟨h0, hcell⟩ := hc
  have hσ := gridSign_pm xv
  obtain ⟨i', roots', hP, rfl⟩ :=
    splitLoop_ok_inv
      (fun j rs => 1 ≤ j ∧ ∀ r ∈ rs,
        (∃ j, j < xv.length ∧ r = (shiftedGrid xv tol).getD j 0) ∨
        (∃ i u v, 1 ≤ i ∧ i < xv.length ∧
          InCell (gridSign xv) ((shiftedGrid xv tol).getD (i - 1) 0) ((shiftedGrid xv tol).getD i 0) u ∧
          InCell (gridSign xv) ((shiftedGrid xv tol).getD (i - 1) 0) ((shiftedGrid xv tol).getD i 0) v ∧
          findRootBrent u v (fun x => D1.df f x) tol m = .ok r ∧
          InCell (gridSign xv) ((shiftedGrid xv tol).getD (i - 1) 0) ((shiftedGrid xv tol).getD i 0) r))
      (fun j rs hP hj => ⟨by omega, fun r hr => by
        rw [shiftedGrid_size] at hj
        rcases List.mem_cons.mp hr with rfl | hr
        · exact Or.inl ⟨j - 1, by omega, rfl⟩
        · exact hP.2 r hr⟩)
      (fun j rs hP hj => ⟨by omega, fun r hr => by
        rw [shiftedGrid_size] at hj
        rcases List.mem_cons.mp hr with rfl | hr
        · exact Or.inl ⟨j, hj, rfl⟩
        · exact hP.2 r hr⟩)
      (fun j rs r' hP hj hbr => ⟨by omega, fun r hr => by
        rw [shiftedGrid_size] at hj
        rcases List.mem_cons.mp hr with rfl | hr
        · have hw := hcell j hj hP.1
          obtain ⟨hl, hr'⟩ := cell_ends_inCell f (shiftedGrid xv tol)
            ((shiftedGrid xv tol).map (fun x => D1.fdf f x)) j hσ h0 hw
          exact Or.inr ⟨j, _, _, hP.1, hj, hl, hr', hbr,
            brent_inCell f _ _ j m r hσ h0 hw hbr⟩
        · exact hP.2 r hr⟩)
      (fun j rs hP hj => ⟨by omega, hP.2⟩)
      (xv.length + 1) 1 [] ⟨le_refl _, fun r hr => by cases hr⟩ h
  intro r hr
  exact hP.2 r (List.mem_reverse.mp hr)

/-- every returned split point lies in some closed cell of the shifted grid -/
theorem split_roots_in_cells_simple (f : AD Rat → AD Rat) (xv : List Rat) (tol : Rat) (m : Nat)
    (res : List Rat) (hc : CellHyp xv tol) (h : splitStrictlyMonotone f xv tol m = .ok res) :
    ∀ r ∈ res, ∃ i, 1 ≤ i ∧ i < xv.length ∧
      InCell (gridSign xv) ((shiftedGrid xv tol).getD (i - 1) 0) ((shiftedGrid xv tol).getD i 0) r := by
  intro r hr
  have hlen : ¬ xv.length < 2 := by
    intro hn
    rw [splitStrictlyMonotone_short f xv tol m hn] at h
    cases h; cases hr
  rcases split_roots_in_cells f xv tol m res hc h r hr with ⟨j, hj, rfl⟩ | ⟨i, u, v, h1, h2, -, -, -, h3⟩
  · have hmono : ∀ i, 1 ≤ i → i < xv.length →
        gridSign xv * (shiftedGrid xv tol).getD (i - 1) 0 ≤ gridSign xv * (shiftedGrid xv tol).getD i 0 := by
      intro i h1 h2
      have := hc.2 i h2 h1
      have h0 := hc.1
      rw [mul_sub] at this
      linarith
    by_cases hj0 : j = 0
    · subst hj0
      exact ⟨1, le_refl _, by omega, ⟨le_refl _, hmono 1 (le_refl _) (by omega)⟩⟩
    · exact ⟨j, by omega, hj, ⟨hmono j (by omega) hj, le_refl _⟩⟩
  · exact ⟨i, h1, h2, h3⟩

/-- ORDERING.  Under `CellHyp` the split points are returned in the order of the grid: sorted with
    respect to `p ≼ q :⇔ σ·p ≤ σ·q`, `σ = gridSign xv` (cells are visited in grid order, `i` only
    increases).  Both grid directions are covered: `σ = 1` non-decreasing, `σ = -1` non-increasing. -/
theorem split_roots_sorted (f : AD Rat → AD Rat) (xv : List Rat) (tol : Rat) (m : Nat)
    (res : List Rat) (hc : CellHyp xv tol) (h : splitStrictlyMonotone f xv tol m = .ok res) :
    res.Pairwise (fun p q => gridSign xv * p ≤ gridSign xv * q) := by
  by_cases hn : xv.length < 2
  · rw [splitStrictlyMonotone_short f xv tol m hn] at h
    cases h; exact List.Pairwise.nil
  rw [splitStrictlyMonotone_eq f xv tol m hn] at h
  obtain ⟨h0, hcell⟩ := hc
  have hσ := gridSign_pm xv
  generalize hσd : gridSign xv = σ at *
  generalize hXd : shiftedGrid xv tol = X at *
  have hsz : X.size = xv.length := by rw [← hXd]; exact shiftedGrid_size xv tol
  have hstep : ∀ i, 1 ≤ i → i < xv.length → σ * X.getD (i - 1) 0 ≤ σ * X.getD i 0 := by
    intro i h1 h2
    have := hcell i h2 h1
    rw [mul_sub] at this
    linarith
  have hmono : ∀ (d i : Nat), i + d < xv.length → σ * X.getD i 0 ≤ σ * X.getD (i + d) 0 := by
    intro d
    induction d with
    | zero => intro i _; exact le_refl _
    | succ d ih =>
      intro i hi
      have h1 := ih i (by omega)
      have h2 := hstep (i + d + 1) (by omega) (by omega)
      have e : i + d + 1 - 1 = i + d := by omega
      rw [e] at h2
      exact le_trans h1 h2
  have hmono' : ∀ i j, i ≤ j → j < xv.length → σ * X.getD i 0 ≤ σ * X.getD j 0 := by
    intro i j hij hj
    obtain ⟨d, rfl⟩ := Nat.exists_eq_add_of_le hij
    exact hmono d i hj
  obtain ⟨i', roots', hP, rfl⟩ :=
    splitLoop_ok_inv
      (fun j rs => 1 ≤ j ∧ rs.Pairwise (fun p q => σ * q ≤ σ * p) ∧
        ∀ r ∈ rs, ∀ k, j - 1 ≤ k → k < xv.length → σ * r ≤ σ * X.getD k 0)
      (fun j rs hP hj => by
        rw [hsz] at hj
        obtain ⟨hj1, hpw, hub⟩ := hP
        refine ⟨by omega, List.pairwise_cons.mpr ⟨fun r hr => hub r hr (j - 1) (le_refl _) (by omega), hpw⟩, ?_⟩
        intro r hr k hk1 hk2
        rcases List.mem_cons.mp hr with rfl | hr
        · exact hmono' _ _ (by omega) hk2
        · exact hub r hr k (by omega) hk2)
      (fun j rs hP hj => by
        rw [hsz] at hj
        obtain ⟨hj1, hpw, hub⟩ := hP
        refine ⟨by omega, List.pairwise_cons.mpr ⟨fun r hr => hub r hr j (by omega) hj, hpw⟩, ?_⟩
        intro r hr k hk1 hk2
        rcases List.mem_cons.mp hr with rfl | hr
        · exact hmono' _ _ (by omega) hk2
        · exact hub r hr k (by omega) hk2)
      (fun j rs r' hP hj hbr => by
        rw [hsz] at hj
        obtain ⟨hj1, hpw, hub⟩ := hP
        have hin := brent_inCell f X (X.map (fun x => D1.fdf f x)) j m r' hσ h0 (hcell j hj hj1) hbr
        refine ⟨by omega, List.pairwise_cons.mpr ⟨fun r hr => ?_, hpw⟩, ?_⟩
        · exact le_trans (hub r hr (j - 1) (le_refl _) (by omega)) hin.1
        · intro r hr k hk1 hk2
          rcases List.mem_cons.mp hr with rfl | hr
          · exact le_trans hin.2 (hmono' _ _ (by omega) hk2)
          · exact hub r hr k (by omega) hk2)
      (fun j rs hP hj => ⟨by omega, hP.2.1, fun r hr k hk1 hk2 => hP.2.2 r hr k (by omega) hk2⟩)
      (xv.length + 1) 1 [] ⟨le_refl _, List.Pairwise.nil, fun r hr => by cases hr⟩ h
  exact List.pairwise_reverse.mpr hP.2.1

/-- increasing grid (last point not below the first): non-decreasing output -/
theorem split_roots_nondecreasing (f : AD Rat → AD Rat) (xv : List Rat) (tol : Rat) (m : Nat)
    (res : List Rat) (hc : CellHyp xv tol) (hdir : xv.headD 0 ≤ xv.getLastD 0) (hn : 2 ≤ xv.length)
    (h : splitStrictlyMonotone f xv tol m = .ok res) : res.Pairwise (· ≤ ·) := by
  have hs : gridSign xv = 1 := by
    unfold gridSign
    rw [signVal_rat, if_neg]
    rw [not_lt, sub_nonneg]
    have e1 : xv.toArray.getD 0 zero = xv.headD 0 := by
      cases xv with
      | nil => rfl
      | cons x xs => simp
    have e2 : xv.toArray.getD (xv.length - 1) zero = xv.getLastD 0 := by
      rw [List.getLastD_eq_getLast?, List.getLast?_eq_getElem?]
      simp [Array.getD_eq_getD_getElem?]
    rw [e1, e2]; exact hdir
  have := split_roots_sorted f xv tol m res hc h
  rw [hs] at this
  simpa using this

/-- decreasing grid (last point below the first): non-increasing output -/
theorem split_roots_nonincreasing (f : AD Rat → AD Rat) (xv : List Rat) (tol : Rat) (m : Nat)
    (res : List Rat) (hc : CellHyp xv tol) (hdir : xv.getLastD 0 < xv.headD 0)
    (h : splitStrictlyMonotone f xv tol m = .ok res) : res.Pairwise (· ≥ ·) := by
  have hs : gridSign xv = -1 := by
    unfold gridSign
    rw [signVal_rat, if_pos]
    rw [sub_neg]
    have e1 : xv.toArray.getD 0 zero = xv.headD 0 := by
      cases xv with
      | nil => rfl
      | cons x xs => simp
    have e2 : xv.toArray.getD (xv.length - 1) zero = xv.getLastD 0 := by
      rw [List.getLastD_eq_getLast?, List.getLast?_eq_getElem?]
      simp [Array.getD_eq_getD_getElem?]
    rw [e1, e2]; exact hdir
  have := split_roots_sorted f xv tol m res hc h
  rw [hs] at this
  refine this.imp ?_
  intro a b hab
  show b ≤ a
  linarith

/-- the entries of the shifted grid (at least two points) -/
theorem shiftedGrid_getD (xv : List Rat) (tol : Rat) (hn : 2 ≤ xv.length) (j : Nat) (hj : j < xv.length) :
    (shiftedGrid xv tol).getD j 0 =
      xv.getD j 0 + (if j = 0 then gridSign xv * tol else 0)
        - (if j = xv.length - 1 then gridSign xv * tol else 0) := by
  unfold shiftedGrid
  generalize gridSign xv = σ
  simp only [Array.getD_eq_getD_getElem?, Array.getElem?_setIfInBounds, List.size_toArray,
    List.getElem?_toArray, List.getD_eq_getElem?_getD, zero_eq]
  by_cases h0 : j = 0
  · subst h0
    have : ¬ (xv.length - 1 = 0) := by omega
    simp [this, hj]
    have : ¬ (0 = xv.length - 1) := by omega
    simp [this]
  · by_cases h1 : j = xv.length - 1
    · subst h1
      simp [h0]
      have hp : 0 < xv.length := by omega
      have hq : ¬ (0 = xv.length - 1) := by omega
      simp [hp, hq]
    · have h0' : ¬ (0 = j) := fun h => h0 h.symm
      have h1' : ¬ (xv.length - 1 = j) := fun h => h1 h.symm
      simp [h0, h1, h0', h1']

/-- SUFFICIENT CONDITION on the original grid: if every cell of `xv` has oriented width at least
    `3·tol` (`σ = gridSign xv`), the shifted ends stay ordered and `CellHyp` holds. -/
theorem cellHyp_of_gaps (xv : List Rat) (tol : Rat) (h0 : 0 ≤ tol)
    (hgap : ∀ i, i < xv.length → 1 ≤ i → 3 * tol ≤ gridSign xv * (xv.getD i 0 - xv.getD (i - 1) 0)) :
    CellHyp xv tol := by
  refine ⟨h0, fun i hi h1 => ?_⟩
  have hn : 2 ≤ xv.length := by omega
  rw [shiftedGrid_getD xv tol hn i hi, shiftedGrid_getD xv tol hn (i - 1) (by omega)]
  have hg := hgap i hi h1
  have e1 : ¬ (i = 0) := by omega
  have e2 : ¬ (i - 1 = xv.length - 1) := by omega
  rw [if_neg e1, if_neg e2]
  rcases gridSign_pm xv with hs | hs <;> rw [hs] at hg ⊢ <;> split_ifs <;> linarith

example : CellHyp grid9 (1 / 100) := by decide +kernel
example : CellHyp grid9.reverse (1 / 100) := by decide +kernel
example : gridSign grid9 = 1 ∧ gridSign grid9.reverse = -1 := by decide +kernel
/-- the two returned split points of `x³ - x` lie in the cells 3 and 6 of the shifted grid -/
example : InCell 1 (-1) (-1 / 2) (-692 / 1197) ∧ InCell 1 (1 / 2) 1 (692 / 1197) := by
  unfold InCell; decide +kernel
example : ([-692 / 1197, 692 / 1197] : List Rat).Pairwise (· ≤ ·) := by decide +kernel

/-! ## 7  sorting and clustering -/

section Sorting
variable {α : Type}

/-- the stable insertion sort returns a permutation of its input (every comparator) -/
theorem stableSort_perm (cmp : α → α → Ordering) (l : List α) : (stableSort cmp l).Perm l := by
  unfold stableSort
  simpa using foldl_insertSorted_perm cmp l []

/-- for a comparator whose `.lt` is the strict order of a key into a linear order (i.e. it comes from
    a total preorder) the output is sorted by the key -/
theorem stableSort_sorted {β : Type} [LinearOrder β] (cmp : α → α → Ordering) (key : α → β)
    (hcmp : ∀ p q, cmp p q = .lt ↔ key p < key q) (l : List α) :
    (stableSort cmp l).Pairwise (fun p q => key p ≤ key q) := by
  unfold stableSort
  exact foldl_insertSorted_sorted cmp key hcmp l [] List.Pairwise.nil

end Sorting

/-- the comparator of `split_translational` is the strict order of the key `σ·x` -/
theorem transCmp_lt_iff (σ p q : Rat) : transCmp σ p q = .lt ↔ σ * p < σ * q := by
  unfold transCmp
  simp only [lt_iff, zero_eq, mul_sub]
  split_ifs with h1 h2
  · constructor
    · intro h; cases h
    · intro h; linarith
  · constructor
    · intro _; linarith
    · intro _; rfl
  · constructor
    · intro h; cases h
    · intro h; linarith

theorem stableSort_transCmp_sorted (σ : Rat) (l : List Rat) :
    (stableSort (transCmp σ) l).Pairwise (fun p q => σ * p ≤ σ * q) :=
  stableSort_sorted (transCmp σ) (fun x => σ * x) (transCmp_lt_iff σ) l

example : stableSort (transCmp (1 : Rat)) [3, 1, 2, 1] = [1, 1, 2, 3] := by decide +kernel
example : stableSort (transCmp (-1 : Rat)) [3, 1, 2, 1] = [3, 2, 1, 1] := by decide +kernel

/-- CLUSTERS.  For `0 ≤ tol`, `clusterRoots tol m` is the list of the arithmetic means of the
    clusters `clusterGroups tol m.toList`; the clusters are consecutive non-empty pieces of the input
    (their concatenation is the input), and every member of a cluster lies within `2·tol` of the
    cluster's first member. -/
theorem cluster_width (tol : Rat) (m : Array Rat) (h0 : 0 ≤ tol) :
    clusterRoots tol m = (clusterGroups tol m.toList).map mean ∧
    (clusterGroups tol m.toList).flatten = m.toList ∧
    ∀ g ∈ clusterGroups tol m.toList, g ≠ [] ∧ ∀ x ∈ g, |x - g.headD 0| ≤ 2 * tol :=
  ⟨clusterRoots_eq_map_mean tol m, (clusterGroups_spec h0 m.toList).1, (clusterGroups_spec h0 m.toList).2⟩

theorem clusterRoots_length_le (tol : Rat) (m : Array Rat) (h0 : 0 ≤ tol) :
    (clusterRoots tol m).length ≤ m.size := by
  obtain ⟨e, hfl, hg⟩ := cluster_width tol m h0
  rw [e, List.length_map]
  have := length_le_of_nonempty _ (fun g hgm => (hg g hgm).1)
  rw [hfl, Array.length_toList] at this
  exact this

/-- every output value lies between any lower and upper bound of the input -/
theorem clusterRoots_mean_between (tol : Rat) (m : Array Rat) (h0 : 0 ≤ tol) (lo hi : Rat)
    (h : ∀ x ∈ m.toList, lo ≤ x ∧ x ≤ hi) : ∀ v ∈ clusterRoots tol m, lo ≤ v ∧ v ≤ hi := by
  obtain ⟨e, hfl, hg⟩ := cluster_width tol m h0
  intro v hv
  rw [e] at hv
  obtain ⟨g, hgm, rfl⟩ := List.mem_map.mp hv
  refine mean_bounds g lo hi (hg g hgm).1 (fun x hx => h x ?_)
  rw [← hfl]
  exact List.mem_flatten.mpr ⟨g, hgm, hx⟩

example : clusterRoots (1 / 10 : Rat) #[1, 11 / 10, 13 / 10, 2, 3] = [21 / 20, 13 / 10, 2, 3] := by
  decide +kernel
example : clusterGroups (1 / 10 : Rat) [1, 11 / 10, 13 / 10, 2, 3] = [[1, 11 / 10], [13 / 10], [2], [3]] := by
  decide +kernel
/-- `0 ≤ tol` is needed: for a negative tolerance an empty cluster is emitted first (its "mean" is
    `0/0`: `0` over `Rat`, NaN in binary64), the output is longer than the input and leaves its range -/
example : clusterRoots (-1 : Rat) #[1, 2, 3] = [0, 1, 2, 3] := by decide +kernel

/-- `split_translational` returns at most one value per cell and function -/
theorem splitTranslational_length_le (f g : AD Rat → AD Rat) (xv : List Rat) (tol : Rat) (m : Nat)
    (res : List Rat) (h0 : 0 ≤ tol) (h : splitTranslational f g xv tol m = .ok res) :
    res.length ≤ 2 * (xv.length - 1) := by
  by_cases hn : xv.length < 2
  · rw [splitTranslational_short f g xv tol m hn] at h
    cases h; simp
  · obtain ⟨fr, gr, hf, hg, rfl⟩ := splitTranslational_ok f g xv tol m res hn h
    have h1 := splitStrictlyMonotone_length_le f xv tol m fr hf
    have h2 := splitStrictlyMonotone_length_le g xv tol m gr hg
    have h3 := clusterRoots_length_le tol (stableSort (transCmp (transSign xv)) (fr ++ gr)).toArray h0
    have h4 := (stableSort_perm (transCmp (transSign xv)) (fr ++ gr)).length_eq
    simp only [List.size_toArray, List.length_append] at h3 h4
    omega

/-- every value returned by `split_translational` lies between bounds of the two root lists -/
theorem splitTranslational_between (f g : AD Rat → AD Rat) (xv : List Rat) (tol : Rat) (m : Nat)
    (res fr gr : List Rat) (h0 : 0 ≤ tol) (hf : splitStrictlyMonotone f xv tol m = .ok fr)
    (hg : splitStrictlyMonotone g xv tol m = .ok gr) (lo hi : Rat)
    (hb : ∀ x ∈ fr ++ gr, lo ≤ x ∧ x ≤ hi)
    (h : splitTranslational f g xv tol m = .ok res) : ∀ v ∈ res, lo ≤ v ∧ v ≤ hi := by
  by_cases hn : xv.length < 2
  · rw [splitTranslational_short f g xv tol m hn] at h
    cases h; intro v hv; cases hv
  · obtain ⟨fr', gr', hf', hg', rfl⟩ := splitTranslational_ok f g xv tol m res hn h
    rw [hf] at hf'; rw [hg] at hg'
    cases hf'; cases hg'
    refine clusterRoots_mean_between tol _ h0 lo hi (fun x hx => hb x ?_)
    exact (stableSort_perm (transCmp (transSign xv)) (fr ++ gr)).mem_iff.mp (by simpa using hx)

example : splitTranslational cubic sqr grid9 (1 / 100) 50 = .ok [-692 / 1197, 0, 692 / 1197] := by
  decide +kernel
/-- the same roots found twice are merged by the clustering -/
example : splitTranslational cubic cubic grid9 (1 / 100) 50 = .ok [-692 / 1197, 692 / 1197] := by
  decide +kernel

/-! ## 8  `is_monotonic_saddle` -/

/-- the sign as `Signed::sign_val` computes it over `Rat`: ZERO COUNTS AS POSITIVE -/
def sgn (y : Rat) : Rat := if y < 0 then -1 else 1

theorem signVal_eq_sgn (y : Rat) : signVal y = sgn y := signVal_rat y

/-- `is_monotonic_saddle f x tol` holds iff the derivative has the same sign (`sgn`, zero positive)
    at `x - tol` and at `x + tol`, and this is also the sign of the increment
    `f(x + tol) - f(x - tol)`.  Values and derivatives are those of the dual-number evaluation
    `D1.fdf f y = ((f ⟨y,1⟩).v, (f ⟨y,1⟩).d)`; the second component is `D1.df f y`. -/
theorem isMonotonicSaddle_iff (f : AD Rat → AD Rat) (x tol : Rat) :
    isMonotonicSaddle f x tol = true ↔
      sgn (D1.fdf f (x - tol)).2 = sgn (D1.fdf f (x + tol)).2 ∧
      sgn (D1.fdf f (x - tol)).2 = sgn ((D1.fdf f (x + tol)).1 - (D1.fdf f (x - tol)).1) := by
  unfold isMonotonicSaddle
  simp only [Bool.and_eq_true, beq_iff, signVal_eq_sgn]

example (f : AD Rat → AD Rat) (y : Rat) : (D1.fdf f y).2 = D1.df f y := rfl

theorem sgn_eq_iff (u v : Rat) : sgn u = sgn v ↔ (u < 0 ↔ v < 0) := by
  unfold sgn
  split_ifs with h1 h2 h2
  · simp [h1, h2]
  · simp [h1, h2]; norm_num
  · simp [h1, h2]; norm_num
  · simp [h1, h2]

/-- the same in terms of strict negativity -/
theorem isMonotonicSaddle_iff_neg (f : AD Rat → AD Rat) (x tol : Rat) :
    isMonotonicSaddle f x tol = true ↔
      ((D1.df f (x - tol) < 0 ↔ D1.df f (x + tol) < 0) ∧
       (D1.df f (x - tol) < 0 ↔ (D1.fdf f (x + tol)).1 - (D1.fdf f (x - tol)).1 < 0)) := by
  rw [isMonotonicSaddle_iff, sgn_eq_iff, sgn_eq_iff]
  rfl

example : isMonotonicSaddle cube 0 (1 / 100) = true := by decide +kernel
example : isMonotonicSaddle sqr 0 (1 / 100) = false := by decide +kernel
/-- zero counts as positive: the constant function (derivative `0`, increment `0`) is a "monotone
    saddle" everywhere -/
example : isMonotonicSaddle (fun _ => (⟨1, 0⟩ : AD Rat)) 0 (1 / 100) = true := by decide +kernel
/-- ... and so does a strict local minimum probed with `tol = 0` -/
example : isMonotonicSaddle sqr 0 0 = true := by decide +kernel

end Cav.C13Split
