/-
  C03, the two remaining clauses — THE TRIANGLES TILE THE EVEN-ODD REGION — for GENERAL VALID INPUT
  IN GENERAL POSITION (`ValidSet`, `Cav/Thm/C04General.lean`: simple polygons with pairwise
  disjoint boundaries, any nesting, not necessarily x-monotone, pairwise different vertex
  abscissae).  Everything below is PROVEN (axioms used: `propext`, `Classical.choice`,
  `Quot.sound`).

  MAIN THEOREM (`tiling_count`).  Membership of a point `q` is decided, for the region and for a
  triangle alike, by the parity of the number of edges / sides that a vertical ray going DOWN from
  `q` crosses (`Cav/Lemmas/GenOutInRayDefs.lean`):
    * `inRegionV R q` : the number `nBpt R q` of ring edges strictly below `q` is odd (the even-odd
      rule);
    * `inTriV q tr`   : the number of sides of `tr` strictly below `q` is odd;
    * `Generic R q`   : the abscissa of `q` is not the abscissa of a vertex.
  Then for every valid polygon set in general position

      ∃ T, sweepMon (toInput polys) = .ok (T, true) ∧
        ∀ q, Generic R q → T.countP (inTriV q ·) = if inRegionV R q then 1 else 0

  — EVERY point of the region (with a generic abscissa) lies in EXACTLY ONE triangle and every
  point outside the region in NONE.  (On a vertical line with a generic abscissa both notions are
  half-open sections `lower < q.2 ≤ upper`, so the identity has no exceptional points on such a
  line; the vertical lines through the vertices are a null set and are treated by closure /
  openness below.)

  COROLLARIES with the usual notions by orientation determinants (`StrictIn q tr`: all three
  determinants have the same strict sign; `ClosedIn q tr`: the same non-strict sign):
    * (I2) `triangles_inside`  : a point with a generic abscissa strictly inside an emitted triangle
      lies in the even-odd region;
    * (I3) `triangles_disjoint`: NO point whatsoever (generic or not) lies strictly inside two
      different emitted triangles (different positions in the output list) — the interiors are
      pairwise disjoint;
    * `region_covered`     : every point of the region with a generic abscissa lies in some closed
      emitted triangle.
  Since the interior of a triangle is open and the points with a generic abscissa are dense,
  `triangles_inside` says that every open triangle lies in the closure of the region.

  PROOF.  The bookkeeping of the area identity of `C03General.lean` uses of `cross` only its
  antisymmetry and the fact that the doubled area of a clockwise triangle `a b c` is
  `-(cross a b + cross b c + cross c a)`.  The strengthened invariant `XInvT`
  (`Cav/Lemmas/GenOutInDefs.lean`) therefore carries, for EVERY antisymmetric weight `ω` on pairs of
  points, the identity `Σ_{emitted t} muW ω t = wDoneW R ω xs + Σ_chains pathSumW ω`; it is
  preserved by all six kinds of events (`xbend_loT`, `xbend_hiT`, `xstart_properT`,
  `xstart_splitT`, `xend_closeT`, `xend_mergeT`, `Cav/Lemmas/GenOutInX*.lean`, copies of the steps
  of `XInv` with one more clause).  For `ω := beta q` ("the segment, walked from left to right,
  passes below `q`": `+1`, from right to left: `-1`) the measure of a clockwise triangle is the
  indicator of `q` (`mu_beta'`) and the total weight of the ring — lower boundary edges positive,
  upper ones negative — is the indicator of the region, because along a vertical line the
  crossing edges are alternately lower and upper boundary edges (`region_weight`, by a second
  pass over the sweep invariant slab by slab).
-/
import Cav.Lemmas.GenOutInTile
import Cav.Lemmas.GenOutInOpen

set_option linter.unusedSimpArgs false
set_option linter.unusedVariables false

namespace Cav.C03Tiling
open Cav Num Cav.Geo Cav.Sweep Cav.QuadGeom Cav.CvxEvents Cav.MonoGeom
open Cav.GenInv Cav.GenRing Cav.GenOutIn Cav.C04General

/-- two different positions of a list with the property: the count is at least two -/
theorem two_le_countP {β : Type} (p : β → Bool) : ∀ (l : List β) (i j : Nat) (hij : i < j)
    (hj : j < l.length), p (l[i]'(lt_trans hij hj)) = true → p (l[j]'hj) = true → 2 ≤ l.countP p
  | [], _, _, _, hj, _, _ => by simp at hj
  | a :: l, 0, j + 1, _, hj, hi, hjp => by
    simp only [List.getElem_cons_zero] at hi
    simp only [List.getElem_cons_succ] at hjp
    rw [List.countP_cons_of_pos hi]
    have : 0 < l.countP p := List.countP_pos_iff.mpr ⟨_, List.getElem_mem _, hjp⟩
    omega
  | a :: l, i + 1, j + 1, hij, hj, hi, hjp => by
    simp only [List.getElem_cons_succ] at hi hjp
    have := two_le_countP p l i j (by omega) (by simpa using hj) hi hjp
    rw [List.countP_cons]
    omega

/-- **THE TILING IDENTITY**: every point with a generic abscissa lies in exactly one emitted
    triangle if it lies in the even-odd region, and in none otherwise -/
theorem tiling_count (polys : List (Array (Rat × Rat))) (hv : ValidSet polys) :
    ∃ T, sweepMon (toInput polys) = .ok (T, true) ∧
      ∀ q : Rat × Rat, Generic (ringOf polys) q →
        T.countP (fun tr => decide (inTriV q tr)) = if inRegionV (ringOf polys) q then 1 else 0 :=
  GenOutIn.tiling_count polys hv

/-- **C03, containment, disjointness and covering for every valid polygon set in general
    position**, all clauses about one and the same result `T` of the model -/
theorem tiling (polys : List (Array (Rat × Rat))) (hv : ValidSet polys) :
    ∃ T : List Tri, sweepMon (toInput polys) = .ok (T, true) ∧
      -- the tiling identity (downward ray parity)
      (∀ q : Rat × Rat, Generic (ringOf polys) q →
        T.countP (fun tr => decide (inTriV q tr)) = if inRegionV (ringOf polys) q then 1 else 0) ∧
      -- (I2) the open triangles lie in the region
      (∀ tr ∈ T, ∀ q : Rat × Rat, Generic (ringOf polys) q → StrictIn q tr → inRegionV (ringOf polys) q) ∧
      -- (I3) the interiors are pairwise disjoint (all points)
      (∀ (i j : Nat) (hij : i < j) (hj : j < T.length) (q : Rat × Rat),
        ¬ (StrictIn q (T[i]'(lt_trans hij hj)) ∧ StrictIn q (T[j]'hj))) ∧
      -- the region is covered by the closed triangles
      (∀ q : Rat × Rat, Generic (ringOf polys) q → inRegionV (ringOf polys) q → ∃ tr ∈ T, ClosedIn q tr) := by
  obtain ⟨Tg, hrun, hneg, hvert, hcount⟩ := tiling_ghost polys hv
  -- the count on the result list
  have hT : ∀ q : Rat × Rat, Generic (ringOf polys) q →
      ((Tg.map GenOutIn.sq).reverse).countP (fun tr => decide (inTriV q tr)) =
        if inRegionV (ringOf polys) q then 1 else 0 := by
    intro q hq
    rw [← hcount q hq, List.countP_reverse, List.countP_map]
    apply List.countP_congr
    intro t _
    simp only [Function.comp, decide_eq_true_eq]
    exact inTriV_sq q t
  -- every result triangle is the sorted version of a ghost triple
  have hghost : ∀ tr ∈ (Tg.map GenOutIn.sq).reverse, ∃ t ∈ Tg, tr = GenOutIn.sq t := by
    intro tr htr
    obtain ⟨t, ht, rfl⟩ := List.mem_map.mp (List.mem_reverse.mp htr)
    exact ⟨t, ht, rfl⟩
  have hne : ∀ t ∈ Tg, ∀ q : Rat × Rat, Generic (ringOf polys) q →
      q.1 ≠ t.1.1 ∧ q.1 ≠ t.2.1.1 ∧ q.1 ≠ t.2.2.1 := by
    intro t ht q hq
    have key : ∀ a : Rat × Rat, a ∈ [t.1, t.2.1, t.2.2] → q.1 ≠ a.1 := by
      intro a ha
      obtain ⟨v, hv', hpt⟩ := hvert t ht a ha
      have := hq v hv'
      intro e
      apply this
      show ((ringOf polys).pt v).1 = q.1
      rw [hpt, e]
    exact ⟨key _ (by simp), key _ (by simp), key _ (by simp)⟩
  have hstrict : ∀ tr ∈ (Tg.map GenOutIn.sq).reverse, ∀ q : Rat × Rat, Generic (ringOf polys) q →
      StrictIn q tr → inTriV q tr := by
    intro tr htr q hq hs
    obtain ⟨t, ht, rfl⟩ := hghost tr htr
    obtain ⟨n1, n2, n3⟩ := hne t ht q hq
    exact StrictIn_inTriV (hneg t ht) n1 n2 n3 hs
  refine ⟨(Tg.map GenOutIn.sq).reverse, hrun, hT, ?_, ?_, ?_⟩
  · -- containment
    intro tr htr q hq hs
    have hin := hstrict tr htr q hq hs
    have hpos : 0 < ((Tg.map GenOutIn.sq).reverse).countP (fun tr => decide (inTriV q tr)) :=
      List.countP_pos_iff.mpr ⟨tr, htr, by simpa using hin⟩
    rw [hT q hq] at hpos
    by_contra hc
    rw [if_neg hc] at hpos
    exact lt_irrefl _ hpos
  · -- disjointness
    intro i j hij hj q ⟨h1, h2⟩
    have hmi := List.getElem_mem (lt_trans hij hj)
    have hmj := List.getElem_mem hj
    obtain ⟨t1, ht1, e1⟩ := hghost _ hmi
    obtain ⟨t2, ht2, e2⟩ := hghost _ hmj
    rw [e1] at h1
    rw [e2] at h2
    obtain ⟨q', hq', g1, g2⟩ := StrictIn_generic2 (ringOf polys) h1 h2
    rw [← e1] at g1
    rw [← e2] at g2
    have c1 := hstrict _ hmi q' hq' g1
    have c2 := hstrict _ hmj q' hq' g2
    have := two_le_countP (fun tr => decide (inTriV q' tr)) _ i j hij hj (by simpa using c1)
      (by simpa using c2)
    rw [hT q' hq'] at this
    split at this <;> omega
  · -- covering
    intro q hq hin
    have h1 := hT q hq
    rw [if_pos hin] at h1
    have hpos : 0 < ((Tg.map GenOutIn.sq).reverse).countP (fun tr => decide (inTriV q tr)) := by omega
    obtain ⟨tr, htr, hp⟩ := List.countP_pos_iff.mp hpos
    obtain ⟨t, ht, rfl⟩ := hghost tr htr
    obtain ⟨n1, n2, n3⟩ := hne t ht q hq
    exact ⟨_, htr, inTriV_ClosedIn (hneg t ht) n1 n2 n3 (by simpa using hp)⟩

/-- (I2) every point with a generic abscissa strictly inside an emitted triangle lies in the
    even-odd region -/
theorem triangles_inside (polys : List (Array (Rat × Rat))) (hv : ValidSet polys) :
    ∃ T : List Tri, sweepMon (toInput polys) = .ok (T, true) ∧
      ∀ tr ∈ T, ∀ q : Rat × Rat, Generic (ringOf polys) q → StrictIn q tr → inRegionV (ringOf polys) q :=
  let ⟨T, h, _, h2, _, _⟩ := tiling polys hv
  ⟨T, h, h2⟩

/-- (I3) **the interiors of the emitted triangles are pairwise disjoint**: no point lies strictly
    inside two triangles at different positions of the output -/
theorem triangles_disjoint (polys : List (Array (Rat × Rat))) (hv : ValidSet polys) :
    ∃ T : List Tri, sweepMon (toInput polys) = .ok (T, true) ∧
      ∀ (i j : Nat) (hij : i < j) (hj : j < T.length) (q : Rat × Rat),
        ¬ (StrictIn q (T[i]'(lt_trans hij hj)) ∧ StrictIn q (T[j]'hj)) :=
  let ⟨T, h, _, _, h3, _⟩ := tiling polys hv
  ⟨T, h, h3⟩

/-- every point of the even-odd region with a generic abscissa lies in a closed emitted triangle -/
theorem region_covered (polys : List (Array (Rat × Rat))) (hv : ValidSet polys) :
    ∃ T : List Tri, sweepMon (toInput polys) = .ok (T, true) ∧
      ∀ q : Rat × Rat, Generic (ringOf polys) q → inRegionV (ringOf polys) q → ∃ tr ∈ T, ClosedIn q tr :=
  let ⟨T, h, _, _, _, h4⟩ := tiling polys hv
  ⟨T, h, h4⟩

/-! ### non-vacuity: the example sets of `C04General.lean`, sample points evaluated by the kernel,
    and the theorem applied -/

/-- number of emitted triangles containing `q` (downward ray parity) -/
def hits (polys : List (Array (Rat × Rat))) (q : Rat × Rat) : Nat :=
  match sweepMon (toInput polys) with
  | .ok (T, _) => T.countP (fun tr => decide (inTriV q tr))
  | .error _ => 0

-- the quadrilateral with a triangular hole: a point of the region, a point in the hole, a point
-- outside; all three have generic abscissae
example : (∀ v, v < (ringOf Holed).n → (ringOf Holed).x v ≠ (2 : Rat)) ∧ inRegionV (ringOf Holed) (2, 2) ∧
    hits Holed (2, 2) = 1 := by decide +kernel
example : (∀ v, v < (ringOf Holed).n → (ringOf Holed).x v ≠ (9 / 2 : Rat)) ∧
    ¬ inRegionV (ringOf Holed) (9 / 2, 4) ∧ hits Holed (9 / 2, 4) = 0 := by decide +kernel
example : ¬ inRegionV (ringOf Holed) (2, 20) ∧ hits Holed (2, 20) = 0 := by decide +kernel
-- the island in the hole: region, hole, island
example : inRegionV (ringOf Island) (3 / 2, 5) ∧ hits Island (3 / 2, 5) = 1 := by decide +kernel
example : ¬ inRegionV (ringOf Island) (4, 4) ∧ hits Island (4, 4) = 0 := by decide +kernel
example : inRegionV (ringOf Island) (6, 5) ∧ hits Island (6, 5) = 1 := by decide +kernel
-- the polygons that are not x-monotone
example : inRegionV (ringOf SplitP) (7, 1) ∧ hits SplitP (7, 1) = 1 ∧
    ¬ inRegionV (ringOf SplitP) (8, 4) ∧ hits SplitP (8, 4) = 0 := by decide +kernel
example : inRegionV (ringOf MergeP) (3, 2) ∧ hits MergeP (3, 2) = 1 ∧
    ¬ inRegionV (ringOf MergeP) (2, 4) ∧ hits MergeP (2, 4) = 0 := by decide +kernel
example : inRegionV (ringOf TwoTri) (3, 1) ∧ hits TwoTri (3, 1) = 1 ∧ hits TwoTri (3, 4) = 0 := by
  decide +kernel

-- the theorems instantiated
example : ∃ T, sweepMon (toInput Island) = .ok (T, true) ∧
    ∀ q : Rat × Rat, Generic (ringOf Island) q →
      T.countP (fun tr => decide (inTriV q tr)) = if inRegionV (ringOf Island) q then 1 else 0 :=
  tiling_count Island (by decide +kernel)
example : ∃ T : List Tri, sweepMon (toInput Holed) = .ok (T, true) ∧
    ∀ (i j : Nat) (hij : i < j) (hj : j < T.length) (q : Rat × Rat),
      ¬ (StrictIn q (T[i]'(lt_trans hij hj)) ∧ StrictIn q (T[j]'hj)) :=
  triangles_disjoint Holed (by decide +kernel)
example : ∃ T : List Tri, sweepMon (toInput MergeP) = .ok (T, true) ∧
    ∀ tr ∈ T, ∀ q : Rat × Rat, Generic (ringOf MergeP) q → StrictIn q tr → inRegionV (ringOf MergeP) q :=
  triangles_inside MergeP (by decide +kernel)

end Cav.C03Tiling
