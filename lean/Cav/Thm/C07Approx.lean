/-
  C07 (accuracy clause, approximable class) — "each display piece reports `∫ f dg` over the
  piece within the reported estimate/tolerance", beyond polynomial data.

  `Thm/C07Accuracy.lean` proves the clause when `f` and `g` (resp. `c`) are polynomials.  Here
  `f, g, c : AD Rat → AD Rat` are ARBITRARY closures.  The integrand the quadrature sees on a
  piece is the computed function `x ↦ D1.f f x * D1.df g x` (`Thm/C07.lean`), with `g` the given
  integrator (RS display) or `g = cavG f c (c 0)`, i.e. `g(x) = x − c(f(x)) + c(0)` (Cavalieri
  display).  All that is assumed about it is that it stays close to a polynomial of degree ≤ 31
  on the piece (`Thm/C01Approx.lean`).

  (L1) `rs_piece_accuracy_approx`   (L2) `cav_piece_accuracy_approx`     — rational form
  (L3) `rs_piece_accuracy_real`, `cav_piece_accuracy_real`               — against `∫ Φ`
  (L4) `rs_total_accuracy_real`, `cav_total_accuracy_real`, `rs_integral_pieces_sum_real`,
       `cav_integral_pieces_sum_real`; uniform bound under the direction hypothesis:
       `rs_total_accuracy_real_uniform`, `cav_total_accuracy_real_uniform`
  (L5) a concrete run with a non-polynomial integrand, `δ > 0`

  Definitions: `evalPoly`, `evalPolyR`, `absPolyAt`, `exactInt` (`Thm/C01.lean`,
  `Lemmas/QuadPoly.lean`); `kronrodW` = sum of the absolute Kronrod weights `≤ 2 + 1e-16`
  (`Lemmas/AccApprox.lean`); `reportedValue` (`Thm/C07Accuracy.lean`); `pieceBoundApprox`,
  `pieceBoundR` (`Lemmas/AccApproxDisp.lean`, restated below as `pieceBoundApprox_eq`,
  `pieceBoundR_eq`).

  Model path: `genDisplayRs`, `genDisplayCav`, `rsPiece`, `pieceInteg`, `cavG`, `gk1d`.
-/
import Cav.Lemmas.AccApproxDisp
import Cav.Lemmas.AccApproxDispEx

namespace Cav.C07Approx
open Cav Num Gen Cav.C01 Cav.C01Approx Cav.C07Accuracy

/-- the rational bound of a piece, spelled out -/
theorem pieceBoundApprox_eq (cs : List Rat) (δ a b : Rat) :
    pieceBoundApprox cs δ a b =
      |(b - a) / 2| * (1 / 10 ^ 16 * absPolyAt cs (max |a| |b|) + kronrodW * δ) := rfl

/-- the real bound of a piece, spelled out -/
theorem pieceBoundR_eq (cs : List Rat) (ε η : ℝ) (a b : Rat) :
    pieceBoundR cs ε η a b =
      |((b : ℝ) - a) / 2| * (1 / 10 ^ 16 * ((absPolyAt cs (max |a| |b|) : Rat) : ℝ) +
        (kronrodW : ℝ) * (ε + η)) + |(b : ℝ) - a| * ε := rfl

/-! ## (L1) Riemann–Stieltjes display, rational form -/

/-- **(L1)**  ARBITRARY closures `f`, `g`.  Let `d` be a piece of a successful `gen_display_rs`
    run carrying the value `(v, e)`, with `d.a ≠ d.b`, and let the computed integrand
    `x ↦ f(x)·g'(x)` (`D1.f f x * D1.df g x`) be within `δ` of a polynomial `cs` of degree ≤ 31
    at every rational point of the piece.  Then `v` is within
    `|d.b−d.a|/2 · (1e-16 · Σ_k |cs[k]|·max(|d.a|,|d.b|)^k + W·δ)` of the exact integral of the
    polynomial over the piece, and the reported estimate satisfies `0 ≤ e < tol`. -/
theorem rs_piece_accuracy_approx (f g : AD Rat → AD Rat) (ivs : List (Rat × Rat))
    (cfg : Cfg2D Rat) (ds : List (Disp2D Rat)) (h : genDisplayRs f g ivs cfg = .ok ds)
    (d : Disp2D Rat) (hd : d ∈ ds) (v e : Rat) (hv : d.integ = some (v, e))
    (cs : List Rat) (hdeg : cs.length ≤ 32) (hab : d.a ≠ d.b) (δ : Rat)
    (hδ : ∀ x, min d.a d.b ≤ x → x ≤ max d.a d.b →
      |D1.f f x * D1.df g x - evalPoly cs x| ≤ δ) :
    |v - exactInt cs d.a d.b| ≤
        |(d.b - d.a) / 2| * (1 / 10 ^ 16 * absPolyAt cs (max |d.a| |d.b|) + kronrodW * δ) ∧
      e < cfg.tol ∧ 0 ≤ e :=
  gk1d_approx_accuracy_rat cs hdeg _ d.a d.b cfg.tol δ _ v e hab hδ
    (rs_piece_gk1d_any f g ivs cfg ds h d hd (v, e) hv)

/-- **(L1)**, every piece including degenerate ones (`d.a = d.b`: the piece reports `(0, 0)`,
    no hypothesis on the integrand is needed, and `e < tol` holds iff `0 < tol`) -/
theorem rs_piece_accuracy_approx_all (f g : AD Rat → AD Rat) (ivs : List (Rat × Rat))
    (cfg : Cfg2D Rat) (ds : List (Disp2D Rat)) (h : genDisplayRs f g ivs cfg = .ok ds)
    (d : Disp2D Rat) (hd : d ∈ ds) (v e : Rat) (hv : d.integ = some (v, e))
    (cs : List Rat) (hdeg : cs.length ≤ 32) (δ : Rat)
    (hδ : d.a ≠ d.b → ∀ x, min d.a d.b ≤ x → x ≤ max d.a d.b →
      |D1.f f x * D1.df g x - evalPoly cs x| ≤ δ) :
    |v - exactInt cs d.a d.b| ≤
        |(d.b - d.a) / 2| * (1 / 10 ^ 16 * absPolyAt cs (max |d.a| |d.b|) + kronrodW * δ) ∧
      0 ≤ e ∧ ((d.a ≠ d.b ∨ 0 < cfg.tol) → e < cfg.tol) :=
  gk1d_approx_piece cs hdeg _ d.a d.b cfg.tol δ _ v e hδ
    (rs_piece_gk1d_any f g ivs cfg ds h d hd (v, e) hv)

/-! ## (L2) Cavalieri display, rational form -/

/-- **(L2)**  ARBITRARY closures `f`, `c`; the integrator is the closure the source builds,
    `g = cavG f c (c 0)`, i.e. `g(x) = x − c(f(x)) + c(0)`.  Same statement as (L1) for a piece
    of a successful `gen_display_cav` run. -/
theorem cav_piece_accuracy_approx (f c : AD Rat → AD Rat) (ivs : List (Rat × Rat))
    (cfg : Cfg2D Rat) (ds : List (Disp2D Rat)) (h : genDisplayCav f c ivs cfg = .ok ds)
    (d : Disp2D Rat) (hd : d ∈ ds) (v e : Rat) (hv : d.integ = some (v, e))
    (cs : List Rat) (hdeg : cs.length ≤ 32) (hab : d.a ≠ d.b) (δ : Rat)
    (hδ : ∀ x, min d.a d.b ≤ x → x ≤ max d.a d.b →
      |D1.f f x * D1.df (cavG f c (D1.f c zero)) x - evalPoly cs x| ≤ δ) :
    |v - exactInt cs d.a d.b| ≤
        |(d.b - d.a) / 2| * (1 / 10 ^ 16 * absPolyAt cs (max |d.a| |d.b|) + kronrodW * δ) ∧
      e < cfg.tol ∧ 0 ≤ e :=
  gk1d_approx_accuracy_rat cs hdeg _ d.a d.b cfg.tol δ _ v e hab hδ
    (cav_piece_gk1d_any f c ivs cfg ds h d hd (v, e) hv)

/-- **(L2)**, every piece including degenerate ones -/
theorem cav_piece_accuracy_approx_all (f c : AD Rat → AD Rat) (ivs : List (Rat × Rat))
    (cfg : Cfg2D Rat) (ds : List (Disp2D Rat)) (h : genDisplayCav f c ivs cfg = .ok ds)
    (d : Disp2D Rat) (hd : d ∈ ds) (v e : Rat) (hv : d.integ = some (v, e))
    (cs : List Rat) (hdeg : cs.length ≤ 32) (δ : Rat)
    (hδ : d.a ≠ d.b → ∀ x, min d.a d.b ≤ x → x ≤ max d.a d.b →
      |D1.f f x * D1.df (cavG f c (D1.f c zero)) x - evalPoly cs x| ≤ δ) :
    |v - exactInt cs d.a d.b| ≤
        |(d.b - d.a) / 2| * (1 / 10 ^ 16 * absPolyAt cs (max |d.a| |d.b|) + kronrodW * δ) ∧
      0 ≤ e ∧ ((d.a ≠ d.b ∨ 0 < cfg.tol) → e < cfg.tol) :=
  gk1d_approx_piece cs hdeg _ d.a d.b cfg.tol δ _ v e hδ
    (cav_piece_gk1d_any f c ivs cfg ds h d hd (v, e) hv)

/-! ## (L3) against the true integral -/

/-- **(L3), RS**  `Φ : ℝ → ℝ` continuous stands for the TRUE integrand `x ↦ f(x)·g'(x)`.
    (Remark, not proved here: when `g` is continuously differentiable, `∫_{d.a}^{d.b} Φ` IS the
    Riemann–Stieltjes integral `∫ f dg` over the piece.)  Assume `Φ` is within `ε` of a real
    polynomial `cs` of degree ≤ 31 on the real piece, and the integrand as computed by the
    closures is within `η` of `Φ` at every rational point of the piece (`η` = rounding and
    evaluation error of `f` and `g'`).  Then the value `v` carried by the piece satisfies
    `|v − ∫_{d.a}^{d.b} Φ| ≤ |d.b−d.a|/2·(1e-16·Σ_k|cs[k]|·max(|d.a|,|d.b|)^k + W·(ε+η)) + |d.b−d.a|·ε`
    and the reported estimate satisfies `0 ≤ e < tol`. -/
theorem rs_piece_accuracy_real (f g : AD Rat → AD Rat) (ivs : List (Rat × Rat))
    (cfg : Cfg2D Rat) (ds : List (Disp2D Rat)) (h : genDisplayRs f g ivs cfg = .ok ds)
    (d : Disp2D Rat) (hd : d ∈ ds) (v e : Rat) (hv : d.integ = some (v, e))
    (cs : List Rat) (hdeg : cs.length ≤ 32) (hab : d.a ≠ d.b)
    (Φ : ℝ → ℝ) (hΦc : Continuous Φ) (ε η : ℝ)
    (hΦ : ∀ x ∈ Set.uIcc (d.a : ℝ) (d.b : ℝ), |Φ x - evalPolyR cs x| ≤ ε)
    (hη : ∀ x : Rat, min d.a d.b ≤ x → x ≤ max d.a d.b →
      |((D1.f f x * D1.df g x : Rat) : ℝ) - Φ (x : ℝ)| ≤ η) :
    |(v : ℝ) - ∫ x in (d.a : ℝ)..(d.b : ℝ), Φ x| ≤
        |((d.b : ℝ) - d.a) / 2| * (1 / 10 ^ 16 * ((absPolyAt cs (max |d.a| |d.b|) : Rat) : ℝ) +
          (kronrodW : ℝ) * (ε + η)) + |(d.b : ℝ) - d.a| * ε ∧
      e < cfg.tol ∧ 0 ≤ e :=
  gk1d_approx_accuracy_continuous cs hdeg Φ hΦc _ d.a d.b cfg.tol ε η _ v e hab hΦ hη
    (rs_piece_gk1d_any f g ivs cfg ds h d hd (v, e) hv)

/-- **(L3), Cavalieri**  the same with the integrator `g(x) = x − c(f(x)) + c(0)` built by the
    source (`cavG f c (c 0)`); `Φ` stands for `x ↦ f(x)·g'(x) = f(x)·(1 − c'(f(x))·f'(x))`, and
    `∫ Φ` over the piece is the Cavalieri integral `∫ f dg` of the piece when `f`, `c` are
    continuously differentiable (remark, not proved here). -/
theorem cav_piece_accuracy_real (f c : AD Rat → AD Rat) (ivs : List (Rat × Rat))
    (cfg : Cfg2D Rat) (ds : List (Disp2D Rat)) (h : genDisplayCav f c ivs cfg = .ok ds)
    (d : Disp2D Rat) (hd : d ∈ ds) (v e : Rat) (hv : d.integ = some (v, e))
    (cs : List Rat) (hdeg : cs.length ≤ 32) (hab : d.a ≠ d.b)
    (Φ : ℝ → ℝ) (hΦc : Continuous Φ) (ε η : ℝ)
    (hΦ : ∀ x ∈ Set.uIcc (d.a : ℝ) (d.b : ℝ), |Φ x - evalPolyR cs x| ≤ ε)
    (hη : ∀ x : Rat, min d.a d.b ≤ x → x ≤ max d.a d.b →
      |((D1.f f x * D1.df (cavG f c (D1.f c zero)) x : Rat) : ℝ) - Φ (x : ℝ)| ≤ η) :
    |(v : ℝ) - ∫ x in (d.a : ℝ)..(d.b : ℝ), Φ x| ≤
        |((d.b : ℝ) - d.a) / 2| * (1 / 10 ^ 16 * ((absPolyAt cs (max |d.a| |d.b|) : Rat) : ℝ) +
          (kronrodW : ℝ) * (ε + η)) + |(d.b : ℝ) - d.a| * ε ∧
      e < cfg.tol ∧ 0 ≤ e :=
  gk1d_approx_accuracy_continuous cs hdeg Φ hΦc _ d.a d.b cfg.tol ε η _ v e hab hΦ hη
    (cav_piece_gk1d_any f c ivs cfg ds h d hd (v, e) hv)

/-! ## (L4) totals over one interval `[a,b]` -/

/-- the integrals of a continuous `Φ` over the pieces of an RS display of `[a,b]` add up to
    `∫_a^b Φ` -/
theorem rs_integral_pieces_sum_real (f g : AD Rat → AD Rat) (a b : Rat) (cfg : Cfg2D Rat)
    (ds : List (Disp2D Rat)) (h : genDisplayRs f g [(a, b)] cfg = .ok ds)
    (Φ : ℝ → ℝ) (hΦc : Continuous Φ) :
    (ds.map (fun d => ∫ x in (d.a : ℝ)..(d.b : ℝ), Φ x)).sum = ∫ x in (a : ℝ)..(b : ℝ), Φ x := by
  have := chain_integral_sum Φ hΦc a b _ (C13.rs_pieces_isChain f g a b cfg ds h)
  simpa [C13.ends, List.map_map, Function.comp_def] using this

/-- the same for the Cavalieri display -/
theorem cav_integral_pieces_sum_real (f c : AD Rat → AD Rat) (a b : Rat) (cfg : Cfg2D Rat)
    (ds : List (Disp2D Rat)) (h : genDisplayCav f c [(a, b)] cfg = .ok ds)
    (Φ : ℝ → ℝ) (hΦc : Continuous Φ) :
    (ds.map (fun d => ∫ x in (d.a : ℝ)..(d.b : ℝ), Φ x)).sum = ∫ x in (a : ℝ)..(b : ℝ), Φ x := by
  have := chain_integral_sum Φ hΦc a b _ (C11.cav_pieces_isChain f c a b cfg ds h)
  simpa [C11.ends, List.map_map, Function.comp_def] using this

/-- **(L4), RS**  one interval `[a,b]`, integration on, the same `Φ`, `cs`, `ε`, `η` on every
    piece (hypotheses of (L3) on each non-degenerate piece).  The values reported on the pieces
    add up to `∫_a^b Φ` within the sum of the piece bounds:
    `|Σ_k v_k − ∫_a^b Φ| ≤ Σ_k pieceBoundR cs ε η a_k b_k`. -/
theorem rs_total_accuracy_real (f g : AD Rat → AD Rat) (a b : Rat) (cfg : Cfg2D Rat)
    (ds : List (Disp2D Rat)) (h : genDisplayRs f g [(a, b)] cfg = .ok ds)
    (hc : cfg.computeInteg = true) (cs : List Rat) (hdeg : cs.length ≤ 32)
    (Φ : ℝ → ℝ) (hΦc : Continuous Φ) (ε η : ℝ)
    (hΦ : ∀ d ∈ ds, d.a ≠ d.b →
      ∀ x ∈ Set.uIcc (d.a : ℝ) (d.b : ℝ), |Φ x - evalPolyR cs x| ≤ ε)
    (hη : ∀ d ∈ ds, d.a ≠ d.b → ∀ x : Rat, min d.a d.b ≤ x → x ≤ max d.a d.b →
      |((D1.f f x * D1.df g x : Rat) : ℝ) - Φ (x : ℝ)| ≤ η) :
    |(((ds.map reportedValue).sum : Rat) : ℝ) - ∫ x in (a : ℝ)..(b : ℝ), Φ x| ≤
      (ds.map (fun d => pieceBoundR cs ε η d.a d.b)).sum := by
  refine total_of_pieces_real Φ hΦc a b ds (C13.rs_pieces_isChain f g a b cfg ds h) _
    (fun d hd => ?_)
  obtain ⟨⟨v, e⟩, hv, hg⟩ := C07.rs_piece_integ_is_gk1d _ _ _ _ _ h d hd hc
  rw [reportedValue_eq hv]
  exact (gk1d_approx_piece_real cs hdeg Φ hΦc _ d.a d.b cfg.tol ε η _ v e (hΦ d hd) (hη d hd)
    hg).1

/-- **(L4), Cavalieri** -/
theorem cav_total_accuracy_real (f c : AD Rat → AD Rat) (a b : Rat) (cfg : Cfg2D Rat)
    (ds : List (Disp2D Rat)) (h : genDisplayCav f c [(a, b)] cfg = .ok ds)
    (hc : cfg.computeInteg = true) (cs : List Rat) (hdeg : cs.length ≤ 32)
    (Φ : ℝ → ℝ) (hΦc : Continuous Φ) (ε η : ℝ)
    (hΦ : ∀ d ∈ ds, d.a ≠ d.b →
      ∀ x ∈ Set.uIcc (d.a : ℝ) (d.b : ℝ), |Φ x - evalPolyR cs x| ≤ ε)
    (hη : ∀ d ∈ ds, d.a ≠ d.b → ∀ x : Rat, min d.a d.b ≤ x → x ≤ max d.a d.b →
      |((D1.f f x * D1.df (cavG f c (D1.f c zero)) x : Rat) : ℝ) - Φ (x : ℝ)| ≤ η) :
    |(((ds.map reportedValue).sum : Rat) : ℝ) - ∫ x in (a : ℝ)..(b : ℝ), Φ x| ≤
      (ds.map (fun d => pieceBoundR cs ε η d.a d.b)).sum := by
  refine total_of_pieces_real Φ hΦc a b ds (C11.cav_pieces_isChain f c a b cfg ds h) _
    (fun d hd => ?_)
  obtain ⟨⟨v, e⟩, hv, hg⟩ := C07.piece_integ_is_gk1d _ _ _ _ _ h d hd hc
  rw [reportedValue_eq hv]
  exact (gk1d_approx_piece_real cs hdeg Φ hΦc _ d.a d.b cfg.tol ε η _ v e (hΦ d hd) (hη d hd)
    hg).1

/-! ### a uniform bound (extra hypothesis: the pieces run in the direction of `[a,b]`)

Under the direction hypothesis (`C02.Directed`, as in `Thm/C07Accuracy.lean`) every piece lies
in `[a,b]`, so it suffices to assume the closeness hypotheses ON `[a,b]`, and the piece bounds
add up to at most the bound of the whole interval. -/

/-- **(L4), RS, uniform**  hypotheses on `[a,b]` only:
    `|Σ_k v_k − ∫_a^b Φ| ≤ |b−a|/2·(1e-16·Σ_k|cs[k]|·max(|a|,|b|)^k + W·(ε+η)) + |b−a|·ε` -/
theorem rs_total_accuracy_real_uniform (f g : AD Rat → AD Rat) (a b : Rat) (hab : a ≠ b)
    (cfg : Cfg2D Rat) (ds : List (Disp2D Rat)) (h : genDisplayRs f g [(a, b)] cfg = .ok ds)
    (hc : cfg.computeInteg = true) (cs : List Rat) (hdeg : cs.length ≤ 32)
    (Φ : ℝ → ℝ) (hΦc : Continuous Φ) (ε η : ℝ)
    (hΦ : ∀ x ∈ Set.uIcc (a : ℝ) (b : ℝ), |Φ x - evalPolyR cs x| ≤ ε)
    (hη : ∀ x : Rat, min a b ≤ x → x ≤ max a b →
      |((D1.f f x * D1.df g x : Rat) : ℝ) - Φ (x : ℝ)| ≤ η)
    (hdir : C02.Directed a b (C13.ends ds)) :
    |(((ds.map reportedValue).sum : Rat) : ℝ) - ∫ x in (a : ℝ)..(b : ℝ), Φ x| ≤
      |((b : ℝ) - a) / 2| * (1 / 10 ^ 16 * ((absPolyAt cs (max |a| |b|) : Rat) : ℝ) +
        (kronrodW : ℝ) * (ε + η)) + |(b : ℝ) - a| * ε := by
  have hch := C13.rs_pieces_isChain f g a b cfg ds h
  have hmem : ∀ d ∈ ds, (d.a, d.b) ∈ C13.ends ds := fun d hd => List.mem_map.mpr ⟨d, hd, rfl⟩
  refine le_trans (rs_total_accuracy_real f g a b cfg ds h hc cs hdeg Φ hΦc ε η
    (fun d hd _ x hx => hΦ x (chain_piece_uIcc hch hdir hab _ (hmem d hd) hx))
    (fun d hd _ x hx1 hx2 => ?_)) ?_
  · obtain ⟨h1, h2⟩ := chain_piece_hull hch hdir hab _ (hmem d hd)
    exact hη x (le_trans h1 hx1) (le_trans hx2 h2)
  · have := pieceBoundR_sum_le cs ε η a b hab _ hch hdir
    simpa [C13.ends, List.map_map, Function.comp_def, pieceBoundR_eq] using this

/-- **(L4), Cavalieri, uniform** -/
theorem cav_total_accuracy_real_uniform (f c : AD Rat → AD Rat) (a b : Rat) (hab : a ≠ b)
    (cfg : Cfg2D Rat) (ds : List (Disp2D Rat)) (h : genDisplayCav f c [(a, b)] cfg = .ok ds)
    (hc : cfg.computeInteg = true) (cs : List Rat) (hdeg : cs.length ≤ 32)
    (Φ : ℝ → ℝ) (hΦc : Continuous Φ) (ε η : ℝ)
    (hΦ : ∀ x ∈ Set.uIcc (a : ℝ) (b : ℝ), |Φ x - evalPolyR cs x| ≤ ε)
    (hη : ∀ x : Rat, min a b ≤ x → x ≤ max a b →
      |((D1.f f x * D1.df (cavG f c (D1.f c zero)) x : Rat) : ℝ) - Φ (x : ℝ)| ≤ η)
    (hdir : C02.Directed a b (C11.ends ds)) :
    |(((ds.map reportedValue).sum : Rat) : ℝ) - ∫ x in (a : ℝ)..(b : ℝ), Φ x| ≤
      |((b : ℝ) - a) / 2| * (1 / 10 ^ 16 * ((absPolyAt cs (max |a| |b|) : Rat) : ℝ) +
        (kronrodW : ℝ) * (ε + η)) + |(b : ℝ) - a| * ε := by
  have hch := C11.cav_pieces_isChain f c a b cfg ds h
  have hmem : ∀ d ∈ ds, (d.a, d.b) ∈ C11.ends ds := fun d hd => List.mem_map.mpr ⟨d, hd, rfl⟩
  refine le_trans (cav_total_accuracy_real f c a b cfg ds h hc cs hdeg Φ hΦc ε η
    (fun d hd _ x hx => hΦ x (chain_piece_uIcc hch hdir hab _ (hmem d hd) hx))
    (fun d hd _ x hx1 hx2 => ?_)) ?_
  · obtain ⟨h1, h2⟩ := chain_piece_hull hch hdir hab _ (hmem d hd)
    exact hη x (le_trans h1 hx1) (le_trans hx2 h2)
  · have := pieceBoundR_sum_le cs ε η a b hab _ hch hdir
    simpa [C11.ends, List.map_map, Function.comp_def, pieceBoundR_eq] using this

/-! ## (L5) non-vacuity: a concrete run with a non-polynomial integrand, `δ > 0`

`f = x`, `g = x − x²` with the derivative component of the closure `g` off by `1/1000` at the
single point `x = 1/3` (`bumpG`, `Lemmas/AccApproxDispEx.lean`).  The computed integrand is
`x·(1 − 2x)` everywhere except at `1/3`, where it is larger by `1/3000`: not a polynomial, so
`Thm/C07Accuracy.lean` does not apply. -/

/-- the computed integrand is not the polynomial it approximates -/
example : D1.f (adPoly [0, 1]) (1 / 3) * D1.df (bumpG [0, 1, -1] (1 / 1000)) (1 / 3) ≠
    evalPoly (rsCoeffs [0, 1] [0, 1, -1]) (1 / 3) := by
  decide +kernel

/-- **non-vacuity of (L1)**: the run succeeds with the two pieces `[0,1/2]`, `[1/2,1]`, the
    hypotheses of `rs_piece_accuracy_approx` hold on every piece with `δ = 1/3000 > 0`, and
    every piece carries a value with the stated accuracy -/
example : ∃ ds, genDisplayRs (adPoly [0, 1]) (bumpG [0, 1, -1] (1 / 1000)) [(0, 1)]
      DispEx.cfgEx = .ok ds ∧
    ds.map (fun d => (d.a, d.b)) = [(0, 1/2), (1/2, 1)] ∧
    ∀ d ∈ ds, ∃ v e, d.integ = some (v, e) ∧
      |v - exactInt (rsCoeffs [0, 1] [0, 1, -1]) d.a d.b| ≤
        |(d.b - d.a) / 2| * (1 / 10 ^ 16 *
          absPolyAt (rsCoeffs [0, 1] [0, 1, -1]) (max |d.a| |d.b|) + kronrodW * (1 / 3000)) ∧
      e < DispEx.cfgEx.tol ∧ 0 ≤ e := by
  obtain ⟨ds, h, he⟩ := DispEx.ends_some rs_bump_ends
  refine ⟨ds, h, he, fun d hd => ?_⟩
  obtain ⟨⟨v, e⟩, hv, _⟩ := C07.rs_piece_integ_is_gk1d _ _ _ _ _ h d hd rfl
  have hab : d.a ≠ d.b := by
    have hm : (d.a, d.b) ∈ ds.map (fun d => (d.a, d.b)) := List.mem_map.mpr ⟨d, hd, rfl⟩
    rw [he] at hm
    simp only [List.mem_cons, List.not_mem_nil, or_false, Prod.mk.injEq] at hm
    rcases hm with ⟨h1, h2⟩ | ⟨h1, h2⟩ <;> rw [h1, h2] <;> norm_num
  refine ⟨v, e, hv, rs_piece_accuracy_approx _ _ _ _ ds h d hd v e hv _ (by decide) hab
    (1 / 3000) (fun x _ _ => ?_)⟩
  refine le_trans (bump_integrand_close [0, 1] [0, 1, -1] (1 / 1000) (by norm_num) x)
    (le_of_eq ?_)
  decide +kernel

/-- **non-vacuity of (L4)** on the same run: `Φ = x·(1 − 2x)` (the true `f·g'`), `ε = 0`,
    `η = 1/3000`; the reported values add up to `∫_0^1 Φ` within the sum of the piece bounds -/
example : ∃ ds, genDisplayRs (adPoly [0, 1]) (bumpG [0, 1, -1] (1 / 1000)) [(0, 1)]
      DispEx.cfgEx = .ok ds ∧
    |(((ds.map reportedValue).sum : Rat) : ℝ) -
        ∫ x in ((0 : Rat) : ℝ)..((1 : Rat) : ℝ), evalPolyR (rsCoeffs [0, 1] [0, 1, -1]) x| ≤
      (ds.map (fun d => pieceBoundR (rsCoeffs [0, 1] [0, 1, -1]) 0
        (((1 / 3000 : Rat)) : ℝ) d.a d.b)).sum := by
  obtain ⟨ds, h, _⟩ := DispEx.ends_some rs_bump_ends
  refine ⟨ds, h, rs_total_accuracy_real _ _ 0 1 _ ds h rfl _ (by decide) _
    (evalPolyR_continuous _) 0 _ (fun d _ _ x _ => by simp) (fun d _ _ x _ _ => ?_)⟩
  rw [evalPolyR_cast, ← Rat.cast_sub, ← Rat.cast_abs, Rat.cast_le]
  refine le_trans (bump_integrand_close [0, 1] [0, 1, -1] (1 / 1000) (by norm_num) x)
    (le_of_eq ?_)
  decide +kernel

end Cav.C07Approx
