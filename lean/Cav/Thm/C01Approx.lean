/-
  C01 (approximable class) — the accuracy clause of C01 beyond polynomials, exact arithmetic.

  `Thm/C01.lean` proves the accuracy of the 1-D adaptive Gauss–Kronrod integrator for
  integrands that ARE polynomials of degree ≤ 31.  Here the integrand handed to the routine is
  an arbitrary `f : Rat → Rat` (think: the sample values as actually computed, rounding
  included) that stays within `δ` of such a polynomial on the integration interval.  Because the
  Kronrod rule is linear, has nodes inside the panel and weights whose absolute values add up to
  `W = kronrodW ≤ 2 + 1e-16` (table fact), every panel value moves by at most
  `|panel|/2 · W · δ`, and these perturbations add up over the tiling to `|b−a|/2 · W · δ`
  no matter how often the run bisected.

  Definitions: `evalPoly`, `evalPolyR`, `absPolyAt`, `exactInt` as in `Thm/C01.lean` /
  `Lemmas/QuadPoly.lean`; `absWeight`, `kronrodW` in `Lemmas/AccApprox.lean`.

  Model path used: `gk1d`, `gk1dLoop`, `gkApprox`, `symRule`, `unitRule`, `denorm`; `Num`
  operations used: `+ - * /`, `ofNat`, `lt`, `beq`, `isNaN`, `abs` (instance `instNumRat`).
-/
import Cav.Thm.C01
import Cav.Lemmas.AccApprox
import Cav.Lemmas.AccApproxExp

namespace Cav.C01Approx
open Cav Num Cav.C01

/-! ## the table facts used -/

/-- `kronrodW` is the sum of the absolute values of the 21 Kronrod weights of the source: the
    centre weight once, each of the ten off-centre weights twice (for the nodes `±n`) -/
theorem kronrodW_eq :
    kronrodW = |(Gen.k21 : List (Rat × Rat)).head!.2| +
      (((Gen.k21 : List (Rat × Rat)).tail).map (fun nw => 2 * |nw.2|)).sum := by
  decide +kernel

/-- **table fact**: `2 − 1e-16 ≤ W ≤ 2 + 1e-16` and every Kronrod node lies in `[-1, 1]` -/
theorem kronrod_table_facts :
    2 - 1 / 10 ^ 16 ≤ kronrodW ∧ kronrodW ≤ 2 + 1 / 10 ^ 16 ∧
      ∀ nw ∈ (Gen.k21 : List (Rat × Rat)), |nw.1| ≤ 1 :=
  ⟨kronrodW_ge, kronrodW_le, k21_nodes_abs_le⟩

/-! ## L1 — one panel -/

/-- **one panel, perturbed integrand.**  If two integrands `f, g : Rat → Rat` differ by at most
    `δ` at every rational point between `a` and `b` (either order), then their single-panel
    Kronrod-21 values on `[a,b]` differ by at most `|(b−a)/2| · W · δ`, where `W = kronrodW` is
    the sum of the absolute Kronrod weights. -/
theorem panel_perturb (f g : Rat → Rat) (a b δ : Rat)
    (h : ∀ x, min a b ≤ x → x ≤ max a b → |f x - g x| ≤ δ) :
    |(gkApprox f a b).1 - (gkApprox g a b).1| ≤ |(b - a) / 2| * kronrodW * δ := by
  rw [gkApprox_fst, gkApprox_fst]
  exact symRule_perturb f g a b δ Gen.k21 k21_nodes_abs_le h

/-! ## L2 — a whole run, rational statement -/

/-- **accuracy for the approximable class (rational form).**  Let `cs` be the coefficients of a
    polynomial of degree ≤ 31 and let `f : Rat → Rat` be ANY integrand with
    `|f x − evalPoly cs x| ≤ δ` at every rational `x` between `a` and `b`.  Whenever the adaptive
    integrator run on `f` reports success `(v, e)`, the value `v` differs from the exact integral
    of the polynomial by at most
    `|b−a|/2 · (1e-16 · Σ_k |cs[k]|·max(|a|,|b|)^k + W·δ)` — independent of the number of
    bisections — and the reported estimate satisfies `0 ≤ e < tol`. -/
theorem gk1d_approx_accuracy_rat (cs : List Rat) (hdeg : cs.length ≤ 32) (f : Rat → Rat)
    (a b tol δ : Rat) (mi : Option Nat) (v e : Rat) (hab : a ≠ b)
    (hf : ∀ x, min a b ≤ x → x ≤ max a b → |f x - evalPoly cs x| ≤ δ)
    (h : (gk1d f a b tol mi).res = .ok (v, e)) :
    |v - exactInt cs a b| ≤
        |(b - a) / 2| * (1 / 10 ^ 16 * absPolyAt cs (max |a| |b|) + kronrodW * δ) ∧
      e < tol ∧ 0 ≤ e :=
  ⟨approx_accuracy_rat cs hdeg f a b tol δ mi v e hab hf h,
    gk1d_ok_estimate f a b tol mi v e hab h⟩

/-- the same with the table bound `W ≤ 2 + 1e-16` substituted (`δ ≥ 0` follows from the
    hypothesis at `x = a`) -/
theorem gk1d_approx_accuracy_rat' (cs : List Rat) (hdeg : cs.length ≤ 32) (f : Rat → Rat)
    (a b tol δ : Rat) (mi : Option Nat) (v e : Rat) (hab : a ≠ b)
    (hf : ∀ x, min a b ≤ x → x ≤ max a b → |f x - evalPoly cs x| ≤ δ)
    (h : (gk1d f a b tol mi).res = .ok (v, e)) :
    |v - exactInt cs a b| ≤
        |(b - a) / 2| * (1 / 10 ^ 16 * absPolyAt cs (max |a| |b|) + (2 + 1 / 10 ^ 16) * δ) ∧
      e < tol ∧ 0 ≤ e := by
  obtain ⟨h1, h2⟩ := gk1d_approx_accuracy_rat cs hdeg f a b tol δ mi v e hab hf h
  refine ⟨le_trans h1 ?_, h2⟩
  have hδ : 0 ≤ δ := le_trans (abs_nonneg _) (hf a (min_le_left _ _) (le_max_left _ _))
  have := mul_le_mul_of_nonneg_right kronrodW_le hδ
  exact mul_le_mul_of_nonneg_left (by linarith) (abs_nonneg _)

/-! ## L3 — a whole run, against the true integral of a real function -/

/-- **MAIN THEOREM (accuracy clause, approximable class).**  Let `F : ℝ → ℝ` be interval
    integrable on `[a,b]` and within `ε` of a real polynomial of degree ≤ 31 (rational
    coefficients `cs`) everywhere on `[a,b]` — sinusoids, exponentials and their combinations
    with polynomials are of this kind.  Let `f : Rat → Rat` be the integrand actually handed to
    the routine, with `|f x − F x| ≤ η` at every rational `x` of `[a,b]` (`η` = rounding of the
    integrand values).  Whenever the adaptive integrator (exact arithmetic, the rule tables of
    the source) reports success `(v, e)` on `f`, then

      `|v − ∫_a^b F| ≤ |b−a|/2 · (1e-16 · Σ_k |cs[k]|·max(|a|,|b|)^k + W·(ε+η)) + |b−a|·ε`,

    for bounds `a ≠ b` in either order, every tolerance and budget, independent of how often
    the run bisected; and `0 ≤ e < tol`. -/
theorem gk1d_approx_accuracy (cs : List Rat) (hdeg : cs.length ≤ 32) (F : ℝ → ℝ) (f : Rat → Rat)
    (a b tol : Rat) (ε η : ℝ) (mi : Option Nat) (v e : Rat) (hab : a ≠ b)
    (hFi : IntervalIntegrable F MeasureTheory.volume (a : ℝ) (b : ℝ))
    (hF : ∀ x ∈ Set.uIcc (a : ℝ) (b : ℝ), |F x - evalPolyR cs x| ≤ ε)
    (hf : ∀ x : Rat, min a b ≤ x → x ≤ max a b → |((f x : Rat) : ℝ) - F (x : ℝ)| ≤ η)
    (h : (gk1d f a b tol mi).res = .ok (v, e)) :
    |(v : ℝ) - ∫ x in (a : ℝ)..(b : ℝ), F x| ≤
        |((b : ℝ) - a) / 2| * (1 / 10 ^ 16 * ((absPolyAt cs (max |a| |b|) : Rat) : ℝ) +
          (kronrodW : ℝ) * (ε + η)) + |(b : ℝ) - a| * ε ∧
      e < tol ∧ 0 ≤ e :=
  ⟨approx_accuracy_real cs hdeg F f a b tol ε η mi v e hab hFi hF hf h,
    gk1d_ok_estimate f a b tol mi v e hab h⟩

/-- the main theorem for a continuous `F` -/
theorem gk1d_approx_accuracy_continuous (cs : List Rat) (hdeg : cs.length ≤ 32) (F : ℝ → ℝ)
    (hFc : Continuous F) (f : Rat → Rat)
    (a b tol : Rat) (ε η : ℝ) (mi : Option Nat) (v e : Rat) (hab : a ≠ b)
    (hF : ∀ x ∈ Set.uIcc (a : ℝ) (b : ℝ), |F x - evalPolyR cs x| ≤ ε)
    (hf : ∀ x : Rat, min a b ≤ x → x ≤ max a b → |((f x : Rat) : ℝ) - F (x : ℝ)| ≤ η)
    (h : (gk1d f a b tol mi).res = .ok (v, e)) :
    |(v : ℝ) - ∫ x in (a : ℝ)..(b : ℝ), F x| ≤
        |((b : ℝ) - a) / 2| * (1 / 10 ^ 16 * ((absPolyAt cs (max |a| |b|) : Rat) : ℝ) +
          (kronrodW : ℝ) * (ε + η)) + |(b : ℝ) - a| * ε ∧
      e < tol ∧ 0 ≤ e :=
  gk1d_approx_accuracy cs hdeg F f a b tol ε η mi v e hab (hFc.intervalIntegrable _ _) hF hf h

/-! ## L4 — a concrete non-polynomial instance: `exp` on `[0,1]`

`expCoeffs 32 = [1/0!, 1/1!, …, 1/31!]` (in `Lemmas/AccApproxExp.lean`) are the Taylor
coefficients of `exp`; on `[-1,1]` the Taylor polynomial is within `1e-35` of `exp`
(`exp_taylor32`, from Mathlib's `Real.exp_bound`), and `Σ_{k<32} 1/k! ≤ 3`. -/

/-- **`exp` on `[0,1]`.**  Let `f : Rat → Rat` be any integrand whose values are within `η` of
    `exp x` at every rational `x ∈ [0,1]` (for instance `exp` evaluated with rounding).  Whenever
    the adaptive integrator reports success `(v, e)` on `f` over `[0,1]`, the value `v` is
    within `2e-16 + (1 + 1e-16)·η` of the true integral `∫_0^1 exp = e − 1`, and `0 ≤ e < tol`.
    (Instance of the main theorem with `ε = 1e-35`, `W ≤ 2 + 1e-16`.) -/
theorem gk1d_exp_accuracy (f : Rat → Rat) (η : ℝ) (tol : Rat) (mi : Option Nat) (v e : Rat)
    (hf : ∀ x : Rat, 0 ≤ x → x ≤ 1 → |((f x : Rat) : ℝ) - Real.exp (x : ℝ)| ≤ η)
    (h : (gk1d f 0 1 tol mi).res = .ok (v, e)) :
    |(v : ℝ) - (Real.exp 1 - 1)| ≤ 2 / 10 ^ 16 + (1 + 1 / 10 ^ 16) * η ∧ e < tol ∧ 0 ≤ e := by
  have h01 : min (0 : Rat) 1 = 0 := min_eq_left zero_le_one
  have h10 : max (0 : Rat) 1 = 1 := max_eq_right zero_le_one
  obtain ⟨h1, h2⟩ := gk1d_approx_accuracy (expCoeffs 32) (by rw [expCoeffs_length]) Real.exp f
    0 1 tol (1 / 10 ^ 35) η mi v e (by norm_num)
    (Real.continuous_exp.intervalIntegrable _ _)
    (fun x hx => exp_taylor32 x (by
      rw [Rat.cast_zero, Rat.cast_one, Set.uIcc_of_le zero_le_one, Set.mem_Icc] at hx
      exact abs_le.mpr ⟨by linarith [hx.1], hx.2⟩))
    (fun x hx1 hx2 => hf x (by rwa [h01] at hx1) (by rwa [h10] at hx2)) h
  refine ⟨?_, h2⟩
  rw [Rat.cast_zero, Rat.cast_one, integral_exp, Real.exp_zero, sub_zero, abs_one (α := ℝ),
    show |(1 : ℝ) / 2| = 1 / 2 by norm_num] at h1
  have hA : ((absPolyAt (expCoeffs 32) (max |(0 : Rat)| |(1 : Rat)|) : Rat) : ℝ) ≤ 3 := by
    exact_mod_cast absPolyAt_expCoeffs_le
  have hW : (kronrodW : ℝ) ≤ 2 + 1 / 10 ^ 16 := by
    have := (Rat.cast_le (K := ℝ)).mpr kronrodW_le
    push_cast at this
    exact this
  have hη : 0 ≤ η := by
    have := hf 0 le_rfl zero_le_one
    exact le_trans (abs_nonneg _) this
  have ht : (0 : ℝ) ≤ 1 / 10 ^ 35 + η := by positivity
  have hWt := mul_le_mul_of_nonneg_right hW ht
  generalize ((absPolyAt (expCoeffs 32) (max |(0 : Rat)| |(1 : Rat)|) : Rat) : ℝ) = A at h1 hA
  generalize (kronrodW : ℝ) * (1 / 10 ^ 35 + η) = Wt at h1 hWt
  generalize |(v : ℝ) - (Real.exp 1 - 1)| = X at h1 ⊢
  linarith

/-- the integrand of the example: the degree-31 Taylor polynomial of `exp`, every value rounded
    down to a multiple of `2^-40` (a fixed-point evaluation of `exp`); not a polynomial -/
def expFix : Rat → Rat := roundDown 40 (evalPoly (expCoeffs 32))

/-- `expFix` is within `2^-40` of the Taylor polynomial at every rational point -/
theorem expFix_close_poly (x : Rat) : |expFix x - evalPoly (expCoeffs 32) x| ≤ 1 / 2 ^ 40 :=
  roundDown_close 40 _ x

/-- `expFix` is within `2^-40 + 1e-35` of `exp` on `[0,1]` -/
theorem expFix_close_exp (x : Rat) (h0 : 0 ≤ x) (h1 : x ≤ 1) :
    |((expFix x : Rat) : ℝ) - Real.exp (x : ℝ)| ≤ 1 / 2 ^ 40 + 1 / 10 ^ 35 := by
  have ha := (Rat.cast_le (K := ℝ)).mpr (expFix_close_poly x)
  have hx : |(x : ℝ)| ≤ 1 := by
    rw [abs_le]; constructor
    · have : (0 : ℝ) ≤ (x : ℝ) := by exact_mod_cast h0
      linarith
    · exact_mod_cast h1
  have hb := exp_taylor32 (x : ℝ) hx
  rw [evalPolyR_cast] at hb
  push_cast at ha
  calc |((expFix x : Rat) : ℝ) - Real.exp (x : ℝ)|
      = |(((expFix x : Rat) : ℝ) - ((evalPoly (expCoeffs 32) x : Rat) : ℝ)) +
          -(Real.exp (x : ℝ) - ((evalPoly (expCoeffs 32) x : Rat) : ℝ))| := by congr 1; ring
    _ ≤ |((expFix x : Rat) : ℝ) - ((evalPoly (expCoeffs 32) x : Rat) : ℝ)| +
          |-(Real.exp (x : ℝ) - ((evalPoly (expCoeffs 32) x : Rat) : ℝ))| := abs_add_le _ _
    _ ≤ 1 / 2 ^ 40 + 1 / 10 ^ 35 := by rw [abs_neg]; exact add_le_add ha hb

/-- a concrete successful run on `expFix` over `[0,1]` with tolerance `1e-13`: the first panel
    is not good enough (rounding noise `≈ 1e-12`), the run bisects once and succeeds
    (kernel evaluation of the model, `decide +kernel`) -/
theorem expFix_run_res : (gk1d expFix 0 1 (1 / 10 ^ 13) (some 10)).res =
    .ok (4356361982413378219567828283465 / 2535301200456458802993406410752,
      59127034608623369 / 2535301200456458802993406410752) := by
  decide +kernel

theorem expFix_run_panels : (gk1d expFix 0 1 (1 / 10 ^ 13) (some 10)).panels =
    [(0, 1), (0, 1 / 2), (1 / 2, 1)] := by
  decide +kernel

/-- the integrand of the example is not the polynomial it approximates -/
theorem expFix_ne_poly : expFix (1 / 3) ≠ evalPoly (expCoeffs 32) (1 / 3) := by
  decide +kernel

/-- **non-vacuity of `gk1d_approx_accuracy_rat`**: its hypotheses hold with `δ = 2^-40 > 0` for
    the non-polynomial integrand `expFix`, on a run that bisects; the conclusion bounds the
    distance of the returned value from the exact integral of the Taylor polynomial -/
example :
    |(4356361982413378219567828283465 / 2535301200456458802993406410752 : Rat) -
        exactInt (expCoeffs 32) 0 1| ≤
      |((1 : Rat) - 0) / 2| * (1 / 10 ^ 16 * absPolyAt (expCoeffs 32) (max |(0 : Rat)| |(1 : Rat)|) +
        kronrodW * (1 / 2 ^ 40)) ∧
    (59127034608623369 / 2535301200456458802993406410752 : Rat) < 1 / 10 ^ 13 ∧
    (0 : Rat) ≤ 59127034608623369 / 2535301200456458802993406410752 :=
  gk1d_approx_accuracy_rat (expCoeffs 32) (by rw [expCoeffs_length]) expFix 0 1 (1 / 10 ^ 13)
    (1 / 2 ^ 40) (some 10) _ _ (by decide) (fun x _ _ => expFix_close_poly x) expFix_run_res

/-- **non-vacuity of the real statement**: the value returned by that run is within
    `2e-16 + (1 + 1e-16)·(2^-40 + 1e-35)` (`< 1e-12`) of `e − 1` -/
theorem expFix_run_accuracy :
    |(((4356361982413378219567828283465 / 2535301200456458802993406410752 : Rat)) : ℝ) -
        (Real.exp 1 - 1)| ≤ 2 / 10 ^ 16 + (1 + 1 / 10 ^ 16) * (1 / 2 ^ 40 + 1 / 10 ^ 35) :=
  (gk1d_exp_accuracy expFix (1 / 2 ^ 40 + 1 / 10 ^ 35) (1 / 10 ^ 13) (some 10) _ _
    expFix_close_exp expFix_run_res).1

/-- the simplest perturbation: a polynomial changed by `δ` at the single point `1/3` satisfies
    the closeness hypothesis of `gk1d_approx_accuracy_rat` with that `δ` -/
example (cs : List Rat) (δ : Rat) (hδ : 0 < δ) (a b : Rat) :
    ∀ x, min a b ≤ x → x ≤ max a b →
      |(fun x => evalPoly cs x + (if x = 1 / 3 then δ else 0)) x - evalPoly cs x| ≤ δ := by
  intro x _ _
  show |evalPoly cs x + (if x = 1 / 3 then δ else 0) - evalPoly cs x| ≤ δ
  by_cases hx : x = 1 / 3
  · rw [if_pos hx, add_sub_cancel_left, abs_of_pos hδ]
  · rw [if_neg hx, add_zero, sub_self, abs_zero]; exact hδ.le

end Cav.C01Approx
