/-
  C03 (number, non-degeneracy and total area of the triangles) WITHOUT THE HYPOTHESIS OF DISTINCT
  ABSCISSAE: every finite list of simple polygons with pairwise disjoint boundaries and pairwise
  different vertices — VERTICAL EDGES and several vertices on one vertical line allowed
  (axis-aligned shapes on small lattices: L, U, plus shapes, rectangles with rectangular holes, …),
  any nesting, any orientation, not necessarily x-monotone (`ValidSetV`, decidable, defined in
  `Cav/Thm/C04GeneralV.lean`).  The sweep model over `XQ` accepts such a set with `mono = true`
  (`C04GeneralV.general_accepted_V`); here the OUTPUT is characterised.  Everything below is PROVEN
  (no `sorry`; axioms: `propext`, `Classical.choice`, `Quot.sound`).

  MAIN THEOREM.

      general_output_V :  ValidSetV polys →
        ∃ T, sweepMon (toInput polys) = .ok (T, true) ∧ T.length = triCountV polys ∧
             (∀ tr ∈ T, orient tr ≠ 0) ∧ (all corners of all triangles are input vertices) ∧
             (T.map |orient|).sum = evenOddArea2V polys

  The right-hand sides are ε-FREE, decidable, LEXICOGRAPHIC quantities of the polygon list
  (`Cav/Lemmas/GenOutVPoly.lean`), the same formulas as `triCount` / `evenOddArea2` of
  `C03General.lean` with the sweep order of the model (lexicographic order of the points) in
  place of the order of the abscissae:
    * `holeLikeV R b P` — PARITY OF THE NESTING DEPTH of the polygon `P` (first ring index `b`): a
      ray going down from the LEXICOGRAPHICALLY smallest vertex `u` of `P` crosses an odd number
      of edges; an edge `u' → v'` (walked in lexicographic direction) counts iff
      `u' ≤_lex u <_lex v'` and `u` lies strictly to the left of `u' → v'`
      (`0 < orient u' v' u`; `EBelowV`: orientation determinants and lexicographic comparisons
      only — a vertical edge on the vertical line of `u` is never counted, an edge ending on
      that line below `u` is not counted, an edge starting on it below `u` is);
    * `triCountV polys = Σ_i (if holeLikeV_i then n_i + 2 else n_i - 2)`;
    * `evenOddArea2V polys = |Σ_i (if holeLikeV_i then -1 else 1) · |shoelace P_i||`; the inner sum
      is itself non-negative (`general_output_V_area`).
  For a list in general position that is valid in both senses the quantities agree with those of
  `C03General.lean` (`countV_eq_count`).

  METHOD.  As for `C04GeneralV`: the shear `(x, y) ↦ (x + ε y, y)` keeps every orientation
  determinant — hence all signed areas, shoelace sums, and the outcomes of `clockwiseSign` on
  pairwise different points (`cw_c_imp_ne`: the exceptional answers of `clockwiseSign` need two
  EQUAL points, not merely equal abscissae) — and for a small `ε > 0` the order of the sheared
  abscissae is the lexicographic order.  The run of the model is the ORIGINAL one; the bookkeeping
  of `GenOut*.lean` is done in the SHEARED picture:
    * `XInvV R ε s xs X ivs G` (`Cav/Lemmas/GenOutVDefs.lean`) = `InvV` (heap facts for the ring `R`,
      order facts for `shearRing ε R`) + the extras of `XInv` stated for the sheared ring: the
      ghost description `G` of every back-chain carries the SHEARED points and has the `Shape`
      (abscissae strictly decreasing from the rightmost node along both parts, no convex corner,
      strictly between the two edges); the heap carries the original points (`FqU ε q = Fq
      (unsh ε q)`, `hpU`); `out.length + Σ chain lengths = cnt + #intervals`;
      `areaSum out = wDone + Σ pathSum chain` (path sums are shear invariant);
    * explicit versions of the step theorems of `GenVStepW.lean` (`GenOutVStep*.lean`, with the
      heap-level lemmas `bend_runV_x`, `start_run_splitV_x`, `end_run_close_x`, `end_run_merge_x`
      exporting the `backTriangulate` / `nodeTriangulate` runs);
    * the six event steps `xbendV_lo`, `xbendV_hi`, `xstartV_proper`, `xstartV_split`, `xendV_close`,
      `xendV_merge` (`GenOutVX*.lean`), `xstepV`, `xloopV`, `outputV_of_shOK` (`GenOutVLoop.lean`):
          T.length = triCountR (shearRing ε R) ∧ areaSum T = areaR (shearRing ε R);
    * the sheared ring is the ring of the sheared polygon list `shP ε polys`, which is `ValidSet`
      (general position), so the ring-level identities `triCountR_eq`, `areaR_evenOdd` of
      `C03General.lean` apply to it verbatim; `triCount (shP ε polys) = triCountV polys`,
      `evenOddSigned (shP ε polys) = evenOddSignedV polys` for EVERY admissible `ε`
      (`GenOutVPoly.lean`: independence of `ε`, by the ε-free characterisation).

  LAYERS (all proven).
    (W1) `XInvV`, and the Bend event keeps it: `xinvV_bend`;
    (W2) inputs without vertical edges: `general_output_noVert` (a special case of (W3); the proof
         of (W3) never distinguishes vertical edges — the explicit steps are those of `stepW`);
    (W3) `general_output_V`; geometric form `general_output_V_geo`; every event: `xinvV_handleNext`.

  NOT PROVED (as in `C03General.lean`): that the triangles lie inside the even-odd region and have
  pairwise disjoint interiors (the tiling property).
-/
import Cav.Lemmas.GenOutVLoop
import Cav.Lemmas.GenOutVPoly
import Cav.Thm.C03General
import Cav.Thm.C04GeneralV

set_option linter.unusedSimpArgs false
set_option linter.unusedVariables false

namespace Cav.C03GeneralV
open Cav Num Cav.Geo Cav.Sweep Cav.TriRun Cav.QuadRun Cav.QuadGeom Cav.CvxEvents Cav.CvxLoop
open Cav.GenInv Cav.GenRing Cav.GenValid Cav.GenOutDefs Cav.GenOutShape Cav.GenOutPoly
open Cav.GenVShear Cav.GenVBridge Cav.GenVInv Cav.GenVAccept
open Cav.GenOutV Cav.GenOutVX Cav.GenOutVStep Cav.GenOutVLoop Cav.GenOutVPoly
open Cav.C04GeneralV
open Cav.C03General (absAreaSum sweep_of_sweepMon general_output_full triCountR_eq areaR_evenOdd)

/-! ### (W1), every event: the strengthened invariant and its preservation -/

section
variable {R : RingQ} {ε : Rat} {Vε : Array (Vtx XQ)}

/-- (W1) **the Bend event keeps the strengthened invariant `XInvV`** (the old and the new edge may
    be vertical; the hypotheses are lexicographic) -/
theorem xinvV_bend (hSh : ShOK R ε Vε) {s : St XQ} {xs X : Rat} {ivs : List IV} {G : Nat → CH}
    (hX : XInvV R ε s xs X ivs G) {w : Nat} {es : List Nat} {rest : List (Nat × List Nat)}
    (hev : s.events = (w, es) :: rest) {u w' : Nat}
    (hnb : (R.prv w = u ∧ R.nxt w = w') ∨ (R.prv w = w' ∧ R.nxt w = u))
    (hxu : lexLt (R.pt u) (R.pt w)) (hxw' : lexLt (R.pt w) (R.pt w')) :
    ∃ s' ivs' G', (handleNext : SM XQ Unit).run s = .ok ((), s') ∧
      XInvV R ε s' ((shearRing ε R).x w) (R.x w) ivs' G' := by
  have hq := hX.inv.q
  rw [hev] at hq
  have hwn : w < R.n := (hq.gt (w, es) List.mem_cons_self).1
  have hun : u < R.n := by
    rcases hnb with ⟨e, -⟩ | ⟨-, e⟩
    · rw [← e]; exact hSh.ring.prv_lt w hwn
    · rw [← e]; exact hSh.ring.nxt_lt w hwn
  have hw'n : w' < R.n := by
    rcases hnb with ⟨-, e⟩ | ⟨e, -⟩
    · rw [← e]; exact hSh.ring.nxt_lt w hwn
    · rw [← e]; exact hSh.ring.prv_lt w hwn
  have hxu' := (hSh.key u w hun hwn).mpr hxu
  have hxw'' := (hSh.key w w' hwn hw'n).mpr hxw'
  obtain ⟨pre, iv, post, rfl, hB | hB⟩ := stepW_bend_x hSh hX.inv hev hnb hxu' hxw''
  · obtain ⟨s', G', hr, hX'⟩ := xbendV_lo hSh hX hev hnb hxu' hxw'' hB
    exact ⟨s', _, G', hr, hX'⟩
  · obtain ⟨s', G', hr, hX'⟩ := xbendV_hi hSh hX hev hnb hxu' hxw'' hB
    exact ⟨s', _, G', hr, hX'⟩

/-- **every event keeps the strengthened invariant** (Bend, proper and splitting Start, closing
    and merging End; vertical edges allowed) -/
theorem xinvV_handleNext (hSh : ShOK R ε Vε) {s : St XQ} {xs X : Rat} {ivs : List IV} {G : Nat → CH}
    (hX : XInvV R ε s xs X ivs G) {w : Nat} {es : List Nat} {rest : List (Nat × List Nat)}
    (hev : s.events = (w, es) :: rest) :
    ∃ s' ivs' G', (handleNext : SM XQ Unit).run s = .ok ((), s') ∧
      XInvV R ε s' ((shearRing ε R).x w) (R.x w) ivs' G' :=
  xstepV hSh hX hev

end

/-! ### (W3) the output -/

/-- the sheared polygon list of a valid list is valid in general position -/
theorem validSet_shP {polys : List (Array (Rat × Rat))} {ε : Rat} {Vε : Array (Vtx XQ)}
    (hv : ValidSetV polys) (hSh : ShOK (ringOf polys) ε Vε) : Cav.C04General.ValidSet (shP ε polys) :=
  valid_shP hv.1 hv.2.1 hSh

/-- **count and area of the output in geometric terms of the SHEARED vertex ring**, for every
    admissible shear; moreover every vertex of the sheared ring is coherent, and every triangle has
    positive area -/
theorem general_output_V_geo (polys : List (Array (Rat × Rat))) (hv : ValidSetV polys) {ε : Rat}
    {Vε : Array (Vtx XQ)} (hSh : ShOK (ringOf polys) ε Vε) :
    ∃ T, sweepMon (toInput polys) = .ok (T, true) ∧
      T.length = triCountR (shearRing ε (ringOf polys)) ∧
      absAreaSum T = areaR (shearRing ε (ringOf polys)) ∧
      (∀ v, v < (ringOf polys).n → Coh (shearRing ε (ringOf polys)) v) ∧
      ∀ tr ∈ T, 0 < |orientPt tr.1 tr.2.1 tr.2.2| := by
  obtain ⟨T, h1, h2, h3, hcoh, -, hpos⟩ := outputV_of_shOK polys hv.1 hSh
  exact ⟨T, h1, h2, h3, hcoh, hpos⟩

/-- the ring-level quantities of the sheared ring in terms of the polygons: for EVERY admissible
    shear they are the ε-free lexicographic quantities `triCountV`, `evenOddSignedV` -/
theorem shear_ring_sums (polys : List (Array (Rat × Rat))) (hv : ValidSetV polys) {ε : Rat}
    {Vε : Array (Vtx XQ)} (hSh : ShOK (ringOf polys) ε Vε)
    (hcoh : ∀ v, v < (ringOf polys).n → Coh (shearRing ε (ringOf polys)) v) :
    triCountR (shearRing ε (ringOf polys)) = triCountV polys ∧
      areaR (shearRing ε (ringOf polys)) = evenOddSignedV polys := by
  have hvε := validSet_shP hv hSh
  have hring := ringOf_shP ε polys
  have hcoh' : ∀ v, v < (ringOf (shP ε polys)).n → Coh (ringOf (shP ε polys)) v := by
    rw [hring]; exact hcoh
  have h4 := areaR_evenOdd (shP ε polys) hvε hcoh'
  have h5 := triCountR_eq (shP ε polys) hvε hcoh'
  rw [hring] at h4 h5
  exact ⟨h5.trans (triCount_shP hv.1 hv.2.1 hSh), h4.trans (evenOddSigned_shP hv.1 hv.2.1 hSh)⟩

/-- **C03 for every valid polygon set, no hypothesis on the abscissae** (vertical edges and
    vertices on a common vertical line allowed): the sweep model accepts with `mono = true`; the
    number of triangles is `n_i - 2` for every polygon at even nesting depth plus `n_i + 2` for
    every polygon at odd depth; every triangle has non-zero area; every corner is an input vertex;
    the absolute doubled areas of the triangles add up to the doubled area of the even-odd region
    `|Σ (-1)^depth_i |shoelace_i||`.  The parity of the nesting depth is `holeLikeV` (lexicographic,
    ε-free). -/
theorem general_output_V (polys : List (Array (Rat × Rat))) (hv : ValidSetV polys) :
    ∃ T, sweepMon (toInput polys) = .ok (T, true) ∧ T.length = triCountV polys ∧
      (∀ tr ∈ T, orientPt tr.1 tr.2.1 tr.2.2 ≠ 0) ∧
      (∀ tr ∈ T, tr.1 ∈ (toInput polys).flatMap Array.toList ∧
        tr.2.1 ∈ (toInput polys).flatMap Array.toList ∧ tr.2.2 ∈ (toInput polys).flatMap Array.toList) ∧
      absAreaSum T = evenOddArea2V polys := by
  obtain ⟨ε, hSh⟩ := valid_shear polys hv
  obtain ⟨T, h1, h2, h3, hcoh, hpos⟩ := general_output_V_geo polys hv hSh
  obtain ⟨h4, h5⟩ := shear_ring_sums polys hv hSh hcoh
  have hnn : 0 ≤ evenOddSignedV polys := by rw [← h5, ← h3]; exact Cav.C04Convex.areaSum_nonneg T
  have h6 : evenOddArea2V polys = evenOddSignedV polys := abs_of_nonneg hnn
  refine ⟨T, h1, h2.trans h4, ?_, ?_, by rw [h6, ← h5]; exact h3⟩
  · intro tr htr h0
    have := hpos tr htr
    rw [h0, abs_zero] at this
    exact lt_irrefl _ this
  · exact Cav.C03.sweep_corners (sweep_of_sweepMon h1)

/-- count and area only -/
theorem general_output_V_count_area (polys : List (Array (Rat × Rat))) (hv : ValidSetV polys) :
    ∃ T, sweepMon (toInput polys) = .ok (T, true) ∧ T.length = triCountV polys ∧
      absAreaSum T = evenOddArea2V polys :=
  let ⟨T, h1, h2, _, _, h5⟩ := general_output_V polys hv
  ⟨T, h1, h2, h5⟩

/-- the signed sum `Σ (-1)^depth |shoelace|` is itself non-negative -/
theorem general_output_V_area (polys : List (Array (Rat × Rat))) (hv : ValidSetV polys) :
    evenOddArea2V polys = evenOddSignedV polys := by
  obtain ⟨ε, hSh⟩ := valid_shear polys hv
  obtain ⟨T, -, -, h3, hcoh, -⟩ := general_output_V_geo polys hv hSh
  obtain ⟨-, h5⟩ := shear_ring_sums polys hv hSh hcoh
  exact abs_of_nonneg (by rw [← h5, ← h3]; exact Cav.C04Convex.areaSum_nonneg T)

/-- (W2) the special case without vertical edges (equal abscissae of non-neighbours allowed) -/
theorem general_output_noVert (polys : List (Array (Rat × Rat))) (hv : ValidSetV polys)
    (hnv : NoVert (ringOf polys)) :
    ∃ T, sweepMon (toInput polys) = .ok (T, true) ∧ T.length = triCountV polys ∧
      (∀ tr ∈ T, orientPt tr.1 tr.2.1 tr.2.2 ≠ 0) ∧ absAreaSum T = evenOddArea2V polys :=
  let ⟨T, h1, h2, h3, _, h5⟩ := general_output_V polys hv
  ⟨T, h1, h2, h3, h5⟩

/-- **independence of the shear**: for every admissible `ε` the quantities of `C03General.lean`
    of the sheared list are the ε-free quantities used here -/
theorem shear_independent (polys : List (Array (Rat × Rat))) (hv : ValidSetV polys) {ε : Rat}
    {Vε : Array (Vtx XQ)} (hSh : ShOK (ringOf polys) ε Vε) :
    triCount (shP ε polys) = triCountV polys ∧ evenOddArea2 (shP ε polys) = evenOddArea2V polys :=
  ⟨triCount_shP hv.1 hv.2.1 hSh, evenOddArea2_shP hv.1 hv.2.1 hSh⟩

/-- for a list that is valid in both senses (distinct abscissae) the lexicographic quantities are
    those of `C03General.lean` -/
theorem countV_eq_count (polys : List (Array (Rat × Rat))) (hv : Cav.C04General.ValidSet polys)
    (hvV : ValidSetV polys) :
    triCountV polys = triCount polys ∧ evenOddArea2V polys = evenOddArea2 polys := by
  obtain ⟨T, h1, h2, -, -, h5⟩ := general_output_full polys hv
  obtain ⟨T', h1', h2', -, -, h5'⟩ := general_output_V polys hvV
  have e : T' = T := by
    have h : sweepMon (toInput polys) = .ok (T, true) := h1
    rw [h] at h1'
    simp only [Except.ok.injEq, Prod.mk.injEq, and_true] at h1'
    exact h1'.symm
  subst e
  exact ⟨h2'.symm.trans h2, h5'.symm.trans h5⟩

/-! ### non-vacuity: the axis-aligned shapes of `C04GeneralV.lean` (and two inputs with slanted
    edges), evaluated by the kernel; the theorem applied -/

/-- number of triangles, total doubled area and ghost flag of the model's result -/
def outSummary (polys : List (Array (Rat × Rat))) : Nat × Rat × Bool :=
  match sweepMon (toInput polys) with
  | .ok (T, m) => (T.length, absAreaSum T, m)
  | .error _ => (0, 0, false)

-- the L-shape: 6 - 2 triangles, doubled area 6
example : outSummary Lshape = (4, 6, true) := by decide +kernel
example : triCountV Lshape = 4 ∧ evenOddArea2V Lshape = 6 := by decide +kernel
-- the U-shape: 8 - 2 triangles, doubled area 2 · (6 - 1)
example : outSummary Ushape = (6, 10, true) := by decide +kernel
example : triCountV Ushape = 6 ∧ evenOddArea2V Ushape = 10 := by decide +kernel
-- the plus shape: 12 - 2 triangles, doubled area 2 · 5
example : outSummary Plus = (10, 10, true) := by decide +kernel
example : triCountV Plus = 10 ∧ evenOddArea2V Plus = 10 := by decide +kernel
-- a rectangle with a rectangular hole: (4 - 2) + (4 + 2) triangles, doubled area 32 - 8
example : outSummary RectHole = (8, 24, true) := by decide +kernel
example : triCountV RectHole = 8 ∧ evenOddArea2V RectHole = 24 := by decide +kernel
-- two rectangles with edges on a common vertical line
example : outSummary TwoRect = (4, 4, true) := by decide +kernel
example : triCountV TwoRect = 4 ∧ evenOddArea2V TwoRect = 4 := by decide +kernel
-- a rectangle, a hole, an island in the hole: (4 - 2) + (4 + 2) + (4 - 2), doubled area 72 - 32 + 8
example : outSummary RectNest = (10, 48, true) := by decide +kernel
example : triCountV RectNest = 10 ∧ evenOddArea2V RectNest = 48 := by decide +kernel
-- no vertical edge, but equal abscissae
example : outSummary TwoTriV = (2, 20, true) := by decide +kernel
example : triCountV TwoTriV = 2 ∧ evenOddArea2V TwoTriV = 20 := by decide +kernel
-- vertical and slanted edges mixed, a reflex Start vertex on the vertical line of two others
example : outSummary MixedV = (3, 30, true) := by decide +kernel
example : triCountV MixedV = 3 ∧ evenOddArea2V MixedV = 30 := by decide +kernel

-- the nesting parities
example : ¬ holeLikeV (ringOf RectNest) 0 (RectNest.getD 0 #[]) ∧
    holeLikeV (ringOf RectNest) 4 (RectNest.getD 1 #[]) ∧
    ¬ holeLikeV (ringOf RectNest) 8 (RectNest.getD 2 #[]) := by decide +kernel

-- the theorem instantiated
example : ∃ T, sweepMon (toInput Lshape) = .ok (T, true) ∧ T.length = triCountV Lshape ∧
    absAreaSum T = evenOddArea2V Lshape := general_output_V_count_area Lshape (by decide +kernel)
example : ∃ T, sweepMon (toInput Ushape) = .ok (T, true) ∧ T.length = triCountV Ushape ∧
    absAreaSum T = evenOddArea2V Ushape := general_output_V_count_area Ushape (by decide +kernel)
example : ∃ T, sweepMon (toInput Plus) = .ok (T, true) ∧ T.length = triCountV Plus ∧
    absAreaSum T = evenOddArea2V Plus := general_output_V_count_area Plus (by decide +kernel)
example : ∃ T, sweepMon (toInput RectHole) = .ok (T, true) ∧ T.length = triCountV RectHole ∧
    absAreaSum T = evenOddArea2V RectHole := general_output_V_count_area RectHole (by decide +kernel)
example : ∃ T, sweepMon (toInput TwoRect) = .ok (T, true) ∧ T.length = triCountV TwoRect ∧
    absAreaSum T = evenOddArea2V TwoRect := general_output_V_count_area TwoRect (by decide +kernel)
example : ∃ T, sweepMon (toInput RectNest) = .ok (T, true) ∧ T.length = triCountV RectNest ∧
    absAreaSum T = evenOddArea2V RectNest := general_output_V_count_area RectNest (by decide +kernel)
example : ∃ T, sweepMon (toInput MixedV) = .ok (T, true) ∧ T.length = triCountV MixedV ∧
    absAreaSum T = evenOddArea2V MixedV := general_output_V_count_area MixedV (by decide +kernel)
example : ∃ T, sweepMon (toInput Lshape) = .ok (T, true) ∧ T.length = 4 ∧
    (∀ tr ∈ T, orientPt tr.1 tr.2.1 tr.2.2 ≠ 0) ∧ absAreaSum T = 6 := by
  obtain ⟨T, h1, h2, h3, -, h5⟩ := general_output_V Lshape (by decide +kernel)
  refine ⟨T, h1, ?_, h3, ?_⟩
  · rw [h2]; decide +kernel
  · rw [h5]; decide +kernel
example : ∃ T, sweepMon (toInput RectNest) = .ok (T, true) ∧ T.length = 10 ∧
    (∀ tr ∈ T, orientPt tr.1 tr.2.1 tr.2.2 ≠ 0) ∧ absAreaSum T = 48 := by
  obtain ⟨T, h1, h2, h3, -, h5⟩ := general_output_V RectNest (by decide +kernel)
  refine ⟨T, h1, ?_, h3, ?_⟩
  · rw [h2]; decide +kernel
  · rw [h5]; decide +kernel
-- (W2) no vertical edge
example : ∃ T, sweepMon (toInput TwoTriV) = .ok (T, true) ∧ T.length = triCountV TwoTriV ∧
    (∀ tr ∈ T, orientPt tr.1 tr.2.1 tr.2.2 ≠ 0) ∧ absAreaSum T = evenOddArea2V TwoTriV :=
  general_output_noVert TwoTriV (by decide +kernel) (by decide +kernel)

-- the inputs of `C03General.lean` (general position) are valid in the lexicographic sense as
-- well, and the lexicographic quantities agree with those of `C03General.lean`
example : triCountV Cav.C04General.Island = triCount Cav.C04General.Island ∧
    evenOddArea2V Cav.C04General.Island = evenOddArea2 Cav.C04General.Island :=
  countV_eq_count _ (by decide +kernel) (by decide +kernel)

-- the hypothesis is needed: a rectangle whose hole touches its boundary in a vertex is not
-- `ValidSetV`, and the model rejects it
example : ¬ ValidSetV TouchRect ∧ outSummary TouchRect = (0, 0, false) := by decide +kernel

end Cav.C03GeneralV
