/-
  C04 (every valid polygon set is accepted) for the class of SIMPLE x-MONOTONE POLYGONS in general
  position (pairwise distinct abscissae), of any size `n ≥ 3`, given from any starting vertex and
  in either orientation; reflex vertices are allowed on both chains.  The sweep model over `XQ`
  accepts such a polygon, returns exactly `n - 2` triangles with the ghost flag `mono = true`;
  every corner of every triangle is an input vertex, every triangle is non-degenerate, and the
  absolute doubled areas add up to the absolute doubled shoelace area.

  Hypotheses (decidable, on rationals; `cyc P k = P[k % n]`, `pf P L k = cyc P (L + k)`,
  `pb P L k = cyc P (L + n - k)`):
    * `DistinctX P`: pairwise distinct abscissae;
    * `TwoChains P L m` (`CvxPoly.lean`): the abscissae increase strictly along the `m` edges
      after vertex `L` and along the `n - m` edges before `L`;
    * `MonoSimple P L m`: one of the two chains lies strictly above the other, stated vertex
      against spanning edge: every interior vertex of the lower chain lies strictly to the right
      of the (left-to-right) edge of the upper chain that spans its abscissa, and every interior
      vertex of the upper chain strictly to the left of the spanning edge of the lower chain.
      For two x-monotone chains with common end points this is equivalent to simplicity of the
      polygon (the difference of the two piecewise linear functions is positive at every break
      point, hence on the open abscissa range).

  Proof: `Cav/Lemmas/MonoHeap.lean`, `MonoChain.lean` (M1: the fan lemma for `nodeTriangulate`
  on a back-chain of arbitrary length), `MonoGeom.lean`, `MonoFan.lean`, `MonoInv.lean` (chains
  without turns of one sign, visibility, area of a fan), `MonoEvents.lean`, `MonoFlows.lean`,
  `MonoRun.lean` (the events), `MonoStep*.lean` (state invariant `MInv`, induction over the event
  queue), `MonoPoly.lean` (from the input array to the two chains).
-/
import Cav.Lemmas.MonoPoly
import Cav.Thm.C04Convex

set_option linter.unusedSimpArgs false

namespace Cav.C04Monotone
open Cav Num Cav.Geo Cav.Sweep Cav.SweepRun Cav.SweepSetup Cav.TriRun Cav.QuadRun Cav.QuadGeom
open Cav.CvxEvents Cav.CvxLoop Cav.CvxSetup Cav.CvxPoly Cav.MonoPoly Cav.MonoStep Cav.C04Convex

/-- the theorem with the two chains given explicitly -/
theorem monotone_accepted_chains (P : Array (Rat × Rat)) (hn : 3 ≤ P.size) (hx : DistinctX P)
    (L m : Nat) (h2 : TwoChains P L m) (hsim : MonoSimple P L m) :
    ∃ T : List Tri, sweepMon [P.map (fun p => F p.1 p.2)] = .ok (T, true) ∧
      T.length = P.size - 2 ∧
      (∀ tr ∈ T, ∀ p ∈ [tr.1, tr.2.1, tr.2.2], ∃ (i : Nat) (hi : i < P.size), p = F (P[i]).1 (P[i]).2) ∧
      (∀ tr ∈ T, orientPt tr.1 tr.2.1 tr.2.2 ≠ 0) ∧
      (T.map fun tr => |orientPt tr.1 tr.2.1 tr.2.2|).sum = |shoelace P| := by
  have hL : L < P.size := h2.1
  have hm : m < P.size := h2.2.2.1
  have hs := polyOf_size P
  have hsetup := setup_single (polyOf P) L (by rw [hs]; exact hn) (by rw [hs]; exact hL)
    (valid_all hx) (ft_all h2)
  have hsz : (stQ (ringOf (polyOf P)) [(L, [])]).verts.size = P.size := by
    simp [stQ, ringOf, ringPre, hs]
  have hf0 : fwd P L 0 = L := by unfold fwd; rw [Nat.add_zero, Nat.mod_eq_of_lt hL]
  have hb0 : bwd P L 0 = L := by rw [bwd_zero, hf0]
  show ∃ T : List Tri, sweepMon [polyOf P] = .ok (T, true) ∧ _
  unfold sweepMon
  rw [run_eq, hsetup]
  simp only [hsz]
  -- the event loop, in the two orientations
  have fin : ∀ (mB mT : Nat) (b t : Nat → Rat × Rat) (s' : St XQ),
      s'.mono = true → s'.out.length = mB + mT - 2 → mB + mT = P.size →
      (∀ tr ∈ s'.out, TriOK mB mT b t tr ∧ 0 < triArea tr) →
      (∀ p, IsVtx mB mT b t p → ∃ (i : Nat) (hi : i < P.size), p = F (P[i]).1 (P[i]).2) →
      areaSum s'.out = |shoelace P| →
      ∃ T : List Tri, (.ok (s'.out.reverse, s'.mono) : Except (SErr XQ) (List Tri × Bool)) =
          .ok (T, true) ∧
        T.length = P.size - 2 ∧
        (∀ tr ∈ T, ∀ p ∈ [tr.1, tr.2.1, tr.2.2], ∃ (i : Nat) (hi : i < P.size), p = F (P[i]).1 (P[i]).2) ∧
        (∀ tr ∈ T, orientPt tr.1 tr.2.1 tr.2.2 ≠ 0) ∧
        (T.map fun tr => |orientPt tr.1 tr.2.1 tr.2.2|).sum = |shoelace P| := by
    intro mB mT b t s' hmono hlen hsum hv hin ha
    refine ⟨s'.out.reverse, ?_, ?_, ?_, ?_, ?_⟩
    · rw [hmono]
    · rw [List.length_reverse, hlen, hsum]
    · intro tr htr p hp
      obtain ⟨⟨h1, h2, h3⟩, -⟩ := hv tr (List.mem_reverse.mp htr)
      simp only [List.mem_cons, List.not_mem_nil, or_false] at hp
      rcases hp with rfl | rfl | rfl
      · exact hin _ h1
      · exact hin _ h2
      · exact hin _ h3
    · intro tr htr
      have := (hv tr (List.mem_reverse.mp htr)).2
      unfold triArea at this
      exact abs_pos.mp this
    · have := areaSum_reverse s'.out
      unfold areaSum triArea at this ha
      rw [this, ha]
  rcases hsim with ha | ha
  · have hC := mconv_fwd hx h2 ha hn
    obtain ⟨s', hrun, hmono, hlen, hv, ha⟩ := loop_mono hC (P.size + 1) (by omega)
    rw [hf0] at hrun
    rw [hrun]
    refine fin m (P.size - m) _ _ s' hmono hlen (by omega) hv
      (fun p hp => isVtx_input (by omega) (Or.inl hp)) ?_
    rw [ha, SAtot_ccw L m hm]
    have h0 := areaSum_nonneg s'.out
    rw [ha, SAtot_ccw L m hm] at h0
    exact (abs_of_nonneg h0).symm
  · have hC := mconv_bwd hx h2 ha hn
    obtain ⟨s', hrun, hmono, hlen, hv, ha⟩ := loop_mono hC (P.size + 1) (by omega)
    rw [hb0] at hrun
    rw [hrun]
    refine fin (P.size - m) m _ _ s' hmono hlen (by omega) hv
      (fun p hp => isVtx_input (by omega) (Or.inr hp)) ?_
    rw [ha, SAtot_cw L m hm]
    have h0 := areaSum_nonneg s'.out
    rw [ha, SAtot_cw L m hm] at h0
    exact (abs_of_nonpos (by linarith)).symm

/-- **Every simple x-monotone polygon in general position is accepted** (C04 for the class of
    x-monotone polygons: any number `n ≥ 3` of vertices, any starting vertex, either orientation,
    reflex vertices on both chains): the model returns `n - 2` triangles with `mono = true`; all
    corners are input vertices; all triangles are non-degenerate; the absolute doubled areas add
    up to the absolute doubled shoelace area. -/
theorem monotone_accepted (P : Array (Rat × Rat)) (hn : 3 ≤ P.size) (hx : DistinctX P)
    (hm : SimpleMonotone P) :
    ∃ T : List (Pt XQ × Pt XQ × Pt XQ),
      sweepMon [P.map (fun p => F p.1 p.2)] = .ok (T, true) ∧
      T.length = P.size - 2 ∧
      (∀ tr ∈ T, ∀ p ∈ [tr.1, tr.2.1, tr.2.2], ∃ (i : Nat) (hi : i < P.size), p = F (P[i]).1 (P[i]).2) ∧
      (∀ tr ∈ T, orientPt tr.1 tr.2.1 tr.2.2 ≠ 0) ∧
      (T.map fun tr => |orientPt tr.1 tr.2.1 tr.2.2|).sum = |shoelace P| := by
  obtain ⟨L, -, m, -, h2, hs⟩ := hm
  exact monotone_accepted_chains P hn hx L m h2 hs

/-- the plain result of the model (without the ghost flag) -/
theorem monotone_accepted_sweep (P : Array (Rat × Rat)) (hn : 3 ≤ P.size) (hx : DistinctX P)
    (hm : SimpleMonotone P) :
    ∃ T, sweep [P.map (fun p => F p.1 p.2)] = .ok T ∧ T.length = P.size - 2 := by
  obtain ⟨T, h, hl, -⟩ := monotone_accepted P hn hx hm
  refine ⟨T, ?_, hl⟩
  unfold sweepMon at h
  unfold sweep
  cases hr : (Sweep.run [P.map (fun p => F p.1 p.2)]).run (Sweep.initSt : St XQ) with
  | error e => rw [hr] at h; cases h
  | ok r =>
    rw [hr] at h
    simp only [Except.ok.injEq, Prod.mk.injEq] at h
    simp only [h.1]

/-! ### non-vacuity: concrete non-convex x-monotone polygons, evaluated by the kernel, and the
    theorem applied to them (so its hypotheses are satisfiable) -/

/-- a sawtooth ("mountain"): the lower chain is the single edge `(0,0) → (10,0)`, the upper
    chain has the three reflex vertices `(2,1)`, `(4,1)`, `(6,1)`; counter-clockwise from the
    leftmost vertex -/
def S9 : Array (Rat × Rat) := #[(0, 0), (10, 0), (7, 3), (6, 1), (5, 5), (4, 1), (3, 4), (2, 1), (1, 3)]
/-- reflex vertices on both chains (`(4,-1)` below, `(3,1)` and `(7,1)` above); clockwise, from
    a vertex in the middle of the upper chain (the leftmost vertex is `M10[7]`) -/
def M10 : Array (Rat × Rat) :=
  #[(5, 3), (7, 1), (8, 2), (9, 0), (6, -4), (4, -1), (2, -3), (0, 0), (1, 2), (3, 1)]
/-- all three interior vertices of the upper chain are reflex and lie to the left of the only
    interior vertex of the lower chain: the back-chain grows to four nodes, and the Bend at
    `(9,-40)` cuts the whole fan -/
def F6 : Array (Rat × Rat) := #[(0, 0), (9, -40), (10, 0), (6, -7), (4, -6), (2, -4)]

example : ¬ StrictlyConvex S9 ∧ ¬ StrictlyConvex M10 ∧ ¬ StrictlyConvex F6 := by decide +kernel

example : S9.map (fun p => F p.1 p.2) =
    #[F 0 0, F 10 0, F 7 3, F 6 1, F 5 5, F 4 1, F 3 4, F 2 1, F 1 3] := by decide +kernel
example : sweepMon [#[F 0 0, F 10 0, F 7 3, F 6 1, F 5 5, F 4 1, F 3 4, F 2 1, F 1 3]] =
    .ok ([(F 0 0, F 1 3, F 2 1), (F 2 1, F 3 4, F 4 1), (F 0 0, F 2 1, F 4 1), (F 4 1, F 5 5, F 6 1),
      (F 0 0, F 4 1, F 6 1), (F 6 1, F 7 3, F 10 0), (F 0 0, F 6 1, F 10 0)], true) := by
  decide +kernel
example : M10.map (fun p => F p.1 p.2) =
    #[F 5 3, F 7 1, F 8 2, F 9 0, F 6 (-4), F 4 (-1), F 2 (-3), F 0 0, F 1 2, F 3 1] := by
  decide +kernel
example : sweepMon [#[F 5 3, F 7 1, F 8 2, F 9 0, F 6 (-4), F 4 (-1), F 2 (-3), F 0 0, F 1 2, F 3 1]] =
    .ok ([(F 0 0, F 1 2, F 2 (-3)), (F 1 2, F 2 (-3), F 3 1), (F 2 (-3), F 3 1, F 4 (-1)),
      (F 3 1, F 4 (-1), F 5 3), (F 4 (-1), F 5 3, F 6 (-4)), (F 5 3, F 6 (-4), F 7 1),
      (F 6 (-4), F 7 1, F 8 2), (F 6 (-4), F 8 2, F 9 0)], true) := by
  decide +kernel
example : sweepMon [#[F 0 0, F 9 (-40), F 10 0, F 6 (-7), F 4 (-6), F 2 (-4)]] =
    .ok ([(F 0 0, F 2 (-4), F 9 (-40)), (F 2 (-4), F 4 (-6), F 9 (-40)),
      (F 4 (-6), F 6 (-7), F 9 (-40)), (F 6 (-7), F 9 (-40), F 10 0)], true) := by
  decide +kernel

-- the hypotheses of the theorem hold
example : 3 ≤ S9.size ∧ DistinctX S9 ∧ TwoChains S9 0 1 ∧ MonoSimple S9 0 1 := by decide +kernel
example : 3 ≤ M10.size ∧ DistinctX M10 ∧ TwoChains M10 7 6 ∧ MonoSimple M10 7 6 := by
  decide +kernel
example : 3 ≤ F6.size ∧ DistinctX F6 ∧ TwoChains F6 0 2 ∧ MonoSimple F6 0 2 := by decide +kernel
example : SimpleMonotone S9 ∧ SimpleMonotone M10 ∧ SimpleMonotone F6 := by decide +kernel

-- the theorem on the three polygons
example : ∃ T : List (Pt XQ × Pt XQ × Pt XQ),
    sweepMon [S9.map (fun p => F p.1 p.2)] = .ok (T, true) ∧ T.length = 7 ∧
      (∀ tr ∈ T, ∀ p ∈ [tr.1, tr.2.1, tr.2.2], ∃ (i : Nat) (hi : i < S9.size), p = F (S9[i]).1 (S9[i]).2) ∧
      (∀ tr ∈ T, orientPt tr.1 tr.2.1 tr.2.2 ≠ 0) ∧
      (T.map fun tr => |orientPt tr.1 tr.2.1 tr.2.2|).sum = |shoelace S9| :=
  monotone_accepted S9 (by decide) (by decide +kernel) (by decide +kernel)
example : ∃ T : List (Pt XQ × Pt XQ × Pt XQ),
    sweepMon [M10.map (fun p => F p.1 p.2)] = .ok (T, true) ∧ T.length = 8 ∧
      (∀ tr ∈ T, ∀ p ∈ [tr.1, tr.2.1, tr.2.2], ∃ (i : Nat) (hi : i < M10.size), p = F (M10[i]).1 (M10[i]).2) ∧
      (∀ tr ∈ T, orientPt tr.1 tr.2.1 tr.2.2 ≠ 0) ∧
      (T.map fun tr => |orientPt tr.1 tr.2.1 tr.2.2|).sum = |shoelace M10| :=
  monotone_accepted_chains M10 (by decide) (by decide +kernel) 7 6 (by decide +kernel)
    (by decide +kernel)
example : ∃ T : List (Pt XQ × Pt XQ × Pt XQ),
    sweepMon [F6.map (fun p => F p.1 p.2)] = .ok (T, true) ∧ T.length = 4 ∧
      (∀ tr ∈ T, ∀ p ∈ [tr.1, tr.2.1, tr.2.2], ∃ (i : Nat) (hi : i < F6.size), p = F (F6[i]).1 (F6[i]).2) ∧
      (∀ tr ∈ T, orientPt tr.1 tr.2.1 tr.2.2 ≠ 0) ∧
      (T.map fun tr => |orientPt tr.1 tr.2.1 tr.2.2|).sum = |shoelace F6| :=
  monotone_accepted F6 (by decide) (by decide +kernel) (by decide +kernel)

-- the convex polygons of `C04Convex.lean` are instances as well
example : SimpleMonotone P5 ∧ SimpleMonotone P6 := by decide +kernel

-- the simplicity hypothesis is needed: two x-monotone chains that cross (the upper chain dips
-- below the lower one) are not `MonoSimple`, and the model rejects the polygon
def X6 : Array (Rat × Rat) := #[(0, 0), (3, 4), (6, -1), (10, 0), (7, 3), (2, -2)]
example : DistinctX X6 ∧ TwoChains X6 0 3 ∧ ¬ MonoSimple X6 0 3 ∧ ¬ SimpleMonotone X6 := by
  decide +kernel
example : (sweepMon [X6.map (fun p => F p.1 p.2)]).toBool = false := by decide +kernel

end Cav.C04Monotone
