/-
  C15 — the executable link monitor run by the driver (`Model/SweepMon.lean`, import-free) is the monitor the
  borrow theorems of `Thm/C15Borrow.lean` are about; hence: on every input on which the driver's monitor holds,
  the model ends in no panic whatsoever (XQ), and in no borrow panic (any `Num` instance).
-/
import Cav.Model.SweepMon
import Cav.Thm.C15Borrow

set_option linter.unusedSectionVars false

namespace Cav.C15Monitor
open Cav Num Cav.Sweep

variable {α : Type} [Num α]

theorem polyBody_eq : @SweepMon.polyBody α _ = @SweepSetup.polyBody α _ := rfl

theorem sokB_eq (i : Nat) (e : Edge α) : SweepMon.sokB i e = SweepLinks.sokB i e := rfl

theorem headOkB_eq (s : St α) : SweepMon.headOkB s = SweepLinks.headOkB s := rfl

theorem loopChk_eq (fuel : Nat) (s : St α) : SweepMon.loopChk fuel s = SweepLinks.loopChk fuel s := by
  induction fuel generalizing s with
  | zero => rfl
  | succ fuel ih =>
    unfold SweepMon.loopChk SweepLinks.loopChk
    rw [headOkB_eq]
    cases (handleNext : SM α Unit).run s with
    | error e => rfl
    | ok r => obtain ⟨u, s'⟩ := r; simp only [ih]

theorem sweepChk_eq (polys : List (Array (Pt α))) :
    SweepMon.sweepChk polys = SweepLinks.sweepChk polys := by
  unfold SweepMon.sweepChk SweepLinks.sweepChk
  rw [polyBody_eq]
  cases (forIn polys ([] : List (Pt α)) SweepSetup.polyBody).run (initSt : St α) with
  | error e => rfl
  | ok r => obtain ⟨u, s⟩ := r; exact loopChk_eq _ _

/-- **the driver's monitor excludes the borrow panic** (any `Num` instance) -/
theorem no_borrow_of_monitor {polys : List (Array (Pt α))} (h : SweepMon.sweepChk polys = true) :
    sweep polys ≠ .error (.panic "borrow") :=
  C15Borrow.sweep_no_borrow_of_monitor (by rw [← sweepChk_eq]; exact h)

/-- **the driver's monitor excludes every panic** (exact arithmetic) -/
theorem never_panics_of_monitor {polys : List (Array (Pt XQ))} (h : SweepMon.sweepChk polys = true) :
    ∀ k, sweep polys ≠ .error (.panic k) :=
  C15Borrow.sweep_never_panics_of_monitor (by rw [← sweepChk_eq]; exact h)

end Cav.C15Monitor
