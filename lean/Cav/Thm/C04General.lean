/-
  C04 (every valid polygon set is accepted) for GENERAL VALID INPUT IN GENERAL POSITION: every
  finite list of simple polygons with pairwise disjoint boundaries — several components, holes,
  islands in holes, arbitrary nesting depth, any orientation, any starting vertex, polygons that
  are not x-monotone (Start vertices that split an in-interval, End vertices that merge two) —
  whose vertex abscissae are pairwise different, is accepted by the sweep model over `XQ`, and
  the ghost flag `mono` stays `true`:

      `general_accepted :  ValidSet polys → ∃ T, sweepMon (toInput polys) = .ok (T, true)`

  Validity (`ValidSet`, decidable, on rationals, orientation determinants only):
    * every polygon has at least three vertices;
    * the abscissae of all vertices of all polygons are pairwise different;
    * `EdgesApart`: any two ring edges without a common vertex (of the same or of different
      polygons) are apart — the end points of one of them lie strictly on one side of the other
      (`0 < orient a b c * orient a b d`), or their abscissa ranges are disjoint;
    * `NoSpike`: at a vertex whose two neighbours lie on the same side (a local extremum of the
      abscissa) the two edges are not collinear.
  For non-vertical segments `SegApart` is exactly disjointness, so `ValidSet` says: the polygons
  are simple and their boundaries pairwise disjoint.

  Layers (all proven):
    (G1) the invariant `GInv` (`Cav/Lemmas/GenInv.lean`) and its preservation by every handler in
         full generality: `ginv_bend`, `ginv_end` (closing and merging), `ginv_start` (proper
         and improper/splitting), `ginv_handleNext`; the event loop `ginv_loop`;
    (G2), (G3) are instances of (G4): see the examples at the end (two components; a polygon
         with a hole; an island in a hole; non-monotone polygons);
    (G4) `general_accepted` (decidable validity) and `general_accepted_noCross` (semantic
         validity `NoCross`: two different left-to-right ring edges have equal heights only at a
         common end point).

  The theorem states acceptance and the ghost flag only; the triangles are not characterised
  (the invariant does not describe the inside of the back-chains).

  Proof: `Cav/Lemmas/Gen*.lean` — `GenNodes` (`nodeTriangulate` never fails on a well-linked
  node heap), `GenQuery`, `GenActive` (search in the active list), `GenBend`, `GenEnd`,
  `GenStart*` (the handlers from an arbitrary heap), `GenGeom`, `GenOrder` (neighbouring edges do
  not cross before the next event), `GenInv`, `GenQueue`, `GenLinks*`, `GenStepBend*`,
  `GenStepEnd*`, `GenStepStart*`, `GenStep` (every event keeps the invariant), `GenLoop`,
  `GenRing`, `GenSetup` (set-up phase on an arbitrary polygon list), `GenAccept`, `GenValid`.
-/
import Cav.Lemmas.GenAccept
import Cav.Lemmas.GenValid

set_option linter.unusedSimpArgs false
set_option linter.unusedVariables false

namespace Cav.C04General
open Cav Num Cav.Geo Cav.Sweep Cav.TriRun Cav.QuadRun Cav.QuadGeom
open Cav.GenGeom Cav.GenInv Cav.GenRing Cav.GenValid Cav.GenStep Cav.GenLoop Cav.GenAccept
open Cav.GenStepBend Cav.GenStepEnd

/-- the input of the model for a list of rational polygons -/
abbrev toInput (polys : List (Array (Rat × Rat))) : List (Array (Pt XQ)) :=
  polys.map fun p => p.map fun q => F q.1 q.2

/-- **validity of a polygon list in general position**, by orientation determinants -/
def ValidSet (polys : List (Array (Rat × Rat))) : Prop :=
  (∀ p ∈ polys, 3 ≤ p.size) ∧ ((polys.flatMap Array.toList).map (·.1)).Nodup ∧
    EdgesApart (ringOf polys) ∧ NoSpike (ringOf polys)

instance (polys : List (Array (Rat × Rat))) : Decidable (ValidSet polys) := by
  unfold ValidSet; exact inferInstance

/-! ### (G4) the general statement -/

/-- **every valid polygon list in general position is accepted, and `mono` stays `true`** -/
theorem general_accepted (polys : List (Array (Rat × Rat))) (hv : ValidSet polys) :
    ∃ T, sweepMon (toInput polys) = .ok (T, true) := by
  obtain ⟨h3, hx, hA, hS⟩ := hv
  exact accept_of_noCross polys h3 hx (noCross_of (ringOK polys h3 hx) hA hS)

/-- the same with the semantic validity `NoCross` of the vertex ring -/
theorem general_accepted_noCross (polys : List (Array (Rat × Rat))) (h3 : ∀ p ∈ polys, 3 ≤ p.size)
    (hx : ((polys.flatMap Array.toList).map (·.1)).Nodup) (hN : NoCross (ringOf polys)) :
    ∃ T, sweepMon (toInput polys) = .ok (T, true) :=
  accept_of_noCross polys h3 hx hN

/-- validity by determinants implies the semantic validity -/
theorem valid_noCross (polys : List (Array (Rat × Rat))) (hv : ValidSet polys) :
    NoCross (ringOf polys) :=
  noCross_of (ringOK polys hv.1 hv.2.1) hv.2.2.1 hv.2.2.2

/-! ### (G1) the invariant and its preservation by the handlers -/

variable {R : RingQ}

/-- Bend vertex `w` (one neighbour `u` to the left, the other `w'` to the right) at the head of
    the queue: `handleNext` (that is `handleBend`) succeeds and keeps `GInv` -/
theorem ginv_bend (hN : NoCross R) {s : St XQ} (h : GInv R s)
    {w : Nat} {es : List Nat} {rest : List (Nat × List Nat)} (hev : s.events = (w, es) :: rest)
    {u w' : Nat} (hnb : (R.prv w = u ∧ R.nxt w = w') ∨ (R.prv w = w' ∧ R.nxt w = u))
    (hxu : R.x u < R.x w) (hxw' : R.x w < R.x w') :
    ∃ s', (handleNext : SM XQ Unit).run s = .ok ((), s') ∧ GInv R s' := by
  obtain ⟨xs, ivs, hI⟩ := h
  obtain ⟨s', hr, ivs', hI'⟩ := step_bend hN hI hev hnb hxu hxw'
  exact ⟨s', hr, _, ivs', hI'⟩

/-- End vertex `w` (both neighbours to the left; the in-interval is closed or two in-intervals
    are merged) at the head of the queue: `handleEnd` succeeds and keeps `GInv` -/
theorem ginv_end (hN : NoCross R) {s : St XQ} (h : GInv R s)
    {w : Nat} {es : List Nat} {rest : List (Nat × List Nat)} (hev : s.events = (w, es) :: rest)
    (hx0 : R.x (R.prv w) < R.x w) (hx1 : R.x (R.nxt w) < R.x w) :
    ∃ s', (handleNext : SM XQ Unit).run s = .ok ((), s') ∧ GInv R s' := by
  obtain ⟨xs, ivs, hI⟩ := h
  obtain ⟨s', hr, ivs', hI'⟩ := step_end hN hI hev hx0 hx1
  exact ⟨s', hr, _, ivs', hI'⟩

/-- Start vertex `w` (both neighbours to the right; a new in-interval is opened, or the
    in-interval around `w` is split) at the head of the queue: `handleStart` succeeds and keeps
    `GInv` -/
theorem ginv_start (hN : NoCross R) {s : St XQ} (h : GInv R s)
    {w : Nat} {es : List Nat} {rest : List (Nat × List Nat)} (hev : s.events = (w, es) :: rest)
    {wB wT : Nat} (hnb : (R.prv w = wB ∧ R.nxt w = wT) ∨ (R.prv w = wT ∧ R.nxt w = wB))
    (hxB : R.x w < R.x wB) (hxT : R.x w < R.x wT)
    (ho : 0 < orient (R.pt w) (R.pt wB) (R.pt wT)) :
    ∃ s', (handleNext : SM XQ Unit).run s = .ok ((), s') ∧ GInv R s' := by
  obtain ⟨xs, ivs, hI⟩ := h
  obtain ⟨s', hr, ivs', hI'⟩ := step_start hN hI hev hnb hxB hxT ho
  exact ⟨s', hr, _, ivs', hI'⟩

/-- **every event keeps the invariant** -/
theorem ginv_handleNext (hN : NoCross R) {s : St XQ} (h : GInv R s)
    {w : Nat} {es : List Nat} {rest : List (Nat × List Nat)} (hev : s.events = (w, es) :: rest) :
    ∃ s', (handleNext : SM XQ Unit).run s = .ok ((), s') ∧ GInv R s' := by
  obtain ⟨xs, ivs, hI⟩ := h
  obtain ⟨s', hr, ivs', hI'⟩ := step hN hI hev
  exact ⟨s', hr, _, ivs', hI'⟩

/-- the event loop from any state with the invariant: no error, no fuel exhaustion with
    `verts.size + 1` units, `mono = true` at the end -/
theorem ginv_loop (hN : NoCross R) {s : St XQ} (h : GInv R s) :
    ∃ s', (loop (s.verts.size + 1)).run s = .ok ((), s') ∧ s'.mono = true := by
  obtain ⟨xs, ivs, hI⟩ := h
  have := loop_ok hN (s.verts.size + 1) s xs ivs hI
    (by rw [hI.ring.size]; exact Nat.lt_succ_of_le (meas_le xs))
  exact this

/-! ### non-vacuity: concrete inputs evaluated by the kernel, the hypotheses checked by `decide`,
    and the theorem applied -/

/-- (G2) two components: two triangles, one above the other, overlapping abscissa ranges -/
def TwoTri : List (Array (Rat × Rat)) := [#[(0, 0), (4, 1), (2, 3)], #[(1, 5), (5, 6), (3, 8)]]

/-- (G3) a quadrilateral with a triangular hole -/
def Holed : List (Array (Rat × Rat)) := [#[(0, 0), (10, 1), (9, 9), (1, 8)], #[(3, 3), (6, 4), (5, 6)]]

/-- (G4) nesting depth three: a quadrilateral, a triangular hole, an island in the hole -/
def Island : List (Array (Rat × Rat)) :=
  [#[(0, 0), (12, 1), (11, 11), (1, 10)], #[(2, 2), (10, 3), (6, 9)], #[(5, 4), (7, 9 / 2), (13 / 2, 6)]]

/-- (G4) not x-monotone: the reflex vertex `(5,4)` is a Start vertex inside the polygon (the
    in-interval is split); next to it a second component -/
def SplitP : List (Array (Rat × Rat)) :=
  [#[(0, 0), (10, -1), (5, 4), (9, 9), (1, 8)], #[(11, 2), (13, 3), (12, 5)]]

/-- (G4) not x-monotone: the reflex vertex `(5,4)` is an End vertex inside the polygon (two
    in-intervals are merged) -/
def MergeP : List (Array (Rat × Rat)) := [#[(10, 0), (9, 9), (1, 8), (5, 4), (0, -1)]]

/-- the model accepts with `mono = true` -/
def acceptsMono (polys : List (Array (Rat × Rat))) : Bool :=
  match sweepMon (toInput polys) with
  | .ok (_, m) => m
  | .error _ => false

example : ValidSet TwoTri := by decide +kernel
example : ValidSet Holed := by decide +kernel
example : ValidSet Island := by decide +kernel
example : ValidSet SplitP := by decide +kernel
example : ValidSet MergeP := by decide +kernel

example : acceptsMono TwoTri = true := by decide +kernel
example : acceptsMono Holed = true := by decide +kernel
example : acceptsMono Island = true := by decide +kernel
example : acceptsMono SplitP = true := by decide +kernel
example : acceptsMono MergeP = true := by decide +kernel

example : ∃ T, sweepMon (toInput TwoTri) = .ok (T, true) := general_accepted TwoTri (by decide +kernel)
example : ∃ T, sweepMon (toInput Holed) = .ok (T, true) := general_accepted Holed (by decide +kernel)
example : ∃ T, sweepMon (toInput Island) = .ok (T, true) := general_accepted Island (by decide +kernel)
example : ∃ T, sweepMon (toInput SplitP) = .ok (T, true) := general_accepted SplitP (by decide +kernel)
example : ∃ T, sweepMon (toInput MergeP) = .ok (T, true) := general_accepted MergeP (by decide +kernel)

-- the hypotheses are needed: two triangles whose boundaries cross are not `ValidSet`, and the
-- model rejects them
def CrossTri : List (Array (Rat × Rat)) := [#[(0, 0), (6, 1), (3, 5)], #[(2, 2), (8, 3), (5, -2)]]
example : ¬ ValidSet CrossTri := by decide +kernel
example : acceptsMono CrossTri = false := by decide +kernel

end Cav.C04General
