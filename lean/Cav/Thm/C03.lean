/-
  C03 — the triangles emitted by the sweep-line triangulator are non-degenerate clockwise turns
  of node points (local statements).

  Statements over `XQ` (`instNumXQ`: exact rational arithmetic on finite values, IEEE rules for
  `±∞`/NaN, one zero).  `F x y` is the point with finite coordinates `x y : Rat`;
  `orient a b c` is twice the signed area (positive = counter-clockwise).

  Model path used: `Pt.cmp`, `Pt.grad`, `clockwiseSign`, `sort3`, `Sweep.nodeTriangulate`,
  `getNode`, `setNode`; for the global statements (`sweep_triangles`, `sweep_corners`,
  `sweep_triangles_orient`) the whole model `sweep`.  `Num` operations used: `- /  *`, `ofEq`, `ofCmp`, `signVal`, `isNaN`,
  `signBit`, `inf`.

  DEVIATION FROM THE REQUESTED STATEMENT.  `clockwiseSign … = .c → orient … ≠ 0` is FALSE when
  the lexicographically smallest point coincides with its successor: the gradient of a
  zero-length edge is `signVal 0 * ∞ = +∞`, so `clockwiseSign (F 0 0) (F 0 0) (F 1 0) = .c`
  although the triangle is degenerate (`degenerate_C_witness` below).  What is true, exactly:
  `clockwise_c_iff`, `clockwise_cc_iff`, `clockwise_none_iff`; and under the distinctness that the
  duplicate check of the set-up loop provides for input vertices, `clockwise_C_nondegenerate`.
-/
import Cav.Lemmas.GeomXQ
import Cav.Lemmas.SweepOut
import Cav.Lemmas.SweepCorners

namespace Cav.C03
open Cav Num Cav.Geo Cav.Sweep Cav.SweepOut Cav.SweepSetup

/-! ### the clockwise test on finite points -/

/-- `C` ⇔ negative orientation (clockwise), or one of two degenerate configurations in which the
    minimum vertex coincides with its successor and the third point lies strictly to the right. -/
theorem clockwise_c_iff (x0 y0 x1 y1 x2 y2 : Rat) :
    clockwiseSign (F x0 y0) (F x1 y1) (F x2 y2) = .c ↔
      orient (x0, y0) (x1, y1) (x2, y2) < 0 ∨ (x0 = x1 ∧ y0 = y1 ∧ x0 < x2)
        ∨ (x1 = x2 ∧ y1 = y2 ∧ x1 < x0) :=
  clockwiseSign_c_iff x0 y0 x1 y1 x2 y2

/-- `CC` ⇔ positive orientation, or the degenerate configuration `p2 = p0` left of `p1`. -/
theorem clockwise_cc_iff (x0 y0 x1 y1 x2 y2 : Rat) :
    clockwiseSign (F x0 y0) (F x1 y1) (F x2 y2) = .cc ↔
      0 < orient (x0, y0) (x1, y1) (x2, y2) ∨ (x2 = x0 ∧ y2 = y0 ∧ x0 < x1) :=
  clockwiseSign_cc_iff x0 y0 x1 y1 x2 y2

/-- `None` ⇔ collinear and none of the three degenerate configurations.  (This includes every
    triple on a vertical line: both gradients are `±∞` of the same sign, `∞ - ∞ = NaN`.) -/
theorem clockwise_none_iff (x0 y0 x1 y1 x2 y2 : Rat) :
    clockwiseSign (F x0 y0) (F x1 y1) (F x2 y2) = .none ↔
      orient (x0, y0) (x1, y1) (x2, y2) = 0 ∧ ¬ (x0 = x1 ∧ y0 = y1 ∧ x0 < x2)
        ∧ ¬ (x1 = x2 ∧ y1 = y2 ∧ x1 < x0) ∧ ¬ (x2 = x0 ∧ y2 = y0 ∧ x0 < x1) :=
  clockwiseSign_none_iff x0 y0 x1 y1 x2 y2

/-- `C` never comes with a positive orientation. -/
theorem clockwise_C_orient_le (x0 y0 x1 y1 x2 y2 : Rat)
    (h : clockwiseSign (F x0 y0) (F x1 y1) (F x2 y2) = .c) :
    orient (x0, y0) (x1, y1) (x2, y2) ≤ 0 := by
  rcases (clockwise_c_iff ..).mp h with h | ⟨rfl, rfl, _⟩ | ⟨rfl, rfl, _⟩
  · exact le_of_lt h
  · simp [orient]
  · apply le_of_eq; simp only [orient]; ring

/-- `CC` never comes with a negative orientation. -/
theorem clockwise_CC_orient_ge (x0 y0 x1 y1 x2 y2 : Rat)
    (h : clockwiseSign (F x0 y0) (F x1 y1) (F x2 y2) = .cc) :
    0 ≤ orient (x0, y0) (x1, y1) (x2, y2) := by
  rcases (clockwise_cc_iff ..).mp h with h | ⟨rfl, rfl, _⟩
  · exact le_of_lt h
  · apply le_of_eq; simp only [orient]; ring

/-- `None` is only answered on collinear triples. -/
theorem clockwise_none_orient (x0 y0 x1 y1 x2 y2 : Rat)
    (h : clockwiseSign (F x0 y0) (F x1 y1) (F x2 y2) = .none) :
    orient (x0, y0) (x1, y1) (x2, y2) = 0 :=
  ((clockwise_none_iff ..).mp h).1

/-- **Non-degeneracy** (the requested statement with the hypotheses it needs): if consecutive
    corners are distinct points, a `C` triple has strictly negative orientation, in particular
    non-zero area.  Vertical edges are covered (`Pt.grad = ±∞`). -/
theorem clockwise_C_nondegenerate (x0 y0 x1 y1 x2 y2 : Rat)
    (h01 : F x0 y0 ≠ F x1 y1) (h12 : F x1 y1 ≠ F x2 y2)
    (h : clockwiseSign (F x0 y0) (F x1 y1) (F x2 y2) = .c) :
    orient (x0, y0) (x1, y1) (x2, y2) < 0 := by
  rcases (clockwise_c_iff ..).mp h with h | ⟨rfl, rfl, _⟩ | ⟨rfl, rfl, _⟩
  · exact h
  · exact absurd rfl h01
  · exact absurd rfl h12

theorem clockwise_C_ne_zero (x0 y0 x1 y1 x2 y2 : Rat)
    (h01 : F x0 y0 ≠ F x1 y1) (h12 : F x1 y1 ≠ F x2 y2)
    (h : clockwiseSign (F x0 y0) (F x1 y1) (F x2 y2) = .c) :
    orient (x0, y0) (x1, y1) (x2, y2) ≠ 0 :=
  ne_of_lt (clockwise_C_nondegenerate _ _ _ _ _ _ h01 h12 h)

/-- a `CC` triple whose first and last corner differ has strictly positive orientation -/
theorem clockwise_CC_nondegenerate (x0 y0 x1 y1 x2 y2 : Rat)
    (h20 : F x2 y2 ≠ F x0 y0)
    (h : clockwiseSign (F x0 y0) (F x1 y1) (F x2 y2) = .cc) :
    0 < orient (x0, y0) (x1, y1) (x2, y2) := by
  rcases (clockwise_cc_iff ..).mp h with h | ⟨rfl, rfl, _⟩
  · exact h
  · exact absurd rfl h20

/-- completeness: a strictly clockwise triple is always answered `C` -/
theorem clockwise_of_orient_neg (x0 y0 x1 y1 x2 y2 : Rat)
    (h : orient (x0, y0) (x1, y1) (x2, y2) < 0) :
    clockwiseSign (F x0 y0) (F x1 y1) (F x2 y2) = .c :=
  (clockwise_c_iff ..).mpr (Or.inl h)

/-- completeness: a strictly counter-clockwise triple is always answered `CC` -/
theorem clockwise_of_orient_pos (x0 y0 x1 y1 x2 y2 : Rat)
    (h : 0 < orient (x0, y0) (x1, y1) (x2, y2)) :
    clockwiseSign (F x0 y0) (F x1 y1) (F x2 y2) = .cc :=
  (clockwise_cc_iff ..).mpr (Or.inl h)

/-- the witness that the unconditional statement is false: a `C` answer on a degenerate triple -/
theorem degenerate_C_witness :
    clockwiseSign (F 0 0) (F 0 0) (F 1 0) = .c ∧ orient (0, 0) (0, 0) (1, 0) = 0 := by
  constructor
  · decide +kernel
  · decide +kernel

example : clockwiseSign (F 0 0) (F 1 1) (F 1 0) = .c := by decide +kernel
example : orient (0, 0) (1, 1) (1, 0) = -1 := by decide +kernel
example : clockwiseSign (F 0 0) (F 1 0) (F 1 1) = .cc := by decide +kernel
/-- vertical first edge: gradient `+∞` -/
example : clockwiseSign (F 0 0) (F 0 1) (F 1 0) = .c := by decide +kernel
/-- three points on a vertical line: `∞ - ∞ = NaN ↦ None` -/
example : clockwiseSign (F 0 0) (F 0 1) (F 0 2) = .none := by decide +kernel
example : clockwiseSign (F 0 0) (F 1 1) (F 2 2) = .none := by decide +kernel
example : orient (0, 0) (1, 1) (1, 0) ≤ 0 := clockwise_C_orient_le 0 0 1 1 1 0 (by decide +kernel)
example : 0 ≤ orient (0, 0) (1, 0) (1, 1) := clockwise_CC_orient_ge 0 0 1 0 1 1 (by decide +kernel)
example : 0 < orient (0, 0) (1, 0) (1, 1) :=
  clockwise_CC_nondegenerate 0 0 1 0 1 1 (by decide +kernel) (by decide +kernel)
example : orient (0, 0) (1, 1) (2, 2) = 0 := clockwise_none_orient 0 0 1 1 2 2 (by decide +kernel)
example : clockwiseSign (F 0 0) (F 1 1) (F 1 0) = .c :=
  clockwise_of_orient_neg 0 0 1 1 1 0 (by decide +kernel)
example : clockwiseSign (F 0 0) (F 1 0) (F 1 1) = .cc :=
  clockwise_of_orient_pos 0 0 1 0 1 1 (by decide +kernel)
example : orient (0, 0) (1, 1) (1, 0) ≠ 0 :=
  clockwise_C_ne_zero 0 0 1 1 1 0 (by decide +kernel) (by decide +kernel) (by decide +kernel)
example : orient (0, 0) (1, 1) (1, 0) < 0 :=
  clockwise_C_nondegenerate 0 0 1 1 1 0 (by decide +kernel) (by decide +kernel) (by decide +kernel)

/-! ### `sort3` only reorders the corners -/

/-- the emitted (sorted) triangle has the same corners … -/
theorem sort3_perm {α : Type} [Num α] (a b c : Pt α) :
    [(sort3 a b c).1, (sort3 a b c).2.1, (sort3 a b c).2.2].Perm [a, b, c] :=
  Geo.sort3_perm a b c

/-- … and the same absolute area. -/
theorem sort3_abs_orient (a b c : Pt XQ) :
    |orientPt (sort3 a b c).1 (sort3 a b c).2.1 (sort3 a b c).2.2| = |orientPt a b c| :=
  Geo.sort3_abs_orient a b c

example : sort3 (F 1 0) (F 0 0) (F 0 1) = (F 0 0, F 0 1, F 1 0) := by decide +kernel

/-! ### what `nodeTriangulate` emits -/

/-- Every triple that `nodeTriangulate` pushes onto `out` is `sort3 p1 p2 p3` of the points of
    three node cells with `clockwiseSign p1 p2 p3 = .c` (`IsCwTriple`); node points never change
    (`SamePts`: same size, same point in every cell); nothing else in the state changes.
    Any `Num` instance. -/
theorem nodeTriangulate_out {α : Type} [Num α] (from_ : Nat) (bw : Bool) (fuel : Nat) (s s' : St α)
    (h : (nodeTriangulate from_ bw fuel).run s = .ok ((), s')) :
    ∃ new, s'.out = new ++ s.out ∧ (∀ t ∈ new, IsCwTriple s.nodes t) ∧
      (s'.nodes.size = s.nodes.size ∧ ∀ i : Nat, (s'.nodes[i]?).map Node.p = (s.nodes[i]?).map Node.p) ∧
      s'.x = s.x ∧ s'.verts = s.verts ∧ s'.chains = s.chains ∧ s'.edges = s.edges ∧
        s'.active = s.active ∧ s'.events = s.events :=
  SweepOut.nodeTriangulate_out from_ bw fuel s s' h

/-- `IsCwTriple` spelled out -/
example {α : Type} [Num α] (nodes : Array (Node α)) (t : Pt α × Pt α × Pt α) :
    IsCwTriple nodes t ↔
      ∃ (i1 i2 i3 : Nat) (p1 p2 p3 : Pt α), (nodes[i1]?).map Node.p = some p1 ∧ (nodes[i2]?).map Node.p = some p2 ∧
        (nodes[i3]?).map Node.p = some p3 ∧ clockwiseSign p1 p2 p3 = .c ∧ t = sort3 p1 p2 p3 :=
  Iff.rfl

/-- Over `XQ` with finite node points, every triangle emitted by `nodeTriangulate` has
    non-positive orientation before sorting, and non-zero area as soon as consecutive corners of
    the triple are distinct points. -/
theorem nodeTriangulate_nondegenerate (from_ : Nat) (bw : Bool) (fuel : Nat) (s s' : St XQ)
    (hfin : ∀ n ∈ s.nodes.toList, Finite n.p)
    (h : (nodeTriangulate from_ bw fuel).run s = .ok ((), s')) :
    ∃ new, s'.out = new ++ s.out ∧ ∀ t ∈ new, ∃ p1 p2 p3,
      t = sort3 p1 p2 p3 ∧ Finite p1 ∧ Finite p2 ∧ Finite p3 ∧ orientPt p1 p2 p3 ≤ 0 ∧
      |orientPt t.1 t.2.1 t.2.2| = |orientPt p1 p2 p3| ∧
      (p1 ≠ p2 → p2 ≠ p3 → orientPt p1 p2 p3 < 0 ∧ orientPt t.1 t.2.1 t.2.2 ≠ 0) := by
  obtain ⟨new, hout, hnew, -⟩ := SweepOut.nodeTriangulate_out from_ bw fuel s s' h
  refine ⟨new, hout, fun t ht => ?_⟩
  obtain ⟨i1, i2, i3, p1, p2, p3, h1, h2, h3, hc, rfl⟩ := hnew t ht
  have fin_of : ∀ i p, ptAt s.nodes i = some p → Finite p := by
    intro i p hp
    unfold ptAt at hp
    cases hn : s.nodes[i]? with
    | none => rw [hn] at hp; cases hp
    | some n =>
      rw [hn] at hp
      simp only [Option.map_some, Option.some.injEq] at hp
      subst hp
      exact hfin n (Array.mem_toList_iff.mpr (Array.mem_of_getElem? hn))
  have f1 := fin_of i1 p1 h1
  have f2 := fin_of i2 p2 h2
  have f3 := fin_of i3 p3 h3
  refine ⟨p1, p2, p3, rfl, f1, f2, f3, ?_, Geo.sort3_abs_orient p1 p2 p3, ?_⟩
  · obtain ⟨a, b, rfl⟩ := f1
    obtain ⟨c, d, rfl⟩ := f2
    obtain ⟨e, f, rfl⟩ := f3
    exact clockwise_C_orient_le a b c d e f hc
  · intro h12 h23
    obtain ⟨a, b, rfl⟩ := f1
    obtain ⟨c, d, rfl⟩ := f2
    obtain ⟨e, f, rfl⟩ := f3
    have hlt : orientPt (F a b) (F c d) (F e f) < 0 :=
      clockwise_C_nondegenerate a b c d e f h12 h23 hc
    refine ⟨hlt, ?_⟩
    intro h0
    have := Geo.sort3_abs_orient (F a b) (F c d) (F e f)
    rw [h0, abs_zero] at this
    exact (ne_of_lt hlt) (abs_eq_zero.mp this.symm)


/-! ### the whole model: emitted triangles are clockwise triples of input points -/

/-- `allPts polys`: the input points in input order -/
example {α : Type} (polys : List (Array (Pt α))) : allPts polys = polys.flatMap Array.toList := rfl

/-- **Every triangle in the result of `sweep` is `sort3 p1 p2 p3` of three INPUT points with
    `clockwiseSign p1 p2 p3 = .c`** (invariant of all handlers: every point stored in a chain
    node or as right end of an edge is the point of an input vertex; triangles are emitted only
    by `nodeTriangulate`).  Any `Num` instance. -/
theorem sweep_triangles {α : Type} [Num α] {polys : List (Array (Pt α))}
    {tris : List (Pt α × Pt α × Pt α)} (h : sweep polys = .ok tris) :
    ∀ t ∈ tris, ∃ p1 p2 p3, p1 ∈ allPts polys ∧ p2 ∈ allPts polys ∧ p3 ∈ allPts polys ∧
      clockwiseSign p1 p2 p3 = .c ∧ t = sort3 p1 p2 p3 :=
  SweepCorners.sweep_triangles h

/-- **corners are input vertices** (any `Num` instance) -/
theorem sweep_corners {α : Type} [Num α] {polys : List (Array (Pt α))}
    {tris : List (Pt α × Pt α × Pt α)} (h : sweep polys = .ok tris) :
    ∀ t ∈ tris, t.1 ∈ allPts polys ∧ t.2.1 ∈ allPts polys ∧ t.2.2 ∈ allPts polys :=
  SweepCorners.sweep_corners h

/-- Over `XQ`: a successful run only emits triangles whose corners are finite input points, of
    non-positive orientation before sorting, with the same absolute area after sorting, and of
    non-zero area as soon as consecutive corners of the clockwise triple are distinct points. -/
theorem sweep_triangles_orient {polys : List (Array (Pt XQ))}
    {tris : List (Pt XQ × Pt XQ × Pt XQ)} (h : sweep polys = .ok tris) :
    ∀ t ∈ tris, ∃ p1 p2 p3, p1 ∈ allPts polys ∧ p2 ∈ allPts polys ∧ p3 ∈ allPts polys ∧
      Finite p1 ∧ Finite p2 ∧ Finite p3 ∧ t = sort3 p1 p2 p3 ∧ orientPt p1 p2 p3 ≤ 0 ∧
      |orientPt t.1 t.2.1 t.2.2| = |orientPt p1 p2 p3| ∧
      (p1 ≠ p2 → p2 ≠ p3 → orientPt p1 p2 p3 < 0 ∧ orientPt t.1 t.2.1 t.2.2 ≠ 0) := by
  intro t ht
  obtain ⟨p1, p2, p3, m1, m2, m3, hc, rfl⟩ := SweepCorners.sweep_triangles h t ht
  obtain ⟨-, hfin, -⟩ := sweep_ok_valid h
  have fin_of : ∀ p ∈ allPts polys, Finite p := by
    intro p hp
    have := hfin p hp
    rw [finite_iff]; unfold FinPt at this; simpa using this
  have f1 := fin_of p1 m1
  have f2 := fin_of p2 m2
  have f3 := fin_of p3 m3
  refine ⟨p1, p2, p3, m1, m2, m3, f1, f2, f3, rfl, ?_, Geo.sort3_abs_orient p1 p2 p3, ?_⟩
  · obtain ⟨a, b, rfl⟩ := f1
    obtain ⟨c, d, rfl⟩ := f2
    obtain ⟨e, f, rfl⟩ := f3
    exact clockwise_C_orient_le a b c d e f hc
  · intro h12 h23
    obtain ⟨a, b, rfl⟩ := f1
    obtain ⟨c, d, rfl⟩ := f2
    obtain ⟨e, f, rfl⟩ := f3
    have hlt : orientPt (F a b) (F c d) (F e f) < 0 :=
      clockwise_C_nondegenerate a b c d e f h12 h23 hc
    refine ⟨hlt, ?_⟩
    intro h0
    have := Geo.sort3_abs_orient (F a b) (F c d) (F e f)
    rw [h0, abs_zero] at this
    exact (ne_of_lt hlt) (abs_eq_zero.mp this.symm)

-- decidable equality of model outcomes, for the kernel-evaluated examples
deriving instance DecidableEq for SErr
deriving instance DecidableEq for Except

/-- the unit square: both emitted triangles are clockwise triples of input points -/
example : ∀ t ∈ [(F 0 0, F 0 1, F 1 0), (F 0 1, F 1 0, F 1 1)],
    ∃ p1 p2 p3, p1 ∈ allPts [#[F 0 0, F 1 0, F 1 1, F 0 1]] ∧
      p2 ∈ allPts [#[F 0 0, F 1 0, F 1 1, F 0 1]] ∧ p3 ∈ allPts [#[F 0 0, F 1 0, F 1 1, F 0 1]] ∧
      clockwiseSign p1 p2 p3 = .c ∧ t = sort3 p1 p2 p3 :=
  sweep_triangles (polys := [#[F 0 0, F 1 0, F 1 1, F 0 1]]) (by decide +kernel)

example : ∀ t ∈ [(F 0 0, F 0 1, F 1 0), (F 0 1, F 1 0, F 1 1)],
    t.1 ∈ allPts [#[F 0 0, F 1 0, F 1 1, F 0 1]] ∧ t.2.1 ∈ allPts [#[F 0 0, F 1 0, F 1 1, F 0 1]] ∧
      t.2.2 ∈ allPts [#[F 0 0, F 1 0, F 1 1, F 0 1]] :=
  sweep_corners (polys := [#[F 0 0, F 1 0, F 1 1, F 0 1]]) (by decide +kernel)

/-- both triangles of the unit square have |orient| = 1 -/
example : orientPt (F 0 0) (F 0 1) (F 1 0) = -1 ∧ orientPt (F 0 1) (F 1 0) (F 1 1) = 1 := by
  decide +kernel

/-- a concrete `nodeTriangulate` run: three nodes in a chain making a clockwise turn -/
example :
    ((nodeTriangulate 2 true 5).run
      { (initSt : St XQ) with nodes := #[⟨F 0 0, none, some 1⟩, ⟨F 1 1, some 0, some 2⟩,
          ⟨F 1 0, some 1, none⟩] }).toOption.map (·.2.out) = some [(F 0 0, F 1 0, F 1 1)] := by
  decide +kernel

/-
  NOT PROVED (left as a comment, exact statement):

    theorem sweep_triangles_nondegenerate {polys} {tris} (h : sweep polys = .ok tris) :
      ∀ t ∈ tris, orientPt t.1 t.2.1 t.2.2 ≠ 0

  Reason: by `sweep_triangles_orient` it remains to show that the clockwise triple `p1 p2 p3`
  taken from three CONSECUTIVE chain nodes has `p1 ≠ p2` and `p2 ≠ p3`.  Distinct input
  vertices have distinct points (`sweep_ok_valid`), but `chainSplit` stores the same vertex point
  in several nodes (`nb`, `nt` carry `p`, `nd` copies the point of `rm`), so the statement needs
  the additional chain-shape invariant "consecutive nodes of a chain carry different points",
  which is not established here.
-/

end Cav.C03
