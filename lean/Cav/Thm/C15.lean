/-
  C15 — input validation and error classification of the sweep-line triangulator.

  Pure parts (`fromTriplet`, `validPt`, `Pt.cmp`) and the soundness direction for the whole
  model: every error `.noPolygon` / `.nonFinite` / `.duplicate p` reported by `sweep` names a
  defect that is present in the input; these three errors are raised only by the set-up loop
  (`loop_never_setup_error`).  Completeness is proved for the first polygon; a successful run
  has validated the whole input (`sweep_ok_input_valid`).  Over `XQ`: events are only ever
  queued strictly to the right of the sweep point (`handleNext_monotone`) and the fuel of the
  event loop never runs out (`sweep_never_oof`).

  The statements about `sweep`, `validPt`, `fromTriplet` hold for EVERY `Num` instance (so in
  particular for `XQ` with finite or non-finite inputs, and for `Float`); the statements about
  `Pt.cmp`/`Pt.eq`/`fromTriplet` on finite points are over `XQ` (`F x y` = the point with
  rational coordinates `x y`).

  Model path used: `Pt.cmp/eq/lt/gt/ge`, `fromTriplet`, `Sweep.validPt`, `Sweep.setupPolygon`,
  `Sweep.run`, `Sweep.loop` and everything below it, `sweep`.
-/
import Cav.Lemmas.GeomXQ
import Cav.Lemmas.SweepSetup
import Cav.Lemmas.SweepEvents

namespace Cav.C15
open Cav Num Cav.Geo Cav.Sweep Cav.SweepSetup Cav.SweepEvents

-- decidable equality of model outcomes, for the kernel-evaluated examples
deriving instance DecidableEq for SErr
deriving instance DecidableEq for Except

/-! ### `Pt.eq` and `Pt.cmp` on finite points -/

/-- on finite points `Pt.eq` is equality -/
theorem Pt.eq_fin (a b c d : Rat) : (F a b).eq (F c d) = true ↔ F a b = F c d :=
  Geo.Pt.eq_fin_iff a b c d

/-- on finite points `Pt.cmp` is the lexicographic comparison of the rational coordinates -/
theorem Pt.cmp_fin (a b c d : Rat) :
    (F a b).cmp (F c d) =
      if a < c then .lt else if c < a then .gt
      else if b < d then .lt else if d < b then .gt else .eq :=
  Geo.Pt.cmp_fin a b c d

theorem Pt.cmp_fin_lt (a b c d : Rat) : (F a b).cmp (F c d) = .lt ↔ lexLt (a, b) (c, d) :=
  Geo.Pt.cmp_fin_lt a b c d
theorem Pt.cmp_fin_gt (a b c d : Rat) : (F a b).cmp (F c d) = .gt ↔ lexLt (c, d) (a, b) :=
  Geo.Pt.cmp_fin_gt a b c d
theorem Pt.cmp_fin_eq (a b c d : Rat) : (F a b).cmp (F c d) = .eq ↔ F a b = F c d := by
  rw [Geo.Pt.cmp_fin_eq]; simp [F]

/-- `lexLt p q ↔ p.1 < q.1 ∨ (p.1 = q.1 ∧ p.2 < q.2)` is a strict total order -/
theorem lexLt_irrefl (p : Rat × Rat) : ¬ lexLt p p := by
  unfold lexLt; simp
theorem lexLt_trans {p q r : Rat × Rat} (h1 : lexLt p q) (h2 : lexLt q r) : lexLt p r := by
  unfold lexLt at *
  rcases h1 with h1 | ⟨h1, h1'⟩ <;> rcases h2 with h2 | ⟨h2, h2'⟩
  · exact Or.inl (lt_trans h1 h2)
  · exact Or.inl (h2 ▸ h1)
  · exact Or.inl (h1 ▸ h2)
  · exact Or.inr ⟨h1.trans h2, lt_trans h1' h2'⟩
theorem lexLt_trichotomy (p q : Rat × Rat) : lexLt p q ∨ p = q ∨ lexLt q p := by
  obtain ⟨a, b⟩ := p
  obtain ⟨c, d⟩ := q
  unfold lexLt
  rcases lt_trichotomy a c with h | h | h
  · exact Or.inl (Or.inl h)
  · rcases lt_trichotomy b d with h' | h' | h'
    · exact Or.inl (Or.inr ⟨h, h'⟩)
    · exact Or.inr (Or.inl (by rw [h, h']))
    · exact Or.inr (Or.inr (Or.inr ⟨h.symm, h'⟩))
  · exact Or.inr (Or.inr (Or.inl h))

theorem Pt.lt_fin (a b c d : Rat) : (F a b).lt (F c d) = true ↔ lexLt (a, b) (c, d) := by
  simp [Pt.lt, Geo.Pt.cmp_fin_lt]
theorem Pt.gt_fin (a b c d : Rat) : (F a b).gt (F c d) = true ↔ lexLt (c, d) (a, b) := by
  simp [Pt.gt, Geo.Pt.cmp_fin_gt]
theorem Pt.ge_fin (a b c d : Rat) : (F a b).ge (F c d) = true ↔ ¬ lexLt (a, b) (c, d) := by
  simp [Pt.ge, Geo.Pt.cmp_fin_lt]

example : (F 0 1).cmp (F 0 2) = .lt := by decide +kernel
example : (F 1 0).cmp (F 0 2) = .gt := by decide +kernel

/-! ### `fromTriplet` -/

section
variable {α : Type} [Num α]

/-- `NoPointType` ⇔ the vertex coincides with a ring neighbour -/
theorem fromTriplet_none_iff (p p1 p2 : Pt α) :
    fromTriplet p p1 p2 = none ↔ (p.eq p1 = true ∨ p.eq p2 = true) := by
  unfold fromTriplet
  cases h1 : p.eq p1 <;> cases h2 : p.eq p2 <;> cases h3 : p.lt p1 <;> cases h4 : p.lt p2 <;>
    cases h5 : p.gt p1 <;> cases h6 : p.gt p2 <;> simp

theorem fromTriplet_start_iff (p p1 p2 : Pt α) :
    fromTriplet p p1 p2 = some .start ↔
      p.eq p1 = false ∧ p.eq p2 = false ∧ p.lt p1 = true ∧ p.lt p2 = true := by
  unfold fromTriplet
  cases h1 : p.eq p1 <;> cases h2 : p.eq p2 <;> cases h3 : p.lt p1 <;> cases h4 : p.lt p2 <;>
    simp <;> split <;> simp

theorem fromTriplet_end_iff (p p1 p2 : Pt α) :
    fromTriplet p p1 p2 = some .end_ ↔
      p.eq p1 = false ∧ p.eq p2 = false ∧ ¬ (p.lt p1 = true ∧ p.lt p2 = true) ∧
        p.gt p1 = true ∧ p.gt p2 = true := by
  unfold fromTriplet
  cases h1 : p.eq p1 <;> cases h2 : p.eq p2 <;> cases h3 : p.lt p1 <;> cases h4 : p.lt p2 <;>
    cases h5 : p.gt p1 <;> cases h6 : p.gt p2 <;> simp

theorem fromTriplet_bend_iff (p p1 p2 : Pt α) :
    fromTriplet p p1 p2 = some .bend ↔
      p.eq p1 = false ∧ p.eq p2 = false ∧ ¬ (p.lt p1 = true ∧ p.lt p2 = true) ∧
        ¬ (p.gt p1 = true ∧ p.gt p2 = true) := by
  unfold fromTriplet
  cases h1 : p.eq p1 <;> cases h2 : p.eq p2 <;> cases h3 : p.lt p1 <;> cases h4 : p.lt p2 <;>
    cases h5 : p.gt p1 <;> cases h6 : p.gt p2 <;> simp

/-- the classification does not depend on the order of the two neighbours -/
theorem fromTriplet_comm (p p1 p2 : Pt α) : fromTriplet p p1 p2 = fromTriplet p p2 p1 := by
  unfold fromTriplet
  rw [Bool.or_comm (p.eq p1), Bool.and_comm (p.lt p1), Bool.and_comm (p.gt p1)]

end

/-- on finite points: `Start` ⇔ both neighbours are lexicographically larger -/
theorem fromTriplet_start_fin (a b a1 b1 a2 b2 : Rat) :
    fromTriplet (F a b) (F a1 b1) (F a2 b2) = some .start ↔
      lexLt (a, b) (a1, b1) ∧ lexLt (a, b) (a2, b2) := by
  rw [fromTriplet_start_iff, Pt.lt_fin, Pt.lt_fin]
  constructor
  · rintro ⟨-, -, h1, h2⟩; exact ⟨h1, h2⟩
  · rintro ⟨h1, h2⟩
    refine ⟨?_, ?_, h1, h2⟩
    · rw [Geo.Pt.eq_fin]; simp only [decide_eq_false_iff_not]
      rintro ⟨rfl, rfl⟩; exact lexLt_irrefl _ h1
    · rw [Geo.Pt.eq_fin]; simp only [decide_eq_false_iff_not]
      rintro ⟨rfl, rfl⟩; exact lexLt_irrefl _ h2

/-- on finite points: `End` ⇔ both neighbours are lexicographically smaller -/
theorem fromTriplet_end_fin (a b a1 b1 a2 b2 : Rat) :
    fromTriplet (F a b) (F a1 b1) (F a2 b2) = some .end_ ↔
      lexLt (a1, b1) (a, b) ∧ lexLt (a2, b2) (a, b) := by
  rw [fromTriplet_end_iff, Pt.lt_fin, Pt.lt_fin, Pt.gt_fin, Pt.gt_fin]
  constructor
  · rintro ⟨-, -, -, h1, h2⟩; exact ⟨h1, h2⟩
  · rintro ⟨h1, h2⟩
    refine ⟨?_, ?_, ?_, h1, h2⟩
    · rw [Geo.Pt.eq_fin]; simp only [decide_eq_false_iff_not]
      rintro ⟨rfl, rfl⟩; exact lexLt_irrefl _ h1
    · rw [Geo.Pt.eq_fin]; simp only [decide_eq_false_iff_not]
      rintro ⟨rfl, rfl⟩; exact lexLt_irrefl _ h2
    · rintro ⟨h3, -⟩; exact lexLt_irrefl _ (lexLt_trans h1 h3)

/-- on finite points: `NoPointType` ⇔ the vertex equals a ring neighbour -/
theorem fromTriplet_none_fin (a b a1 b1 a2 b2 : Rat) :
    fromTriplet (F a b) (F a1 b1) (F a2 b2) = none ↔ (F a b = F a1 b1 ∨ F a b = F a2 b2) := by
  rw [fromTriplet_none_iff, Pt.eq_fin, Pt.eq_fin]

/-- on finite points: `Bend` ⇔ the vertex lies strictly between its neighbours -/
theorem fromTriplet_bend_fin (a b a1 b1 a2 b2 : Rat) :
    fromTriplet (F a b) (F a1 b1) (F a2 b2) = some .bend ↔
      (lexLt (a1, b1) (a, b) ∧ lexLt (a, b) (a2, b2)) ∨
        (lexLt (a2, b2) (a, b) ∧ lexLt (a, b) (a1, b1)) := by
  have hn := fromTriplet_none_fin a b a1 b1 a2 b2
  have hs := fromTriplet_start_fin a b a1 b1 a2 b2
  have he := fromTriplet_end_fin a b a1 b1 a2 b2
  have t1 := lexLt_trichotomy (a, b) (a1, b1)
  have t2 := lexLt_trichotomy (a, b) (a2, b2)
  have e1 : F a b = F a1 b1 ↔ (a, b) = (a1, b1) := by simp [F]
  have e2 : F a b = F a2 b2 ↔ (a, b) = (a2, b2) := by simp [F]
  have i1 := lexLt_irrefl (a, b)
  have as1 : lexLt (a, b) (a1, b1) → ¬ lexLt (a1, b1) (a, b) :=
    fun h h' => lexLt_irrefl _ (lexLt_trans h h')
  have as2 : lexLt (a, b) (a2, b2) → ¬ lexLt (a2, b2) (a, b) :=
    fun h h' => lexLt_irrefl _ (lexLt_trans h h')
  cases hft : fromTriplet (F a b) (F a1 b1) (F a2 b2) with
  | none =>
    rw [hft] at hn
    simp only [reduceCtorEq, false_iff, not_or, not_and]
    rcases hn.mp rfl with h | h
    · rw [e1.mp h]; exact ⟨fun h' => absurd h' (lexLt_irrefl _), fun _ => lexLt_irrefl _⟩
    · rw [e2.mp h]; exact ⟨fun _ => lexLt_irrefl _, fun h' => absurd h' (lexLt_irrefl _)⟩
  | some k =>
    rw [hft] at hn hs he
    have hne1 : ¬ (a, b) = (a1, b1) := fun h => by simp [e1.mpr h] at hn
    have hne2 : ¬ (a, b) = (a2, b2) := fun h => by simp [e2.mpr h] at hn
    cases k with
    | start =>
      have := hs.mp rfl
      simp only [reduceCtorEq, Option.some.injEq, false_iff, not_or, not_and]
      exact ⟨fun h => absurd this.1 (fun h' => as1 h' h), fun h => absurd this.2 (fun h' => as2 h' h)⟩
    | end_ =>
      have := he.mp rfl
      simp only [reduceCtorEq, Option.some.injEq, false_iff, not_or, not_and]
      exact ⟨fun _ h => as2 h this.2, fun _ h => as1 h this.1⟩
    | bend =>
      simp only [true_iff]
      have hs' : ¬ (lexLt (a, b) (a1, b1) ∧ lexLt (a, b) (a2, b2)) := fun h => by
        have := hs.mpr h; cases this
      have he' : ¬ (lexLt (a1, b1) (a, b) ∧ lexLt (a2, b2) (a, b)) := fun h => by
        have := he.mpr h; cases this
      rcases t1 with h1 | h1 | h1
      · rcases t2 with h2 | h2 | h2
        · exact absurd ⟨h1, h2⟩ hs'
        · exact absurd h2 hne2
        · exact Or.inr ⟨h2, h1⟩
      · exact absurd h1 hne1
      · rcases t2 with h2 | h2 | h2
        · exact Or.inl ⟨h1, h2⟩
        · exact absurd h2 hne2
        · exact absurd ⟨h1, h2⟩ he'

example : fromTriplet (F 0 0) (F 1 0) (F 0 1) = some .start := by decide +kernel
example : fromTriplet (F 1 1) (F 1 0) (F 0 1) = some .end_ := by decide +kernel
example : fromTriplet (F 0 1) (F 0 0) (F 0 2) = some .bend := by decide +kernel
example : fromTriplet (F 0 1) (F 0 1) (F 0 2) = none := by decide +kernel

/-! ### `validPt` (any `Num` instance) -/

section
variable {α : Type} [Num α]

/-- `FinPt p` : both coordinates pass `is_finite` -/
example (p : Pt α) : FinPt p ↔ (Num.isFinite p.x && Num.isFinite p.y) = true := Iff.rfl

theorem validPt_nonFinite_iff (seen : List (Pt α)) (pt : Pt α) :
    validPt seen pt = .error .nonFinite ↔ ¬ FinPt pt :=
  SweepSetup.validPt_nonFinite_iff seen pt

theorem validPt_duplicate_iff (seen : List (Pt α)) (pt q : Pt α) :
    validPt seen pt = .error (.duplicate q) ↔
      q = pt ∧ FinPt pt ∧ ∃ s ∈ seen, s.eq pt = true :=
  SweepSetup.validPt_duplicate_iff seen pt q

theorem validPt_ok_iff (seen seen' : List (Pt α)) (pt : Pt α) :
    validPt seen pt = .ok seen' ↔
      FinPt pt ∧ (∀ s ∈ seen, s.eq pt = false) ∧ seen' = pt :: seen :=
  SweepSetup.validPt_ok_iff seen seen' pt

/-- no other outcome -/
theorem validPt_cases (seen : List (Pt α)) (pt : Pt α) :
    validPt seen pt = .ok (pt :: seen) ∨ validPt seen pt = .error .nonFinite ∨
      validPt seen pt = .error (.duplicate pt) :=
  SweepSetup.validPt_cases seen pt

end

/-- over `XQ`, `FinPt` is `Finite` (`∃ x y, p = F x y`) -/
theorem finPt_iff_finite (p : Pt XQ) : FinPt p ↔ Finite p := by
  rw [finite_iff]; unfold FinPt; simp

example : validPt [F 0 0] (F 1 0) = .ok [F 1 0, F 0 0] := by decide +kernel
example : validPt [F 0 0, F 1 0] (F 1 0) = .error (.duplicate (F 1 0)) := by decide +kernel
example : validPt [F 0 0] (⟨.fin 1, .pinf⟩ : Pt XQ) = .error .nonFinite := by decide +kernel
example : validPt [F 0 0] (⟨.nan, .fin 0⟩ : Pt XQ) = .error .nonFinite := by decide +kernel

/-! ### error classification of the whole model (any `Num` instance, any input) -/

section
variable {α : Type} [Num α]

/-- the three set-up errors are never raised by the event loop -/
theorem loop_never_setup_error {fuel : Nat} {s : St α} {e : SErr α}
    (h : (loop fuel).run s = .error e) :
    e ≠ .noPolygon ∧ e ≠ .nonFinite ∧ ∀ p, e ≠ .duplicate p :=
  SweepNSE.loop_error h

/-- `NoPolygon` is only reported when some polygon has fewer than three vertices -/
theorem sweep_noPolygon_sound {polys : List (Array (Pt α))}
    (h : sweep polys = .error .noPolygon) : ∃ poly ∈ polys, poly.size < 3 :=
  SweepSetup.sweep_noPolygon h

/-- `NonFinite` is only reported when some input coordinate is not finite -/
theorem sweep_nonFinite_sound {polys : List (Array (Pt α))}
    (h : sweep polys = .error .nonFinite) :
    ∃ poly ∈ polys, ∃ p ∈ poly.toList,
      ¬ (Num.isFinite p.x = true ∧ Num.isFinite p.y = true) := by
  obtain ⟨poly, hp, p, hpp, hnf⟩ := SweepSetup.sweep_nonFinite h
  refine ⟨poly, hp, p, hpp, ?_⟩
  unfold FinPt at hnf
  simpa using hnf

/-- `Duplicate p` is only reported when `p` is finite and occurs at some position of the input
    (polygons concatenated in input order) while a `Pt.eq`-equal point occurs strictly earlier -/
theorem sweep_duplicate_sound {polys : List (Array (Pt α))} {p : Pt α}
    (h : sweep polys = .error (.duplicate p)) :
    (Num.isFinite p.x = true ∧ Num.isFinite p.y = true) ∧
      ∃ (i j : Nat) (q : Pt α), i < j ∧ (allPts polys)[i]? = some q ∧ (allPts polys)[j]? = some p ∧
        q.eq p = true := by
  obtain ⟨hf, pre, post, q, hsplit, hq, he⟩ := SweepSetup.sweep_duplicate h
  refine ⟨by unfold FinPt at hf; simpa using hf, ?_⟩
  obtain ⟨i, hi, hqi⟩ := List.getElem_of_mem hq
  refine ⟨i, pre.length, q, hi, ?_, ?_, he⟩
  · rw [hsplit, List.getElem?_append_left hi, List.getElem?_eq_getElem hi, hqi]
  · rw [hsplit]; simp

/-- `allPts` : the input points in input order -/
example (polys : List (Array (Pt α))) : allPts polys = polys.flatMap Array.toList := rfl

theorem sweep_nil : sweep ([] : List (Array (Pt α))) = .ok [] := SweepSetup.sweep_nil

/-- a successful run has validated its whole input: every polygon has at least three vertices,
    every point is finite, no point is `Pt.eq` to an earlier one (so no validation error was
    silently skipped) -/
theorem sweep_ok_input_valid {polys : List (Array (Pt α))} {tris : List (Pt α × Pt α × Pt α)}
    (h : sweep polys = .ok tris) :
    (∀ poly ∈ polys, 3 ≤ poly.size) ∧ (∀ p ∈ allPts polys, FinPt p) ∧
      ∀ pre post p, allPts polys = pre ++ p :: post → ∀ q ∈ pre, q.eq p = false :=
  SweepSetup.sweep_ok_valid h

/-- completeness for the first polygon: fewer than three vertices -/
theorem sweep_first_polygon_small (poly : Array (Pt α)) (rest : List (Array (Pt α)))
    (h : poly.size < 3) : sweep (poly :: rest) = .error .noPolygon :=
  SweepSetup.sweep_first_small poly rest h

/-- completeness for the first polygon: its first vertex is not finite -/
theorem sweep_first_vertex_nonFinite (poly : Array (Pt α)) (rest : List (Array (Pt α)))
    (h : 3 ≤ poly.size) (hnf : ¬ FinPt (poly.getD 0 dummyPt)) :
    sweep (poly :: rest) = .error .nonFinite :=
  SweepSetup.sweep_first_nonFinite poly rest h hnf

end

/-! ### event monotonicity and fuel (over `XQ`) -/

/-- `AllFin V`: every vertex point is finite; `keyOf V i`: the rational coordinates of vertex
    `i`; `EvSorted V evs`: the keys of the queue are in range and strictly ascending by point. -/
example (V : Array (Vtx XQ)) :
    AllFin V ↔ ∀ (i : Nat) (v : Vtx XQ), V[i]? = some v → Geo.Finite v.p := Iff.rfl
example (V : Array (Vtx XQ)) (evs : List (Nat × List Nat)) :
    EvSorted V evs ↔ ((∀ a ∈ evs, a.1 < V.size) ∧
      evs.Pairwise (fun a b => lexLt (keyOf V a.1) (keyOf V b.1))) := Iff.rfl

/-- **event monotonicity**: one pass of `handleNext` over a sorted queue with head vertex `lp`
    leaves the vertex ring unchanged and a sorted queue all of whose vertices lie strictly
    after the point of `lp` (events are only ever queued to the right of the sweep point:
    `Start` queues both ring neighbours, `Bend` the larger one, `End` none). -/
theorem handleNext_monotone {V : Array (Vtx XQ)} (hfin : AllFin V) {s s' : St XQ}
    (hV : s.verts = V) (hsorted : EvSorted V s.events) {lp : Nat} {r : List Nat}
    {rest : List (Nat × List Nat)} (hev : s.events = (lp, r) :: rest)
    (h : (handleNext : SM XQ Unit).run s = .ok ((), s')) :
    s'.verts = V ∧ EvSorted V s'.events ∧
      ∀ a ∈ s'.events, lexLt (keyOf V lp) (keyOf V a.1) :=
  SweepEvents.handleNext_ok hfin hV hsorted hev h

/-- the set-up phase establishes the hypotheses of `handleNext_monotone` -/
theorem setup_establishes_invariant (polys : List (Array (Pt XQ))) {seen : List (Pt XQ)}
    {s : St XQ}
    (h : (forIn polys ([] : List (Pt XQ)) polyBody).run (initSt : St XQ) = .ok (seen, s)) :
    AllFin s.verts ∧ EvSorted s.verts s.events :=
  ((Pres.forIn_list polyBody polyBody_sv polys ([] : List (Pt XQ))).ok setupInv_init h).1

/-- the event loop with the fuel `verts.size + 1` that `run` gives it never runs dry -/
theorem loop_fuel_suffices {s : St XQ} (hfin : AllFin s.verts)
    (hsorted : EvSorted s.verts s.events) :
    (loop (s.verts.size + 1) : SM XQ Unit).run s ≠ .error .oof :=
  loop_no_oof hfin (s.verts.size + 1) s rfl hsorted (need_le_size hsorted)

/-- **no fuel exhaustion**: for every input over `XQ` (finite or not), the model never answers
    `.oof`; at most `verts.size` events are handled -/
theorem sweep_never_oof (polys : List (Array (Pt XQ))) : sweep polys ≠ .error .oof :=
  SweepEvents.sweep_ne_oof polys

/-! ### concrete runs over `XQ` (kernel evaluation of the model) -/

/-- the unit square: two triangles -/
example : sweep [#[F 0 0, F 1 0, F 1 1, F 0 1]] =
    .ok [(F 0 0, F 0 1, F 1 0), (F 0 1, F 1 0, F 1 1)] := by decide +kernel

example : sweep [#[F 0 0, F 1 0]] = .error .noPolygon := by decide +kernel
example : sweep [#[F 0 0, F 1 0, F 1 1], #[F 5 5]] = .error .noPolygon := by decide +kernel
example : sweep [#[F 0 0, F 1 0, (⟨.fin 1, .pinf⟩ : Pt XQ)]] = .error .nonFinite := by
  decide +kernel
example : sweep [#[(⟨.nan, .fin 0⟩ : Pt XQ), F 1 0, F 1 1]] = .error .nonFinite := by
  decide +kernel
example : sweep [#[F 0 0, F 1 0, F 1 1, F 1 0]] = .error (.duplicate (F 1 0)) := by
  decide +kernel
example : sweep [#[F 0 0, F 1 0, F 1 1], #[F 5 5, F 6 5, F 1 1]] = .error (.duplicate (F 1 1)) := by
  decide +kernel

/-- the soundness theorems applied to these runs -/
example : ∃ poly ∈ [#[F 0 0, F 1 0]], poly.size < 3 :=
  sweep_noPolygon_sound (by decide +kernel)
example : ∃ poly ∈ [#[F 0 0, F 1 0, (⟨.fin 1, .pinf⟩ : Pt XQ)]], ∃ p ∈ poly.toList,
    ¬ (Num.isFinite p.x = true ∧ Num.isFinite p.y = true) :=
  sweep_nonFinite_sound (by decide +kernel)
example : (Num.isFinite (F 1 0).x = true ∧ Num.isFinite (F 1 0).y = true) ∧
    ∃ (i j : Nat) (q : Pt XQ), i < j ∧ (allPts [#[F 0 0, F 1 0, F 1 1, F 1 0]])[i]? = some q ∧
      (allPts [#[F 0 0, F 1 0, F 1 1, F 1 0]])[j]? = some (F 1 0) ∧ q.eq (F 1 0) = true :=
  sweep_duplicate_sound (by decide +kernel)
example : sweep [#[F 0 0, F 1 0], #[F 0 0, F 1 0, F 1 1]] = .error .noPolygon :=
  sweep_first_polygon_small _ _ (by decide)
example : sweep [#[(⟨.nan, .fin 0⟩ : Pt XQ), F 1 0, F 1 1]] = .error .nonFinite :=
  sweep_first_vertex_nonFinite _ _ (by decide) (by decide +kernel)
example : sweep [#[F 0 0, F 1 0, F 1 1, F 0 1]] ≠ .error .oof := sweep_never_oof _

/-- refutation witness: three collinear points on a vertical line used to panic in the
    implementation; the model reports an overlap -/
example : sweep [#[F 0 2, F 0 1, F 0 0]] = .error (.overlap .end_ (F 0 2)) := by decide +kernel

end Cav.C15
