/-
  C11 — "When the sign changes of the derivative of g are separated by more than one sampling cell,
  g is strictly monotone on every piece": gluing the per-cell statements of `Thm/C11Mono` over the
  whole shifted grid, and the monotonicity consequence.

  Setting and notation as in `Thm/C11Mono`: `splitStrictlyMonotone f xv tol m = .ok res` is the model
  of `split_strictly_monotone`, `X = shiftedGrid xv tol`, `σ = gridSign xv = ±1`, `g' = D1.df f`,
  cell `i` (`1 ≤ i < xv.length`) is `[X[i-1], X[i]]` (`InCellR σ X[i-1] X[i] z`), `F : ℝ → ℝ` a
  continuous real extension of `g'`, `G : ℝ → ℝ` a real function with derivative `F`.
  The HULL of the shifted grid is the oriented closed interval from `X[0]` to `X[xv.length-1]`
  (`InHull xv tol z`); it is `[a + σ·tol, b − σ·tol]` for a grid from `a` to `b`: the model never
  samples `g'` in the two end strips of width `tol`, and nothing is claimed there.

  "Separated by more than one sampling cell" enters as in `C11Mono.real_zeros_all_located`, as the
  two explicit hypotheses
    `hsep`  every closed cell contains at most one real zero of `F`,
    `hchg`  a closed cell that contains a real zero of `F` has grid ends of opposite strict sign
  (NOT derived from a statement about simple zeros; see the header of `Thm/C11Mono`, item (a)).

  (G1) `hull_point_in_some_cell`: every real point of the hull lies in some closed cell
       (`cell_subset_hull`: and conversely, under `CellHyp`).  This closes item (b) of `C11Mono`.
  (G2) `deriv_ne_zero_outside_neighbourhoods_global`, `deriv_same_sign_outside_neighbourhoods_global`:
       `F` has no zero at hull points `≥ 2·tol` away from all returned points, and two hull points
       with the whole segment between them `≥ 2·tol` away from all returned points have `F` of the
       same strict sign — no "same cell" hypothesis.
  (G3) `strictMono_between_boundaries`: on any real interval `[u, v]` inside the hull all of whose
       points are `≥ 2·tol` away from every returned point, `G` is strictly increasing (and `F > 0`
       on `[u, v]`) or strictly decreasing (and `F < 0` on `[u, v]`).
       `strictMono_on_trimmed_piece`: the same for the PIECE between two consecutive boundaries: the
       returned list is cut anywhere, `res = l₁ ++ l₂` (`l₁ = []`: first piece, `l₂ = []`: last
       piece); `[u, v]` lies in the hull, at least `2·tol` after the last point of `l₁` and at least
       `2·tol` before the first point of `l₂` (in the direction `σ`).
  (G4) `rs_strictMono_between_boundaries`, `rs_strictMono_on_trimmed_piece`: the polynomial instance
       `f = adPoly pg`, `F = evalPolyR (derivCoeffs pg)`, `G = evalPolyR pg`; a concrete run.

  NOT proved here: the derivation of `hsep`/`hchg` from "simple zeros pairwise more than one cell
  apart" (item (a) of `C11Mono`); anything about the two end strips `[a, a + σ·tol)`,
  `(b − σ·tol, b]` and about the `2·tol` neighbourhoods of the returned points.
-/
import Cav.Lemmas.RootGlue

namespace Cav.C11Glue
open Cav Num Gen Cav.BrentL Cav.SplitL Cav.C13Split Cav.C11Roots Cav.C11Mono Cav.C01 Cav.C07Accuracy
open Cav.RootGlue

/-- the hull of the shifted grid: the oriented closed interval from its first to its last point -/
def InHull (xv : List Rat) (tol : Rat) (z : ℝ) : Prop :=
  InCellR (gridSign xv) ((shiftedGrid xv tol).getD 0 0) ((shiftedGrid xv tol).getD (xv.length - 1) 0) z

/-! ## (G1) the cells cover the hull -/

/-- **(G1).**  For a grid of at least two points, every real `z` of the hull of the shifted grid
    (between `X[0]` and `X[last]` in the direction `σ`) lies in some closed cell `[X[i-1], X[i]]`,
    `1 ≤ i < xv.length`.  (`CellHyp` is not needed for this direction.) -/
theorem hull_point_in_some_cell (xv : List Rat) (tol : Rat) (hn : 2 ≤ xv.length) (z : ℝ)
    (hz : InHull xv tol z) :
    ∃ i, 1 ≤ i ∧ i < xv.length ∧
      InCellR (gridSign xv) ((shiftedGrid xv tol).getD (i - 1) 0) ((shiftedGrid xv tol).getD i 0) z := by
  obtain ⟨i, i1, i2, hin⟩ :=
    point_in_some_cell (gridSign xv) (shiftedGrid xv tol) z (xv.length - 1) (by omega) hz.1 hz.2
  exact ⟨i, i1, by omega, hin⟩

/-- **(G1), converse.**  Under `CellHyp` every real point of a closed cell lies in the hull: the hull
    is exactly the union of the closed cells. -/
theorem cell_subset_hull (xv : List Rat) (tol : Rat) (hc : CellHyp xv tol) (i : Nat) (h1 : 1 ≤ i)
    (h2 : i < xv.length) (z : ℝ)
    (hz : InCellR (gridSign xv) ((shiftedGrid xv tol).getD (i - 1) 0) ((shiftedGrid xv tol).getD i 0) z) :
    InHull xv tol z := by
  have hlo := shiftedGrid_mono xv tol hc 0 (i - 1) (Nat.zero_le _) (by omega)
  have hhi := shiftedGrid_mono xv tol hc i (xv.length - 1) (by omega) (by omega)
  have hlo' : ((gridSign xv : Rat) : ℝ) * (((shiftedGrid xv tol).getD 0 0 : Rat) : ℝ) ≤
      ((gridSign xv : Rat) : ℝ) * (((shiftedGrid xv tol).getD (i - 1) 0 : Rat) : ℝ) := by
    exact_mod_cast hlo
  have hhi' : ((gridSign xv : Rat) : ℝ) * (((shiftedGrid xv tol).getD i 0 : Rat) : ℝ) ≤
      ((gridSign xv : Rat) : ℝ) * (((shiftedGrid xv tol).getD (xv.length - 1) 0 : Rat) : ℝ) := by
    exact_mod_cast hhi
  exact ⟨le_trans hlo' hz.1, le_trans hz.2 hhi'⟩

/-- a real point between two real points of the hull lies in the hull -/
theorem inHull_of_between {xv : List Rat} {tol : Rat} {x y z : ℝ} (hx : InHull xv tol x)
    (hy : InHull xv tol y) (h1 : min x y ≤ z) (h2 : z ≤ max x y) : InHull xv tol z :=
  inCellR_of_between_real (gridSign_pm xv) hx hy h1 h2

/-! ## (G2) no zero, and constant strict sign, outside the neighbourhoods — globally -/

/-- **(G2), no zero.**  Under the hypotheses of `C11Mono.real_zeros_all_located` and `0 < tol`, `F`
    has NO zero at a real point `x` of the hull of the shifted grid that is at least `2·tol` away from
    every returned point. -/
theorem deriv_ne_zero_outside_neighbourhoods_global (f : AD Rat → AD Rat) (F : ℝ → ℝ)
    (hF : Continuous F) (hFf : ∀ q : Rat, F (q : ℝ) = ((D1.df f q : Rat) : ℝ))
    (xv : List Rat) (tol : Rat) (m : Nat) (res : List Rat) (hc : CellHyp xv tol) (htol : 0 < tol)
    (hn : 2 ≤ xv.length)
    (hsep : ∀ i, 1 ≤ i → i < xv.length → ∀ ζ ζ' : ℝ, F ζ = 0 → F ζ' = 0 →
      InCellR (gridSign xv) ((shiftedGrid xv tol).getD (i - 1) 0) ((shiftedGrid xv tol).getD i 0) ζ →
      InCellR (gridSign xv) ((shiftedGrid xv tol).getD (i - 1) 0) ((shiftedGrid xv tol).getD i 0) ζ' →
      ζ' = ζ)
    (hchg : ∀ i, 1 ≤ i → i < xv.length → ∀ ζ : ℝ, F ζ = 0 →
      InCellR (gridSign xv) ((shiftedGrid xv tol).getD (i - 1) 0) ((shiftedGrid xv tol).getD i 0) ζ →
      D1.df f ((shiftedGrid xv tol).getD (i - 1) 0) * D1.df f ((shiftedGrid xv tol).getD i 0) < 0)
    (h : splitStrictlyMonotone f xv tol m = .ok res) (x : ℝ) (hx : InHull xv tol x)
    (hfar : ∀ r ∈ res, 2 * (tol : ℝ) ≤ |(r : ℝ) - x|) : F x ≠ 0 := by
  obtain ⟨i, i1, i2, hin⟩ := hull_point_in_some_cell xv tol hn x hx
  exact deriv_ne_zero_outside_neighbourhoods f F hF hFf xv tol m res hc htol hsep hchg h i i1 i2 x hin
    hfar

/-- **(G2), constant strict sign across cells.**  Under the hypotheses of
    `C11Mono.real_zeros_all_located` and `0 < tol`: if `x`, `y` are real points of the hull of the
    shifted grid (possibly in different cells) and every point between them is at least `2·tol` away
    from every returned point, then `F x` and `F y` are non-zero with the SAME strict sign. -/
theorem deriv_same_sign_outside_neighbourhoods_global (f : AD Rat → AD Rat) (F : ℝ → ℝ)
    (hF : Continuous F) (hFf : ∀ q : Rat, F (q : ℝ) = ((D1.df f q : Rat) : ℝ))
    (xv : List Rat) (tol : Rat) (m : Nat) (res : List Rat) (hc : CellHyp xv tol) (htol : 0 < tol)
    (hn : 2 ≤ xv.length)
    (hsep : ∀ i, 1 ≤ i → i < xv.length → ∀ ζ ζ' : ℝ, F ζ = 0 → F ζ' = 0 →
      InCellR (gridSign xv) ((shiftedGrid xv tol).getD (i - 1) 0) ((shiftedGrid xv tol).getD i 0) ζ →
      InCellR (gridSign xv) ((shiftedGrid xv tol).getD (i - 1) 0) ((shiftedGrid xv tol).getD i 0) ζ' →
      ζ' = ζ)
    (hchg : ∀ i, 1 ≤ i → i < xv.length → ∀ ζ : ℝ, F ζ = 0 →
      InCellR (gridSign xv) ((shiftedGrid xv tol).getD (i - 1) 0) ((shiftedGrid xv tol).getD i 0) ζ →
      D1.df f ((shiftedGrid xv tol).getD (i - 1) 0) * D1.df f ((shiftedGrid xv tol).getD i 0) < 0)
    (h : splitStrictlyMonotone f xv tol m = .ok res) (x y : ℝ)
    (hx : InHull xv tol x) (hy : InHull xv tol y)
    (hfar : ∀ z : ℝ, min x y ≤ z → z ≤ max x y → ∀ r ∈ res, 2 * (tol : ℝ) ≤ |(r : ℝ) - z|) :
    0 < F x * F y :=
  same_sign_of_no_zero_between hF x y fun z g1 g2 =>
    deriv_ne_zero_outside_neighbourhoods_global f F hF hFf xv tol m res hc htol hn hsep hchg h z
      (inHull_of_between hx hy g1 g2) (hfar z g1 g2)

/-! ## (G3) strict monotonicity between the boundaries -/

/-- **(G3).**  Hypotheses of `C11Mono.real_zeros_all_located`, `0 < tol`, and `G : ℝ → ℝ`
    differentiable everywhere with derivative `F`.  Let `[u, v]` be a real interval whose two ends lie
    in the hull of the shifted grid and all of whose points are at least `2·tol` away from every
    returned point.  Then EITHER `F > 0` on all of `[u, v]` and `G` is strictly increasing on
    `[u, v]`, OR `F < 0` on all of `[u, v]` and `G` is strictly decreasing on `[u, v]`; the sign of
    `F` at any one point of `[u, v]` decides which. -/
theorem strictMono_between_boundaries (f : AD Rat → AD Rat) (F G : ℝ → ℝ)
    (hF : Continuous F) (hFf : ∀ q : Rat, F (q : ℝ) = ((D1.df f q : Rat) : ℝ))
    (hG : ∀ z, HasDerivAt G (F z) z)
    (xv : List Rat) (tol : Rat) (m : Nat) (res : List Rat) (hc : CellHyp xv tol) (htol : 0 < tol)
    (hn : 2 ≤ xv.length)
    (hsep : ∀ i, 1 ≤ i → i < xv.length → ∀ ζ ζ' : ℝ, F ζ = 0 → F ζ' = 0 →
      InCellR (gridSign xv) ((shiftedGrid xv tol).getD (i - 1) 0) ((shiftedGrid xv tol).getD i 0) ζ →
      InCellR (gridSign xv) ((shiftedGrid xv tol).getD (i - 1) 0) ((shiftedGrid xv tol).getD i 0) ζ' →
      ζ' = ζ)
    (hchg : ∀ i, 1 ≤ i → i < xv.length → ∀ ζ : ℝ, F ζ = 0 →
      InCellR (gridSign xv) ((shiftedGrid xv tol).getD (i - 1) 0) ((shiftedGrid xv tol).getD i 0) ζ →
      D1.df f ((shiftedGrid xv tol).getD (i - 1) 0) * D1.df f ((shiftedGrid xv tol).getD i 0) < 0)
    (h : splitStrictlyMonotone f xv tol m = .ok res) (u v : ℝ)
    (hu : InHull xv tol u) (hv : InHull xv tol v)
    (hfar : ∀ z ∈ Set.Icc u v, ∀ r ∈ res, 2 * (tol : ℝ) ≤ |(r : ℝ) - z|) :
    ((∀ w ∈ Set.Icc u v, 0 < F w) ∧ StrictMonoOn G (Set.Icc u v)) ∨
    ((∀ w ∈ Set.Icc u v, F w < 0) ∧ StrictAntiOn G (Set.Icc u v)) :=
  strictMono_or_strictAnti_of_no_zero hF hG u v fun z hz =>
    deriv_ne_zero_outside_neighbourhoods_global f F hF hFf xv tol m res hc htol hn hsep hchg h z
      (inHull_of_between hu hv (le_trans (min_le_left _ _) hz.1) (le_trans hz.2 (le_max_right _ _)))
      (hfar z hz)

/-- **(G3), the piece between two consecutive boundaries.**  Hypotheses as in
    `strictMono_between_boundaries`.  Cut the returned list anywhere, `res = l₁ ++ l₂` (`l₁ = []`: the
    first piece, `l₂ = []`: the last piece; otherwise the piece between the consecutive boundaries
    `p = last of l₁` and `q = first of l₂`).  Let `[u, v]` be a real interval with both ends in the
    hull of the shifted grid, at least `2·tol` after `p` and at least `2·tol` before `q` in the
    direction `σ` (a condition only on the two NEIGHBOURING boundaries: the returned points are
    sorted, `C13Split.split_roots_sorted`).  Then `G` is strictly increasing on `[u, v]` with `F > 0`
    there, or strictly decreasing on `[u, v]` with `F < 0` there. -/
theorem strictMono_on_trimmed_piece (f : AD Rat → AD Rat) (F G : ℝ → ℝ)
    (hF : Continuous F) (hFf : ∀ q : Rat, F (q : ℝ) = ((D1.df f q : Rat) : ℝ))
    (hG : ∀ z, HasDerivAt G (F z) z)
    (xv : List Rat) (tol : Rat) (m : Nat) (l₁ l₂ : List Rat) (hc : CellHyp xv tol) (htol : 0 < tol)
    (hn : 2 ≤ xv.length)
    (hsep : ∀ i, 1 ≤ i → i < xv.length → ∀ ζ ζ' : ℝ, F ζ = 0 → F ζ' = 0 →
      InCellR (gridSign xv) ((shiftedGrid xv tol).getD (i - 1) 0) ((shiftedGrid xv tol).getD i 0) ζ →
      InCellR (gridSign xv) ((shiftedGrid xv tol).getD (i - 1) 0) ((shiftedGrid xv tol).getD i 0) ζ' →
      ζ' = ζ)
    (hchg : ∀ i, 1 ≤ i → i < xv.length → ∀ ζ : ℝ, F ζ = 0 →
      InCellR (gridSign xv) ((shiftedGrid xv tol).getD (i - 1) 0) ((shiftedGrid xv tol).getD i 0) ζ →
      D1.df f ((shiftedGrid xv tol).getD (i - 1) 0) * D1.df f ((shiftedGrid xv tol).getD i 0) < 0)
    (h : splitStrictlyMonotone f xv tol m = .ok (l₁ ++ l₂)) (u v : ℝ)
    (hu : InHull xv tol u) (hv : InHull xv tol v)
    (hp : ∀ p, l₁.getLast? = some p →
      ((gridSign xv : Rat) : ℝ) * (p : ℝ) + 2 * (tol : ℝ) ≤ ((gridSign xv : Rat) : ℝ) * u ∧
      ((gridSign xv : Rat) : ℝ) * (p : ℝ) + 2 * (tol : ℝ) ≤ ((gridSign xv : Rat) : ℝ) * v)
    (hq : ∀ q, l₂.head? = some q →
      ((gridSign xv : Rat) : ℝ) * u ≤ ((gridSign xv : Rat) : ℝ) * (q : ℝ) - 2 * (tol : ℝ) ∧
      ((gridSign xv : Rat) : ℝ) * v ≤ ((gridSign xv : Rat) : ℝ) * (q : ℝ) - 2 * (tol : ℝ)) :
    ((∀ w ∈ Set.Icc u v, 0 < F w) ∧ StrictMonoOn G (Set.Icc u v)) ∨
    ((∀ w ∈ Set.Icc u v, F w < 0) ∧ StrictAntiOn G (Set.Icc u v)) :=
  strictMono_between_boundaries f F G hF hFf hG xv tol m (l₁ ++ l₂) hc htol hn hsep hchg h u v hu hv
    (far_of_trimmed_piece (gridSign_pm xv) l₁ l₂ (split_roots_sorted f xv tol m _ hc h) u v hp hq)

/-! ## (G4) the polynomial instance -/

/-- **(G4), Riemann–Stieltjes integrator** `g = adPoly pg`: `g' = evalPolyR (derivCoeffs pg)` is the
    Mathlib derivative of the real polynomial `evalPolyR pg`.  If every closed cell of the shifted
    grid contains at most one real zero of `g'` and a cell that contains one has grid ends of opposite
    strict sign, then on every real interval `[u, v]` inside the hull all of whose points are at least
    `2·tol` away from every returned point, the real polynomial `g` is strictly increasing (with
    `g' > 0` throughout) or strictly decreasing (with `g' < 0` throughout). -/
theorem rs_strictMono_between_boundaries (pg : List Rat) (xv : List Rat) (tol : Rat) (m : Nat)
    (res : List Rat) (hc : CellHyp xv tol) (htol : 0 < tol) (hn : 2 ≤ xv.length)
    (hsep : ∀ i, 1 ≤ i → i < xv.length → ∀ ζ ζ' : ℝ,
      evalPolyR (derivCoeffs pg) ζ = 0 → evalPolyR (derivCoeffs pg) ζ' = 0 →
      InCellR (gridSign xv) ((shiftedGrid xv tol).getD (i - 1) 0) ((shiftedGrid xv tol).getD i 0) ζ →
      InCellR (gridSign xv) ((shiftedGrid xv tol).getD (i - 1) 0) ((shiftedGrid xv tol).getD i 0) ζ' →
      ζ' = ζ)
    (hchg : ∀ i, 1 ≤ i → i < xv.length → ∀ ζ : ℝ, evalPolyR (derivCoeffs pg) ζ = 0 →
      InCellR (gridSign xv) ((shiftedGrid xv tol).getD (i - 1) 0) ((shiftedGrid xv tol).getD i 0) ζ →
      evalPoly (derivCoeffs pg) ((shiftedGrid xv tol).getD (i - 1) 0) *
        evalPoly (derivCoeffs pg) ((shiftedGrid xv tol).getD i 0) < 0)
    (h : splitStrictlyMonotone (adPoly pg) xv tol m = .ok res) (u v : ℝ)
    (hu : InHull xv tol u) (hv : InHull xv tol v)
    (hfar : ∀ z ∈ Set.Icc u v, ∀ r ∈ res, 2 * (tol : ℝ) ≤ |(r : ℝ) - z|) :
    ((∀ w ∈ Set.Icc u v, 0 < evalPolyR (derivCoeffs pg) w) ∧
      StrictMonoOn (evalPolyR pg) (Set.Icc u v)) ∨
    ((∀ w ∈ Set.Icc u v, evalPolyR (derivCoeffs pg) w < 0) ∧
      StrictAntiOn (evalPolyR pg) (Set.Icc u v)) :=
  strictMono_between_boundaries (adPoly pg) (evalPolyR (derivCoeffs pg)) (evalPolyR pg)
    (evalPolyR_continuous _) (fun q => by rw [evalPolyR_cast, D1_df_adPoly])
    (evalPolyR_hasDerivAt pg) xv tol m res hc htol hn hsep
    (fun i h1 h2 ζ hζ hin => by rw [D1_df_adPoly, D1_df_adPoly]; exact hchg i h1 h2 ζ hζ hin)
    h u v hu hv hfar

/-- **(G4), the piece between two consecutive boundaries, polynomial integrator.**
    `strictMono_on_trimmed_piece` for `g = adPoly pg`. -/
theorem rs_strictMono_on_trimmed_piece (pg : List Rat) (xv : List Rat) (tol : Rat) (m : Nat)
    (l₁ l₂ : List Rat) (hc : CellHyp xv tol) (htol : 0 < tol) (hn : 2 ≤ xv.length)
    (hsep : ∀ i, 1 ≤ i → i < xv.length → ∀ ζ ζ' : ℝ,
      evalPolyR (derivCoeffs pg) ζ = 0 → evalPolyR (derivCoeffs pg) ζ' = 0 →
      InCellR (gridSign xv) ((shiftedGrid xv tol).getD (i - 1) 0) ((shiftedGrid xv tol).getD i 0) ζ →
      InCellR (gridSign xv) ((shiftedGrid xv tol).getD (i - 1) 0) ((shiftedGrid xv tol).getD i 0) ζ' →
      ζ' = ζ)
    (hchg : ∀ i, 1 ≤ i → i < xv.length → ∀ ζ : ℝ, evalPolyR (derivCoeffs pg) ζ = 0 →
      InCellR (gridSign xv) ((shiftedGrid xv tol).getD (i - 1) 0) ((shiftedGrid xv tol).getD i 0) ζ →
      evalPoly (derivCoeffs pg) ((shiftedGrid xv tol).getD (i - 1) 0) *
        evalPoly (derivCoeffs pg) ((shiftedGrid xv tol).getD i 0) < 0)
    (h : splitStrictlyMonotone (adPoly pg) xv tol m = .ok (l₁ ++ l₂)) (u v : ℝ)
    (hu : InHull xv tol u) (hv : InHull xv tol v)
    (hp : ∀ p, l₁.getLast? = some p →
      ((gridSign xv : Rat) : ℝ) * (p : ℝ) + 2 * (tol : ℝ) ≤ ((gridSign xv : Rat) : ℝ) * u ∧
      ((gridSign xv : Rat) : ℝ) * (p : ℝ) + 2 * (tol : ℝ) ≤ ((gridSign xv : Rat) : ℝ) * v)
    (hq : ∀ q, l₂.head? = some q →
      ((gridSign xv : Rat) : ℝ) * u ≤ ((gridSign xv : Rat) : ℝ) * (q : ℝ) - 2 * (tol : ℝ) ∧
      ((gridSign xv : Rat) : ℝ) * v ≤ ((gridSign xv : Rat) : ℝ) * (q : ℝ) - 2 * (tol : ℝ)) :
    ((∀ w ∈ Set.Icc u v, 0 < evalPolyR (derivCoeffs pg) w) ∧
      StrictMonoOn (evalPolyR pg) (Set.Icc u v)) ∨
    ((∀ w ∈ Set.Icc u v, evalPolyR (derivCoeffs pg) w < 0) ∧
      StrictAntiOn (evalPolyR pg) (Set.Icc u v)) :=
  strictMono_on_trimmed_piece (adPoly pg) (evalPolyR (derivCoeffs pg)) (evalPolyR pg)
    (evalPolyR_continuous _) (fun q => by rw [evalPolyR_cast, D1_df_adPoly])
    (evalPolyR_hasDerivAt pg) xv tol m l₁ l₂ hc htol hn hsep
    (fun i h1 h2 ζ hζ hin => by rw [D1_df_adPoly, D1_df_adPoly]; exact hchg i h1 h2 ζ hζ hin)
    h u v hu hv hp hq

/-! ## non-vacuity: the run of `C11Mono` (`fineGrid`, `g = 2x³ + x²/2 − x`, `tol = 1/100`)

`g' = (3x − 1)(2x + 1)` has the real zeros `−1/2` (cell 2) and `1/3` (cell 5); the returned points
are `r₁ ≈ −0.49996`, `r₂ ≈ 0.33532`; the hull of the shifted grid is `[−99/100, 99/100]`. -/

/-- the zeros of `g'` -/
theorem fine_zero_iff (ζ : ℝ) : evalPolyR (derivCoeffs exG) ζ = 0 ↔ ζ = 1 / 3 ∨ ζ = -1 / 2 := by
  rw [exG'_eq]; exact exG'_zero_iff ζ

/-- `hsep` for the run: at most one real zero of `g'` per closed cell -/
theorem fine_hsep (i : Nat) (h1 : 1 ≤ i) (h2 : i < fineGrid.length) (ζ ζ' : ℝ)
    (hζ : evalPolyR (derivCoeffs exG) ζ = 0) (hζ' : evalPolyR (derivCoeffs exG) ζ' = 0)
    (hin : InCellR (gridSign fineGrid) ((shiftedGrid fineGrid (1 / 100)).getD (i - 1) 0)
      ((shiftedGrid fineGrid (1 / 100)).getD i 0) ζ)
    (hin' : InCellR (gridSign fineGrid) ((shiftedGrid fineGrid (1 / 100)).getD (i - 1) 0)
      ((shiftedGrid fineGrid (1 / 100)).getD i 0) ζ') : ζ' = ζ := by
  obtain ⟨a1, a2⟩ := fine_cells i h1 h2 ζ hin
  obtain ⟨b1, b2⟩ := fine_cells i h1 h2 ζ' hin'
  rcases (fine_zero_iff ζ).mp hζ with e | e <;> rcases (fine_zero_iff ζ').mp hζ' with e' | e'
  · rw [e, e']
  · have := a1 e; have := b2 e'; omega
  · have := a2 e; have := b1 e'; omega
  · rw [e, e']

/-- `hchg` for the run: a cell with a real zero of `g'` has grid ends of opposite strict sign -/
theorem fine_hchg (i : Nat) (h1 : 1 ≤ i) (h2 : i < fineGrid.length) (ζ : ℝ)
    (hζ : evalPolyR (derivCoeffs exG) ζ = 0)
    (hin : InCellR (gridSign fineGrid) ((shiftedGrid fineGrid (1 / 100)).getD (i - 1) 0)
      ((shiftedGrid fineGrid (1 / 100)).getD i 0) ζ) :
    evalPoly (derivCoeffs exG) ((shiftedGrid fineGrid (1 / 100)).getD (i - 1) 0) *
      evalPoly (derivCoeffs exG) ((shiftedGrid fineGrid (1 / 100)).getD i 0) < 0 := by
  obtain ⟨a1, a2⟩ := fine_cells i h1 h2 ζ hin
  rcases (fine_zero_iff ζ).mp hζ with e | e
  · rw [a1 e]; decide +kernel
  · rw [a2 e]; decide +kernel

/-- hull membership on the run: `[−99/100, 99/100]` -/
theorem fine_inHull (z : ℝ) (h1 : -99 / 100 ≤ z) (h2 : z ≤ 99 / 100) : InHull fineGrid (1 / 100) z := by
  unfold InHull InCellR
  rw [fine_sign, fine_shifted]
  have e0 : (#[-99 / 100, -3 / 4, -1 / 4, 0, 1 / 4, 3 / 4, 99 / 100] : Array Rat).getD 0 0 = -99 / 100 := by
    decide +kernel
  have e6 : (#[-99 / 100, -3 / 4, -1 / 4, 0, 1 / 4, 3 / 4, 99 / 100] : Array Rat).getD
      (fineGrid.length - 1) 0 = 99 / 100 := by decide +kernel
  rw [e0, e6]
  constructor <;> push_cast <;> linarith

/-- **(G4) on the run, middle piece**: all hypotheses of `rs_strictMono_on_trimmed_piece` hold for the
    cut `[r₁] ++ [r₂]` and the interval `[−47/100, 31/100]` (`r₁ + 2·tol ≈ −0.47996`,
    `r₂ − 2·tol ≈ 0.31532`), and `g' < 0` at `0`: the real polynomial `g = 2x³ + x²/2 − x` is strictly
    decreasing on `[−47/100, 31/100]`. -/
example : StrictAntiOn (evalPolyR exG) (Set.Icc (-47 / 100 : ℝ) (31 / 100)) := by
  rcases rs_strictMono_on_trimmed_piece exG fineGrid (1 / 100) 50
      [-10334933164937 / 20671302440920] [93157 / 277816] fine_cellHyp (by norm_num) (by decide)
      fine_hsep fine_hchg fine_run (-47 / 100) (31 / 100)
      (fine_inHull _ (by norm_num) (by norm_num)) (fine_inHull _ (by norm_num) (by norm_num))
      (fun p hp => by
        rw [fine_sign]
        simp only [List.getLast?_singleton, Option.some.injEq] at hp
        subst hp
        constructor <;> norm_num)
      (fun q hq => by
        rw [fine_sign]
        simp only [List.head?_cons, Option.some.injEq] at hq
        subst hq
        constructor <;> norm_num) with ⟨hpos, -⟩ | ⟨-, hanti⟩
  · exfalso
    have h0 := hpos 0 ⟨by norm_num, by norm_num⟩
    rw [exG'_eq] at h0
    simp only [exG', evalPolyR_cons, evalPolyR_nil] at h0
    norm_num at h0
  · exact hanti

/-- **(G4) on the run, first and last piece**: `g` is strictly increasing on `[−99/100, −52/100]`
    (first piece, `rs_strictMono_on_trimmed_piece` with `l₁ = []`) and on `[36/100, 99/100]` (last
    piece, here through `rs_strictMono_between_boundaries` with the `2·tol` distance to both returned
    points checked pointwise). -/
example : StrictMonoOn (evalPolyR exG) (Set.Icc (-99 / 100 : ℝ) (-52 / 100)) ∧
    StrictMonoOn (evalPolyR exG) (Set.Icc (36 / 100 : ℝ) (99 / 100)) := by
  constructor
  · rcases rs_strictMono_on_trimmed_piece exG fineGrid (1 / 100) 50
        [] [-10334933164937 / 20671302440920, 93157 / 277816] fine_cellHyp (by norm_num) (by decide)
        fine_hsep fine_hchg fine_run (-99 / 100) (-52 / 100)
        (fine_inHull _ (by norm_num) (by norm_num)) (fine_inHull _ (by norm_num) (by norm_num))
        (fun p hp => by simp at hp)
        (fun q hq => by
          rw [fine_sign]
          simp only [List.head?_cons, Option.some.injEq] at hq
          subst hq
          constructor <;> norm_num) with ⟨-, hmono⟩ | ⟨hneg, -⟩
    · exact hmono
    · exfalso
      have h0 := hneg (-99 / 100) ⟨by norm_num, by norm_num⟩
      rw [exG'_eq] at h0
      simp only [exG', evalPolyR_cons, evalPolyR_nil] at h0
      norm_num at h0
  · rcases rs_strictMono_between_boundaries exG fineGrid (1 / 100) 50 _ fine_cellHyp (by norm_num)
        (by decide) fine_hsep fine_hchg fine_run (36 / 100) (99 / 100)
        (fine_inHull _ (by norm_num) (by norm_num)) (fine_inHull _ (by norm_num) (by norm_num))
        (fun z hz r hr => by
          obtain ⟨z1, z2⟩ := hz
          simp only [List.mem_cons, List.not_mem_nil, or_false] at hr
          have := neg_le_abs ((r : ℝ) - z)
          rcases hr with rfl | rfl <;> push_cast at this ⊢ <;> linarith) with ⟨-, hmono⟩ | ⟨hneg, -⟩
    · exact hmono
    · exfalso
      have h0 := hneg (99 / 100) ⟨by norm_num, by norm_num⟩
      rw [exG'_eq] at h0
      simp only [exG', evalPolyR_cons, evalPolyR_nil] at h0
      norm_num at h0

end Cav.C11Glue
