/-
  C11 / C13 — "the interior piece boundaries are … sign changes of g', each located within the
  tolerance": the bridge from the exact (`Rat`) models to TRUE zeros of the REAL functions.

  The models (`findRootBrent`, `splitStrictlyMonotone`, `splitTranslational`, `genDisplayCav`,
  `genDisplayRs`) run over `Rat`; a zero of `g'` is in general irrational.  For POLYNOMIAL data
  (closures `adPoly cs`, `Lemmas/AccAD.lean`) the derivative handed to `find_root_brent` is the
  polynomial `evalPoly (derivCoeffs pg)` resp. `evalPoly (cavGDerivCoeffs pf pc)`, its real
  extension `evalPolyR …` is continuous and IS the Mathlib derivative of the real function
  (`deriv_evalPolyR`, `cavGR_hasDerivAt`), and the intermediate value theorem turns the strict sign
  change on the final Brent bracket into a real zero `ξ`.

  What is located, and how well (`Located tol r ξ`): `ξ = r` (an exact rational zero was sampled),
  or `0 < tol` and `|r − ξ| < 2·tol`.  NOT `tol`: `C11.brent_misses_tol_kink/_small`.

  (R1) `brent_near_real_root_cases`, `brent_near_real_root`, `brent_near_real_root_pos`
       (general continuous extension: `brent_near_real_root_of_continuous`, Lemmas/RootIVT.lean)
  (R2) `split_roots_near_real_roots_of_continuous` (any closure with a continuous real extension of
       its `D1.df`), `rs_split_roots_near_real_roots`, `cav_split_roots_near_real_roots`,
       `splitTranslational_near_real_roots_of_continuous`
       — EVERY split point, grid points included (over `Rat` a recorded grid point is an exact
       zero of the derivative: `split_roots_classified`, Lemmas/RootSplit.lean)
  (R3) `cav_interior_boundaries`, `cav_boundaries_near_real_roots` (`< 2·tol`),
       `rs_interior_boundaries`, `rs_boundaries_near_real_roots` (`≤ 2·tol` to a split point of `f`
       or `g`, hence `< 4·tol` to a zero of `f'` or `g'`: `rs_boundaries_within_four_tol`)

  Extra hypotheses, all explicit: `CellHyp xv tol` (`C13Split`: `0 ≤ tol` and every cell of the
  end-shifted grid at least `tol` wide) for everything at split level and above; `0 < tol` only
  where a strict bound is claimed for exact zeros too.

  NOT proved (`exactly`): the converse — that every sign change of `g'` in `[a,b]` is a piece
  boundary — is false for the algorithm as it stands (a cell containing two sign changes shows
  equal signs at its ends and is skipped: `split_misses_sign_change_pair`), so only the direction
  "boundary ⇒ zero of g'" is stated.

  Model path: `findRootBrent`, `splitLoop`, `splitStrictlyMonotone`, `clusterRoots`,
  `splitTranslational`, `genDisplayCav`, `genDisplayRs`, `cavG`, `chainPairs`, `vecFromRes`;
  generated: `D1.df`, `D1.fdf`, `AD.add`, `AD.sub`, `AD.mul`, `D1.composition`.
-/
import Cav.Lemmas.RootIVT
import Cav.Lemmas.RootSplit
import Cav.Lemmas.RootDisp
import Cav.Lemmas.RootExamples
import Cav.Thm.C07Accuracy

namespace Cav.C11Roots
open Cav Num Gen Cav.BrentL Cav.SplitL Cav.C13Split Cav.C01 Cav.C07Accuracy

/-! ## the location predicate -/

/-- `r` locates the real number `ξ`: they coincide, or the tolerance is positive and they are less
    than `2·tol` apart -/
def Located (tol r : Rat) (ξ : ℝ) : Prop :=
  ξ = (r : ℝ) ∨ (0 < tol ∧ |(r : ℝ) - ξ| < 2 * (tol : ℝ))

theorem Located.lt {tol r : Rat} {ξ : ℝ} (h : Located tol r ξ) (ht : 0 < tol) :
    |(r : ℝ) - ξ| < 2 * (tol : ℝ) := by
  rcases h with rfl | ⟨-, h⟩
  · have : (0 : ℝ) < (tol : ℝ) := by exact_mod_cast ht
    rw [sub_self, abs_zero]; linarith
  · exact h

theorem Located.le {tol r : Rat} {ξ : ℝ} (h : Located tol r ξ) (ht : 0 ≤ tol) :
    |(r : ℝ) - ξ| ≤ 2 * (tol : ℝ) := by
  rcases h with rfl | ⟨-, h⟩
  · have : (0 : ℝ) ≤ (tol : ℝ) := by exact_mod_cast ht
    rw [sub_self, abs_zero]; linarith
  · exact le_of_lt h

/-! ## (R1) a successful Brent result and a true zero of the polynomial -/

/-- **(R1), case form.**  `p` a coefficient list, `f = evalPoly p`.  If
    `findRootBrent a b f tol n = .ok r` then
    * `r` is an exact zero of `p` in the original hull, or
    * the loop stopped on a bracket `u`, `v` (in the original hull, `|v − u| < tol/2`) on which `p`
      has strictly opposite signs, and there is a REAL zero `ξ` of `p` strictly between `u` and
      `v` with `|r − ξ| < 2·tol`. -/
theorem brent_near_real_root_cases (p : List Rat) (a b tol : Rat) (n : Nat) (r : Rat)
    (h : findRootBrent a b (evalPoly p) tol n = .ok r) :
    (evalPoly p r = 0 ∧ min a b ≤ r ∧ r ≤ max a b) ∨
    ∃ (u v : Rat) (ξ : ℝ), evalPoly p u * evalPoly p v < 0 ∧ |v - u| < tol / 2 ∧
      (min a b ≤ u ∧ u ≤ max a b) ∧ (min a b ≤ v ∧ v ≤ max a b) ∧
      evalPolyR p ξ = 0 ∧ min (u : ℝ) v < ξ ∧ ξ < max (u : ℝ) v ∧
      |(r : ℝ) - ξ| < 2 * (tol : ℝ) :=
  brent_near_real_root_of_continuous (evalPoly p) (evalPolyR p) (evalPolyR_continuous p)
    (evalPolyR_cast p) a b tol n r h

/-- **(R1)**: a successful Brent result `r` for the polynomial `p` locates a real zero `ξ` of `p`
    in the closed interval spanned by the original `a`, `b`: `ξ = r`, or `0 < tol` and
    `|r − ξ| < 2·tol`. -/
theorem brent_near_real_root (p : List Rat) (a b tol : Rat) (n : Nat) (r : Rat)
    (h : findRootBrent a b (evalPoly p) tol n = .ok r) :
    ∃ ξ : ℝ, evalPolyR p ξ = 0 ∧ ((min a b : Rat) : ℝ) ≤ ξ ∧ ξ ≤ ((max a b : Rat) : ℝ) ∧
      Located tol r ξ := by
  rcases brent_near_real_root_cases p a b tol n r h with
    ⟨h0, hr⟩ | ⟨u, v, ξ, -, hw, hu, hv, hξ, g1, g2, hd⟩
  · refine ⟨(r : ℝ), ?_, (cast_hull hr).1, (cast_hull hr).2, Or.inl rfl⟩
    rw [evalPolyR_cast, h0, Rat.cast_zero]
  · have htol : 0 < tol := by
      have := abs_nonneg (v - u); linarith
    obtain ⟨b1, b2⟩ := between_bounds (cast_hull hu) (cast_hull hv) (le_of_lt g1) (le_of_lt g2)
    exact ⟨ξ, hξ, b1, b2, Or.inr ⟨htol, hd⟩⟩

/-- **(R1)** for a positive tolerance: `|r − ξ| < 2·tol` in every case -/
theorem brent_near_real_root_pos (p : List Rat) (a b tol : Rat) (n : Nat) (r : Rat) (htol : 0 < tol)
    (h : findRootBrent a b (evalPoly p) tol n = .ok r) :
    ∃ ξ : ℝ, evalPolyR p ξ = 0 ∧ ((min a b : Rat) : ℝ) ≤ ξ ∧ ξ ≤ ((max a b : Rat) : ℝ) ∧
      |(r : ℝ) - ξ| < 2 * (tol : ℝ) := by
  obtain ⟨ξ, h0, h1, h2, hl⟩ := brent_near_real_root p a b tol n r h
  exact ⟨ξ, h0, h1, h2, hl.lt htol⟩

/-! ## (R2) the split points of `split_strictly_monotone` -/

/-- the oriented closed cell, for a real point -/
def InCellR (σ xl xr : Rat) (ξ : ℝ) : Prop :=
  (σ : ℝ) * (xl : ℝ) ≤ (σ : ℝ) * ξ ∧ (σ : ℝ) * ξ ≤ (σ : ℝ) * (xr : ℝ)

theorem inCellR_cast {σ xl xr x : Rat} (h : InCell σ xl xr x) : InCellR σ xl xr (x : ℝ) := by
  obtain ⟨h1, h2⟩ := h
  exact ⟨by exact_mod_cast h1, by exact_mod_cast h2⟩

/-- for `σ = ±1` the oriented cell is the closed interval between `xl` and `xr` -/
theorem InCellR.between {σ xl xr : Rat} {ξ : ℝ} (hσ : σ = 1 ∨ σ = -1) (h : InCellR σ xl xr ξ) :
    min (xl : ℝ) xr ≤ ξ ∧ ξ ≤ max (xl : ℝ) xr := by
  obtain ⟨h1, h2⟩ := h
  rcases hσ with rfl | rfl
  · simp only [Rat.cast_one, one_mul] at h1 h2
    exact ⟨le_trans (min_le_left _ _) h1, le_trans h2 (le_max_right _ _)⟩
  · simp only [Rat.cast_neg, Rat.cast_one, neg_mul, one_mul, neg_le_neg_iff] at h1 h2
    exact ⟨le_trans (min_le_right _ _) h2, le_trans h1 (le_max_left _ _)⟩

theorem inCellR_of_between {σ xl xr u v : Rat} {ξ : ℝ} (hσ : σ = 1 ∨ σ = -1)
    (hu : InCell σ xl xr u) (hv : InCell σ xl xr v)
    (h1 : min (u : ℝ) v ≤ ξ) (h2 : ξ ≤ max (u : ℝ) v) : InCellR σ xl xr ξ := by
  obtain ⟨u1, u2⟩ := inCellR_cast hu
  obtain ⟨v1, v2⟩ := inCellR_cast hv
  unfold InCellR
  rcases hσ with rfl | rfl
  · simp only [Rat.cast_one, one_mul] at u1 u2 v1 v2 ⊢
    exact between_bounds ⟨u1, u2⟩ ⟨v1, v2⟩ h1 h2
  · simp only [Rat.cast_neg, Rat.cast_one, neg_mul, one_mul, neg_le_neg_iff] at u1 u2 v1 v2 ⊢
    obtain ⟨b1, b2⟩ := between_bounds (lo := (xr : ℝ)) (hi := (xl : ℝ)) ⟨u2, u1⟩ ⟨v2, v1⟩ h1 h2
    exact ⟨b2, b1⟩

/-- **(R2), general form.**  `f` any closure, `F` a continuous real function that agrees with
    `D1.df f` on the rationals.  Under `CellHyp`, EVERY split point `r` returned by
    `split_strictly_monotone` lies in a closed cell `i` of the end-shifted grid together with a
    real zero `ξ` of `F` that it locates: `ξ = r`, or `0 < tol` and `|r − ξ| < 2·tol`. -/
theorem split_roots_near_real_roots_of_continuous (f : AD Rat → AD Rat) (F : ℝ → ℝ)
    (hF : Continuous F) (hFf : ∀ q : Rat, F (q : ℝ) = ((D1.df f q : Rat) : ℝ))
    (xv : List Rat) (tol : Rat) (m : Nat) (res : List Rat) (hc : CellHyp xv tol)
    (h : splitStrictlyMonotone f xv tol m = .ok res) :
    ∀ r ∈ res, ∃ i, 1 ≤ i ∧ i < xv.length ∧
      InCell (gridSign xv) ((shiftedGrid xv tol).getD (i - 1) 0) ((shiftedGrid xv tol).getD i 0) r ∧
      ∃ ξ : ℝ, F ξ = 0 ∧
        InCellR (gridSign xv) ((shiftedGrid xv tol).getD (i - 1) 0) ((shiftedGrid xv tol).getD i 0) ξ ∧
        Located tol r ξ := by
  intro r hr
  obtain ⟨i, h1, h2, hin, hcase⟩ := split_roots_classified f xv tol m res hc h r hr
  refine ⟨i, h1, h2, hin, ?_⟩
  have hσ := gridSign_pm xv
  have hexact : D1.df f r = 0 → ∃ ξ : ℝ, F ξ = 0 ∧
      InCellR (gridSign xv) ((shiftedGrid xv tol).getD (i - 1) 0) ((shiftedGrid xv tol).getD i 0) ξ ∧
      Located tol r ξ := fun hz =>
    ⟨(r : ℝ), by rw [hFf, hz, Rat.cast_zero], inCellR_cast hin, Or.inl rfl⟩
  rcases hcase with ⟨hz, -, -⟩ | ⟨u, v, hu, hv, hbr⟩
  · exact hexact hz
  · rcases brent_near_real_root_of_continuous (fun x => D1.df f x) F hF hFf u v tol m r hbr with
      ⟨hz, -⟩ | ⟨u', v', ξ, -, hw, hu', hv', hξ, g1, g2, hd⟩
    · exact hexact hz
    · have htol : 0 < tol := by
        have := abs_nonneg (v' - u'); linarith
      exact ⟨ξ, hξ, inCellR_of_between hσ (inCell_of_hull hσ hu hv hu') (inCell_of_hull hσ hu hv hv')
        (le_of_lt g1) (le_of_lt g2), Or.inr ⟨htol, hd⟩⟩

/-- `evalPolyR (derivCoeffs pg)` is the derivative of the real polynomial `pg` -/
theorem zero_deriv_iff (pg : List Rat) (ξ : ℝ) :
    evalPolyR (derivCoeffs pg) ξ = 0 ↔ deriv (evalPolyR pg) ξ = 0 := by
  rw [deriv_evalPolyR]

/-- `evalPolyR (cavGDerivCoeffs pf pc)` is the derivative of `g(x) = x − c(f(x)) + c(0)` -/
theorem zero_deriv_cavGR_iff (pf pc : List Rat) (ξ : ℝ) :
    evalPolyR (cavGDerivCoeffs pf pc) ξ = 0 ↔ deriv (cavGR pf pc) ξ = 0 := by
  rw [(cavGR_hasDerivAt pf pc ξ).deriv]

/-- **(R2), Riemann–Stieltjes integrator** `g = adPoly pg`: every split point locates a real zero
    of `g' = evalPolyR (derivCoeffs pg)` in its own closed cell. -/
theorem rs_split_roots_near_real_roots (pg : List Rat) (xv : List Rat) (tol : Rat) (m : Nat)
    (res : List Rat) (hc : CellHyp xv tol)
    (h : splitStrictlyMonotone (adPoly pg) xv tol m = .ok res) :
    ∀ r ∈ res, ∃ i, 1 ≤ i ∧ i < xv.length ∧
      InCell (gridSign xv) ((shiftedGrid xv tol).getD (i - 1) 0) ((shiftedGrid xv tol).getD i 0) r ∧
      ∃ ξ : ℝ, evalPolyR (derivCoeffs pg) ξ = 0 ∧
        InCellR (gridSign xv) ((shiftedGrid xv tol).getD (i - 1) 0) ((shiftedGrid xv tol).getD i 0) ξ ∧
        Located tol r ξ :=
  split_roots_near_real_roots_of_continuous (adPoly pg) (evalPolyR (derivCoeffs pg))
    (evalPolyR_continuous _) (fun q => by rw [evalPolyR_cast, D1_df_adPoly]) xv tol m res hc h

/-- **(R2), Cavalieri integrator** `g = cavG (adPoly pf) (adPoly pc) c0`
    (`g(x) = x − c(f(x)) + c0`, any constant `c0`): every split point locates a real zero of
    `g'(x) = 1 − f'(x)·c'(f(x)) = evalPolyR (cavGDerivCoeffs pf pc)` in its own closed cell. -/
theorem cav_split_roots_near_real_roots (pf pc : List Rat) (c0 : Rat) (xv : List Rat) (tol : Rat)
    (m : Nat) (res : List Rat) (hc : CellHyp xv tol)
    (h : splitStrictlyMonotone (cavG (adPoly pf) (adPoly pc) c0) xv tol m = .ok res) :
    ∀ r ∈ res, ∃ i, 1 ≤ i ∧ i < xv.length ∧
      InCell (gridSign xv) ((shiftedGrid xv tol).getD (i - 1) 0) ((shiftedGrid xv tol).getD i 0) r ∧
      ∃ ξ : ℝ, evalPolyR (cavGDerivCoeffs pf pc) ξ = 0 ∧
        InCellR (gridSign xv) ((shiftedGrid xv tol).getD (i - 1) 0) ((shiftedGrid xv tol).getD i 0) ξ ∧
        Located tol r ξ :=
  split_roots_near_real_roots_of_continuous (cavG (adPoly pf) (adPoly pc) c0)
    (evalPolyR (cavGDerivCoeffs pf pc)) (evalPolyR_continuous _)
    (fun q => by rw [evalPolyR_cast, D1_df_cavG_adPoly]) xv tol m res hc h

/-! ## (R2′) the merged split points of `split_translational` -/

/-- **cluster merge.**  `F`, `G` continuous real extensions of `D1.df f`, `D1.df g`.  Under
    `CellHyp`, every value `x` returned by `split_translational` is within `2·tol` of a split point
    `y` of `f` or of `g` (the first member of its cluster), and `y` lies in a closed cell of the
    shifted grid together with a real zero `ξ` of `F` resp. `G` that it locates.  Hence
    `|x − ξ| ≤ 4·tol`, strictly for `0 < tol` (`four_tol_of_located`). -/
theorem splitTranslational_near_real_roots_of_continuous (f g : AD Rat → AD Rat) (F G : ℝ → ℝ)
    (hF : Continuous F) (hFf : ∀ q : Rat, F (q : ℝ) = ((D1.df f q : Rat) : ℝ))
    (hG : Continuous G) (hGg : ∀ q : Rat, G (q : ℝ) = ((D1.df g q : Rat) : ℝ))
    (xv : List Rat) (tol : Rat) (m : Nat) (res : List Rat) (hc : CellHyp xv tol)
    (h : splitTranslational f g xv tol m = .ok res) :
    ∀ x ∈ res, ∃ (y : Rat) (i : Nat) (ξ : ℝ), |x - y| ≤ 2 * tol ∧ 1 ≤ i ∧ i < xv.length ∧
      InCell (gridSign xv) ((shiftedGrid xv tol).getD (i - 1) 0) ((shiftedGrid xv tol).getD i 0) y ∧
      InCellR (gridSign xv) ((shiftedGrid xv tol).getD (i - 1) 0) ((shiftedGrid xv tol).getD i 0) ξ ∧
      (F ξ = 0 ∨ G ξ = 0) ∧ Located tol y ξ := by
  by_cases hn : xv.length < 2
  · rw [C13.splitTranslational_short f g xv tol m hn] at h
    cases h; intro x hx; cases hx
  obtain ⟨fr, gr, hfr, hgr, rfl⟩ := C13.splitTranslational_eq f g xv tol m (by omega) res h
  intro x hx
  obtain ⟨y, hy, hxy⟩ := clusterRoots_near_member tol _ hc.1 x hx
  have hy' : y ∈ fr ++ gr := (DispL.mem_stableSort _ _ y).mp (by simpa using hy)
  rcases List.mem_append.mp hy' with hyf | hyg
  · obtain ⟨i, h1, h2, hin, ξ, hξ, hcell, hl⟩ :=
      split_roots_near_real_roots_of_continuous f F hF hFf xv tol m fr hc hfr y hyf
    exact ⟨y, i, ξ, hxy, h1, h2, hin, hcell, Or.inl hξ, hl⟩
  · obtain ⟨i, h1, h2, hin, ξ, hξ, hcell, hl⟩ :=
      split_roots_near_real_roots_of_continuous g G hG hGg xv tol m gr hc hgr y hyg
    exact ⟨y, i, ξ, hxy, h1, h2, hin, hcell, Or.inr hξ, hl⟩

/-- `|x − y| ≤ 2·tol` and `y` locates `ξ` give `|x − ξ| ≤ 4·tol`, strictly for `0 < tol` -/
theorem four_tol_of_located {tol x y : Rat} {ξ : ℝ} (h0 : 0 ≤ tol) (hxy : |x - y| ≤ 2 * tol)
    (hl : Located tol y ξ) :
    |(x : ℝ) - ξ| ≤ 4 * (tol : ℝ) ∧ (0 < tol → |(x : ℝ) - ξ| < 4 * (tol : ℝ)) := by
  have hxy' : |(x : ℝ) - (y : ℝ)| ≤ 2 * (tol : ℝ) := by
    have := (Rat.cast_le (K := ℝ)).mpr hxy
    push_cast at this
    exact this
  have htri : |(x : ℝ) - ξ| ≤ |(x : ℝ) - (y : ℝ)| + |(y : ℝ) - ξ| := by
    have := abs_add_le ((x : ℝ) - (y : ℝ)) ((y : ℝ) - ξ)
    rwa [sub_add_sub_cancel] at this
  constructor
  · have := hl.le h0
    linarith
  · intro ht
    have := hl.lt ht
    linarith

/-! ## (R3) the interior piece boundaries of the displays -/

section Structural
variable {α : Type} [Num α]

/-- **the interior boundaries of `gen_display_cav` are exactly the split points** of
    `split_strictly_monotone` for `g`, in order — as right ends of all pieces but the last and as
    left ends of all pieces but the first (structural: every `Num α`) -/
theorem cav_interior_boundaries (f c : AD α → AD α) (a b : α) (cfg : Cfg2D α) (ds : List (Disp2D α))
    (h : genDisplayCav f c [(a, b)] cfg = .ok ds) :
    ∃ splits, splitStrictlyMonotone (cavG f c (D1.f c zero)) (vecFromRes a b cfg.xRes) cfg.tol
        cfg.maxRfIters = .ok splits ∧
      interiorBoundaries ds = splits ∧ (ds.map (·.a)).tail = splits := by
  obtain ⟨splits, hS, he⟩ := C11.cav_pieces_chain f c a b cfg ds h
  exact ⟨splits, hS, interiorBoundaries_of_ends ds a b splits he⟩

/-- **the interior boundaries of `gen_display_rs` are exactly the values returned by
    `split_translational`**, in order (structural: every `Num α`) -/
theorem rs_interior_boundaries (f g : AD α → AD α) (a b : α) (cfg : Cfg2D α) (ds : List (Disp2D α))
    (h : genDisplayRs f g [(a, b)] cfg = .ok ds) :
    ∃ splits, splitTranslational f g (vecFromRes a b cfg.xRes) cfg.tol cfg.maxRfIters = .ok splits ∧
      interiorBoundaries ds = splits ∧ (ds.map (·.a)).tail = splits := by
  obtain ⟨splits, hS, he⟩ := C13.rs_pieces_chain f g a b cfg ds h
  exact ⟨splits, hS, interiorBoundaries_of_ends ds a b splits he⟩

end Structural

/-- **(R3), Cavalieri display.**  `f = adPoly pf`, `c = adPoly pc`, one interval `[a,b]`, and the
    grid `vecFromRes a b xRes` satisfies `CellHyp` for the configured tolerance.  Every interior
    piece boundary `x` lies in a closed cell of the end-shifted grid together with a real zero `ξ`
    of the TRUE derivative of `g(x) = x − c(f(x)) + c(0)` (`cavGR`, Mathlib `deriv`) that it
    locates: `ξ = x`, or `0 < tol` and `|x − ξ| < 2·tol`. -/
theorem cav_boundaries_near_real_roots (pf pc : List Rat) (a b : Rat) (cfg : Cfg2D Rat)
    (ds : List (Disp2D Rat)) (hc : CellHyp (vecFromRes a b cfg.xRes) cfg.tol)
    (h : genDisplayCav (adPoly pf) (adPoly pc) [(a, b)] cfg = .ok ds) :
    ∀ x ∈ interiorBoundaries ds, ∃ i, 1 ≤ i ∧ i < (vecFromRes a b cfg.xRes).length ∧
      InCell (gridSign (vecFromRes a b cfg.xRes))
        ((shiftedGrid (vecFromRes a b cfg.xRes) cfg.tol).getD (i - 1) 0)
        ((shiftedGrid (vecFromRes a b cfg.xRes) cfg.tol).getD i 0) x ∧
      ∃ ξ : ℝ, deriv (cavGR pf pc) ξ = 0 ∧
        InCellR (gridSign (vecFromRes a b cfg.xRes))
          ((shiftedGrid (vecFromRes a b cfg.xRes) cfg.tol).getD (i - 1) 0)
          ((shiftedGrid (vecFromRes a b cfg.xRes) cfg.tol).getD i 0) ξ ∧
        Located cfg.tol x ξ := by
  obtain ⟨splits, hS, hI, -⟩ := cav_interior_boundaries _ _ a b cfg ds h
  rw [hI]
  intro x hx
  obtain ⟨i, h1, h2, hin, ξ, hξ, hcell, hl⟩ :=
    cav_split_roots_near_real_roots pf pc _ _ _ _ splits hc hS x hx
  exact ⟨i, h1, h2, hin, ξ, (zero_deriv_cavGR_iff pf pc ξ).mp hξ, hcell, hl⟩

/-- **(R3), Cavalieri display, positive tolerance**: every interior boundary is less than `2·tol`
    away from a real zero of `g'` -/
theorem cav_boundaries_within_two_tol (pf pc : List Rat) (a b : Rat) (cfg : Cfg2D Rat)
    (ds : List (Disp2D Rat)) (hc : CellHyp (vecFromRes a b cfg.xRes) cfg.tol) (htol : 0 < cfg.tol)
    (h : genDisplayCav (adPoly pf) (adPoly pc) [(a, b)] cfg = .ok ds) :
    ∀ x ∈ interiorBoundaries ds, ∃ ξ : ℝ, deriv (cavGR pf pc) ξ = 0 ∧
      |(x : ℝ) - ξ| < 2 * (cfg.tol : ℝ) := by
  intro x hx
  obtain ⟨i, -, -, -, ξ, hξ, -, hl⟩ := cav_boundaries_near_real_roots pf pc a b cfg ds hc h x hx
  exact ⟨ξ, hξ, hl.lt htol⟩

/-- **(R3), Riemann–Stieltjes display.**  `f = adPoly pf`, `g = adPoly pg`, one interval.  Every
    interior piece boundary `x` is within `2·tol` of a split point `y` of `f` or of `g` (cluster
    merge of `split_translational`), and `y` lies in a closed cell of the end-shifted grid together
    with a real zero `ξ` of the TRUE derivative `f'` or `g'` that it locates. -/
theorem rs_boundaries_near_real_roots (pf pg : List Rat) (a b : Rat) (cfg : Cfg2D Rat)
    (ds : List (Disp2D Rat)) (hc : CellHyp (vecFromRes a b cfg.xRes) cfg.tol)
    (h : genDisplayRs (adPoly pf) (adPoly pg) [(a, b)] cfg = .ok ds) :
    ∀ x ∈ interiorBoundaries ds, ∃ (y : Rat) (i : Nat) (ξ : ℝ), |x - y| ≤ 2 * cfg.tol ∧
      1 ≤ i ∧ i < (vecFromRes a b cfg.xRes).length ∧
      InCell (gridSign (vecFromRes a b cfg.xRes))
        ((shiftedGrid (vecFromRes a b cfg.xRes) cfg.tol).getD (i - 1) 0)
        ((shiftedGrid (vecFromRes a b cfg.xRes) cfg.tol).getD i 0) y ∧
      InCellR (gridSign (vecFromRes a b cfg.xRes))
        ((shiftedGrid (vecFromRes a b cfg.xRes) cfg.tol).getD (i - 1) 0)
        ((shiftedGrid (vecFromRes a b cfg.xRes) cfg.tol).getD i 0) ξ ∧
      (deriv (evalPolyR pf) ξ = 0 ∨ deriv (evalPolyR pg) ξ = 0) ∧ Located cfg.tol y ξ := by
  obtain ⟨splits, hS, hI, -⟩ := rs_interior_boundaries _ _ a b cfg ds h
  rw [hI]
  intro x hx
  obtain ⟨y, i, ξ, hxy, h1, h2, hin, hcell, hz, hl⟩ :=
    splitTranslational_near_real_roots_of_continuous (adPoly pf) (adPoly pg)
      (evalPolyR (derivCoeffs pf)) (evalPolyR (derivCoeffs pg))
      (evalPolyR_continuous _) (fun q => by rw [evalPolyR_cast, D1_df_adPoly])
      (evalPolyR_continuous _) (fun q => by rw [evalPolyR_cast, D1_df_adPoly])
      _ _ _ splits hc hS x hx
  refine ⟨y, i, ξ, hxy, h1, h2, hin, hcell, ?_, hl⟩
  rcases hz with hz | hz
  · exact Or.inl ((zero_deriv_iff pf ξ).mp hz)
  · exact Or.inr ((zero_deriv_iff pg ξ).mp hz)

/-- **(R3), Riemann–Stieltjes display, the `4·tol` bound**: every interior boundary is at most
    `4·tol` away from a real zero of `f'` or of `g'`, strictly less for a positive tolerance
    (`2·tol` for the cluster merge plus `2·tol` for Brent's stopping rule). -/
theorem rs_boundaries_within_four_tol (pf pg : List Rat) (a b : Rat) (cfg : Cfg2D Rat)
    (ds : List (Disp2D Rat)) (hc : CellHyp (vecFromRes a b cfg.xRes) cfg.tol)
    (h : genDisplayRs (adPoly pf) (adPoly pg) [(a, b)] cfg = .ok ds) :
    ∀ x ∈ interiorBoundaries ds, ∃ ξ : ℝ,
      (deriv (evalPolyR pf) ξ = 0 ∨ deriv (evalPolyR pg) ξ = 0) ∧
      |(x : ℝ) - ξ| ≤ 4 * (cfg.tol : ℝ) ∧ (0 < cfg.tol → |(x : ℝ) - ξ| < 4 * (cfg.tol : ℝ)) := by
  intro x hx
  obtain ⟨y, i, ξ, hxy, -, -, -, -, hz, hl⟩ :=
    rs_boundaries_near_real_roots pf pg a b cfg ds hc h x hx
  exact ⟨ξ, hz, four_tol_of_located hc.1 hxy hl⟩

/-! ## non-vacuity: concrete runs (kernel-evaluated, `Lemmas/RootExamples.lean`)

`g = 2x³ + x²/2 − x`, `g' = 6x² + x − 1 = (3x − 1)(2x + 1)`: the real zeros are `1/3` and `−1/2`. -/

theorem exG'_zero_iff (ξ : ℝ) : evalPolyR exG' ξ = 0 ↔ ξ = 1 / 3 ∨ ξ = -1 / 2 := by
  have e : evalPolyR exG' ξ = (3 * ξ - 1) * (2 * ξ + 1) := by
    simp only [exG', evalPolyR_cons, evalPolyR_nil]
    push_cast; ring
  rw [e, mul_eq_zero]
  constructor
  · rintro (h | h)
    · left; linarith
    · right; linarith
  · rintro (h | h)
    · left; rw [h]; norm_num
    · right; rw [h]; norm_num

theorem exG_deriv_zero_iff (ξ : ℝ) : deriv (evalPolyR exG) ξ = 0 ↔ ξ = 1 / 3 ∨ ξ = -1 / 2 := by
  rw [← zero_deriv_iff, exG'_eq, exG'_zero_iff]

theorem exCav_deriv_zero_iff (ξ : ℝ) : deriv (cavGR exId exC) ξ = 0 ↔ ξ = 1 / 3 ∨ ξ = -1 / 2 := by
  rw [← zero_deriv_cavGR_iff, exCav'_eq, ← exG'_zero_iff]
  have e : evalPolyR [1, -1, -6] ξ = - evalPolyR exG' ξ := by
    simp only [exG', evalPolyR_cons, evalPolyR_nil]
    push_cast; ring
  rw [e, neg_eq_zero]

theorem exF_deriv_zero_iff (ξ : ℝ) : deriv (evalPolyR exF) ξ = 0 ↔ ξ = 7 / 20 := by
  rw [← zero_deriv_iff, exF'_eq]
  have e : evalPolyR [-7 / 20, 1] ξ = ξ - 7 / 20 := by
    simp only [evalPolyR_cons, evalPolyR_nil]
    push_cast; ring
  rw [e, sub_eq_zero]

/-- (R1) on `[0, 1]` with `tol = 1/100`: the hypotheses hold for the run, the zero delivered by
    the theorem can only be `1/3`, and the run's result is within `2·tol` of it -/
example :
    findRootBrent (0 : Rat) 1 (evalPoly exG') (1 / 100) 50 = .ok (31498240209013 / 94088637952351) ∧
    |((31498240209013 / 94088637952351 : Rat) : ℝ) - 1 / 3| < 2 * ((1 / 100 : Rat) : ℝ) := by
  refine ⟨brent_run, ?_⟩
  obtain ⟨ξ, h0, h1, -, hl⟩ :=
    brent_near_real_root_pos exG' 0 1 (1 / 100) 50 _ (by norm_num) brent_run
  have hξ : ξ = 1 / 3 := by
    rcases (exG'_zero_iff ξ).mp h0 with h | h
    · exact h
    · rw [h, min_eq_left (by norm_num : (0 : Rat) ≤ 1)] at h1
      norm_num at h1
  rw [hξ] at hl
  exact hl

/-- the same run is NOT an exact zero: the sign-change alternative of
    `brent_near_real_root_cases` is the one that holds -/
example : evalPoly exG' (31498240209013 / 94088637952351) ≠ 0 := by decide +kernel

/-- (R2), RS integrator `g`, grid `[-1, -1/2, 0, 1/2, 1]`, `tol = 1/10`: `−1/2` is a grid point
    with `g' = 0` exactly, `79/220` comes from Brent; each is within `2·tol` of `−1/2` or `1/3` -/
example :
    splitStrictlyMonotone (adPoly exG) (vecFromRes (-1) 1 4) (1 / 10) 20 = .ok [-1 / 2, 79 / 220] ∧
    CellHyp (vecFromRes (-1 : Rat) 1 4) (1 / 10) ∧
    ∀ r ∈ ([-1 / 2, 79 / 220] : List Rat), ∃ ξ : ℝ, (ξ = 1 / 3 ∨ ξ = -1 / 2) ∧
      |(r : ℝ) - ξ| < 2 * ((1 / 10 : Rat) : ℝ) := by
  refine ⟨split_run, cellHyp_run, fun r hr => ?_⟩
  obtain ⟨i, -, -, -, ξ, hξ, -, hl⟩ :=
    rs_split_roots_near_real_roots exG _ _ _ _ cellHyp_run split_run r hr
  rw [exG'_eq] at hξ
  exact ⟨ξ, (exG'_zero_iff ξ).mp hξ, hl.lt (by norm_num)⟩

/-- (R2) on a finer grid with `tol = 1/100`: both split points come from Brent -/
example :
    ∀ r ∈ ([-10334933164937 / 20671302440920, 93157 / 277816] : List Rat), ∃ ξ : ℝ,
      (ξ = 1 / 3 ∨ ξ = -1 / 2) ∧ |(r : ℝ) - ξ| < 2 * ((1 / 100 : Rat) : ℝ) := by
  intro r hr
  obtain ⟨i, -, -, -, ξ, hξ, -, hl⟩ :=
    rs_split_roots_near_real_roots exG _ _ _ _ cellHyp_run_fine split_run_fine r hr
  rw [exG'_eq] at hξ
  exact ⟨ξ, (exG'_zero_iff ξ).mp hξ, hl.lt (by norm_num)⟩

/-- (R2), Cavalieri integrator `x − c(f(x)) + 0` with `f = x`, `c = 2y³ + y²/2` -/
example :
    ∀ r ∈ ([-1 / 2, 79 / 220] : List Rat), ∃ ξ : ℝ, deriv (cavGR exId exC) ξ = 0 ∧
      |(r : ℝ) - ξ| < 2 * ((1 / 10 : Rat) : ℝ) := by
  intro r hr
  obtain ⟨i, -, -, -, ξ, hξ, -, hl⟩ :=
    cav_split_roots_near_real_roots exId exC 0 _ _ _ _ cellHyp_run cav_split_run r hr
  exact ⟨ξ, (zero_deriv_cavGR_iff _ _ ξ).mp hξ, hl.lt (by norm_num)⟩

/-- from the end points of a run to its interior boundaries -/
theorem interiorBoundaries_of_ends_eq (ds : List (Disp2D Rat)) (l : List (Rat × Rat))
    (he : ds.map (fun d => (d.a, d.b)) = l) : interiorBoundaries ds = (l.map Prod.snd).dropLast := by
  rw [interiorBoundaries, ← he, List.map_map]
  rfl

/-- (R3), Cavalieri display on `[-1, 1]`: three pieces, interior boundaries `−1/2`, `79/220`, each
    within `2·tol` of a zero of the true `g'`, i.e. of `1/3` or `−1/2` -/
example : ∃ ds, genDisplayCav (adPoly exId) (adPoly exC) [(-1, 1)] cfgRoots = .ok ds ∧
    CellHyp (vecFromRes (-1 : Rat) 1 cfgRoots.xRes) cfgRoots.tol ∧
    interiorBoundaries ds = [-1 / 2, 79 / 220] ∧
    ∀ x ∈ interiorBoundaries ds, ∃ ξ : ℝ, (ξ = 1 / 3 ∨ ξ = -1 / 2) ∧
      |(x : ℝ) - ξ| < 2 * ((1 / 10 : Rat) : ℝ) := by
  obtain ⟨ds, h, he⟩ := DispEx.ends_some cav_roots_ends
  refine ⟨ds, h, cellHyp_run, by rw [interiorBoundaries_of_ends_eq ds _ he]; rfl, fun x hx => ?_⟩
  obtain ⟨ξ, hξ, hl⟩ :=
    cav_boundaries_within_two_tol exId exC (-1) 1 cfgRoots ds cellHyp_run (by decide +kernel) h x hx
  exact ⟨ξ, (exCav_deriv_zero_iff ξ).mp hξ, hl⟩

/-- (R3), RS display on `[-1, 1]` with `f' = x − 7/20`: the split points `7/20` (of `f`) and
    `79/220` (of `g`) are merged into `39/110`; every interior boundary is within `4·tol` of a zero
    of `f'` or `g'`, i.e. of `7/20`, `1/3` or `−1/2` -/
example : ∃ ds, genDisplayRs (adPoly exF) (adPoly exG) [(-1, 1)] cfgRoots = .ok ds ∧
    interiorBoundaries ds = [-1 / 2, 39 / 110] ∧
    ∀ x ∈ interiorBoundaries ds, ∃ ξ : ℝ, (ξ = 7 / 20 ∨ ξ = 1 / 3 ∨ ξ = -1 / 2) ∧
      |(x : ℝ) - ξ| < 4 * ((1 / 10 : Rat) : ℝ) := by
  obtain ⟨ds, h, he⟩ := DispEx.ends_some rs_roots_ends
  refine ⟨ds, h, by rw [interiorBoundaries_of_ends_eq ds _ he]; rfl, fun x hx => ?_⟩
  obtain ⟨ξ, hz, -, hl⟩ :=
    rs_boundaries_within_four_tol exF exG (-1) 1 cfgRoots ds cellHyp_run h x hx
  refine ⟨ξ, ?_, hl (by decide +kernel)⟩
  rcases hz with hz | hz
  · exact Or.inl ((exF_deriv_zero_iff ξ).mp hz)
  · exact Or.inr ((exG_deriv_zero_iff ξ).mp hz)

/-! ### the converse fails: sign changes of `g'` that are NOT piece boundaries -/

/-- DEFECT witness for "exactly".  `g = 5x³ − 11x²/2 + 2x`, `g' = 15x² − 11x + 2 = (3x − 1)(5x − 2)`
    changes sign at `1/3` and at `2/5` (positive at `0` and `1/2`, negative at `7/20`), both inside
    the first cell of the grid `[0, 1/2, 1]`; the derivative has the same sign at all grid points,
    so `split_strictly_monotone` succeeds with NO split point (`CellHyp` holds). -/
theorem split_misses_sign_change_pair :
    splitStrictlyMonotone (adPoly [0, 2, -11 / 2, 5]) [0, 1 / 2, 1] (1 / 100) 20 = .ok [] ∧
    CellHyp [0, 1 / 2, 1] (1 / 100) ∧
    derivCoeffs [0, 2, -11 / 2, 5] = [2, -11, 15] ∧
    evalPoly [2, -11, 15] (1 / 3) = 0 ∧ evalPoly [2, -11, 15] (2 / 5) = 0 ∧
    0 < evalPoly [2, -11, 15] 0 ∧ evalPoly [2, -11, 15] (7 / 20) < 0 ∧
    0 < evalPoly [2, -11, 15] (1 / 2) := by
  decide +kernel

end Cav.C11Roots
