/-
  C11 — COMPLETENESS at the level of the sampling grid: a sign change of `g'` between two
  neighbouring grid points is not missed by `split_strictly_monotone`.

  Model path: `Cav/Model/Split.lean` (`splitLoop`, `splitStrictlyMonotone`), `Cav/Model/Brent.lean`
  (`findRootBrent`), the GENERATED `Gen.D1.df`.  Everything is over `Rat`; the closure
  `f : AD Rat → AD Rat` is ARBITRARY.  Notation below: `X = shiftedGrid xv tol` (the grid with its
  two ends moved inwards by `σ·tol`, the points at which the model samples the derivative),
  `σ = gridSign xv = ±1`, `g' = D1.df f`, cell `i` (`1 ≤ i < xv.length`) is `[X[i-1], X[i]]`.

  `Thm/C11Roots` proves SOUNDNESS (every returned point is an exact zero of `g'` at a grid point or
  a Brent result inside one cell, hence near a real zero); `split_misses_sign_change_pair` there
  shows that two sign changes inside one cell are missed.  Here:

  (M1) `cell_with_sign_change_brent_recorded`, `cell_with_sign_change_yields_point`: if `g'` is
       non-zero with opposite strict signs at the two ends of cell `i` (`g'(X[i-1])·g'(X[i]) < 0`)
       and the call succeeds, then `findRootBrent X[i-1] X[i] g' tol m = .ok r` for some `r`,
       `r ∈ res`, and `r` lies in the closed cell.  The loop cannot jump over such a cell: the only
       jump (`i += 2`) happens when `g'` is exactly `0` at the cell's left grid point.
       Error case `cell_brent_error_propagates`: if that Brent call fails with `e`, the whole call
       returns `.error (.root e)` — or the error of a failed Brent call of an EARLIER cell (the
       loop stops at the first failure; "returns that error" is false as stated when an earlier
       cell fails first).  `cell_brent_error_is_noConvergency`: `e` can only be `noConvergency`.
  (M2) `split_points_classified_with_tests`: converse classification — a returned point is a cell
       end with exactly zero derivative (not a monotone saddle), or the result of the loop's Brent
       call `cellBrent` for a cell `i` whose bracket-end signs `signum (cellL …).2`,
       `signum (cellR …).2` DIFFER.  (`cellL/cellR` are the grid ends when `g'` is non-zero there:
       `cellL_of_ne`, `cellR_of_ne`; at an exact zero that passed the saddle test they are the
       stepped-off probe with its derivative, or the grid point with a FALLBACK sign that is not a
       derivative value, so nothing sharper is true in general.)
       `no_point_in_cell_without_sign_change`: if `g'` is non-zero with the SAME strict sign at the
       two ends of cell `i`, no returned point lies strictly inside cell `i`.
  (M3) `split_count_of_nonzero_grid_derivatives`: if `g'` vanishes at no point of the shifted grid,
       `res.length` is the number of cells whose ends have opposite signs (`changeCells`), `res` is
       in grid order, and every returned point is the Brent result of such a cell on its two grid
       ends (`split_points_of_nonzero_grid_derivatives`).
  (M4, partial) `real_sign_change_located`: `F` a continuous real extension of `g'`; if the grid
       ends of cell `i` have opposite signs and `ξ` is the ONLY real zero of `F` in the closed cell,
       then some returned point in that cell locates `ξ` (`ξ = r`, or `|r − ξ| < 2·tol`).
       `rs_real_sign_change_located`: the polynomial instance `f = adPoly pg`.

       `real_zeros_all_located`, `deriv_ne_zero_outside_neighbourhoods`: with the separation of
       the zeros given as explicit hypotheses (each closed cell has at most one real zero of `F`,
       and a cell with a zero has grid ends of opposite sign), every real zero in a cell is located
       by a returned point of that cell, and `F` does not vanish at cell points `≥ 2·tol` away from
       all returned points; `deriv_same_sign_outside_neighbourhoods`: two points of one cell with
       the whole segment between them `≥ 2·tol` away from all returned points have `F` of the same
       strict sign.

  NOT proved IN THIS FILE: the global real-analysis statement from "simple zeros pairwise more than
  one cell apart, none at a grid point" to "`g'` has constant strict sign on every piece outside the
  `2·tol` neighbourhoods".  The two missing steps are theorems of later files: (a) "a simple zero,
  alone in its cell, forces opposite signs at the cell ends" (the hypothesis `hchg`) is
  `C11Simple.hchg_of_simple_zeros`; (b) gluing the cells (a real point of the hull of the grid lies
  in some closed cell) is `C11Glue.hull_point_in_some_cell` /
  `deriv_same_sign_outside_neighbourhoods_global`; `C11Final` combines them.
-/
import Cav.Lemmas.RootMLoop
import Cav.Thm.C11Roots

namespace Cav.C11Mono
open Cav Num Gen Cav.BrentL Cav.SplitL Cav.C13Split Cav.C11Roots Cav.C01 Cav.C07Accuracy

/-! ## (M1) a cell with a sign change yields a point -/

/-- **(M1), without any hypothesis on the grid.**  If the derivative at the two (shifted) grid ends
    of cell `i` has strictly opposite signs and the call succeeds, Brent was called on these two
    grid points, succeeded, and its result is one of the returned points. -/
theorem cell_with_sign_change_brent_recorded (f : AD Rat → AD Rat) (xv : List Rat) (tol : Rat)
    (m : Nat) (res : List Rat) (i : Nat) (h1 : 1 ≤ i) (h2 : i < xv.length)
    (hs : D1.df f ((shiftedGrid xv tol).getD (i - 1) 0) * D1.df f ((shiftedGrid xv tol).getD i 0) < 0)
    (h : splitStrictlyMonotone f xv tol m = .ok res) :
    ∃ r, findRootBrent ((shiftedGrid xv tol).getD (i - 1) 0) ((shiftedGrid xv tol).getD i 0)
        (fun x => D1.df f x) tol m = .ok r ∧ r ∈ res := by
  have hn : ¬ xv.length < 2 := by omega
  rw [splitStrictlyMonotone_eq f xv tol m hn] at h
  have hk : i < (shiftedGrid xv tol).size := by rw [shiftedGrid_size]; exact h2
  have hL : D1.df f ((shiftedGrid xv tol).getD (i - 1) 0) ≠ 0 := by
    rintro e; rw [e, zero_mul] at hs; exact lt_irrefl _ hs
  rcases splitLoop_reach f tol (gridSign xv) m (shiftedGrid xv tol) i hk hL (xv.length + 1) 1 []
      (le_refl _) h1 (by omega) with ⟨fuel', roots', e⟩ | ⟨j, e', -, -, -, e⟩
  · rw [e] at h
    cases hbr : findRootBrent ((shiftedGrid xv tol).getD (i - 1) 0) ((shiftedGrid xv tol).getD i 0)
        (fun x => D1.df f x) tol m with
    | ok r =>
      rw [splitLoop_at_change_ok f tol (gridSign xv) m (shiftedGrid xv tol) i h1 hk hs fuel' roots' r
        hbr] at h
      exact ⟨r, rfl, splitLoop_roots_kept _ _ _ _ _ _ _ _ _ _ h r (List.mem_cons_self ..)⟩
    | error e'' =>
      rw [splitLoop_at_change_error f tol (gridSign xv) m (shiftedGrid xv tol) i h1 hk hs fuel' roots'
        e'' hbr] at h
      cases h
  · rw [e] at h; cases h

/-- **(M1).**  Under `CellHyp` the recorded Brent result lies in the closed cell `i`. -/
theorem cell_with_sign_change_yields_point (f : AD Rat → AD Rat) (xv : List Rat) (tol : Rat)
    (m : Nat) (res : List Rat) (hc : CellHyp xv tol) (i : Nat) (h1 : 1 ≤ i) (h2 : i < xv.length)
    (hs : D1.df f ((shiftedGrid xv tol).getD (i - 1) 0) * D1.df f ((shiftedGrid xv tol).getD i 0) < 0)
    (h : splitStrictlyMonotone f xv tol m = .ok res) :
    ∃ r, findRootBrent ((shiftedGrid xv tol).getD (i - 1) 0) ((shiftedGrid xv tol).getD i 0)
        (fun x => D1.df f x) tol m = .ok r ∧ r ∈ res ∧
      InCell (gridSign xv) ((shiftedGrid xv tol).getD (i - 1) 0) ((shiftedGrid xv tol).getD i 0) r := by
  obtain ⟨r, hbr, hr⟩ := cell_with_sign_change_brent_recorded f xv tol m res i h1 h2 hs h
  refine ⟨r, hbr, hr, ?_⟩
  have hle : gridSign xv * (shiftedGrid xv tol).getD (i - 1) 0 ≤
      gridSign xv * (shiftedGrid xv tol).getD i 0 := by
    have := hc.2 i h2 h1
    have h0 := hc.1
    rw [mul_sub] at this
    linarith
  exact inCell_of_hull (gridSign_pm xv) ⟨le_refl _, hle⟩ ⟨hle, le_refl _⟩
    (C11.brent_in_hull _ _ _ tol m r hbr)

/-- **(M1), error case.**  If Brent fails with `e` on a cell whose grid ends have opposite signs, the
    whole call fails: with `.root e`, or — the loop stops at the FIRST failure — with the error of the
    loop's Brent call `cellBrent` of an earlier cell `j < i`. -/
theorem cell_brent_error_propagates (f : AD Rat → AD Rat) (xv : List Rat) (tol : Rat)
    (m : Nat) (i : Nat) (h1 : 1 ≤ i) (h2 : i < xv.length)
    (hs : D1.df f ((shiftedGrid xv tol).getD (i - 1) 0) * D1.df f ((shiftedGrid xv tol).getD i 0) < 0)
    (e : SearchErr)
    (hbr : findRootBrent ((shiftedGrid xv tol).getD (i - 1) 0) ((shiftedGrid xv tol).getD i 0)
        (fun x => D1.df f x) tol m = .error e) :
    splitStrictlyMonotone f xv tol m = .error (.root e) ∨
    ∃ j e', 1 ≤ j ∧ j < i ∧ cellBrent f tol (gridSign xv) m (shiftedGrid xv tol) j = .error e' ∧
      splitStrictlyMonotone f xv tol m = .error (.root e') := by
  have hn : ¬ xv.length < 2 := by omega
  rw [splitStrictlyMonotone_eq f xv tol m hn]
  have hk : i < (shiftedGrid xv tol).size := by rw [shiftedGrid_size]; exact h2
  have hL : D1.df f ((shiftedGrid xv tol).getD (i - 1) 0) ≠ 0 := by
    rintro e; rw [e, zero_mul] at hs; exact lt_irrefl _ hs
  rcases splitLoop_reach f tol (gridSign xv) m (shiftedGrid xv tol) i hk hL (xv.length + 1) 1 []
      (le_refl _) h1 (by omega) with ⟨fuel', roots', e1⟩ | ⟨j, e', g1, g2, g3, e1⟩
  · left
    rw [e1]
    exact splitLoop_at_change_error f tol (gridSign xv) m (shiftedGrid xv tol) i h1 hk hs fuel' roots'
      e hbr
  · exact Or.inr ⟨j, e', g1, g2, g3, e1⟩

/-- hence a successful call excludes a Brent failure on such a cell -/
theorem cell_brent_ok_of_split_ok (f : AD Rat → AD Rat) (xv : List Rat) (tol : Rat)
    (m : Nat) (res : List Rat) (i : Nat) (h1 : 1 ≤ i) (h2 : i < xv.length)
    (hs : D1.df f ((shiftedGrid xv tol).getD (i - 1) 0) * D1.df f ((shiftedGrid xv tol).getD i 0) < 0)
    (h : splitStrictlyMonotone f xv tol m = .ok res) (e : SearchErr) :
    findRootBrent ((shiftedGrid xv tol).getD (i - 1) 0) ((shiftedGrid xv tol).getD i 0)
        (fun x => D1.df f x) tol m ≠ .error e := by
  intro hbr
  rcases cell_brent_error_propagates f xv tol m i h1 h2 hs e hbr with e1 | ⟨_, _, _, _, _, e1⟩ <;>
    rw [e1] at h <;> cases h

/-- on a cell whose ends have opposite signs Brent never reports `noBracketing`
    (`C11.brent_noBracketing_iff`): the only possible failure is `noConvergency` -/
theorem cell_brent_error_is_noConvergency (g : Rat → Rat) (a b tol : Rat) (m : Nat)
    (hs : g a * g b < 0) (e : SearchErr) (hbr : findRootBrent a b g tol m = .error e) :
    e = .noConvergency := by
  cases e with
  | noConvergency => rfl
  | noBracketing =>
    have := (C11.brent_noBracketing_iff a b g tol m).mp hbr
    linarith

/-! ## (M2) Brent results come from cells with a sign change -/

/-- **(M2), converse classification.**  Under `CellHyp` every returned point `r` lies in a closed
    cell `i` and
    * is an END of that cell with EXACTLY zero derivative that failed the monotone-saddle test, or
    * is the result of the loop's Brent call for cell `i`, whose two bracket-end signs differ; at
      each grid end of that cell the derivative is non-zero or the end is a monotone saddle. -/
theorem split_points_classified_with_tests (f : AD Rat → AD Rat) (xv : List Rat) (tol : Rat) (m : Nat)
    (res : List Rat) (hc : CellHyp xv tol) (h : splitStrictlyMonotone f xv tol m = .ok res) :
    ∀ r ∈ res, ∃ i, 1 ≤ i ∧ i < xv.length ∧
      InCell (gridSign xv) ((shiftedGrid xv tol).getD (i - 1) 0) ((shiftedGrid xv tol).getD i 0) r ∧
      ((D1.df f r = 0 ∧ isMonotonicSaddle f r tol = false ∧
          (r = (shiftedGrid xv tol).getD (i - 1) 0 ∨ r = (shiftedGrid xv tol).getD i 0)) ∨
       (¬ leftZero f tol (shiftedGrid xv tol) (tab f (shiftedGrid xv tol)) i = true ∧
        ¬ rightZero f tol (shiftedGrid xv tol) (tab f (shiftedGrid xv tol)) i = true ∧
        signum (cellL f tol (gridSign xv) (shiftedGrid xv tol) (tab f (shiftedGrid xv tol)) i).2 ≠
          signum (cellR f tol (gridSign xv) (shiftedGrid xv tol) (tab f (shiftedGrid xv tol)) i).2 ∧
        cellBrent f tol (gridSign xv) m (shiftedGrid xv tol) i = .ok r)) := by
  by_cases hn : xv.length < 2
  · rw [splitStrictlyMonotone_short f xv tol m hn] at h
    cases h; intro r hr; cases hr
  rw [splitStrictlyMonotone_eq f xv tol m hn] at h
  obtain ⟨h0, hcell⟩ := hc
  have hσ := gridSign_pm xv
  generalize hσd : gridSign xv = σ at *
  generalize hXd : shiftedGrid xv tol = X at *
  have hsz : X.size = xv.length := by rw [← hXd]; exact shiftedGrid_size xv tol
  have hstep : ∀ i, 1 ≤ i → i < xv.length → σ * X.getD (i - 1) 0 ≤ σ * X.getD i 0 := by
    intro i h1 h2
    have := hcell i h2 h1
    rw [mul_sub] at this
    linarith
  obtain ⟨i', roots', hP, rfl⟩ :=
    splitLoop_ok_inv_full
      (fun j rs => 1 ≤ j ∧ ∀ r ∈ rs, ∃ i, 1 ≤ i ∧ i < xv.length ∧
        InCell σ (X.getD (i - 1) 0) (X.getD i 0) r ∧
        ((D1.df f r = 0 ∧ isMonotonicSaddle f r tol = false ∧
            (r = X.getD (i - 1) 0 ∨ r = X.getD i 0)) ∨
         (¬ leftZero f tol X (tab f X) i = true ∧ ¬ rightZero f tol X (tab f X) i = true ∧
          signum (cellL f tol σ X (tab f X) i).2 ≠ signum (cellR f tol σ X (tab f X) i).2 ∧
          cellBrent f tol σ m X i = .ok r)))
      (fun j rs hP hj hz => ⟨by omega, fun r hr => by
        rw [hsz] at hj
        rcases List.mem_cons.mp hr with rfl | hr
        · obtain ⟨hz0, hz1⟩ := leftZero_rat f tol X j (by omega) hz
          exact ⟨j, hP.1, hj, ⟨le_refl _, hstep j hP.1 hj⟩, Or.inl ⟨hz0, hz1, Or.inl rfl⟩⟩
        · exact hP.2 r hr⟩)
      (fun j rs hP hj hz => ⟨by omega, fun r hr => by
        rw [hsz] at hj
        rcases List.mem_cons.mp hr with rfl | hr
        · obtain ⟨hz0, hz1⟩ := rightZero_rat f tol X j (by omega) hz
          exact ⟨j, hP.1, hj, ⟨hstep j hP.1 hj, le_refl _⟩, Or.inl ⟨hz0, hz1, Or.inr rfl⟩⟩
        · exact hP.2 r hr⟩)
      (fun j rs r' hP hj c1 c2 c3 hbr => ⟨by omega, fun r hr => by
        rw [hsz] at hj
        rcases List.mem_cons.mp hr with rfl | hr
        · have hw := hcell j hj hP.1
          exact ⟨j, hP.1, hj, brent_inCell f _ _ j m r hσ h0 hw hbr,
            Or.inr ⟨c1, c2, (bne_iff _ _).mp c3, hbr⟩⟩
        · exact hP.2 r hr⟩)
      (fun j rs hP hj => ⟨by omega, hP.2⟩)
      (xv.length + 1) 1 [] ⟨le_refl _, fun r hr => by cases hr⟩ h
  intro r hr
  exact hP.2 r (List.mem_reverse.mp hr)

/-- under `CellHyp` the shifted grid is monotone in the direction `σ` -/
theorem shiftedGrid_mono (xv : List Rat) (tol : Rat) (hc : CellHyp xv tol) :
    ∀ i j, i ≤ j → j < xv.length →
      gridSign xv * (shiftedGrid xv tol).getD i 0 ≤ gridSign xv * (shiftedGrid xv tol).getD j 0 := by
  have hstep : ∀ i, 1 ≤ i → i < xv.length →
      gridSign xv * (shiftedGrid xv tol).getD (i - 1) 0 ≤ gridSign xv * (shiftedGrid xv tol).getD i 0 := by
    intro i h1 h2
    have := hc.2 i h2 h1
    have h0 := hc.1
    rw [mul_sub] at this
    linarith
  have hmono : ∀ (d i : Nat), i + d < xv.length →
      gridSign xv * (shiftedGrid xv tol).getD i 0 ≤ gridSign xv * (shiftedGrid xv tol).getD (i + d) 0 := by
    intro d
    induction d with
    | zero => intro i _; exact le_refl _
    | succ d ih =>
      intro i hi
      have h1 := ih i (by omega)
      have h2 := hstep (i + d + 1) (by omega) (by omega)
      have e : i + d + 1 - 1 = i + d := by omega
      rw [e] at h2
      exact le_trans h1 h2
  intro i j hij hj
  obtain ⟨d, rfl⟩ := Nat.exists_eq_add_of_le hij
  exact hmono d i hj

/-- **(M2).**  Under `CellHyp`, if the derivative at the two grid ends of cell `i` is non-zero with
    the SAME strict sign, no returned point lies strictly inside cell `i` (no Brent call is made for
    that cell; grid points and the results of other cells lie outside the open cell). -/
theorem no_point_in_cell_without_sign_change (f : AD Rat → AD Rat) (xv : List Rat) (tol : Rat)
    (m : Nat) (res : List Rat) (hc : CellHyp xv tol) (i : Nat) (h1 : 1 ≤ i) (h2 : i < xv.length)
    (hs : 0 < D1.df f ((shiftedGrid xv tol).getD (i - 1) 0) * D1.df f ((shiftedGrid xv tol).getD i 0))
    (h : splitStrictlyMonotone f xv tol m = .ok res) :
    ∀ r ∈ res, ¬ (gridSign xv * (shiftedGrid xv tol).getD (i - 1) 0 < gridSign xv * r ∧
      gridSign xv * r < gridSign xv * (shiftedGrid xv tol).getD i 0) := by
  intro r hr ⟨hlo, hhi⟩
  have hmono := shiftedGrid_mono xv tol hc
  have hsz : (shiftedGrid xv tol).size = xv.length := shiftedGrid_size xv tol
  obtain ⟨j, j1, j2, ⟨c1, c2⟩, hcase⟩ := split_points_classified_with_tests f xv tol m res hc h r hr
  rcases Nat.lt_trichotomy j i with hji | rfl | hji
  · have := hmono j (i - 1) (by omega) (by omega)
    linarith
  · rcases hcase with ⟨-, -, e | e⟩ | ⟨-, -, hne, -⟩
    · rw [← e] at hlo; exact lt_irrefl _ hlo
    · rw [← e] at hhi; exact lt_irrefl _ hhi
    · have hL : D1.df f ((shiftedGrid xv tol).getD (j - 1) 0) ≠ 0 := by
        rintro e; rw [e, zero_mul] at hs; exact lt_irrefl _ hs
      have hR : D1.df f ((shiftedGrid xv tol).getD j 0) ≠ 0 := by
        rintro e; rw [e, mul_zero] at hs; exact lt_irrefl _ hs
      rw [cellL_of_ne f tol _ _ j (by omega) hL, cellR_of_ne f tol _ _ j (by omega) hR] at hne
      have := (signum_ne_iff_mul_neg hL hR).mp ((bne_iff _ _).mpr hne)
      linarith
  · have := hmono i (j - 1) (by omega) (by omega)
    linarith

/-! ## (M3) the count when no grid derivative vanishes -/

/-- **(M3).**  If the derivative vanishes at no point of the shifted grid, a successful call
    returns exactly one point per cell whose ends have opposite strict signs, in grid order. -/
theorem split_count_of_nonzero_grid_derivatives (f : AD Rat → AD Rat) (xv : List Rat) (tol : Rat)
    (m : Nat) (res : List Rat) (hc : CellHyp xv tol)
    (hne : ∀ j, j < xv.length → D1.df f ((shiftedGrid xv tol).getD j 0) ≠ 0)
    (h : splitStrictlyMonotone f xv tol m = .ok res) :
    res.length = (changeCells f (shiftedGrid xv tol) 1 (xv.length - 1)).length ∧
    res.Pairwise (fun p q => gridSign xv * p ≤ gridSign xv * q) := by
  refine ⟨?_, split_roots_sorted f xv tol m res hc h⟩
  by_cases hn : xv.length < 2
  · rw [splitStrictlyMonotone_short f xv tol m hn] at h
    cases h
    have : xv.length - 1 = 0 ∨ xv.length - 1 = 1 - 1 := by omega
    have e : xv.length - 1 = 0 := by omega
    simp [changeCells, e]
  rw [splitStrictlyMonotone_eq f xv tol m hn] at h
  have hsz : (shiftedGrid xv tol).size = xv.length := shiftedGrid_size xv tol
  have := splitLoop_length_all_ne f tol (gridSign xv) m (shiftedGrid xv tol)
    (fun j hj => hne j (by omega)) res (xv.length + 1) 1 [] (le_refl _) (by omega) h
  rw [this, hsz]
  simp

/-- membership in `changeCells` -/
theorem mem_changeCells (f : AD Rat → AD Rat) (X : Array Rat) (i n j : Nat) :
    j ∈ changeCells f X i n ↔
      (i ≤ j ∧ j < i + n) ∧ D1.df f (X.getD (j - 1) 0) * D1.df f (X.getD j 0) < 0 := by
  unfold changeCells
  rw [List.mem_filter, List.mem_range'_1, decide_eq_true_iff]

/-- **(M3), which points.**  With no vanishing grid derivative, the returned points are exactly the
    Brent results for the cells with a sign change, each computed on the two grid ends. -/
theorem split_points_of_nonzero_grid_derivatives (f : AD Rat → AD Rat) (xv : List Rat) (tol : Rat)
    (m : Nat) (res : List Rat) (hc : CellHyp xv tol)
    (hne : ∀ j, j < xv.length → D1.df f ((shiftedGrid xv tol).getD j 0) ≠ 0)
    (h : splitStrictlyMonotone f xv tol m = .ok res) (r : Rat) :
    r ∈ res ↔ ∃ i ∈ changeCells f (shiftedGrid xv tol) 1 (xv.length - 1),
      findRootBrent ((shiftedGrid xv tol).getD (i - 1) 0) ((shiftedGrid xv tol).getD i 0)
        (fun x => D1.df f x) tol m = .ok r := by
  have hsz : (shiftedGrid xv tol).size = xv.length := shiftedGrid_size xv tol
  constructor
  · intro hr
    obtain ⟨i, i1, i2, -, hcase⟩ := split_points_classified_with_tests f xv tol m res hc h r hr
    have hL := hne (i - 1) (by omega)
    have hR := hne i i2
    rcases hcase with ⟨hz, -, e | e⟩ | ⟨-, -, hsn, hbr⟩
    · rw [e] at hz; exact absurd hz hL
    · rw [e] at hz; exact absurd hz hR
    · have eL := cellL_of_ne f tol (gridSign xv) (shiftedGrid xv tol) i (by omega) hL
      have eR := cellR_of_ne f tol (gridSign xv) (shiftedGrid xv tol) i (by omega) hR
      rw [eL, eR] at hsn
      refine ⟨i, (mem_changeCells _ _ _ _ _).mpr ⟨⟨i1, by omega⟩,
        (signum_ne_iff_mul_neg hL hR).mp ((bne_iff _ _).mpr hsn)⟩, ?_⟩
      have : cellBrent f tol (gridSign xv) m (shiftedGrid xv tol) i =
          findRootBrent ((shiftedGrid xv tol).getD (i - 1) 0) ((shiftedGrid xv tol).getD i 0)
            (fun x => D1.df f x) tol m := by
        unfold cellBrent
        rw [eL, eR]
      rw [← this]; exact hbr
  · rintro ⟨i, hi, hbr⟩
    obtain ⟨⟨i1, i2⟩, hs⟩ := (mem_changeCells _ _ _ _ _).mp hi
    obtain ⟨r', hbr', hr'⟩ :=
      cell_with_sign_change_brent_recorded f xv tol m res i i1 (by omega) hs h
    rw [hbr] at hbr'
    cases hbr'
    exact hr'

/-! ## (M4, partial) a real sign change inside one cell is located -/

/-- **(M4), one cell.**  `F` a continuous real function that agrees with `D1.df f` on the
    rationals.  Under `CellHyp`, if the grid ends of cell `i` have derivatives of opposite strict
    sign and `ξ` is the ONLY real zero of `F` in the closed cell `i`, then a successful call returns
    a point `r` of that cell which locates `ξ`: `ξ = r`, or `0 < tol` and `|r − ξ| < 2·tol`. -/
theorem real_sign_change_located (f : AD Rat → AD Rat) (F : ℝ → ℝ) (hF : Continuous F)
    (hFf : ∀ q : Rat, F (q : ℝ) = ((D1.df f q : Rat) : ℝ))
    (xv : List Rat) (tol : Rat) (m : Nat) (res : List Rat) (hc : CellHyp xv tol)
    (i : Nat) (h1 : 1 ≤ i) (h2 : i < xv.length)
    (hs : D1.df f ((shiftedGrid xv tol).getD (i - 1) 0) * D1.df f ((shiftedGrid xv tol).getD i 0) < 0)
    (ξ : ℝ)
    (huniq : ∀ ζ : ℝ, F ζ = 0 →
      InCellR (gridSign xv) ((shiftedGrid xv tol).getD (i - 1) 0) ((shiftedGrid xv tol).getD i 0) ζ →
      ζ = ξ)
    (h : splitStrictlyMonotone f xv tol m = .ok res) :
    ∃ r ∈ res,
      InCell (gridSign xv) ((shiftedGrid xv tol).getD (i - 1) 0) ((shiftedGrid xv tol).getD i 0) r ∧
      Located tol r ξ := by
  obtain ⟨r, hbr, hr, hin⟩ := cell_with_sign_change_yields_point f xv tol m res hc i h1 h2 hs h
  refine ⟨r, hr, hin, ?_⟩
  have hσ := gridSign_pm xv
  have hle : gridSign xv * (shiftedGrid xv tol).getD (i - 1) 0 ≤
      gridSign xv * (shiftedGrid xv tol).getD i 0 := by
    have := hc.2 i h2 h1
    have h0 := hc.1
    rw [mul_sub] at this
    linarith
  have hu : InCell (gridSign xv) ((shiftedGrid xv tol).getD (i - 1) 0) ((shiftedGrid xv tol).getD i 0)
      ((shiftedGrid xv tol).getD (i - 1) 0) := ⟨le_refl _, hle⟩
  have hv : InCell (gridSign xv) ((shiftedGrid xv tol).getD (i - 1) 0) ((shiftedGrid xv tol).getD i 0)
      ((shiftedGrid xv tol).getD i 0) := ⟨hle, le_refl _⟩
  rcases brent_near_real_root_of_continuous (fun x => D1.df f x) F hF hFf _ _ tol m r hbr with
    ⟨hz, -⟩ | ⟨u', v', ζ, -, hw, hu', hv', hζ, g1, g2, hd⟩
  · have : (r : ℝ) = ξ := huniq (r : ℝ) (by rw [hFf, hz, Rat.cast_zero]) (inCellR_cast hin)
    exact Or.inl this.symm
  · have htol : 0 < tol := by
      have := abs_nonneg (v' - u'); linarith
    have : ζ = ξ := huniq ζ hζ (inCellR_of_between hσ (inCell_of_hull hσ hu hv hu')
      (inCell_of_hull hσ hu hv hv') (le_of_lt g1) (le_of_lt g2))
    rw [this] at hd
    exact Or.inr ⟨htol, hd⟩

/-- **(M4), one cell, polynomial integrator** `g = adPoly pg`, `g' = evalPoly (derivCoeffs pg)`:
    a sign change of `g'` between two neighbouring grid points whose cell contains a single real
    zero `ξ` of `g'` produces a returned point within `2·tol` of `ξ`. -/
theorem rs_real_sign_change_located (pg : List Rat) (xv : List Rat) (tol : Rat) (m : Nat)
    (res : List Rat) (hc : CellHyp xv tol) (i : Nat) (h1 : 1 ≤ i) (h2 : i < xv.length)
    (hs : evalPoly (derivCoeffs pg) ((shiftedGrid xv tol).getD (i - 1) 0) *
      evalPoly (derivCoeffs pg) ((shiftedGrid xv tol).getD i 0) < 0)
    (ξ : ℝ)
    (huniq : ∀ ζ : ℝ, evalPolyR (derivCoeffs pg) ζ = 0 →
      InCellR (gridSign xv) ((shiftedGrid xv tol).getD (i - 1) 0) ((shiftedGrid xv tol).getD i 0) ζ →
      ζ = ξ)
    (h : splitStrictlyMonotone (adPoly pg) xv tol m = .ok res) :
    ∃ r ∈ res,
      InCell (gridSign xv) ((shiftedGrid xv tol).getD (i - 1) 0) ((shiftedGrid xv tol).getD i 0) r ∧
      Located tol r ξ :=
  real_sign_change_located (adPoly pg) (evalPolyR (derivCoeffs pg)) (evalPolyR_continuous _)
    (fun q => by rw [evalPolyR_cast, D1_df_adPoly]) xv tol m res hc i h1 h2
    (by rw [D1_df_adPoly, D1_df_adPoly]; exact hs) ξ huniq h

/-- **(M4), all cells, with the separation of the zeros as explicit hypotheses.**  `F` a continuous
    real extension of `D1.df f`.  Assume: no derivative value at a point of the shifted grid vanishes;
    (`hsep`) every closed cell contains at most one real zero of `F`; (`hchg`) a closed cell that
    contains a real zero of `F` has grid ends of opposite strict sign (what "simple zeros, more than
    one cell apart" gives — NOT derived here).  Then EVERY real zero of `F` in a cell of the shifted
    grid is located by a returned point of that cell. -/
theorem real_zeros_all_located (f : AD Rat → AD Rat) (F : ℝ → ℝ) (hF : Continuous F)
    (hFf : ∀ q : Rat, F (q : ℝ) = ((D1.df f q : Rat) : ℝ))
    (xv : List Rat) (tol : Rat) (m : Nat) (res : List Rat) (hc : CellHyp xv tol)
    (hsep : ∀ i, 1 ≤ i → i < xv.length → ∀ ζ ζ' : ℝ, F ζ = 0 → F ζ' = 0 →
      InCellR (gridSign xv) ((shiftedGrid xv tol).getD (i - 1) 0) ((shiftedGrid xv tol).getD i 0) ζ →
      InCellR (gridSign xv) ((shiftedGrid xv tol).getD (i - 1) 0) ((shiftedGrid xv tol).getD i 0) ζ' →
      ζ' = ζ)
    (hchg : ∀ i, 1 ≤ i → i < xv.length → ∀ ζ : ℝ, F ζ = 0 →
      InCellR (gridSign xv) ((shiftedGrid xv tol).getD (i - 1) 0) ((shiftedGrid xv tol).getD i 0) ζ →
      D1.df f ((shiftedGrid xv tol).getD (i - 1) 0) * D1.df f ((shiftedGrid xv tol).getD i 0) < 0)
    (h : splitStrictlyMonotone f xv tol m = .ok res) :
    ∀ i, 1 ≤ i → i < xv.length → ∀ ξ : ℝ, F ξ = 0 →
      InCellR (gridSign xv) ((shiftedGrid xv tol).getD (i - 1) 0) ((shiftedGrid xv tol).getD i 0) ξ →
      ∃ r ∈ res,
        InCell (gridSign xv) ((shiftedGrid xv tol).getD (i - 1) 0) ((shiftedGrid xv tol).getD i 0) r ∧
        Located tol r ξ := by
  intro i h1 h2 ξ hξ hin
  exact real_sign_change_located f F hF hFf xv tol m res hc i h1 h2 (hchg i h1 h2 ξ hξ hin) ξ
    (fun ζ hζ hζin => hsep i h1 h2 ξ ζ hξ hζ hin hζin) h

/-- **(M4), consequence.**  Under the hypotheses of `real_zeros_all_located` and `0 < tol`, `F` has
    NO zero at a real point `x` of a cell that is at least `2·tol` away from every returned point:
    outside the `2·tol` neighbourhoods of the returned points the derivative does not vanish. -/
theorem deriv_ne_zero_outside_neighbourhoods (f : AD Rat → AD Rat) (F : ℝ → ℝ) (hF : Continuous F)
    (hFf : ∀ q : Rat, F (q : ℝ) = ((D1.df f q : Rat) : ℝ))
    (xv : List Rat) (tol : Rat) (m : Nat) (res : List Rat) (hc : CellHyp xv tol) (htol : 0 < tol)
    (hsep : ∀ i, 1 ≤ i → i < xv.length → ∀ ζ ζ' : ℝ, F ζ = 0 → F ζ' = 0 →
      InCellR (gridSign xv) ((shiftedGrid xv tol).getD (i - 1) 0) ((shiftedGrid xv tol).getD i 0) ζ →
      InCellR (gridSign xv) ((shiftedGrid xv tol).getD (i - 1) 0) ((shiftedGrid xv tol).getD i 0) ζ' →
      ζ' = ζ)
    (hchg : ∀ i, 1 ≤ i → i < xv.length → ∀ ζ : ℝ, F ζ = 0 →
      InCellR (gridSign xv) ((shiftedGrid xv tol).getD (i - 1) 0) ((shiftedGrid xv tol).getD i 0) ζ →
      D1.df f ((shiftedGrid xv tol).getD (i - 1) 0) * D1.df f ((shiftedGrid xv tol).getD i 0) < 0)
    (h : splitStrictlyMonotone f xv tol m = .ok res) :
    ∀ i, 1 ≤ i → i < xv.length → ∀ x : ℝ,
      InCellR (gridSign xv) ((shiftedGrid xv tol).getD (i - 1) 0) ((shiftedGrid xv tol).getD i 0) x →
      (∀ r ∈ res, 2 * (tol : ℝ) ≤ |(r : ℝ) - x|) → F x ≠ 0 := by
  intro i h1 h2 x hin hfar hx
  obtain ⟨r, hr, -, hl⟩ :=
    real_zeros_all_located f F hF hFf xv tol m res hc hsep hchg h i h1 h2 x hx hin
  have := hl.lt htol
  have := hfar r hr
  linarith

/-- a real point between two real points of an oriented closed cell lies in the cell -/
theorem inCellR_of_between_real {σ xl xr : Rat} {x y z : ℝ} (hσ : σ = 1 ∨ σ = -1)
    (hx : InCellR σ xl xr x) (hy : InCellR σ xl xr y) (h1 : min x y ≤ z) (h2 : z ≤ max x y) :
    InCellR σ xl xr z := by
  obtain ⟨u1, u2⟩ := hx
  obtain ⟨v1, v2⟩ := hy
  unfold InCellR
  rcases hσ with rfl | rfl
  · simp only [Rat.cast_one, one_mul] at u1 u2 v1 v2 ⊢
    exact between_bounds ⟨u1, u2⟩ ⟨v1, v2⟩ h1 h2
  · simp only [Rat.cast_neg, Rat.cast_one, neg_mul, one_mul, neg_le_neg_iff] at u1 u2 v1 v2 ⊢
    obtain ⟨b1, b2⟩ := between_bounds (lo := (xr : ℝ)) (hi := (xl : ℝ)) ⟨u2, u1⟩ ⟨v2, v1⟩ h1 h2
    exact ⟨b2, b1⟩

/-- **(M4), constant strict sign inside one cell.**  Under the hypotheses of
    `real_zeros_all_located` and `0 < tol`: if `x`, `y` are real points of the same closed cell and
    every point between them is at least `2·tol` away from every returned point, then `F x` and
    `F y` are non-zero with the SAME strict sign. -/
theorem deriv_same_sign_outside_neighbourhoods (f : AD Rat → AD Rat) (F : ℝ → ℝ) (hF : Continuous F)
    (hFf : ∀ q : Rat, F (q : ℝ) = ((D1.df f q : Rat) : ℝ))
    (xv : List Rat) (tol : Rat) (m : Nat) (res : List Rat) (hc : CellHyp xv tol) (htol : 0 < tol)
    (hsep : ∀ i, 1 ≤ i → i < xv.length → ∀ ζ ζ' : ℝ, F ζ = 0 → F ζ' = 0 →
      InCellR (gridSign xv) ((shiftedGrid xv tol).getD (i - 1) 0) ((shiftedGrid xv tol).getD i 0) ζ →
      InCellR (gridSign xv) ((shiftedGrid xv tol).getD (i - 1) 0) ((shiftedGrid xv tol).getD i 0) ζ' →
      ζ' = ζ)
    (hchg : ∀ i, 1 ≤ i → i < xv.length → ∀ ζ : ℝ, F ζ = 0 →
      InCellR (gridSign xv) ((shiftedGrid xv tol).getD (i - 1) 0) ((shiftedGrid xv tol).getD i 0) ζ →
      D1.df f ((shiftedGrid xv tol).getD (i - 1) 0) * D1.df f ((shiftedGrid xv tol).getD i 0) < 0)
    (h : splitStrictlyMonotone f xv tol m = .ok res) (i : Nat) (h1 : 1 ≤ i) (h2 : i < xv.length)
    (x y : ℝ)
    (hx : InCellR (gridSign xv) ((shiftedGrid xv tol).getD (i - 1) 0) ((shiftedGrid xv tol).getD i 0) x)
    (hy : InCellR (gridSign xv) ((shiftedGrid xv tol).getD (i - 1) 0) ((shiftedGrid xv tol).getD i 0) y)
    (hfar : ∀ z : ℝ, min x y ≤ z → z ≤ max x y → ∀ r ∈ res, 2 * (tol : ℝ) ≤ |(r : ℝ) - z|) :
    0 < F x * F y := by
  have hnz : ∀ z : ℝ, min x y ≤ z → z ≤ max x y → F z ≠ 0 := fun z g1 g2 =>
    deriv_ne_zero_outside_neighbourhoods f F hF hFf xv tol m res hc htol hsep hchg h i h1 h2 z
      (inCellR_of_between_real (gridSign_pm xv) hx hy g1 g2) (hfar z g1 g2)
  have hxn : F x ≠ 0 := hnz x (min_le_left _ _) (le_max_left _ _)
  have hyn : F y ≠ 0 := hnz y (min_le_right _ _) (le_max_right _ _)
  rcases lt_or_gt_of_ne (mul_ne_zero hxn hyn) with hneg | hpos
  · obtain ⟨ξ, hξ, g1, g2⟩ := exists_zero_strictly_between hF x y hneg
    exact absurd hξ (hnz ξ (le_of_lt g1) (le_of_lt g2))
  · exact hpos

/-! ## non-vacuity: concrete polynomial runs (kernel evaluation)

`cubic = x³ − x` on `grid9 = [-2, -3/2, …, 2]`, `tol = 1/100` (`C13Split`): `g' = 3x² − 1` changes
sign in the cells 3 (`[-1, -1/2]`) and 6 (`[1/2, 1]`) and nowhere else. -/

example : splitStrictlyMonotone cubic grid9 (1 / 100) 50 = .ok [-692 / 1197, 692 / 1197] ∧
    CellHyp grid9 (1 / 100) ∧
    (∀ j, j < grid9.length → D1.df cubic ((shiftedGrid grid9 (1 / 100)).getD j 0) ≠ 0) ∧
    changeCells cubic (shiftedGrid grid9 (1 / 100)) 1 (grid9.length - 1) = [3, 6] := by
  decide +kernel

/-- hypotheses of (M1) for cell 3 and the point it yields -/
example :
    D1.df cubic ((shiftedGrid grid9 (1 / 100)).getD (3 - 1) 0) *
      D1.df cubic ((shiftedGrid grid9 (1 / 100)).getD 3 0) < 0 ∧
    findRootBrent ((shiftedGrid grid9 (1 / 100)).getD (3 - 1) 0) ((shiftedGrid grid9 (1 / 100)).getD 3 0)
      (fun x => D1.df cubic x) (1 / 100) 50 = .ok (-692 / 1197) := by
  decide +kernel

/-- hypothesis of (M2) for cell 1 (`g' > 0` at both ends) -/
example :
    0 < D1.df cubic ((shiftedGrid grid9 (1 / 100)).getD (1 - 1) 0) *
      D1.df cubic ((shiftedGrid grid9 (1 / 100)).getD 1 0) := by
  decide +kernel

/-- (M1) error case: with `max_iters = 1` Brent fails on cell 3, and so does the whole call -/
example :
    findRootBrent ((shiftedGrid grid9 (1 / 100)).getD (3 - 1) 0) ((shiftedGrid grid9 (1 / 100)).getD 3 0)
      (fun x => D1.df cubic x) (1 / 100) 1 = .error .noConvergency ∧
    splitStrictlyMonotone cubic grid9 (1 / 100) 1 = .error (.root .noConvergency) := by
  decide +kernel

/-- (M3) applied to the run: two points, as many as cells with a sign change -/
example : ([-692 / 1197, 692 / 1197] : List Rat).length =
    (changeCells cubic (shiftedGrid grid9 (1 / 100)) 1 (grid9.length - 1)).length :=
  (split_count_of_nonzero_grid_derivatives cubic grid9 (1 / 100) 50 _ (by decide +kernel)
    (by decide +kernel) (by decide +kernel)).1

/-- (M4, one cell) on the run of `Lemmas/RootExamples`: `g' = (3x − 1)(2x + 1)`, fine grid; the zero
    `1/3` is the only one in cell 5 = `[1/4, 3/4]`, the ends have opposite signs, and a returned point
    lies within `2·tol` of `1/3` -/
example : ∃ r ∈ ([-10334933164937 / 20671302440920, 93157 / 277816] : List Rat),
    |(r : ℝ) - 1 / 3| < 2 * ((1 / 100 : Rat) : ℝ) := by
  have hg : gridSign ([-1, -3 / 4, -1 / 4, 0, 1 / 4, 3 / 4, 1] : List Rat) = 1 := by decide +kernel
  have e4 : (shiftedGrid ([-1, -3 / 4, -1 / 4, 0, 1 / 4, 3 / 4, 1] : List Rat) (1 / 100)).getD (5 - 1) 0
      = 1 / 4 := by decide +kernel
  have e5 : (shiftedGrid ([-1, -3 / 4, -1 / 4, 0, 1 / 4, 3 / 4, 1] : List Rat) (1 / 100)).getD 5 0
      = 3 / 4 := by decide +kernel
  obtain ⟨r, hr, -, hl⟩ :=
    rs_real_sign_change_located exG _ _ _ _ cellHyp_run_fine 5 (by decide) (by decide)
      (by decide +kernel) (1 / 3) (fun ζ hζ hin => by
        rw [exG'_eq] at hζ
        rcases (exG'_zero_iff ζ).mp hζ with e | e
        · exact e
        · exfalso
          rw [hg, e4] at hin
          have := hin.1
          rw [e] at this
          norm_num at this) split_run_fine
  exact ⟨r, hr, hl.lt (by norm_num)⟩

/-! ### non-vacuity of the hypotheses of `real_zeros_all_located` -/

/-- the fine grid of `Lemmas/RootExamples` (`split_run_fine`) -/
def fineGrid : List Rat := [-1, -3 / 4, -1 / 4, 0, 1 / 4, 3 / 4, 1]

theorem fine_shifted : shiftedGrid fineGrid (1 / 100) = #[-99 / 100, -3 / 4, -1 / 4, 0, 1 / 4, 3 / 4, 99 / 100] := by
  decide +kernel
theorem fine_sign : gridSign fineGrid = 1 := by decide +kernel

theorem fine_cells (i : Nat) (h1 : 1 ≤ i) (h2 : i < fineGrid.length) (ζ : ℝ)
    (hin : InCellR (gridSign fineGrid) ((shiftedGrid fineGrid (1 / 100)).getD (i - 1) 0)
      ((shiftedGrid fineGrid (1 / 100)).getD i 0) ζ) :
    (ζ = 1 / 3 → i = 5) ∧ (ζ = -1 / 2 → i = 2) := by
  rw [fine_sign, fine_shifted] at hin
  unfold InCellR at hin
  have h2' : i < 7 := h2
  obtain ⟨a, b⟩ := hin
  interval_cases i <;> constructor <;> intro e <;> first | rfl | (exfalso; rw [e] at a b; revert a b; norm_num)

theorem fine_run : splitStrictlyMonotone (adPoly exG) fineGrid (1 / 100) 50 =
    .ok [-10334933164937 / 20671302440920, 93157 / 277816] := split_run_fine
theorem fine_cellHyp : CellHyp fineGrid (1 / 100) := cellHyp_run_fine

/-- the hypotheses `hsep`, `hchg` of `real_zeros_all_located` hold for `g' = (3x − 1)(2x + 1)` on the
    fine grid (the zeros `−1/2`, `1/3` lie in the cells 2 and 5), hence BOTH real zeros of `g'` are
    within `2·tol` of a returned point -/
example : ∀ ξ : ℝ, ξ = 1 / 3 ∨ ξ = -1 / 2 →
    ∃ r ∈ ([-10334933164937 / 20671302440920, 93157 / 277816] : List Rat),
      |(r : ℝ) - ξ| < 2 * ((1 / 100 : Rat) : ℝ) := by
  intro ξ hξ
  have hz : ∀ ζ : ℝ, evalPolyR (derivCoeffs exG) ζ = 0 ↔ ζ = 1 / 3 ∨ ζ = -1 / 2 := by
    intro ζ; rw [exG'_eq]; exact exG'_zero_iff ζ
  have hall := real_zeros_all_located (adPoly exG) (evalPolyR (derivCoeffs exG))
    (evalPolyR_continuous _) (fun q => by rw [evalPolyR_cast, D1_df_adPoly]) fineGrid (1 / 100) 50 _
    fine_cellHyp
    (fun i h1 h2 ζ ζ' hζ hζ' hin hin' => by
      obtain ⟨a1, a2⟩ := fine_cells i h1 h2 ζ hin
      obtain ⟨b1, b2⟩ := fine_cells i h1 h2 ζ' hin'
      rcases (hz ζ).mp hζ with e | e <;> rcases (hz ζ').mp hζ' with e' | e'
      · rw [e, e']
      · have := a1 e; have := b2 e'; omega
      · have := a2 e; have := b1 e'; omega
      · rw [e, e'])
    (fun i h1 h2 ζ hζ hin => by
      obtain ⟨a1, a2⟩ := fine_cells i h1 h2 ζ hin
      rcases (hz ζ).mp hζ with e | e
      · rw [a1 e]; decide +kernel
      · rw [a2 e]; decide +kernel)
    fine_run
  rcases hξ with e | e
  · obtain ⟨r, hr, -, hl⟩ := hall 5 (by decide) (by decide) ξ ((hz ξ).mpr (Or.inl e)) (by
      rw [fine_sign, fine_shifted, e]; unfold InCellR; norm_num)
    exact ⟨r, hr, hl.lt (by norm_num)⟩
  · obtain ⟨r, hr, -, hl⟩ := hall 2 (by decide) (by decide) ξ ((hz ξ).mpr (Or.inr e)) (by
      rw [fine_sign, fine_shifted, e]; unfold InCellR; norm_num)
    exact ⟨r, hr, hl.lt (by norm_num)⟩
end Cav.C11Mono
