/-
  C11 — the hypothesis `hchg` of `Thm/C11Mono` DERIVED from hypotheses about the real derivative
  only: "a simple zero, alone in its cell and not at a grid point, forces opposite signs at the two
  cell ends".

  Notation as in `Thm/C11Mono`: `X = shiftedGrid xv tol`, `σ = gridSign xv = ±1`, `g' = D1.df f`,
  cell `i` (`1 ≤ i < xv.length`) is the closed oriented interval `InCellR σ X[i-1] X[i]`; `F` is a
  continuous real function that agrees with `g'` on the rationals.

  Hypotheses about `F` (definitions below, all plain `∀`-statements):
  * `GridNonzero f xv tol`   — `g'` vanishes at no point of the shifted grid;
  * `ZerosSeparated F xv tol` — every closed cell contains at most one real zero of `F`
    (this is `hsep` of `C11Mono`; it holds when the zeros are more than one cell apart);
  * `ZerosSimple F xv tol`    — at every real zero `ζ` of `F` in a closed cell, `F` has a NON-ZERO
    derivative (`HasDerivAt F d ζ`, `d ≠ 0`): `F` changes sign at `ζ`, it does not merely touch `0`.

  Results:
  (S1) `Lemmas/RootSimple.sign_change_of_unique_simple_zero` — pure real analysis: continuous on
       `[l, r]`, non-zero at `l`, `r`, exactly one zero `ζ` in `[l, r]`, non-zero derivative at `ζ`
       ⟹ `F l · F r < 0`.
  (S2) `hchg_of_simple_zeros` — the three hypotheses give exactly the hypothesis `hchg` of
       `C11Mono.real_zeros_all_located`.
  (S3) `real_zeros_all_located_of_simple`, `deriv_ne_zero_of_simple`, `deriv_same_sign_of_simple`:
       the `C11Mono` theorems with `hchg` replaced by these hypotheses;
       `zero_cell_iff_change_cell_of_simple`: a cell contains a real zero of `F` iff its grid ends
       have opposite signs (so, with `C11Mono` (M3), one returned point per zero and no other).
       `rs_*` : the polynomial instance `f = adPoly pg`, `F = evalPolyR (derivCoeffs pg)`, where
       "simple" reads `evalPolyR (derivCoeffs (derivCoeffs pg)) ζ ≠ 0` (second derivative non-zero).
  (S4) a concrete run in which every hypothesis is discharged (kernel evaluation).

  Still per cell: gluing the cells of the grid into one statement about the whole hull is not done
  here.
-/
import Cav.Lemmas.RootSimpleGrid
import Cav.Thm.C11Mono

namespace Cav.C11Simple
open Cav Num Gen Cav.BrentL Cav.SplitL Cav.C13Split Cav.C11Roots Cav.C01 Cav.C07Accuracy Cav.C11Mono
open Cav.RootSimple

/-! ## the hypotheses -/

/-- the derivative `D1.df f` vanishes at no point of the shifted grid -/
def GridNonzero (f : AD Rat → AD Rat) (xv : List Rat) (tol : Rat) : Prop :=
  ∀ j, j < xv.length → D1.df f ((shiftedGrid xv tol).getD j 0) ≠ 0

/-- every closed cell of the shifted grid contains at most one real zero of `F`
    (literally the hypothesis `hsep` of `C11Mono.real_zeros_all_located`) -/
def ZerosSeparated (F : ℝ → ℝ) (xv : List Rat) (tol : Rat) : Prop :=
  ∀ i, 1 ≤ i → i < xv.length → ∀ ζ ζ' : ℝ, F ζ = 0 → F ζ' = 0 →
    InCellR (gridSign xv) ((shiftedGrid xv tol).getD (i - 1) 0) ((shiftedGrid xv tol).getD i 0) ζ →
    InCellR (gridSign xv) ((shiftedGrid xv tol).getD (i - 1) 0) ((shiftedGrid xv tol).getD i 0) ζ' →
    ζ' = ζ

/-- every real zero of `F` in a closed cell of the shifted grid is SIMPLE: `F` has a non-zero
    derivative there -/
def ZerosSimple (F : ℝ → ℝ) (xv : List Rat) (tol : Rat) : Prop :=
  ∀ i, 1 ≤ i → i < xv.length → ∀ ζ : ℝ, F ζ = 0 →
    InCellR (gridSign xv) ((shiftedGrid xv tol).getD (i - 1) 0) ((shiftedGrid xv tol).getD i 0) ζ →
    ∃ d : ℝ, d ≠ 0 ∧ HasDerivAt F d ζ

/-- `ZerosSimple` follows from the global statement "every real zero of `F` is simple" -/
theorem zerosSimple_of_all (F : ℝ → ℝ) (xv : List Rat) (tol : Rat)
    (h : ∀ ζ : ℝ, F ζ = 0 → ∃ d : ℝ, d ≠ 0 ∧ HasDerivAt F d ζ) : ZerosSimple F xv tol :=
  fun _ _ _ ζ hζ _ => h ζ hζ

/-! ## (S1) the real-analysis fact -/

/-- **(S1).**  `F` continuous on `[l, r]`, `F l ≠ 0`, `F r ≠ 0`, `ζ ∈ [l, r]` the only zero of `F`
    in `[l, r]`, and `F` has a non-zero derivative `d` at `ζ`.  Then `F l · F r < 0`. -/
theorem sign_change_of_unique_simple_zero {F : ℝ → ℝ} {l r ζ d : ℝ}
    (hF : ContinuousOn F (Set.Icc l r)) (hmem : ζ ∈ Set.Icc l r) (hl : F l ≠ 0) (hr : F r ≠ 0)
    (hζ : F ζ = 0) (huniq : ∀ x ∈ Set.Icc l r, F x = 0 → x = ζ)
    (hd : HasDerivAt F d ζ) (hd0 : d ≠ 0) : F l * F r < 0 :=
  RootSimple.sign_change_of_unique_simple_zero hF hmem hl hr hζ huniq hd hd0

/-! ## (S2) `hchg` derived -/

/-- **(S2).**  `F` a continuous real extension of `D1.df f`.  If `D1.df f` vanishes at no shifted
    grid point, every closed cell contains at most one real zero of `F`, and every such zero is
    simple, then a closed cell that contains a real zero of `F` has grid ends whose derivative
    values have strictly opposite signs.  This is exactly the hypothesis `hchg` of
    `C11Mono.real_zeros_all_located`. -/
theorem hchg_of_simple_zeros (f : AD Rat → AD Rat) (F : ℝ → ℝ) (hF : Continuous F)
    (hFf : ∀ q : Rat, F (q : ℝ) = ((D1.df f q : Rat) : ℝ))
    (xv : List Rat) (tol : Rat)
    (hne : GridNonzero f xv tol) (hsep : ZerosSeparated F xv tol) (hsimple : ZerosSimple F xv tol) :
    ∀ i, 1 ≤ i → i < xv.length → ∀ ζ : ℝ, F ζ = 0 →
      InCellR (gridSign xv) ((shiftedGrid xv tol).getD (i - 1) 0) ((shiftedGrid xv tol).getD i 0) ζ →
      D1.df f ((shiftedGrid xv tol).getD (i - 1) 0) * D1.df f ((shiftedGrid xv tol).getD i 0) < 0 := by
  intro i h1 h2 ζ hζ hin
  obtain ⟨d, hd0, hd⟩ := hsimple i h1 h2 ζ hζ hin
  exact cell_sign_change_of_simple_zero (fun x => D1.df f x) F hF hFf (gridSign_pm xv)
    (hne (i - 1) (by omega)) (hne i h2) ζ hζ hin
    (fun x hx hxin => hsep i h1 h2 ζ x hζ hx hin hxin) d hd hd0

/-! ## (S3) the `C11Mono` theorems with hypotheses about `F` only -/

/-- **(S3), all zeros located.**  `F` a continuous real extension of `D1.df f`; `CellHyp`; no
    derivative value at a shifted grid point vanishes; each closed cell contains at most one real
    zero of `F`; every real zero of `F` in a cell is simple.  Then after a successful call EVERY
    real zero `ξ` of `F` in cell `i` is located by a returned point `r` of that cell
    (`ξ = r`, or `0 < tol` and `|r − ξ| < 2·tol`). -/
theorem real_zeros_all_located_of_simple (f : AD Rat → AD Rat) (F : ℝ → ℝ) (hF : Continuous F)
    (hFf : ∀ q : Rat, F (q : ℝ) = ((D1.df f q : Rat) : ℝ))
    (xv : List Rat) (tol : Rat) (m : Nat) (res : List Rat) (hc : CellHyp xv tol)
    (hne : GridNonzero f xv tol) (hsep : ZerosSeparated F xv tol) (hsimple : ZerosSimple F xv tol)
    (h : splitStrictlyMonotone f xv tol m = .ok res) :
    ∀ i, 1 ≤ i → i < xv.length → ∀ ξ : ℝ, F ξ = 0 →
      InCellR (gridSign xv) ((shiftedGrid xv tol).getD (i - 1) 0) ((shiftedGrid xv tol).getD i 0) ξ →
      ∃ r ∈ res,
        InCell (gridSign xv) ((shiftedGrid xv tol).getD (i - 1) 0) ((shiftedGrid xv tol).getD i 0) r ∧
        Located tol r ξ :=
  real_zeros_all_located f F hF hFf xv tol m res hc hsep
    (hchg_of_simple_zeros f F hF hFf xv tol hne hsep hsimple) h

/-- **(S3), no zero away from the returned points.**  Same hypotheses and `0 < tol`: `F` does not
    vanish at a real point `x` of a cell that is at least `2·tol` away from every returned point. -/
theorem deriv_ne_zero_of_simple (f : AD Rat → AD Rat) (F : ℝ → ℝ) (hF : Continuous F)
    (hFf : ∀ q : Rat, F (q : ℝ) = ((D1.df f q : Rat) : ℝ))
    (xv : List Rat) (tol : Rat) (m : Nat) (res : List Rat) (hc : CellHyp xv tol) (htol : 0 < tol)
    (hne : GridNonzero f xv tol) (hsep : ZerosSeparated F xv tol) (hsimple : ZerosSimple F xv tol)
    (h : splitStrictlyMonotone f xv tol m = .ok res) :
    ∀ i, 1 ≤ i → i < xv.length → ∀ x : ℝ,
      InCellR (gridSign xv) ((shiftedGrid xv tol).getD (i - 1) 0) ((shiftedGrid xv tol).getD i 0) x →
      (∀ r ∈ res, 2 * (tol : ℝ) ≤ |(r : ℝ) - x|) → F x ≠ 0 :=
  deriv_ne_zero_outside_neighbourhoods f F hF hFf xv tol m res hc htol hsep
    (hchg_of_simple_zeros f F hF hFf xv tol hne hsep hsimple) h

/-- **(S3), constant strict sign inside one cell.**  Same hypotheses and `0 < tol`: if `x`, `y` are
    real points of the same closed cell and every point between them is at least `2·tol` away from
    every returned point, then `F x` and `F y` are non-zero with the SAME strict sign. -/
theorem deriv_same_sign_of_simple (f : AD Rat → AD Rat) (F : ℝ → ℝ) (hF : Continuous F)
    (hFf : ∀ q : Rat, F (q : ℝ) = ((D1.df f q : Rat) : ℝ))
    (xv : List Rat) (tol : Rat) (m : Nat) (res : List Rat) (hc : CellHyp xv tol) (htol : 0 < tol)
    (hne : GridNonzero f xv tol) (hsep : ZerosSeparated F xv tol) (hsimple : ZerosSimple F xv tol)
    (h : splitStrictlyMonotone f xv tol m = .ok res) (i : Nat) (h1 : 1 ≤ i) (h2 : i < xv.length)
    (x y : ℝ)
    (hx : InCellR (gridSign xv) ((shiftedGrid xv tol).getD (i - 1) 0) ((shiftedGrid xv tol).getD i 0) x)
    (hy : InCellR (gridSign xv) ((shiftedGrid xv tol).getD (i - 1) 0) ((shiftedGrid xv tol).getD i 0) y)
    (hfar : ∀ z : ℝ, min x y ≤ z → z ≤ max x y → ∀ r ∈ res, 2 * (tol : ℝ) ≤ |(r : ℝ) - z|) :
    0 < F x * F y :=
  deriv_same_sign_outside_neighbourhoods f F hF hFf xv tol m res hc htol hsep
    (hchg_of_simple_zeros f F hF hFf xv tol hne hsep hsimple) h i h1 h2 x y hx hy hfar

/-- **(S3), which cells.**  Under `CellHyp` and the same hypotheses, a cell contains a real zero of
    `F` IF AND ONLY IF its grid ends have derivative values of opposite strict sign (it is one of the
    `changeCells`, the cells for which `C11Mono.split_points_of_nonzero_grid_derivatives` shows that
    exactly one point is returned). -/
theorem zero_cell_iff_change_cell_of_simple (f : AD Rat → AD Rat) (F : ℝ → ℝ) (hF : Continuous F)
    (hFf : ∀ q : Rat, F (q : ℝ) = ((D1.df f q : Rat) : ℝ))
    (xv : List Rat) (tol : Rat) (hc : CellHyp xv tol)
    (hne : GridNonzero f xv tol) (hsep : ZerosSeparated F xv tol) (hsimple : ZerosSimple F xv tol)
    (i : Nat) (h1 : 1 ≤ i) (h2 : i < xv.length) :
    (∃ ζ : ℝ, F ζ = 0 ∧
      InCellR (gridSign xv) ((shiftedGrid xv tol).getD (i - 1) 0) ((shiftedGrid xv tol).getD i 0) ζ) ↔
    i ∈ changeCells f (shiftedGrid xv tol) 1 (xv.length - 1) := by
  rw [mem_changeCells]
  constructor
  · rintro ⟨ζ, hζ, hin⟩
    exact ⟨⟨h1, by omega⟩, hchg_of_simple_zeros f F hF hFf xv tol hne hsep hsimple i h1 h2 ζ hζ hin⟩
  · rintro ⟨-, hs⟩
    have hs' : F (((shiftedGrid xv tol).getD (i - 1) 0 : Rat) : ℝ) *
        F (((shiftedGrid xv tol).getD i 0 : Rat) : ℝ) < 0 := by
      rw [hFf, hFf, ← Rat.cast_mul]; exact_mod_cast hs
    obtain ⟨ζ, hζ, g1, g2⟩ := exists_zero_strictly_between hF _ _ hs'
    refine ⟨ζ, hζ, ?_⟩
    have hle : gridSign xv * (shiftedGrid xv tol).getD (i - 1) 0 ≤
        gridSign xv * (shiftedGrid xv tol).getD i 0 := by
      have := hc.2 i h2 h1
      have h0 := hc.1
      rw [mul_sub] at this
      linarith
    exact inCellR_of_between (gridSign_pm xv) ⟨le_refl _, hle⟩ ⟨hle, le_refl _⟩ (le_of_lt g1)
      (le_of_lt g2)

/-- **(S3), the returned points are exactly one Brent result per cell that contains a real zero.**
    Under `CellHyp` and the three hypotheses, after a successful call `r` is a returned point IF AND
    ONLY IF it is the Brent result on the two grid ends of a cell that contains a real zero of `F`.
    In particular no point is returned for a cell in which `F` has no zero, and (the zeros being
    simple by hypothesis) none where `F` would touch `0` without changing sign. -/
theorem split_points_iff_zero_cells_of_simple (f : AD Rat → AD Rat) (F : ℝ → ℝ) (hF : Continuous F)
    (hFf : ∀ q : Rat, F (q : ℝ) = ((D1.df f q : Rat) : ℝ))
    (xv : List Rat) (tol : Rat) (m : Nat) (res : List Rat) (hc : CellHyp xv tol)
    (hne : GridNonzero f xv tol) (hsep : ZerosSeparated F xv tol) (hsimple : ZerosSimple F xv tol)
    (h : splitStrictlyMonotone f xv tol m = .ok res) (r : Rat) :
    r ∈ res ↔ ∃ i, 1 ≤ i ∧ i < xv.length ∧
      (∃ ζ : ℝ, F ζ = 0 ∧ InCellR (gridSign xv) ((shiftedGrid xv tol).getD (i - 1) 0)
        ((shiftedGrid xv tol).getD i 0) ζ) ∧
      findRootBrent ((shiftedGrid xv tol).getD (i - 1) 0) ((shiftedGrid xv tol).getD i 0)
        (fun x => D1.df f x) tol m = .ok r := by
  rw [split_points_of_nonzero_grid_derivatives f xv tol m res hc hne h r]
  constructor
  · rintro ⟨i, hi, hbr⟩
    have hi' := (mem_changeCells _ _ _ _ _).mp hi
    have h1 : 1 ≤ i := hi'.1.1
    have h2 : i < xv.length := by have := hi'.1.2; omega
    exact ⟨i, h1, h2,
      (zero_cell_iff_change_cell_of_simple f F hF hFf xv tol hc hne hsep hsimple i h1 h2).mpr hi, hbr⟩
  · rintro ⟨i, h1, h2, hz, hbr⟩
    exact ⟨i,
      (zero_cell_iff_change_cell_of_simple f F hF hFf xv tol hc hne hsep hsimple i h1 h2).mp hz, hbr⟩

/-- **(S3), count.**  Under the same hypotheses the number of returned points is the number of
    cells that contain a real zero of `F` (listed by `changeCells`, see
    `zero_cell_iff_change_cell_of_simple`), and the points are in grid order. -/
theorem split_count_of_simple (f : AD Rat → AD Rat) (xv : List Rat) (tol : Rat) (m : Nat)
    (res : List Rat) (hc : CellHyp xv tol) (hne : GridNonzero f xv tol)
    (h : splitStrictlyMonotone f xv tol m = .ok res) :
    res.length = (changeCells f (shiftedGrid xv tol) 1 (xv.length - 1)).length ∧
    res.Pairwise (fun p q => gridSign xv * p ≤ gridSign xv * q) :=
  split_count_of_nonzero_grid_derivatives f xv tol m res hc hne h

/-! ## (S3) polynomial integrator `g = adPoly pg`

`g' = evalPoly (derivCoeffs pg)` on the rationals, `F = evalPolyR (derivCoeffs pg)` on the reals,
`F' = evalPolyR (derivCoeffs (derivCoeffs pg))` (`AccPoly.evalPolyR_hasDerivAt`). -/

/-- for a polynomial `g'`, a zero with non-vanishing second-derivative polynomial is simple -/
theorem zerosSimple_poly (pg : List Rat) (xv : List Rat) (tol : Rat)
    (h2nd : ∀ i, 1 ≤ i → i < xv.length → ∀ ζ : ℝ, evalPolyR (derivCoeffs pg) ζ = 0 →
      InCellR (gridSign xv) ((shiftedGrid xv tol).getD (i - 1) 0) ((shiftedGrid xv tol).getD i 0) ζ →
      evalPolyR (derivCoeffs (derivCoeffs pg)) ζ ≠ 0) :
    ZerosSimple (evalPolyR (derivCoeffs pg)) xv tol :=
  fun i h1 h2 ζ hζ hin => ⟨_, h2nd i h1 h2 ζ hζ hin, evalPolyR_hasDerivAt _ ζ⟩

/-- `GridNonzero` for the polynomial closure, in terms of `evalPoly` -/
theorem gridNonzero_poly (pg : List Rat) (xv : List Rat) (tol : Rat)
    (hne : ∀ j, j < xv.length → evalPoly (derivCoeffs pg) ((shiftedGrid xv tol).getD j 0) ≠ 0) :
    GridNonzero (adPoly pg) xv tol :=
  fun j hj => by rw [D1_df_adPoly]; exact hne j hj

/-- **(S3), polynomial, all zeros located.**  `g = adPoly pg`.  Assume `CellHyp`; `g'` vanishes at no
    shifted grid point; each closed cell contains at most one real zero of `g'`; at every real zero
    of `g'` in a cell the second derivative `g''` is non-zero.  Then after a successful call every
    real zero `ξ` of `g'` in cell `i` is located by a returned point of that cell. -/
theorem rs_real_zeros_all_located_of_simple (pg : List Rat) (xv : List Rat) (tol : Rat) (m : Nat)
    (res : List Rat) (hc : CellHyp xv tol)
    (hne : ∀ j, j < xv.length → evalPoly (derivCoeffs pg) ((shiftedGrid xv tol).getD j 0) ≠ 0)
    (hsep : ZerosSeparated (evalPolyR (derivCoeffs pg)) xv tol)
    (h2nd : ∀ i, 1 ≤ i → i < xv.length → ∀ ζ : ℝ, evalPolyR (derivCoeffs pg) ζ = 0 →
      InCellR (gridSign xv) ((shiftedGrid xv tol).getD (i - 1) 0) ((shiftedGrid xv tol).getD i 0) ζ →
      evalPolyR (derivCoeffs (derivCoeffs pg)) ζ ≠ 0)
    (h : splitStrictlyMonotone (adPoly pg) xv tol m = .ok res) :
    ∀ i, 1 ≤ i → i < xv.length → ∀ ξ : ℝ, evalPolyR (derivCoeffs pg) ξ = 0 →
      InCellR (gridSign xv) ((shiftedGrid xv tol).getD (i - 1) 0) ((shiftedGrid xv tol).getD i 0) ξ →
      ∃ r ∈ res,
        InCell (gridSign xv) ((shiftedGrid xv tol).getD (i - 1) 0) ((shiftedGrid xv tol).getD i 0) r ∧
        Located tol r ξ :=
  real_zeros_all_located_of_simple (adPoly pg) (evalPolyR (derivCoeffs pg)) (evalPolyR_continuous _)
    (fun q => by rw [evalPolyR_cast, D1_df_adPoly]) xv tol m res hc (gridNonzero_poly pg xv tol hne)
    hsep (zerosSimple_poly pg xv tol h2nd) h

/-- **(S3), polynomial, constant strict sign inside one cell** away from the returned points. -/
theorem rs_deriv_same_sign_of_simple (pg : List Rat) (xv : List Rat) (tol : Rat) (m : Nat)
    (res : List Rat) (hc : CellHyp xv tol) (htol : 0 < tol)
    (hne : ∀ j, j < xv.length → evalPoly (derivCoeffs pg) ((shiftedGrid xv tol).getD j 0) ≠ 0)
    (hsep : ZerosSeparated (evalPolyR (derivCoeffs pg)) xv tol)
    (h2nd : ∀ i, 1 ≤ i → i < xv.length → ∀ ζ : ℝ, evalPolyR (derivCoeffs pg) ζ = 0 →
      InCellR (gridSign xv) ((shiftedGrid xv tol).getD (i - 1) 0) ((shiftedGrid xv tol).getD i 0) ζ →
      evalPolyR (derivCoeffs (derivCoeffs pg)) ζ ≠ 0)
    (h : splitStrictlyMonotone (adPoly pg) xv tol m = .ok res) (i : Nat) (h1 : 1 ≤ i)
    (h2 : i < xv.length) (x y : ℝ)
    (hx : InCellR (gridSign xv) ((shiftedGrid xv tol).getD (i - 1) 0) ((shiftedGrid xv tol).getD i 0) x)
    (hy : InCellR (gridSign xv) ((shiftedGrid xv tol).getD (i - 1) 0) ((shiftedGrid xv tol).getD i 0) y)
    (hfar : ∀ z : ℝ, min x y ≤ z → z ≤ max x y → ∀ r ∈ res, 2 * (tol : ℝ) ≤ |(r : ℝ) - z|) :
    0 < evalPolyR (derivCoeffs pg) x * evalPolyR (derivCoeffs pg) y :=
  deriv_same_sign_of_simple (adPoly pg) (evalPolyR (derivCoeffs pg)) (evalPolyR_continuous _)
    (fun q => by rw [evalPolyR_cast, D1_df_adPoly]) xv tol m res hc htol
    (gridNonzero_poly pg xv tol hne) hsep (zerosSimple_poly pg xv tol h2nd) h i h1 h2 x y hx hy hfar

/-- **(S3), polynomial: the returned points are exactly one Brent result per cell that contains a
    real zero of `g'`.** -/
theorem rs_split_points_iff_zero_cells_of_simple (pg : List Rat) (xv : List Rat) (tol : Rat)
    (m : Nat) (res : List Rat) (hc : CellHyp xv tol)
    (hne : ∀ j, j < xv.length → evalPoly (derivCoeffs pg) ((shiftedGrid xv tol).getD j 0) ≠ 0)
    (hsep : ZerosSeparated (evalPolyR (derivCoeffs pg)) xv tol)
    (h2nd : ∀ i, 1 ≤ i → i < xv.length → ∀ ζ : ℝ, evalPolyR (derivCoeffs pg) ζ = 0 →
      InCellR (gridSign xv) ((shiftedGrid xv tol).getD (i - 1) 0) ((shiftedGrid xv tol).getD i 0) ζ →
      evalPolyR (derivCoeffs (derivCoeffs pg)) ζ ≠ 0)
    (h : splitStrictlyMonotone (adPoly pg) xv tol m = .ok res) (r : Rat) :
    r ∈ res ↔ ∃ i, 1 ≤ i ∧ i < xv.length ∧
      (∃ ζ : ℝ, evalPolyR (derivCoeffs pg) ζ = 0 ∧
        InCellR (gridSign xv) ((shiftedGrid xv tol).getD (i - 1) 0)
          ((shiftedGrid xv tol).getD i 0) ζ) ∧
      findRootBrent ((shiftedGrid xv tol).getD (i - 1) 0) ((shiftedGrid xv tol).getD i 0)
        (fun x => D1.df (adPoly pg) x) tol m = .ok r :=
  split_points_iff_zero_cells_of_simple (adPoly pg) (evalPolyR (derivCoeffs pg))
    (evalPolyR_continuous _) (fun q => by rw [evalPolyR_cast, D1_df_adPoly]) xv tol m res hc
    (gridNonzero_poly pg xv tol hne) hsep (zerosSimple_poly pg xv tol h2nd) h r

/-! ## (S4) non-vacuity: every hypothesis discharged on a concrete run

`g = 2x³ + x²/2 − x` (`exG`), `g' = 6x² + x − 1 = (3x − 1)(2x + 1)`, `g'' = 12x + 1`; the real zeros
`1/3` (cell 5) and `−1/2` (cell 2) of `g'` are simple: `g''(1/3) = 5`, `g''(−1/2) = −5`.
Grid `fineGrid = [-1, -3/4, -1/4, 0, 1/4, 3/4, 1]`, `tol = 1/100` (`C11Mono.fine_run`). -/

theorem exG''_eq : derivCoeffs (derivCoeffs exG) = [1, 12] := by decide +kernel

theorem exG'_zeros (ζ : ℝ) : evalPolyR (derivCoeffs exG) ζ = 0 ↔ ζ = 1 / 3 ∨ ζ = -1 / 2 := by
  rw [exG'_eq]; exact exG'_zero_iff ζ

theorem fine_gridNonzero : ∀ j, j < fineGrid.length →
    evalPoly (derivCoeffs exG) ((shiftedGrid fineGrid (1 / 100)).getD j 0) ≠ 0 := by
  decide +kernel

theorem fine_zerosSeparated : ZerosSeparated (evalPolyR (derivCoeffs exG)) fineGrid (1 / 100) := by
  intro i h1 h2 ζ ζ' hζ hζ' hin hin'
  obtain ⟨a1, a2⟩ := fine_cells i h1 h2 ζ hin
  obtain ⟨b1, b2⟩ := fine_cells i h1 h2 ζ' hin'
  rcases (exG'_zeros ζ).mp hζ with e | e <;> rcases (exG'_zeros ζ').mp hζ' with e' | e'
  · rw [e, e']
  · have := a1 e; have := b2 e'; omega
  · have := a2 e; have := b1 e'; omega
  · rw [e, e']

theorem fine_second_deriv : ∀ i, 1 ≤ i → i < fineGrid.length → ∀ ζ : ℝ,
    evalPolyR (derivCoeffs exG) ζ = 0 →
    InCellR (gridSign fineGrid) ((shiftedGrid fineGrid (1 / 100)).getD (i - 1) 0)
      ((shiftedGrid fineGrid (1 / 100)).getD i 0) ζ →
    evalPolyR (derivCoeffs (derivCoeffs exG)) ζ ≠ 0 := by
  intro i _ _ ζ hζ _
  have e : evalPolyR (derivCoeffs (derivCoeffs exG)) ζ = 1 + 12 * ζ := by
    rw [exG''_eq]
    simp only [evalPolyR_cons, evalPolyR_nil]
    push_cast; ring
  rw [e]
  rcases (exG'_zeros ζ).mp hζ with e' | e' <;> rw [e'] <;> norm_num

/-- the derived `hchg` on the concrete run: the cells 2 and 5 have ends of opposite sign -/
example : ∀ i, 1 ≤ i → i < fineGrid.length → ∀ ζ : ℝ, evalPolyR (derivCoeffs exG) ζ = 0 →
    InCellR (gridSign fineGrid) ((shiftedGrid fineGrid (1 / 100)).getD (i - 1) 0)
      ((shiftedGrid fineGrid (1 / 100)).getD i 0) ζ →
    D1.df (adPoly exG) ((shiftedGrid fineGrid (1 / 100)).getD (i - 1) 0) *
      D1.df (adPoly exG) ((shiftedGrid fineGrid (1 / 100)).getD i 0) < 0 :=
  hchg_of_simple_zeros (adPoly exG) (evalPolyR (derivCoeffs exG)) (evalPolyR_continuous _)
    (fun q => by rw [evalPolyR_cast, D1_df_adPoly]) fineGrid (1 / 100)
    (gridNonzero_poly exG fineGrid (1 / 100) fine_gridNonzero) fine_zerosSeparated
    (zerosSimple_poly exG fineGrid (1 / 100) fine_second_deriv)

/-- **(S4).**  On the concrete run all hypotheses of `rs_real_zeros_all_located_of_simple` hold, so
    BOTH real zeros of `g'` are within `2·tol` of a returned point. -/
example : ∀ ξ : ℝ, ξ = 1 / 3 ∨ ξ = -1 / 2 →
    ∃ r ∈ ([-10334933164937 / 20671302440920, 93157 / 277816] : List Rat),
      |(r : ℝ) - ξ| < 2 * ((1 / 100 : Rat) : ℝ) := by
  intro ξ hξ
  have hall := rs_real_zeros_all_located_of_simple exG fineGrid (1 / 100) 50 _ fine_cellHyp
    fine_gridNonzero fine_zerosSeparated fine_second_deriv fine_run
  rcases hξ with e | e
  · obtain ⟨r, hr, -, hl⟩ := hall 5 (by decide) (by decide) ξ ((exG'_zeros ξ).mpr (Or.inl e)) (by
      rw [fine_sign, fine_shifted, e]; unfold InCellR; norm_num)
    exact ⟨r, hr, hl.lt (by norm_num)⟩
  · obtain ⟨r, hr, -, hl⟩ := hall 2 (by decide) (by decide) ξ ((exG'_zeros ξ).mpr (Or.inr e)) (by
      rw [fine_sign, fine_shifted, e]; unfold InCellR; norm_num)
    exact ⟨r, hr, hl.lt (by norm_num)⟩

/-- **(S4).**  On the concrete run `g'` has the same strict sign at `x = 2/5` and `y = 7/10`, two
    points of cell 5 = `[1/4, 3/4]` to the right of the zero `1/3`: the whole segment between them is
    at least `2·tol = 1/50` away from both returned points (`≈ −0.49997` and `≈ 0.33532`). -/
example : 0 < evalPolyR (derivCoeffs exG) (2 / 5) * evalPolyR (derivCoeffs exG) (7 / 10) := by
  refine rs_deriv_same_sign_of_simple exG fineGrid (1 / 100) 50 _ fine_cellHyp (by norm_num)
    fine_gridNonzero fine_zerosSeparated fine_second_deriv fine_run 5 (by decide) (by decide)
    (2 / 5) (7 / 10) ?_ ?_ ?_
  · rw [fine_sign, fine_shifted]; unfold InCellR; norm_num
  · rw [fine_sign, fine_shifted]; unfold InCellR; norm_num
  · intro z g1 g2 r hr
    rw [min_eq_left (by norm_num)] at g1
    rw [max_eq_right (by norm_num)] at g2
    simp only [List.mem_cons, List.not_mem_nil, or_false] at hr
    rcases hr with rfl | rfl
    · rw [abs_of_neg (by push_cast; linarith)]; push_cast; linarith
    · rw [abs_of_neg (by push_cast; linarith)]; push_cast; linarith

end Cav.C11Simple
