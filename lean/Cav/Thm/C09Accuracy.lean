/-
  C09 (accuracy clause, exact class) — the adaptive 2-D routine and the triangle routine are
  accurate on their exact class for ANY number of outer and inner bisections (exact arithmetic,
  the rule tables of the source, the true integral taken over `ℝ` with Mathlib's interval
  integral).

  Exact class of `gk2d f a b innerAB`: `f x y = Σ_k (cs x)[k]·y^k` is a polynomial of degree ≤ 31 in
  `y` for every rational `x`, and the exact inner integral `x ↦ ∫_{l(x)}^{u(x)} f(x,y) dy`
  (`(l, u) = innerAB`) is a polynomial `Fs` of degree ≤ 31 in `x` — the hypotheses of
  `C09.nested_single_panel_poly_accuracy` WITHOUT its first-panel hypothesis `hfirst`.

  Why no hypothesis on the bisections is needed: a successful `gk2d` result is the sum of
  single-panel `gkApprox2` values over a tiling of `[a,b]` (`C09.gk2d_ok_is_tiling_sum`); each such
  value is the outer K21 rule applied to the VALUES of the inner runs (`C09.nested_closed_form`),
  an inner failure makes the outer run fail, and every successful inner run — however it bisected —
  is within its table-defect bound of the exact inner integral (`C01.gk1d_poly_accuracy`); the
  exact integral is additive over the tiling (`C01.exactInt_adjacent`).

  (T1) `gk2d_poly_accuracy`           the 2-D routine (+ `nested_k21_poly_accuracy`: one panel)
  (T2) `gkTriangle_poly_accuracy`     the triangle routine, `f` a polynomial of total degree ≤ 30
                                      given as a list of terms; `…_of_coeffs`, `…_of_transformed`:
                                      the same with the transformed integrand given explicitly
  (T3) `gk2d_poly_success`            success clause: degrees ≤ 19, tolerance above the defect
                                      bounds ⇒ `.ok` on the first outer panel, every inner run on
                                      its first panel

  Model path used: `gk2d`, `gk2dLoop`, `gkApprox2`, `nested`, `gkTriangle`, `triIntegrand`,
  `triFactor`, `gk1d`, `gk1dLoop`, `gkApprox`, `symRule`, `unitRule`, `denorm`, `setInsert`,
  `setRemove`, `panelCmp`, `sumVals`, `ofMax`; `Num` operations used: `+ - * /`, `ofNat`, `lt`, `le`,
  `beq`, `isNaN`, `abs` (instance `instNumRat`).

  Not stated: the identification of `∫_a^b evalPolyR Fs` with a 2-dimensional (area) integral over
  the region — `Fs` is identified with the inner integral at every RATIONAL abscissa (first
  conjunct of the theorems), which is all the model ever evaluates; for the triangle the outer
  integral is over the barycentric coordinate `s ∈ [0,1]` of the affine image of the unit simplex
  (the factor `triFactor t` = twice the area is part of the transformed integrand).
-/
import Cav.Thm.C09
import Cav.Thm.C10Arith
import Cav.Lemmas.Acc2Region
import Cav.Lemmas.Acc2Success
import Cav.Lemmas.Acc2Tri
import Cav.Lemmas.Acc2Biv

namespace Cav.C09Accuracy
open Cav Num Cav.C01 Cav.Quad2D Cav.Acc2

/-! ## (T1) the 2-D routine

`Acc2.innerBound cs innerAB x = |u(x) − l(x)|/2 · 1e-16 · Σ_k |cs(x)[k]|·max(|l(x)|,|u(x)|)^k` is the
accuracy bound of `C01.gk1d_poly_accuracy` for the inner integration at the outer abscissa `x`. -/

theorem innerBound_eq (cs : Rat → List Rat) (innerAB : Rat → Rat × Rat) (x : Rat) :
    innerBound cs innerAB x =
      |((innerAB x).2 - (innerAB x).1) / 2| * (1 / 10 ^ 16) *
        absPolyAt (cs x) (max |(innerAB x).1| |(innerAB x).2|) := rfl

/-- **one outer K21 panel, inner runs arbitrary** (rational form; `C09.nested_single_panel_poly_
    accuracy_partial` without `hfirst` and without the budget hypothesis) -/
theorem nested_k21_poly_accuracy (f : Rat → Rat → Rat) (cs : Rat → List Rat)
    (Fs : List Rat) (a b : Rat) (innerAB : Rat → Rat × Rat) (tol : Rat) (mi : Option Nat) (ε : Rat)
    (hf : ∀ x y, f x y = evalPoly (cs x) y) (hdy : ∀ x, (cs x).length ≤ 32)
    (hF : ∀ x, evalPoly Fs x = exactInt (cs x) (innerAB x).1 (innerAB x).2)
    (hdx : Fs.length ≤ 32)
    (hε : ∀ node ∈ unitNodes (Gen.k21 : List (Rat × Rat)),
      innerBound cs innerAB (denorm a b node) ≤ ε)
    (v e : Rat) (h : (nested f a b innerAB tol mi Gen.k21).res = .ok (v, e)) :
    |v - exactInt Fs a b| ≤
      |(b - a) / 2| * (1 / 10 ^ 16) * absPolyAt Fs (max |a| |b|) +
        |(b - a) / 2| * (ε * unitRule (fun _ => 1) Gen.k21) :=
  nested_poly_accuracy_rat f cs Fs a b innerAB tol mi ε hf hdy hF hdx hε v e h

/-- the accuracy statement of the 2-D routine as an inequality between rational numbers -/
theorem gk2d_poly_accuracy_rat (f : Rat → Rat → Rat) (cs : Rat → List Rat)
    (Fs : List Rat) (a b : Rat) (innerAB : Rat → Rat × Rat) (tol : Rat) (mi : Option Nat) (ε : Rat)
    (hf : ∀ x y, f x y = evalPoly (cs x) y) (hdy : ∀ x, (cs x).length ≤ 32)
    (hF : ∀ x, evalPoly Fs x = exactInt (cs x) (innerAB x).1 (innerAB x).2)
    (hdx : Fs.length ≤ 32) (hab : a ≠ b)
    (hε : ∀ x, min a b ≤ x → x ≤ max a b → innerBound cs innerAB x ≤ ε)
    (v e : Rat) (h : (gk2d f a b innerAB tol mi).res = .ok (v, e)) :
    |v - exactInt Fs a b| ≤
      |(b - a) / 2| * (1 / 10 ^ 16) * absPolyAt Fs (max |a| |b|) +
        |(b - a) / 2| * (ε * (2 + 1 / 10 ^ 16)) :=
  Acc2.gk2d_poly_accuracy_rat f cs Fs a b innerAB tol mi ε hf hdy hF hdx hab hε v e h

/-- **MAIN THEOREM (accuracy of the 2-D routine on its exact class).**  Let `f x y = Σ_k (cs x)[k]·y^k`
    be of degree ≤ 31 in `y` for every rational `x`, let `Fs` (degree ≤ 31) be the exact inner
    integral, `evalPoly Fs x = ∫_{l(x)}^{u(x)} f(x,y) dy` with `(l, u) = innerAB`, and let `ε` bound
    the inner accuracy bound `innerBound cs innerAB x` for the rational `x` between `a` and `b`.
    For all outer bounds `a ≠ b` in either order, every tolerance and every budget: whenever the
    2-D adaptive routine reports success `(v, e)` — after any number of outer bisections, each
    inner run after any number of inner bisections — then
    * `Fs` IS the inner integral at every rational abscissa (Mathlib interval integral);
    * `|v − ∫_a^b Fs| ≤ |b−a|/2 · 1e-16 · Σ_k |Fs[k]|·max(|a|,|b|)^k + |b−a|/2 · ε · (2 + 1e-16)`
      (outer table defect + outer weight mass × inner bound);
    * the reported estimate satisfies `0 ≤ e < tol`. -/
theorem gk2d_poly_accuracy (f : Rat → Rat → Rat) (cs : Rat → List Rat)
    (Fs : List Rat) (a b : Rat) (innerAB : Rat → Rat × Rat) (tol : Rat) (mi : Option Nat) (ε : Rat)
    (hf : ∀ x y, f x y = evalPoly (cs x) y) (hdy : ∀ x, (cs x).length ≤ 32)
    (hF : ∀ x, evalPoly Fs x = exactInt (cs x) (innerAB x).1 (innerAB x).2)
    (hdx : Fs.length ≤ 32) (hab : a ≠ b)
    (hε : ∀ x, min a b ≤ x → x ≤ max a b → innerBound cs innerAB x ≤ ε)
    (v e : Rat) (h : (gk2d f a b innerAB tol mi).res = .ok (v, e)) :
    (∀ x : Rat, ∫ y in ((innerAB x).1 : ℝ)..((innerAB x).2 : ℝ), evalPolyR (cs x) y =
      evalPolyR Fs (x : ℝ)) ∧
    |(v : ℝ) - ∫ x in (a : ℝ)..(b : ℝ), evalPolyR Fs x| ≤
      (((|(b - a) / 2| * (1 / 10 ^ 16) * absPolyAt Fs (max |a| |b|) +
        |(b - a) / 2| * (ε * (2 + 1 / 10 ^ 16)) : Rat)) : ℝ) ∧
    e < tol ∧ 0 ≤ e := by
  refine ⟨fun x => ?_, ?_, C10.gk2d_ok_estimate f a b innerAB tol mi v e (Or.inl hab) h⟩
  · rw [integral_eq_exactInt, ← hF x, evalPolyR_cast]
  · rw [integral_eq_exactInt, ← Rat.cast_sub, ← Rat.cast_abs, Rat.cast_le]
    exact gk2d_poly_accuracy_rat f cs Fs a b innerAB tol mi ε hf hdy hF hdx hab hε v e h

/-- coincident outer bounds: the routine returns `(0, 0)` and the true integral is `0` -/
theorem gk2d_poly_accuracy_eq (f : Rat → Rat → Rat) (Fs : List Rat) (a : Rat)
    (innerAB : Rat → Rat × Rat) (tol : Rat) (mi : Option Nat) :
    (gk2d f a a innerAB tol mi).res = .ok (0, 0) ∧
      ∫ x in (a : ℝ)..(a : ℝ), evalPolyR Fs x = 0 :=
  ⟨gk2d_same f a innerAB tol mi, intervalIntegral.integral_same⟩

/-! ## (T2) the triangle routine

`gkTriangle f t = gk2d (triIntegrand f t) 0 1 (fun s => (0, 1 − s))`: outer coordinate `s ∈ [0,1]`,
inner coordinate `r ∈ [0, 1−s]`, integrand
`triFactor t · f(p0 + s·(p1 − p0) + r·(p2 − p0))`. -/

theorem gkTriangle_eq_gk2d (f : Rat → Rat → Rat) (t : (Rat × Rat) × (Rat × Rat) × (Rat × Rat))
    (tol : Rat) (mi : Option Nat) :
    gkTriangle f t tol mi = gk2d (triIntegrand f t) 0 1 (fun s => (0, 1 - s)) tol mi := by
  have h01 : (Num.zero : Rat) = 0 := QuadTiling.zero_eq
  have h11 : (Num.one : Rat) = 1 := by simp [Num.one, Num.ofNat]
  unfold gkTriangle
  simp only [h01, h11]

/-- the accuracy bound of the triangle theorems for outer polynomial `Fs` and inner bound `ε`:
    `½ · 1e-16 · Σ_k |Fs[k]| + ½ · ε · (2 + 1e-16)` -/
def triBoundOf (Fs : List Rat) (ε : Rat) : Rat :=
  1 / 2 * (1 / 10 ^ 16) * absPolyAt Fs 1 + 1 / 2 * (ε * (2 + 1 / 10 ^ 16))

/-- **triangle, transformed integrand explicit.**  If the integrand handed to the 2-D routine,
    `(s, r) ↦ triIntegrand f t s r`, is `Σ_k (cs s)[k]·r^k` of degree ≤ 31 in `r`, its exact inner
    integral over `[0, 1−s]` is the polynomial `Fs` of degree ≤ 31, and `ε` bounds the inner
    accuracy bound for `0 ≤ s ≤ 1`, then every successful result `(v, e)` of `gkTriangle` — any
    number of outer and inner bisections — satisfies the three clauses of `gk2d_poly_accuracy`
    with outer bounds `0, 1`. -/
theorem gkTriangle_poly_accuracy_of_transformed (f : Rat → Rat → Rat)
    (t : (Rat × Rat) × (Rat × Rat) × (Rat × Rat)) (cs : Rat → List Rat) (Fs : List Rat)
    (tol : Rat) (mi : Option Nat) (ε : Rat)
    (hf : ∀ s r, triIntegrand f t s r = evalPoly (cs s) r) (hdy : ∀ s, (cs s).length ≤ 32)
    (hF : ∀ s, evalPoly Fs s = exactInt (cs s) 0 (1 - s)) (hdx : Fs.length ≤ 32)
    (hε : ∀ s, 0 ≤ s → s ≤ 1 → innerBound cs (fun u => (0, 1 - u)) s ≤ ε)
    (v e : Rat) (h : (gkTriangle f t tol mi).res = .ok (v, e)) :
    (∀ s : Rat, ∫ r in ((0 : Rat) : ℝ)..((1 - s : Rat) : ℝ), evalPolyR (cs s) r =
      evalPolyR Fs (s : ℝ)) ∧
    |(v : ℝ) - ∫ s in ((0 : Rat) : ℝ)..((1 : Rat) : ℝ), evalPolyR Fs s| ≤
      ((triBoundOf Fs ε : Rat) : ℝ) ∧
    e < tol ∧ 0 ≤ e := by
  rw [gkTriangle_eq_gk2d] at h
  have hmin : min (0 : Rat) 1 = 0 := by norm_num
  have hmax : max (0 : Rat) 1 = 1 := by norm_num
  obtain ⟨h1, h2, h3⟩ := gk2d_poly_accuracy (triIntegrand f t) cs Fs 0 1 (fun u => (0, 1 - u))
    tol mi ε hf hdy hF hdx (by norm_num)
    (fun s hs0 hs1 => hε s (by rwa [hmin] at hs0) (by rwa [hmax] at hs1)) v e h
  refine ⟨h1, le_trans h2 (le_of_eq ?_), h3⟩
  congr 1
  unfold triBoundOf
  have e1 : |((1 : Rat) - 0) / 2| = 1 / 2 := by norm_num [abs_of_pos]
  have e2 : max |(0 : Rat)| |(1 : Rat)| = 1 := by norm_num
  rw [e1, e2]

/-- the accuracy bound for a transformed integrand given by its coefficient lists `G` -/
def triBound (G : List (List Rat)) : Rat := triBoundOf (triInner G) (triEps G)

/-- **triangle, coefficient lists of the transformed integrand given.**  If
    `triIntegrand f t s r = Σ_k G[k](s)·r^k` with `G[j].length + j ≤ 31` for every `j`
    (`TotDeg 31 G`: formal total degree ≤ 30 in `(s, r)`), then with the computed inner integral
    `triInner G` (`Acc2.evalPoly_triInner`) and the computed uniform inner bound
    `triEps G = ½·1e-16·Σ|G[k][i]|`, every successful result of `gkTriangle` is within
    `triBound G` of `∫_0^1 triInner G`. -/
theorem gkTriangle_poly_accuracy_of_coeffs (f : Rat → Rat → Rat)
    (t : (Rat × Rat) × (Rat × Rat) × (Rat × Rat)) (G : List (List Rat)) (tol : Rat)
    (mi : Option Nat) (hG : ∀ s r, triIntegrand f t s r = evalPoly2 G s r) (hdeg : TotDeg 31 G)
    (v e : Rat) (h : (gkTriangle f t tol mi).res = .ok (v, e)) :
    (∀ s : Rat, ∫ r in ((0 : Rat) : ℝ)..((1 - s : Rat) : ℝ), evalPolyR (coeffsAt G s) r =
      evalPolyR (triInner G) (s : ℝ)) ∧
    |(v : ℝ) - ∫ s in ((0 : Rat) : ℝ)..((1 : Rat) : ℝ), evalPolyR (triInner G) s| ≤
      ((triBound G : Rat) : ℝ) ∧
    e < tol ∧ 0 ≤ e :=
  gkTriangle_poly_accuracy_of_transformed f t (coeffsAt G) (triInner G) tol mi (triEps G) hG
    (fun s => by rw [coeffsAt_length]; exact le_trans (TotDeg_length 31 G hdeg) (by decide))
    (evalPoly_triInner G) (triInner_length 31 G hdeg) (innerBound_tri_le G) v e h

/-- **MAIN THEOREM (accuracy of the triangle routine on polynomials of total degree ≤ 30).**
    Let `f(x,y) = Σ c·x^i·y^j` over a finite list of terms `(i, j, c)` with `i + j ≤ 30`, `t` any
    triangle (any orientation, also degenerate).  With `G = triPoly terms t` the coefficient lists
    of the transformed integrand in the barycentric coordinates `(s, r)` (first conjunct):
    whenever `gkTriangle` reports success `(v, e)` — any number of outer and inner bisections —
    `v` is within `triBound G` of the exact iterated integral
    `∫_0^1 (∫_0^{1−s} triFactor t · f(p0 + s(p1−p0) + r(p2−p0)) dr) ds`, the inner integral being the
    polynomial `triInner G` (second conjunct), and `0 ≤ e < tol`.
    (Total degree 30, not 31: the inner integral over `[0, 1−s]` raises the degree in `s` by one.) -/
theorem gkTriangle_poly_accuracy (terms : List (Nat × Nat × Rat))
    (hdeg : ∀ tm ∈ terms, tm.1 + tm.2.1 ≤ 30) (f : Rat → Rat → Rat)
    (hf : ∀ x y, f x y = evalTerms terms x y) (t : (Rat × Rat) × (Rat × Rat) × (Rat × Rat))
    (tol : Rat) (mi : Option Nat) (v e : Rat) (h : (gkTriangle f t tol mi).res = .ok (v, e)) :
    (∀ s r : Rat, triIntegrand f t s r = evalPoly2 (triPoly terms t) s r) ∧
    (∀ s : Rat, ∫ r in ((0 : Rat) : ℝ)..((1 - s : Rat) : ℝ),
        evalPolyR (coeffsAt (triPoly terms t) s) r = evalPolyR (triInner (triPoly terms t)) (s : ℝ)) ∧
    |(v : ℝ) - ∫ s in ((0 : Rat) : ℝ)..((1 : Rat) : ℝ), evalPolyR (triInner (triPoly terms t)) s| ≤
      ((triBound (triPoly terms t) : Rat) : ℝ) ∧
    e < tol ∧ 0 ≤ e := by
  have hfe : f = evalTerms terms := funext (fun x => funext (fun y => hf x y))
  have hG : ∀ s r : Rat, triIntegrand f t s r = evalPoly2 (triPoly terms t) s r := by
    intro s r; rw [hfe, evalPoly2_triPoly]
  exact ⟨hG, gkTriangle_poly_accuracy_of_coeffs f t (triPoly terms t) tol mi hG
    (TotDeg_triPoly 30 terms hdeg t) v e h⟩

/-! ## (T3) success clause of the 2-D routine on the exact class -/

/-- the bound on the first outer estimate `|G10 − K21| + max(e_G10, e_K21)`:
    `|b−a|/2 · (2e-16 · Σ_k |Fs[k]|·max(|a|,|b|)^k + 4ε·(2 + 1e-16))` -/
def success2Bound (Fs : List Rat) (a b ε : Rat) : Rat :=
  |(b - a) / 2| * (2 / 10 ^ 16 * absPolyAt Fs (max |a| |b|) + 4 * ε * (2 + 1 / 10 ^ 16))

/-- **success of the 2-D routine on the exact class.**  Degrees ≤ 19 in `y` and in `x` (both
    embedded rules exact up to their defects, inner and outer), `a ≠ b`, budget not `0`, `ε` a bound
    of the inner accuracy bound between `a` and `b`.  If the tolerance exceeds `4ε` (every inner
    run, called with `tol/2`, then stops on its first panel) and `success2Bound Fs a b ε`, the
    routine returns `.ok (v, e)` having evaluated the single outer panel `(a, b)`; `v` satisfies
    the accuracy bound of `gk2d_poly_accuracy` and `0 ≤ e ≤ success2Bound Fs a b ε < tol`. -/
theorem gk2d_poly_success (f : Rat → Rat → Rat) (cs : Rat → List Rat)
    (Fs : List Rat) (a b : Rat) (innerAB : Rat → Rat × Rat) (tol : Rat) (mi : Option Nat) (ε : Rat)
    (hf : ∀ x y, f x y = evalPoly (cs x) y) (hdy : ∀ x, (cs x).length ≤ 20)
    (hF : ∀ x, evalPoly Fs x = exactInt (cs x) (innerAB x).1 (innerAB x).2)
    (hdx : Fs.length ≤ 20) (hab : a ≠ b) (hmi : mi ≠ some 0)
    (hε : ∀ x, min a b ≤ x → x ≤ max a b → innerBound cs innerAB x ≤ ε)
    (htol_inner : 4 * ε < tol) (htol : success2Bound Fs a b ε < tol) :
    ∃ v e : Rat, (gk2d f a b innerAB tol mi).res = .ok (v, e) ∧
      (gk2d f a b innerAB tol mi).panels.length = 1 ∧
      |(v : ℝ) - ∫ x in (a : ℝ)..(b : ℝ), evalPolyR Fs x| ≤
        (((|(b - a) / 2| * (1 / 10 ^ 16) * absPolyAt Fs (max |a| |b|) +
          |(b - a) / 2| * (ε * (2 + 1 / 10 ^ 16)) : Rat)) : ℝ) ∧
      0 ≤ e ∧ e ≤ success2Bound Fs a b ε ∧ e < tol := by
  have hnode : ∀ node, -1 < node ∧ node < 1 → innerBound cs innerAB (denorm a b node) ≤ ε := by
    intro node hn
    rcases lt_or_gt_of_ne hab with hlt | hgt
    · obtain ⟨h1, h2⟩ := (denorm_between a b node hn).1 hlt
      exact hε _ (by rw [min_eq_left hlt.le]; exact h1.le) (by rw [max_eq_right hlt.le]; exact h2.le)
    · obtain ⟨h1, h2⟩ := (denorm_between a b node hn).2 hgt
      exact hε _ (by rw [min_eq_right hgt.le]; exact h1.le) (by rw [max_eq_left hgt.le]; exact h2.le)
  obtain ⟨v, e, hg, he⟩ := gkApprox2_success f cs Fs a b innerAB tol mi ε hf hmi hdy hF hdx hnode
    htol_inner
  have hlt : e < tol := lt_of_le_of_lt he htol
  obtain ⟨hres, hpan⟩ := gk2d_first_panel f a b innerAB tol mi hab hmi v e hg hlt
  obtain ⟨_, hacc, _, he0⟩ := gk2d_poly_accuracy f cs Fs a b innerAB tol mi ε hf
    (fun x => le_trans (hdy x) (by decide)) hF (le_trans hdx (by decide)) hab hε v e hres
  exact ⟨v, e, hres, hpan, hacc, he0, he, hlt⟩

/-! ## Non-vacuity: concrete instances evaluated by the kernel (`decide +kernel`) -/

/-! ### (T1) a run on the exact class that bisects in BOTH directions

`x^20 + y^20` on the square `[-1,1]²`, tolerance `1e-6`, budget 12: degree 20 in each variable, so
G10 is not exact, the first outer estimate and the first inner estimates exceed the tolerance, and
the run evaluates three outer panels `(-1,1), (-1,0), (0,1)`, each of whose 21 inner K21 runs
evaluates three inner panels (63 per outer panel). -/

/-- `x^20 + y^20` -/
def f20 : Rat → Rat → Rat := fun x y => x ^ 20 + y ^ 20
/-- the square `[-1,1]²` -/
def sq : Rat → Rat × Rat := fun _ => (-1, 1)
/-- coefficients in `y` at the abscissa `x` -/
def cs20 (x : Rat) : List Rat := x ^ 20 :: (List.replicate 19 0 ++ [1])
/-- the inner integral `2x^20 + 2/21` -/
def Fs20 : List Rat := 2 / 21 :: (List.replicate 19 0 ++ [2])

/-- success flag, outer panels in call order, number of inner panels of the K21 nested run per
    outer panel -/
def runShape (o : Out2 Rat) : Bool × List (Rat × Rat) × List Nat :=
  (o.res.toBool, o.panels.map (fun p => (p.1, p.2.1)),
    o.panels.map (fun p => (p.2.2.2.map (fun c => c.panels.length)).sum))

theorem f20_run_shape : runShape (gk2d f20 (-1) 1 sq (1 / 10 ^ 6) (some 12)) =
    (true, [(-1, 1), (-1, 0), (0, 1)], [63, 63, 63]) := by
  decide +kernel

theorem f20_hf : ∀ x y, f20 x y = evalPoly (cs20 x) y := by
  intro x y
  simp only [f20, cs20, List.replicate, List.cons_append, List.nil_append, evalPoly_cons,
    evalPoly_nil]
  ring

theorem f20_hF : ∀ x, evalPoly Fs20 x = exactInt (cs20 x) (sq x).1 (sq x).2 := by
  intro x
  rw [exactInt_eq_antiDeriv]
  simp only [Fs20, cs20, sq, antiDeriv, intAux, List.replicate, List.cons_append, List.nil_append,
    evalPoly_cons, evalPoly_nil]
  norm_num
  ring

theorem f20_hε : ∀ x, min (-1 : Rat) 1 ≤ x → x ≤ max (-1 : Rat) 1 →
    innerBound cs20 sq x ≤ 2 / 10 ^ 16 := by
  intro x h0 h1
  have h0' : -1 ≤ x := by rwa [min_eq_left (by norm_num : (-1 : Rat) ≤ 1)] at h0
  have h1' : x ≤ 1 := by rwa [max_eq_right (by norm_num : (-1 : Rat) ≤ 1)] at h1
  have hx : |x ^ 20| ≤ 1 := by
    rw [abs_pow]; exact pow_le_one₀ (abs_nonneg x) (abs_le.mpr ⟨h0', h1'⟩)
  have hA : absPolyAt (cs20 x) 1 = |x ^ 20| + 1 := by
    simp only [cs20, List.replicate, List.cons_append, List.nil_append, absPolyAt_cons,
      absPolyAt_nil]
    norm_num
  unfold innerBound
  simp only [sq]
  have e1 : |((1 : Rat) - -1) / 2| = 1 := by norm_num
  have e2 : max |(-1 : Rat)| |(1 : Rat)| = 1 := by norm_num
  rw [e1, e2, hA]
  linarith

/-- the exact double integral `∫_{-1}^{1}∫_{-1}^{1} (x^20 + y^20) dy dx = 8/21` -/
theorem Fs20_exact : exactInt Fs20 (-1) 1 = 8 / 21 := by decide +kernel

/-- the hypotheses of `gk2d_poly_accuracy` are satisfiable by a run with outer and inner
    bisections, and it yields `|v − 8/21| ≤ 1e-16·44/21 + 2e-16·(2 + 1e-16)` for that run -/
theorem f20_accuracy : ∃ v e : Rat, (gk2d f20 (-1) 1 sq (1 / 10 ^ 6) (some 12)).res = .ok (v, e) ∧
    |v - 8 / 21| ≤ 1 / 10 ^ 16 * (44 / 21) + 2 / 10 ^ 16 * (2 + 1 / 10 ^ 16) ∧
    e < 1 / 10 ^ 6 ∧ 0 ≤ e := by
  have h1 : (gk2d f20 (-1) 1 sq (1 / 10 ^ 6) (some 12)).res.toBool = true :=
    congrArg Prod.fst f20_run_shape
  cases hres : (gk2d f20 (-1) 1 sq (1 / 10 ^ 6) (some 12)).res with
  | error err => rw [hres] at h1; simp [Except.toBool] at h1
  | ok p =>
    obtain ⟨v, e⟩ := p
    have h := gk2d_poly_accuracy_rat f20 cs20 Fs20 (-1) 1 sq _ _ (2 / 10 ^ 16) f20_hf
      (by intro x; simp [cs20]) f20_hF (by decide) (by norm_num) f20_hε v e hres
    have hb : |((1 : Rat) - -1) / 2| * (1 / 10 ^ 16) * absPolyAt Fs20 (max |(-1 : Rat)| |(1 : Rat)|) +
        |((1 : Rat) - -1) / 2| * (2 / 10 ^ 16 * (2 + 1 / 10 ^ 16)) =
        1 / 10 ^ 16 * (44 / 21) + 2 / 10 ^ 16 * (2 + 1 / 10 ^ 16) := by decide +kernel
    rw [Fs20_exact, hb] at h
    exact ⟨v, e, rfl, h, C10.gk2d_ok_estimate f20 (-1) 1 sq _ _ v e (Or.inl (by norm_num)) hres⟩

/-- the same instance through the real-integral form of the theorem -/
example : ∀ v e : Rat, (gk2d f20 (-1) 1 sq (1 / 10 ^ 6) (some 12)).res = .ok (v, e) →
    |(v : ℝ) - ∫ x in ((-1 : Rat) : ℝ)..((1 : Rat) : ℝ), evalPolyR Fs20 x| ≤
      (((|((1 : Rat) - -1) / 2| * (1 / 10 ^ 16) * absPolyAt Fs20 (max |(-1 : Rat)| |(1 : Rat)|) +
        |((1 : Rat) - -1) / 2| * (2 / 10 ^ 16 * (2 + 1 / 10 ^ 16)) : Rat)) : ℝ) :=
  fun v e h => (gk2d_poly_accuracy f20 cs20 Fs20 (-1) 1 sq _ _ (2 / 10 ^ 16) f20_hf
    (by intro x; simp [cs20]) f20_hF (by decide) (by norm_num) f20_hε v e h).2.1

/-! ### (T1) inner bounds that depend on the outer abscissa

`x·y` over `{0 ≤ x ≤ 1, 0 ≤ y ≤ x}`: `cs x = [0, x]`, inner integral `x³/2`, exact value `1/8`. -/

def fT : Rat → Rat → Rat := fun x y => x * y
def belowDiag : Rat → Rat × Rat := fun x => (0, x)

theorem fT_run : (gk2d fT 0 1 belowDiag (1 / 10 ^ 9) (some 3)).res.toBool = true := by
  decide +kernel

theorem fT_hF : ∀ x, evalPoly [0, 0, 0, 1 / 2] x =
    exactInt [0, x] (belowDiag x).1 (belowDiag x).2 := by
  intro x
  rw [exactInt_eq_antiDeriv]
  simp only [belowDiag, antiDeriv, intAux, evalPoly_cons, evalPoly_nil]
  push_cast
  ring

theorem fT_hε : ∀ x, min (0 : Rat) 1 ≤ x → x ≤ max (0 : Rat) 1 →
    innerBound (fun x => [0, x]) belowDiag x ≤ 1 / 2 * (1 / 10 ^ 16) := by
  intro x h0 h1
  have h0' : 0 ≤ x := by rwa [min_eq_left (by norm_num : (0 : Rat) ≤ 1)] at h0
  have h1' : x ≤ 1 := by rwa [max_eq_right (by norm_num : (0 : Rat) ≤ 1)] at h1
  unfold innerBound
  simp only [belowDiag, sub_zero, abs_zero, absPolyAt_cons, absPolyAt_nil, mul_zero, add_zero,
    zero_add]
  rw [max_eq_right (abs_nonneg x), abs_of_nonneg h0', abs_of_nonneg (by linarith : 0 ≤ x / 2)]
  have h3 : x * x * x ≤ 1 := by
    have := pow_le_one₀ (n := 3) h0' h1'
    calc x * x * x = x ^ 3 := by ring
      _ ≤ 1 := this
  have : x / 2 * (1 / 10 ^ 16) * (x * x) = x * x * x * (1 / 2 * (1 / 10 ^ 16)) := by ring
  rw [this]
  have hc : (0 : Rat) ≤ 1 / 2 * (1 / 10 ^ 16) := by norm_num
  calc x * x * x * (1 / 2 * (1 / 10 ^ 16)) ≤ 1 * (1 / 2 * (1 / 10 ^ 16)) :=
        mul_le_mul_of_nonneg_right h3 hc
    _ = 1 / 2 * (1 / 10 ^ 16) := one_mul _

example : exactInt [0, 0, 0, 1 / 2] 0 1 = 1 / 8 := by decide +kernel

example : ∃ v e : Rat, (gk2d fT 0 1 belowDiag (1 / 10 ^ 9) (some 3)).res = .ok (v, e) ∧
    |v - exactInt [0, 0, 0, 1 / 2] 0 1| ≤
      |((1 : Rat) - 0) / 2| * (1 / 10 ^ 16) * absPolyAt [0, 0, 0, 1 / 2] (max |(0 : Rat)| |(1 : Rat)|) +
        |((1 : Rat) - 0) / 2| * (1 / 2 * (1 / 10 ^ 16) * (2 + 1 / 10 ^ 16)) := by
  have h1 := fT_run
  cases hres : (gk2d fT 0 1 belowDiag (1 / 10 ^ 9) (some 3)).res with
  | error err => rw [hres] at h1; simp [Except.toBool] at h1
  | ok p =>
    obtain ⟨v, e⟩ := p
    exact ⟨v, e, rfl, gk2d_poly_accuracy_rat fT (fun x => [0, x]) [0, 0, 0, 1 / 2] 0 1 belowDiag _ _ _
      (by intro x y; simp only [fT, evalPoly_cons, evalPoly_nil]; ring) (by intro x; simp) fT_hF (by decide) (by norm_num) fT_hε v e hres⟩

/-! ### (T2) triangles -/

/-- `x + y` as a list of terms -/
def termsXY : List (Nat × Nat × Rat) := [(1, 0, 1), (0, 1, 1)]

theorem fxy_hf : ∀ x y, C10.fxy x y = evalTerms termsXY x y := by
  intro x y; simp [C10.fxy, termsXY, evalTerms]

/-- the transformed integrand on the unit right triangle is `s + r`, its inner integral over
    `[0, 1−s]` is `(1 − s²)/2`, the exact value `1/3` -/
example : triPoly termsXY ((0, 0), (1, 0), (0, 1)) = [[0, 1], [1]] := by decide +kernel
example : triInner (triPoly termsXY ((0, 0), (1, 0), (0, 1))) = [1 / 2, 0, -1 / 2] := by
  decide +kernel
example : exactInt (triInner (triPoly termsXY ((0, 0), (1, 0), (0, 1)))) 0 1 = 1 / 3 := by
  decide +kernel
example : triBound (triPoly termsXY ((0, 0), (1, 0), (0, 1))) =
    1 / 2 * (1 / 10 ^ 16) * 1 + 1 / 2 * (1 / 10 ^ 16 * (2 + 1 / 10 ^ 16)) := by decide +kernel

/-- `gkTriangle_poly_accuracy` applied to the run `C10.fxy_tri_res` -/
example :
    |((71893191112401707467349830750709226086671350857449045647209985196095 /
        215679573337205118357336120696157045389097155380324579848828881993728 : Rat) : ℝ) -
      ∫ s in ((0 : Rat) : ℝ)..((1 : Rat) : ℝ),
        evalPolyR (triInner (triPoly termsXY ((0, 0), (1, 0), (0, 1)))) s| ≤
      ((triBound (triPoly termsXY ((0, 0), (1, 0), (0, 1))) : Rat) : ℝ) :=
  (gkTriangle_poly_accuracy termsXY (by decide) C10.fxy fxy_hf ((0, 0), (1, 0), (0, 1)) (1 / 10)
    (some 2) _ _ C10.fxy_tri_res).2.2.1

/-- `3x²y − 1` over a skew, clockwise triangle (`triFactor = 7`) -/
def termsQ : List (Nat × Nat × Rat) := [(2, 1, 3), (0, 0, -1)]
def tri1 : (Rat × Rat) × (Rat × Rat) × (Rat × Rat) := ((1, 1), (0, 3), (4, 2))

theorem triQ_run : (gkTriangle (evalTerms termsQ) tri1 (1 / 10 ^ 9) (some 3)).res.toBool = true := by
  decide +kernel

example : triPoly termsQ tri1 = [[14, 0, -63, 42], [147, 84, -231], [315, 252], [189]] := by
  decide +kernel
example : exactInt (triInner (triPoly termsQ tri1)) 0 1 = 679 / 10 := by decide +kernel
example : triBound (triPoly termsQ tri1) =
    56070000000000001337 / 400000000000000000000000000000000 := by decide +kernel

example : ∃ v e : Rat, (gkTriangle (evalTerms termsQ) tri1 (1 / 10 ^ 9) (some 3)).res = .ok (v, e) ∧
    |(v : ℝ) - ∫ s in ((0 : Rat) : ℝ)..((1 : Rat) : ℝ), evalPolyR (triInner (triPoly termsQ tri1)) s| ≤
      ((triBound (triPoly termsQ tri1) : Rat) : ℝ) ∧ e < 1 / 10 ^ 9 ∧ 0 ≤ e := by
  have h1 := triQ_run
  cases hres : (gkTriangle (evalTerms termsQ) tri1 (1 / 10 ^ 9) (some 3)).res with
  | error err => rw [hres] at h1; simp [Except.toBool] at h1
  | ok p =>
    obtain ⟨v, e⟩ := p
    exact ⟨v, e, rfl, (gkTriangle_poly_accuracy termsQ (by decide) _ (fun _ _ => rfl) tri1 _ _ v e
      hres).2.2⟩

/-! ### (T3) success -/

theorem fxy_hε : ∀ x, min (0 : Rat) 1 ≤ x → x ≤ max (0 : Rat) 1 →
    innerBound (fun x => [x, 1]) C10.unitSq x ≤ 1 / 10 ^ 16 := by
  intro x h0 h1
  have h0' : 0 ≤ x := by rwa [min_eq_left (by norm_num : (0 : Rat) ≤ 1)] at h0
  have h1' : x ≤ 1 := by rwa [max_eq_right (by norm_num : (0 : Rat) ≤ 1)] at h1
  unfold innerBound
  simp only [C10.unitSq, absPolyAt_cons, absPolyAt_nil]
  have e1 : |((1 : Rat) - 0) / 2| = 1 / 2 := by norm_num [abs_of_pos]
  have e2 : max |(0 : Rat)| |(1 : Rat)| = 1 := by norm_num
  rw [e1, e2, abs_of_nonneg h0']
  norm_num
  linarith

/-- `x + y` on the unit square, tolerance `1/10`, budget `2`: the hypotheses of
    `gk2d_poly_success` hold (`cs x = [x, 1]`, `Fs = [1/2, 1]`, `ε = 1e-16`) -/
example : ∃ v e : Rat, (gk2d C10.fxy 0 1 C10.unitSq (1 / 10) (some 2)).res = .ok (v, e) ∧
    (gk2d C10.fxy 0 1 C10.unitSq (1 / 10) (some 2)).panels.length = 1 ∧
    |(v : ℝ) - ∫ x in ((0 : Rat) : ℝ)..((1 : Rat) : ℝ), evalPolyR [1 / 2, 1] x| ≤
      (((|((1 : Rat) - 0) / 2| * (1 / 10 ^ 16) * absPolyAt [1 / 2, 1] (max |(0 : Rat)| |(1 : Rat)|) +
        |((1 : Rat) - 0) / 2| * (1 / 10 ^ 16 * (2 + 1 / 10 ^ 16)) : Rat)) : ℝ) ∧
    0 ≤ e ∧ e ≤ success2Bound [1 / 2, 1] 0 1 (1 / 10 ^ 16) ∧ e < 1 / 10 :=
  gk2d_poly_success C10.fxy (fun x => [x, 1]) [1 / 2, 1] 0 1 C10.unitSq (1 / 10) (some 2) (1 / 10 ^ 16)
    (by intro x y; simp [C10.fxy]) (by intro x; simp)
    (by intro x; simp [exactInt, compAffine, mulLinAux, wsum, mom, C10.unitSq]; ring)
    (by decide) (by decide) (by decide) fxy_hε (by norm_num) (by decide +kernel)

example : success2Bound [1 / 2, 1] 0 1 (1 / 10 ^ 16) =
    1 / 2 * (2 / 10 ^ 16 * (3 / 2) + 4 / 10 ^ 16 * (2 + 1 / 10 ^ 16)) := by decide +kernel

end Cav.C09Accuracy
