/-
  C04 (order consistency) — what the ghost flag `St.mono` of the sweep model buys.

  The implementation keeps the active edges in a `BTreeSet` ordered by a comparator that reads
  the shared sweep abscissa; the model keeps them in a list and looks keys up by a linear scan
  (`Sweep.searchPos`).  Before every lookup the model records (`Sweep.noteMono`) whether the
  list `cs` of comparison results of the key against *every* stored edge has the form
  `gt* eq? lt*` (`Sweep.isMono`).

  Part 1 (pure, `List Ordering`): if `cs` is of that form, then the position found by the scan
  (`firstNonGt cs`, the number of leading `gt`) is the ONLY position at which a descent of any
  search structure that only ever compares the key with stored elements can end
  (`LocalBoundary`: predecessor compared `gt`, successor did not), and the only position that
  can compare `eq`.

  Part 2 (model, any `Num` instance): `cmpAll` only reads the state, `searchPos` returns
  `firstNonGt` of the comparison list, `search` additionally and-s `isMono cs` into the ghost
  flag, and so a lookup after which the flag is still true is independent of the search
  structure.  `noteMono` touches only `mono`, never fails, and `mono` is sticky.
-/
import Cav.Lemmas.SweepHoare

namespace Cav.C04Order
open Cav Num Cav.Sweep Cav.SweepRun

/-! ## 1. Pure facts about `List Ordering` -/

/-- number of leading `.gt` entries: where the linear scan stops -/
def firstNonGt : List Ordering → Nat
  | .gt :: r => firstNonGt r + 1
  | _ => 0

/-- where a descent of a search tree that only ever compares the key with stored elements can
    end: the predecessor compared `gt` (key is greater) and the successor did not -/
def LocalBoundary (cs : List Ordering) (j : Nat) : Prop :=
  j ≤ cs.length ∧ (j = 0 ∨ cs[j-1]? = some .gt) ∧ (j = cs.length ∨ (cs[j]? ≠ some .gt))

instance (cs : List Ordering) (j : Nat) : Decidable (LocalBoundary cs j) :=
  inferInstanceAs (Decidable
    (j ≤ cs.length ∧ (j = 0 ∨ cs[j-1]? = some .gt) ∧ (j = cs.length ∨ (cs[j]? ≠ some .gt))))

@[simp] theorem firstNonGt_nil : firstNonGt [] = 0 := rfl
@[simp] theorem firstNonGt_gt (r : List Ordering) : firstNonGt (.gt :: r) = firstNonGt r + 1 := rfl
@[simp] theorem firstNonGt_eq (r : List Ordering) : firstNonGt (.eq :: r) = 0 := rfl
@[simp] theorem firstNonGt_lt (r : List Ordering) : firstNonGt (.lt :: r) = 0 := rfl

theorem firstNonGt_le (cs : List Ordering) : firstNonGt cs ≤ cs.length := by
  induction cs with
  | nil => exact Nat.le_refl _
  | cons c r ih => cases c <;> simp <;> omega

/-- every entry of an all-`lt` list is `lt` -/
theorem all_lt_getElem? {r : List Ordering} (h : r.all (· == .lt) = true) {k : Nat} {o : Ordering}
    (hk : r[k]? = some o) : o = .lt := by
  have hm := List.mem_of_getElem? hk
  rw [List.all_eq_true] at h
  have := h o hm
  revert this
  cases o <;> decide

/-- in a list of the form `gt* eq? lt*`, nothing from the first non-`gt` entry on is `gt` -/
theorem mono_no_gt_after (cs : List Ordering) (h : isMono cs = true) (k : Nat)
    (hk : firstNonGt cs ≤ k) : cs[k]? ≠ some .gt := by
  induction cs generalizing k with
  | nil => simp
  | cons c r ih =>
    cases c with
    | gt =>
      cases k with
      | zero => simp at hk
      | succ k' =>
        rw [List.getElem?_cons_succ]
        exact ih h k' (by simpa using hk)
    | eq =>
      cases k with
      | zero => simp
      | succ k' =>
        rw [List.getElem?_cons_succ]
        intro hg
        have := all_lt_getElem? (r := r) h hg
        cases this
    | lt =>
      cases k with
      | zero => simp
      | succ k' =>
        rw [List.getElem?_cons_succ]
        intro hg
        have := all_lt_getElem? (r := r) h hg
        cases this

/-- everything before the scan position is `gt` (no monotonicity needed) -/
theorem before_firstNonGt (cs : List Ordering) (k : Nat) (hk : k < firstNonGt cs) :
    cs[k]? = some .gt := by
  induction cs generalizing k with
  | nil => simp at hk
  | cons c r ih =>
    cases c with
    | gt =>
      cases k with
      | zero => rfl
      | succ k' =>
        rw [List.getElem?_cons_succ]
        exact ih k' (by simpa using hk)
    | eq => simp at hk
    | lt => simp at hk

/-- the scan position itself is not `gt` (no monotonicity needed) -/
theorem at_firstNonGt (cs : List Ordering) : cs[firstNonGt cs]? ≠ some .gt := by
  induction cs with
  | nil => simp
  | cons c r ih =>
    cases c with
    | gt => rw [firstNonGt_gt, List.getElem?_cons_succ]; exact ih
    | eq => simp
    | lt => simp

/-- **The scan position is a local boundary** (no monotonicity needed). -/
theorem firstNonGt_boundary (cs : List Ordering) : LocalBoundary cs (firstNonGt cs) := by
  refine ⟨firstNonGt_le cs, ?_, Or.inr (at_firstNonGt cs)⟩
  cases h : firstNonGt cs with
  | zero => exact Or.inl rfl
  | succ n =>
    right
    exact before_firstNonGt cs n (by omega)

/-- **In an order-consistent comparison list the local boundary is unique**: any descent that
    only compares the key with stored elements ends where the linear scan ends. -/
theorem mono_boundary_unique (cs : List Ordering) (h : isMono cs = true) (j : Nat)
    (hb : LocalBoundary cs j) : j = firstNonGt cs := by
  obtain ⟨h1, h2, h3⟩ := hb
  -- `j ≤ firstNonGt cs`: otherwise the predecessor `j-1 ≥ firstNonGt cs` would not be `gt`
  have hle : j ≤ firstNonGt cs := by
    rcases h2 with h2 | h2
    · omega
    · apply Classical.byContradiction
      intro hn
      exact mono_no_gt_after cs h (j - 1) (by omega) h2
  -- `firstNonGt cs ≤ j`: otherwise `cs[j] = gt`
  have hge : firstNonGt cs ≤ j := by
    apply Classical.byContradiction
    intro hn
    have hlt : j < firstNonGt cs := by omega
    have hgt := before_firstNonGt cs j hlt
    rcases h3 with h3 | h3
    · have := firstNonGt_le cs
      omega
    · exact h3 hgt
  omega

/-- **A lookup that stops at an element comparing `Equal` stops at the scan position.** -/
theorem mono_eq_unique (cs : List Ordering) (h : isMono cs = true) (j : Nat)
    (hj : cs[j]? = some .eq) : j = firstNonGt cs := by
  induction cs generalizing j with
  | nil => simp at hj
  | cons c r ih =>
    cases c with
    | gt =>
      cases j with
      | zero => simp at hj
      | succ j' =>
        rw [List.getElem?_cons_succ] at hj
        rw [firstNonGt_gt, ih h j' hj]
    | eq =>
      cases j with
      | zero => rfl
      | succ j' =>
        rw [List.getElem?_cons_succ] at hj
        have := all_lt_getElem? (r := r) h hj
        cases this
    | lt =>
      cases j with
      | zero => simp at hj
      | succ j' =>
        rw [List.getElem?_cons_succ] at hj
        have := all_lt_getElem? (r := r) h hj
        cases this

/-- non-vacuity: without order consistency there can be two different local boundaries (and a
    search tree may end at either), so the hypothesis `isMono cs` matters -/
example : isMono [.gt, .lt, .gt, .lt] = false ∧
    LocalBoundary [.gt, .lt, .gt, .lt] 1 ∧ LocalBoundary [.gt, .lt, .gt, .lt] 3 ∧
    firstNonGt [.gt, .lt, .gt, .lt] = 1 := by decide

/-- non-vacuity: two `eq` positions in a non-monotone list -/
example : isMono [.eq, .gt, .eq] = false ∧
    [Ordering.eq, .gt, .eq][0]? = some .eq ∧ [Ordering.eq, .gt, .eq][2]? = some .eq := by decide

/-- a monotone list: the only local boundary among all positions is the scan position -/
example : isMono [.gt, .gt, .eq, .lt, .lt] = true ∧ firstNonGt [.gt, .gt, .eq, .lt, .lt] = 2 ∧
    LocalBoundary [.gt, .gt, .eq, .lt, .lt] 2 ∧
    (∀ j, j < 7 → LocalBoundary [.gt, .gt, .eq, .lt, .lt] j → j = 2) := by decide

/-! ## 2. Connection to the model -/

variable {α : Type} {β γ : Type}

/-- `m` only reads the state, and what it reads does not include the ghost field `mono`.
    (Not phrased with `Pres (fun t => t = s) …` of `SweepHoare`: `search` runs the scan in the
    state whose `mono` was just updated by `noteMono`, so besides read-only-ness we need that the
    comparisons do not depend on `mono`; `fr` says that.) -/
structure RO (m : SM α β) : Prop where
  ro : ∀ s v s', m.run s = .ok (v, s') → s' = s
  fr : ∀ s b, m.run { s with mono := b } =
    match m.run s with
    | .ok (v, _) => .ok (v, { s with mono := b })
    | .error e => .error e

theorem RO.pure (v : β) : RO (pure v : SM α β) :=
  ⟨fun _ _ _ h => (by cases h; rfl), fun _ _ => rfl⟩

theorem RO.throw (e : SErr α) : RO (throw e : SM α β) :=
  ⟨fun _ _ _ h => (by cases h), fun _ _ => rfl⟩

theorem RO.bind {m : SM α β} {f : β → SM α γ} (hm : RO m) (hf : ∀ a, RO (f a)) :
    RO (m >>= f) := by
  constructor
  · intro s v s' h
    obtain ⟨a, s1, h1, h2⟩ := bind_ok.mp h
    have := hm.ro _ _ _ h1
    subst this
    exact (hf a).ro _ _ _ h2
  · intro s b
    rw [run_bind, run_bind, hm.fr]
    cases h1 : m.run s with
    | error e => rfl
    | ok p =>
      obtain ⟨a, s1⟩ := p
      have := hm.ro _ _ _ h1
      subst this
      exact (hf a).fr _ _

/-- `get` followed by a continuation that does not look at `mono` -/
theorem RO.get_bind {f : St α → SM α β} (hf : ∀ t, RO (f t))
    (hm : ∀ (t : St α) b, f { t with mono := b } = f t) : RO (get >>= f) := by
  constructor
  · intro s v s' h
    rw [run_bind, run_get] at h
    exact (hf s).ro _ _ _ h
  · intro s b
    rw [run_bind, run_bind, run_get, run_get]
    show (f { s with mono := b }).run { s with mono := b } = _
    rw [hm]
    exact (hf s).fr s b

theorem getNode_ro (i : Nat) : RO (getNode i : SM α _) := by
  unfold getNode
  refine RO.get_bind (fun t => ?_) (fun _ _ => rfl)
  split
  · exact RO.pure _
  · exact RO.throw _

theorem getChain_ro (i : Nat) : RO (getChain i : SM α _) := by
  unfold getChain
  refine RO.get_bind (fun t => ?_) (fun _ _ => rfl)
  split
  · exact RO.pure _
  · exact RO.throw _

theorem getEdge_ro (i : Nat) : RO (getEdge i : SM α _) := by
  unfold getEdge
  refine RO.get_bind (fun t => ?_) (fun _ _ => rfl)
  split
  · exact RO.pure _
  · exact RO.throw _

theorem edgeLpt_ro (e : Edge α) : RO (edgeLpt e) := by
  unfold edgeLpt
  exact RO.bind (getChain_ro _) fun _ => RO.bind (getNode_ro _) fun _ => RO.pure _

variable [Num α]

theorem yAt_ro (e : Edge α) (x : α) (r : Bool) : RO (yAt e x r) := by
  unfold yAt
  exact RO.bind (edgeLpt_ro _) fun _ => RO.pure _

theorem edgeGrad_ro (e : Edge α) : RO (edgeGrad e) := by
  unfold edgeGrad
  exact RO.bind (edgeLpt_ro _) fun _ => RO.pure _

theorem tieGrad_ro (e : Edge α) : RO (tieGrad e) := by
  unfold tieGrad
  exact RO.bind (edgeGrad_ro _) fun _ => RO.pure _

theorem cmpEdge_ro (a b : Edge α) : RO (cmpEdge a b) := by
  unfold cmpEdge
  refine RO.get_bind (fun t => ?_) (fun _ _ => rfl)
  dsimp only
  split
  · exact RO.pure _
  · refine RO.bind (yAt_ro _ _ _) fun ya => RO.bind (yAt_ro _ _ _) fun yb => ?_
    split
    · split
      · exact RO.bind (edgeGrad_ro _) fun _ => RO.bind (edgeGrad_ro _) fun _ => RO.pure _
      · exact RO.bind (tieGrad_ro _) fun _ => RO.bind (tieGrad_ro _) fun _ => RO.pure _
    · exact RO.pure _

theorem cmpAll_ro (key : Edge α) (l : List Nat) : RO (cmpAll key l) := by
  induction l with
  | nil => unfold cmpAll; exact RO.pure _
  | cons k ks ih =>
    unfold cmpAll
    exact RO.bind (getEdge_ro _) fun _ => RO.bind (cmpEdge_ro _ _) fun _ =>
      RO.bind ih fun _ => RO.pure _

/-- the comparison list has one entry per stored edge -/
theorem cmpAll_length (key : Edge α) (l : List Nat) {s s' : St α} {cs : List Ordering}
    (h : (cmpAll key l).run s = .ok (cs, s')) : cs.length = l.length := by
  induction l generalizing s s' cs with
  | nil =>
    unfold cmpAll at h
    cases h
    rfl
  | cons k ks ih =>
    unfold cmpAll at h
    obtain ⟨e, s1, _, h⟩ := bind_ok.mp h
    obtain ⟨c, s2, _, h⟩ := bind_ok.mp h
    obtain ⟨r, s3, hr, h⟩ := bind_ok.mp h
    cases h
    simp [ih hr]

/-- **`cmpAll` only reads the state.** -/
theorem cmpAll_readonly (key : Edge α) (l : List Nat) {s s' : St α} {cs : List Ordering}
    (h : (cmpAll key l).run s = .ok (cs, s')) : s' = s ∧ cs.length = l.length :=
  ⟨(cmpAll_ro key l).ro _ _ _ h, cmpAll_length key l h⟩

/-- `cmpAll` does not look at the ghost flag -/
theorem cmpAll_mono_indep (key : Edge α) (l : List Nat) {s : St α} {cs : List Ordering}
    (h : (cmpAll key l).run s = .ok (cs, s)) (b : Bool) :
    (cmpAll key l).run { s with mono := b } = .ok (cs, { s with mono := b }) := by
  rw [(cmpAll_ro key l).fr, h]

/-- **The list scan returns the number of leading `gt` of the comparison list**, and `found`
    iff the entry there is `eq`. -/
theorem searchPos_eq_scan (key : Edge α) (l : List Nat) (i : Nat) {s : St α} {cs : List Ordering}
    (h : (cmpAll key l).run s = .ok (cs, s)) :
    (searchPos key l i).run s =
      .ok ((i + firstNonGt cs, cs[firstNonGt cs]? == some .eq), s) := by
  induction l generalizing i cs with
  | nil =>
    unfold cmpAll at h
    cases h
    unfold searchPos
    rfl
  | cons k ks ih =>
    unfold cmpAll at h
    obtain ⟨e, s1, he, h⟩ := bind_ok.mp h
    have := ((getEdge_ro k).ro _ _ _ he).symm
    subst this
    obtain ⟨c, s2, hc, h⟩ := bind_ok.mp h
    have := ((cmpEdge_ro key e).ro _ _ _ hc).symm
    subst this
    obtain ⟨r, s3, hr, h⟩ := bind_ok.mp h
    have := ((cmpAll_ro key ks).ro _ _ _ hr).symm
    subst this
    cases h
    unfold searchPos
    rw [run_bind, he]
    show ((cmpEdge key e >>= fun c => _) : SM α _).run s = _
    rw [run_bind, hc]
    cases c with
    | gt =>
      show (searchPos key ks (i + 1)).run s = _
      rw [ih (i + 1) hr, firstNonGt_gt, List.getElem?_cons_succ, Nat.add_assoc, Nat.add_comm 1]
    | eq => rfl
    | lt => rfl

theorem run_noteMono (key : Edge α) (l : List Nat) (s : St α) :
    (noteMono key l).run s = .ok ((), { s with mono := s.mono && (match (cmpAll key l).run s with
      | .ok (cs, _) => isMono cs
      | .error _ => true) }) := rfl

/-- **The ordered lookup**: position and `found` as for the scan; the ghost flag is and-ed with
    the order consistency of this lookup. -/
theorem search_result (key : Edge α) (l : List Nat) {s : St α} {cs : List Ordering}
    (h : (cmpAll key l).run s = .ok (cs, s)) :
    (search key l).run s =
      .ok ((firstNonGt cs, cs[firstNonGt cs]? == some .eq),
        { s with mono := s.mono && isMono cs }) := by
  unfold search
  rw [run_bind, run_noteMono, h]
  show (searchPos key l 0).run { s with mono := s.mono && isMono cs } = _
  rw [searchPos_eq_scan key l 0 (cmpAll_mono_indep key l h _), Nat.zero_add]

/-- **Independence of the search structure.**  If after a lookup the ghost flag is (still) true,
    then every position at which a comparison-only descent over the same stored sequence can
    end, and every position comparing `Equal`, is the position the model's list scan returned. -/
theorem search_tree_independent (key : Edge α) (l : List Nat) {s s' : St α} {cs : List Ordering}
    {i : Nat} {found : Bool}
    (hs : (search key l).run s = .ok ((i, found), s')) (hm : s'.mono = true)
    (hc : (cmpAll key l).run s = .ok (cs, s)) :
    (∀ j, LocalBoundary cs j → j = i) ∧ (∀ j, cs[j]? = some .eq → j = i ∧ found = true) := by
  rw [search_result key l hc] at hs
  cases hs
  have hmono : isMono cs = true := by
    have : (s.mono && isMono cs) = true := hm
    rw [Bool.and_eq_true] at this
    exact this.2
  refine ⟨fun j hb => mono_boundary_unique cs hmono j hb, fun j hj => ?_⟩
  have hji := mono_eq_unique cs hmono j hj
  refine ⟨hji, ?_⟩
  rw [← hji, hj]
  rfl

/-- **`noteMono` is a ghost step**: it changes no field but `mono`, and it never fails. -/
theorem noteMono_ghost (key : Edge α) (l : List Nat) :
    (∀ s s' : St α, (noteMono key l).run s = .ok ((), s') → { s' with mono := s.mono } = s) ∧
    (∀ s : St α, ∃ s', (noteMono key l).run s = .ok ((), s')) := by
  refine ⟨fun s s' h => ?_, fun s => ⟨_, run_noteMono key l s⟩⟩
  rw [run_noteMono] at h
  cases h
  rfl

/-- **The ghost flag is sticky**: once false it stays false. -/
theorem mono_sticky (key : Edge α) (l : List Nat) {s s' : St α} (h0 : s.mono = false)
    (h : (noteMono key l).run s = .ok ((), s')) : s'.mono = false := by
  rw [run_noteMono] at h
  cases h
  show (s.mono && _) = false
  rw [h0]
  rfl

end Cav.C04Order

