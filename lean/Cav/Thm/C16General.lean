/-
  C16 (invalid input is rejected) for GENERAL INPUT IN GENERAL POSITION: a finite list of polygons
  (any number of components, holes, nesting, orientation, not necessarily x-monotone) with
  pairwise different vertex abscissae, in which two ring edges without a common vertex CROSS
  PROPERLY, is rejected by the sweep model over `XQ` with `.overlap k p`:

      `crossing_rejected : General polys → HasCrossing (ringOf polys) →
          ∃ k p, sweep (toInput polys) = .error (.overlap k p) ∧
                 sweepMon (toInput polys) = .error (.overlap k p) ∧ p is an input vertex`

  in particular no triangle list is ever returned (`crossing_no_triangles`).  WHERE
  (`crossing_rejected_where`): `p` is the vertex of the first event at which one of the
  look-ahead tests `willOverlapBot` / `willOverlapTop` is positive, and it lies strictly to the
  left of EVERY point in which two ring edges without a common vertex meet inside their abscissa
  ranges — the model never sweeps over a crossing.

  Hypotheses (`General`, decidable, rationals, orientation determinants only):
    * every polygon has at least three vertices; the abscissae of all vertices are pairwise
      different;
    * `NoSpike`: at a vertex whose neighbours lie on the same side the two edges are not collinear;
    * `NoTouch`: no vertex lies on a ring edge whose (open) abscissa range contains it.
  `HasCrossing`: ring edges `(i, nxt i)`, `(j, nxt j)` without a common vertex with
  `Cross a b c d` (`QuadCases.lean`: the end points of each lie strictly on different sides of
  the other).  Nothing else is assumed about the input: further crossings, touching-free
  overlaps of regions, wrong nesting parity are all allowed.

  Layers (all proven):
    (H1)+(H3) `xinv_handleNext`: under the invariant `XInv` (= the sweep invariant `Inv` of
         C04General + `Tested`: every pair of neighbours in the active list has passed its
         look-ahead test, `PairOK`) every event either succeeds and `XInv` holds again, or stops
         with `.overlap k p`, `p` the vertex of the event; no other error, no `.ok` without the
         invariant.  The structural guards of the handlers (`bot.cmp(top) == Equal`,
         `verticalIsCrossed`, the guard and the `lo < hi` check in front of the range query, the
         partner check `b.tPart == some top && t.bPart == some bot` and the `| _, _ =>` arm of
         the End handler) always pass under `XInv`; only `willOverlapBot/Top` can fail.
    (H2) `xinv_no_meet`: under `XInv` two active edges do not meet before the next event (and at
         its abscissa only in a common right end point): every pair that ever becomes
         neighbours was tested at that moment (Start: nesting partners; Bend: both neighbours of
         the updated edge; End: the two edges that become neighbours), and neighbours with the
         look-ahead fact cannot meet before one of them ends.
    `crossing_loop`: hence the event loop cannot get past a meeting point.

  Proof: `Cav/Lemmas/GenX*.lean` on top of the C04General development: `GenXGeom` (look-ahead
  fact, decoding of the tests under `NoTouch`, crossing = meeting point), `GenXFlat` (the flat
  event lemmas from `Tested` instead of `NoCross`), `GenXFailBend/End/Start` (the handlers from an
  arbitrary heap with a positive test), `GenXStepBend/End/Start`, `GenXLoop`, `GenXMain`.
-/
import Cav.Lemmas.GenXMain

set_option linter.unusedSimpArgs false
set_option linter.unusedVariables false

namespace Cav.C16General
open Cav Num Cav.Geo Cav.Sweep Cav.TriRun Cav.QuadRun Cav.QuadGeom
open Cav.GenGeom Cav.GenInv Cav.GenRing Cav.GenValid Cav.GenXGeom Cav.GenXStep Cav.GenXLoop Cav.GenXMain

/-- the input of the model for a list of rational polygons -/
abbrev toInput (polys : List (Array (Rat × Rat))) : List (Array (Pt XQ)) :=
  polys.map fun p => p.map fun q => F q.1 q.2

/-- **general position**: at least three vertices per polygon, pairwise different abscissae, no
    collinear edges at a local extremum of the abscissa, no vertex on another edge -/
def General (polys : List (Array (Rat × Rat))) : Prop :=
  (∀ p ∈ polys, 3 ≤ p.size) ∧ ((polys.flatMap Array.toList).map (·.1)).Nodup ∧
    NoSpike (ringOf polys) ∧ NoTouch (ringOf polys)

instance (polys : List (Array (Rat × Rat))) : Decidable (General polys) := by
  unfold General; exact inferInstance

/-- `p` is one of the input points -/
def IsInput (polys : List (Array (Rat × Rat))) (p : Pt XQ) : Prop :=
  ∃ z, z < (ringOf polys).n ∧ p = F ((ringOf polys).pt z).1 ((ringOf polys).pt z).2

/-! ### the main statements -/

/-- **a polygon list in general position with a proper crossing is rejected with `.overlap`** -/
theorem crossing_rejected (polys : List (Array (Rat × Rat))) (hg : General polys)
    (hc : HasCrossing (ringOf polys)) :
    ∃ k p, sweep (toInput polys) = .error (.overlap k p) ∧
      sweepMon (toInput polys) = .error (.overlap k p) ∧ IsInput polys p := by
  obtain ⟨h3, hx, hS, hT⟩ := hg
  obtain ⟨u, v, u', v', xm, hM⟩ := meetAt_of_crossing (ringOK polys h3 hx) hc
  obtain ⟨k, z, hz, -, r1, r2⟩ := rejected_of_meet polys h3 hx hS hT hM
  exact ⟨k, _, r1, r2, z, hz, rfl⟩

/-- no triangle list is returned -/
theorem crossing_no_triangles (polys : List (Array (Rat × Rat))) (hg : General polys)
    (hc : HasCrossing (ringOf polys)) :
    (∀ T, sweep (toInput polys) ≠ .ok T) ∧ (∀ T m, sweepMon (toInput polys) ≠ .ok (T, m)) := by
  obtain ⟨k, p, r1, r2, -⟩ := crossing_rejected polys hg hc
  constructor
  · intro T h; rw [r1] at h; cases h
  · intro T m h; rw [r2] at h; cases h

theorem F_inj {a b : Rat × Rat} (h : F a.1 a.2 = F b.1 b.2) : a.1 = b.1 := by
  have := congrArg Pt.x h
  simp only [F_x] at this
  exact XQ.fin.inj this

/-- **where**: the vertex at which the model stops lies strictly to the left of every point in
    which two ring edges without a common vertex meet inside their abscissa ranges -/
theorem crossing_rejected_where (polys : List (Array (Rat × Rat))) (hg : General polys)
    (hc : HasCrossing (ringOf polys)) :
    ∃ k z, z < (ringOf polys).n ∧
      sweep (toInput polys) = .error (.overlap k (F ((ringOf polys).pt z).1 ((ringOf polys).pt z).2)) ∧
      sweepMon (toInput polys) = .error (.overlap k (F ((ringOf polys).pt z).1 ((ringOf polys).pt z).2)) ∧
      ∀ u v u' v' xm, MeetAt (ringOf polys) u v u' v' xm → (ringOf polys).x z < xm := by
  obtain ⟨h3, hx, hS, hT⟩ := hg
  obtain ⟨u, v, u', v', xm, hM⟩ := meetAt_of_crossing (ringOK polys h3 hx) hc
  obtain ⟨k, z, hz, -, r1, r2⟩ := rejected_of_meet polys h3 hx hS hT hM
  refine ⟨k, z, hz, r1, r2, ?_⟩
  intro a b a' b' xm' hM'
  obtain ⟨k', z', hz', hzx', r1', -⟩ := rejected_of_meet polys h3 hx hS hT hM'
  have e : sweep (toInput polys) = .error (.overlap k' (Fq ((ringOf polys).pt z'))) := r1'
  have e0 : sweep (toInput polys) = .error (.overlap k (Fq ((ringOf polys).pt z))) := r1
  rw [e0] at e
  have e1 : Fq ((ringOf polys).pt z) = Fq ((ringOf polys).pt z') := by
    injection e with e; injection e
  have : (ringOf polys).x z = (ringOf polys).x z' := F_inj e1
  rw [this]; exact hzx'

/-! ### the layers -/

variable {R : RingQ}

/-- (H1)+(H3) **every event under `XInv`: success with `XInv`, or `.overlap` at its vertex** -/
theorem xinv_handleNext (hS : NoSpike R) (hT : NoTouch R) {s : St XQ} {xs : Rat} {ivs : List IV}
    (hX : XInv R s xs ivs) {w : Nat} {es : List Nat} {rest : List (Nat × List Nat)}
    (hev : s.events = (w, es) :: rest) :
    (∃ s', (handleNext : SM XQ Unit).run s = .ok ((), s') ∧ ∃ ivs', XInv R s' (R.x w) ivs') ∨
      ∃ k, (handleNext : SM XQ Unit).run s = .error (.overlap k (F (R.pt w).1 (R.pt w).2)) :=
  xstep hS hT hX hev

/-- (H2) **under `XInv` two active edges do not meet before the next event** -/
theorem xinv_no_meet {s : St XQ} {xs : Rat} {ivs : List IV} (hX : XInv R s xs ivs)
    {w : Nat} {es : List Nat} {rest : List (Nat × List Nat)} (hev : s.events = (w, es) :: rest)
    {a b : AE} (ha : a ∈ flatE ivs) (hb : b ∈ flatE ivs) (hne : a ≠ b) {x' : Rat} (h1 : xs < x')
    (h2 : x' ≤ R.x w)
    (he : lineY (R.pt a.lv) (R.pt a.rv) x' = lineY (R.pt b.lv) (R.pt b.rv) x') : a.rv = b.rv :=
  no_meet hX hev ha hb hne h1 h2 he

/-- the event loop from a state with `XInv` to the left of a meeting point -/
theorem crossing_loop (hS : NoSpike R) (hT : NoTouch R) {u v u' v' : Nat} {xm : Rat}
    (hM : MeetAt R u v u' v' xm) {s : St XQ} {xs : Rat} {ivs : List IV} (hX : XInv R s xs ivs)
    (hxm : xs < xm) :
    ∃ k z, z < R.n ∧ R.x z < xm ∧
      (loop (s.verts.size + 1)).run s = .error (.overlap k (F (R.pt z).1 (R.pt z).2)) :=
  xloop hS hT hM (s.verts.size + 1) s xs ivs hX
    (by rw [hX.inv.ring.size]; exact Nat.lt_succ_of_le (GenLoop.meas_le xs)) hxm

/-! ### non-vacuity: crossing inputs evaluated by the kernel, the hypotheses checked by `decide`,
    and the theorems applied -/

/-- two triangles whose boundaries cross -/
def CrossTri : List (Array (Rat × Rat)) := [#[(0, 0), (6, 1), (3, 5)], #[(2, 2), (8, 3), (5, -2)]]

/-- a quadrilateral and a "hole" that sticks out through its right edge -/
def CrossHole : List (Array (Rat × Rat)) :=
  [#[(0, 0), (10, 1), (9, 9), (1, 8)], #[(3, 3), (12, 4), (5, 6)]]

/-- nesting depth three, the crossing deep inside: the island sticks out of the hole -/
def CrossNest : List (Array (Rat × Rat)) :=
  [#[(0, 0), (12, 1), (11, 11), (1, 10)], #[(2, 2), (10, 3), (6, 9)], #[(5, 4), (7, 9 / 2), (13 / 2, 19 / 2)]]

/-- where the model stops -/
def stopsAt (r : Except (SErr XQ) (List (Pt XQ × Pt XQ × Pt XQ))) (k : PType) (p : Pt XQ) : Bool :=
  match r with
  | .error (.overlap k' q) => decide (k' = k) && decide (q = p)
  | _ => false

example : General CrossTri ∧ HasCrossing (ringOf CrossTri) := by decide +kernel
example : General CrossHole ∧ HasCrossing (ringOf CrossHole) := by decide +kernel
example : General CrossNest ∧ HasCrossing (ringOf CrossNest) := by decide +kernel

-- the model on these inputs
example : stopsAt (sweep (toInput CrossTri)) .start (F 2 2) = true := by decide +kernel
example : stopsAt (sweep (toInput CrossHole)) .bend (F 9 9) = true := by decide +kernel
example : stopsAt (sweep (toInput CrossNest)) .bend (F 6 9) = true := by decide +kernel

-- the theorems on these inputs
example : ∃ k p, sweep (toInput CrossTri) = .error (.overlap k p) ∧
    sweepMon (toInput CrossTri) = .error (.overlap k p) ∧ IsInput CrossTri p :=
  crossing_rejected CrossTri (by decide +kernel) (by decide +kernel)
example : ∃ k p, sweep (toInput CrossHole) = .error (.overlap k p) ∧
    sweepMon (toInput CrossHole) = .error (.overlap k p) ∧ IsInput CrossHole p :=
  crossing_rejected CrossHole (by decide +kernel) (by decide +kernel)
example : ∃ k p, sweep (toInput CrossNest) = .error (.overlap k p) ∧
    sweepMon (toInput CrossNest) = .error (.overlap k p) ∧ IsInput CrossNest p :=
  crossing_rejected CrossNest (by decide +kernel) (by decide +kernel)
example : (∀ T, sweep (toInput CrossNest) ≠ .ok T) ∧ (∀ T m, sweepMon (toInput CrossNest) ≠ .ok (T, m)) :=
  crossing_no_triangles CrossNest (by decide +kernel) (by decide +kernel)

-- the location statement instantiated
example : ∃ k z, z < (ringOf CrossNest).n ∧
    sweep (toInput CrossNest) = .error (.overlap k (F ((ringOf CrossNest).pt z).1 ((ringOf CrossNest).pt z).2)) ∧
    sweepMon (toInput CrossNest) = .error (.overlap k (F ((ringOf CrossNest).pt z).1 ((ringOf CrossNest).pt z).2)) ∧
    ∀ u v u' v' xm, MeetAt (ringOf CrossNest) u v u' v' xm → (ringOf CrossNest).x z < xm :=
  crossing_rejected_where CrossNest (by decide +kernel) (by decide +kernel)

-- the valid inputs of `C04General.lean` are in general position and have no crossing
example : General [#[(0, 0), (10, 1), (9, 9), (1, 8)], #[(3, 3), (6, 4), (5, 6)]] ∧
    ¬ HasCrossing (ringOf [#[(0, 0), (10, 1), (9, 9), (1, 8)], #[(3, 3), (6, 4), (5, 6)]]) := by
  decide +kernel

end Cav.C16General
