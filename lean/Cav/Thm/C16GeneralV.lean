/-
  C16 (invalid input is rejected) WITHOUT THE HYPOTHESIS OF DISTINCT ABSCISSAE: a finite list of
  polygons (any number of components, holes, nesting, orientation) with pairwise different
  VERTICES — VERTICAL EDGES and several vertices on one vertical line allowed, lattice-like
  input — in which two ring edges without a common vertex CROSS PROPERLY is rejected by the
  sweep model over `XQ` with `.overlap k p`, `p` an input point:

      `crossing_rejected_V : GeneralV polys → HasCrossing (ringOf polys) →
          ∃ k p, sweep (toInput polys) = .error (.overlap k p) ∧
                 sweepMon (toInput polys) = .error (.overlap k p) ∧ IsInput polys p`

  and no triangle list is ever returned (`crossing_no_triangles_V`).  WHERE
  (`crossing_rejected_where_V`): in the sheared picture the vertex at which the model stops lies
  strictly to the left of every point in which two edges without a common vertex meet inside
  their abscissa ranges — the model never sweeps, in the lexicographic order, over a crossing.

  Hypotheses (`GeneralV`, decidable, rationals, orientation determinants and lexicographic
  comparisons only):
    * every polygon has at least three vertices; all vertices of all polygons are different points;
    * `NoSpikeV`: at a vertex whose two neighbours are both lexicographically smaller or both
      greater the two edges are not collinear;
    * `NoTouchV`: no vertex lies on a ring edge strictly between its end points (lexicographic
      order; the closed segment minus its end points, vertical edges included).
  Nothing else is assumed: further crossings, overlapping regions, wrong nesting are allowed.
  `HasCrossing` (`GenXMain.lean`): ring edges `(i, nxt i)`, `(j, nxt j)` without a common vertex
  whose end points lie strictly on different sides of each other.

  The additional rejection paths of input with vertical edges are covered: `verticalIsCrossed`
  firing at a Bend or a Start vertex (`.overlap .bend` / `.overlap .start`), and the `ofEq x1 x2`
  branch of `willOverlapBot/Top`.

  METHOD (`Cav/Lemmas/GenXV*.lean`).  The shear `(x, y) ↦ (x + ε y, y)` of `C04GeneralV`; the
  invariant `XInvV` = `InvV` (heap facts of the original ring, geometric facts of the sheared ring
  at the sheared sweep abscissa) + `Tested` on the sheared ring (every pair of neighbours in the
  active list passed its look-ahead test) + `ordM`: THE ACTIVE LIST IS ORDERED AS THE MODEL READS
  IT at the original sweep abscissa (`BelowM`: heights `yv`, a vertical edge read at its upper
  end, ties only in a common end point on the sweep line).  For invalid input the last clause is
  not a consequence of the order of the sheared ring (the model reads the edges below the sweep
  vertex in the sheared past), so it is kept separately: inside a column nothing changes, across
  columns all active edges are not vertical and the look-ahead facts of the sheared ring read in
  the original ring (`pairOK_orig`) give the order (`ordM_advance`).  The tests of the model on
  the ORIGINAL points are decoded in reverse under `NoTouchV` into look-ahead facts of the sheared
  ring (`wobX_decode`, `wotX_decode`); a negative `verticalIsCrossed` places a vertical new edge
  (`tie_top`, `ordM_bend`, `ordM_start`).  Heap level: `GenXVFail*.lean` (`verticalIsCrossed`
  firing: `run_vic_hit`, `bend_vic`, `start_vic`; positive look-ahead tests with possibly vertical
  new edges: `bend_failV`, `start_failV`).

  Layers (all proven):
    (L1) `XInvV`, `xinvV_bend`: the Bend event (old and new edge may be vertical): success with
         `XInvV`, or `.overlap`;
    (L2)+(L3) `xinvV_handleNext`: every event (End with vertical edges, Start with a vertical upper
         edge, `verticalIsCrossed` firing or not): success with `XInvV`, or `.overlap` at its
         vertex, nothing else; `xinvV_no_meet`; `crossing_loop_V`;
    (L4) `crossing_rejected_V` (and `general_total_V` in `C15GeneralV.lean`).
-/
import Cav.Lemmas.GenXVMain
import Cav.Thm.C16General

set_option linter.unusedSimpArgs false
set_option linter.unusedVariables false

namespace Cav.C16GeneralV
open Cav Num Cav.Geo Cav.Sweep Cav.TriRun Cav.QuadRun Cav.QuadGeom
open Cav.GenGeom Cav.GenInv Cav.GenRing Cav.GenOrder Cav.GenLoop Cav.GenVShear Cav.GenVBridge Cav.GenVInv
open Cav.GenXGeom Cav.GenXLoop Cav.GenXMain Cav.GenXV

/-- the input of the model for a list of rational polygons -/
abbrev toInput (polys : List (Array (Rat × Rat))) : List (Array (Pt XQ)) :=
  polys.map fun p => p.map fun q => F q.1 q.2

/-- **the strictness hypothesis, equal abscissae and vertical edges allowed**: at least three
    vertices per polygon, pairwise different vertices, no collinear edges at a local extremum of
    the lexicographic order, no vertex on another edge -/
def GeneralV (polys : List (Array (Rat × Rat))) : Prop :=
  (∀ p ∈ polys, 3 ≤ p.size) ∧ (polys.flatMap Array.toList).Nodup ∧
    NoSpikeV (ringOf polys) ∧ NoTouchV (ringOf polys)

instance (polys : List (Array (Rat × Rat))) : Decidable (GeneralV polys) := by
  unfold GeneralV; exact inferInstance

/-- `p` is one of the input points -/
def IsInput (polys : List (Array (Rat × Rat))) (p : Pt XQ) : Prop :=
  ∃ z, z < (ringOf polys).n ∧ p = F ((ringOf polys).pt z).1 ((ringOf polys).pt z).2

/-! ### (L4) the main statements -/

/-- **a polygon list with a proper crossing is rejected with `.overlap`** — no hypothesis on the
    abscissae: vertical edges and vertices on a common vertical line are allowed -/
theorem crossing_rejected_V (polys : List (Array (Rat × Rat))) (hg : GeneralV polys)
    (hc : HasCrossing (ringOf polys)) :
    ∃ k p, sweep (toInput polys) = .error (.overlap k p) ∧
      sweepMon (toInput polys) = .error (.overlap k p) ∧ IsInput polys p := by
  obtain ⟨h3, hnd, hS, hT⟩ := hg
  obtain ⟨k, z, hz, r1, r2⟩ := rejectedV_of_crossing polys h3 hnd hS hT hc
  exact ⟨k, _, r1, r2, z, hz, rfl⟩

/-- no triangle list is returned -/
theorem crossing_no_triangles_V (polys : List (Array (Rat × Rat))) (hg : GeneralV polys)
    (hc : HasCrossing (ringOf polys)) :
    (∀ T, sweep (toInput polys) ≠ .ok T) ∧ (∀ T m, sweepMon (toInput polys) ≠ .ok (T, m)) := by
  obtain ⟨k, p, r1, r2, -⟩ := crossing_rejected_V polys hg hc
  constructor
  · intro T h; rw [r1] at h; cases h
  · intro T m h; rw [r2] at h; cases h

/-- the sheared ring used by the proof: distinct abscissae in lexicographic order, the same
    orientation determinants; no validity -/
theorem general_shear (polys : List (Array (Rat × Rat))) (hg : GeneralV polys) :
    ∃ ε, ShX (ringOf polys) ε (GenVAccept.shearVerts ε (ringOf polys)) :=
  shX_of_general polys hg.1 hg.2.1 hg.2.2.1 hg.2.2.2

theorem F_inj {a b : Rat × Rat} (h : F a.1 a.2 = F b.1 b.2) : a = b := by
  have h1 := congrArg Pt.x h
  have h2 := congrArg Pt.y h
  simp only [F_x, F_y] at h1 h2
  exact Prod.ext (XQ.fin.inj h1) (XQ.fin.inj h2)

/-- **where**: in the sheared picture (distinct abscissae in lexicographic order, the same
    orientation determinants) the vertex at which the model stops lies strictly to the left of
    every point in which two edges without a common vertex meet inside their abscissa ranges —
    the model never sweeps, in the lexicographic order, over a crossing -/
theorem crossing_rejected_where_V (polys : List (Array (Rat × Rat))) (hg : GeneralV polys)
    (hc : HasCrossing (ringOf polys)) :
    ∃ ε, ShX (ringOf polys) ε (GenVAccept.shearVerts ε (ringOf polys)) ∧ ∃ k z, z < (ringOf polys).n ∧
      sweep (toInput polys) = .error (.overlap k (F ((ringOf polys).pt z).1 ((ringOf polys).pt z).2)) ∧
      sweepMon (toInput polys) = .error (.overlap k (F ((ringOf polys).pt z).1 ((ringOf polys).pt z).2)) ∧
      ∀ u v u' v' xm, MeetAt (shearRing ε (ringOf polys)) u v u' v' xm →
        (shearRing ε (ringOf polys)).x z < xm := by
  obtain ⟨ε, hSh⟩ := general_shear polys hg
  obtain ⟨u, v, u', v', xm, hM⟩ := meetAt_of_crossing hSh.ring (hasCrossing_shear (ε := ε) hc)
  obtain ⟨k, z, hz, -, r1, r2⟩ := rejectedV_of_meet polys hg.1 hSh hM
  refine ⟨ε, hSh, k, z, hz, r1, r2, ?_⟩
  intro a b a' b' xm' hM'
  obtain ⟨k', z', hz', hzx', r1', -⟩ := rejectedV_of_meet polys hg.1 hSh hM'
  have e : sweep (toInput polys) = .error (.overlap k' (Fq ((ringOf polys).pt z'))) := r1'
  have e0 : sweep (toInput polys) = .error (.overlap k (Fq ((ringOf polys).pt z))) := r1
  rw [e0] at e
  have e1 : Fq ((ringOf polys).pt z) = Fq ((ringOf polys).pt z') := by
    injection e with e; injection e
  have : z = z' := hSh.pt_inj hz hz' (F_inj e1)
  rw [this]; exact hzx'

/-! ### the layers -/

variable {R : RingQ} {ε : Rat} {Vε : Array (Vtx XQ)}

/-- (L1) **the Bend event under `XInvV`** (the old and the new edge may be vertical): success with
    `XInvV`, or `.overlap` at the vertex (`verticalIsCrossed` or a look-ahead test) -/
theorem xinvV_bend (hSh : ShX R ε Vε) {s : St XQ} {xs X : Rat} {ivs : List IV}
    (hX : XInvV R ε s xs X ivs) {w : Nat} {es : List Nat} {rest : List (Nat × List Nat)}
    (hev : s.events = (w, es) :: rest) {u w' : Nat}
    (hnb : (R.prv w = u ∧ R.nxt w = w') ∨ (R.prv w = w' ∧ R.nxt w = u))
    (hxu : lexLt (R.pt u) (R.pt w)) (hxw' : lexLt (R.pt w) (R.pt w')) :
    (∃ s', (handleNext : SM XQ Unit).run s = .ok ((), s') ∧
      ∃ ivs', XInvV R ε s' ((shearRing ε R).x w) (R.x w) ivs') ∨
      ∃ k, (handleNext : SM XQ Unit).run s = .error (.overlap k (F (R.pt w).1 (R.pt w).2)) := by
  have hq := hX.inv.q
  rw [hev] at hq
  have hwn : w < R.n := (hq.gt (w, es) List.mem_cons_self).1
  have hun : u < R.n := by
    rcases hnb with ⟨e, -⟩ | ⟨-, e⟩
    · rw [← e]; exact hSh.ring.prv_lt w hwn
    · rw [← e]; exact hSh.ring.nxt_lt w hwn
  have hw'n : w' < R.n := by
    rcases hnb with ⟨-, e⟩ | ⟨e, -⟩
    · rw [← e]; exact hSh.ring.nxt_lt w hwn
    · rw [← e]; exact hSh.ring.prv_lt w hwn
  exact xstepV_bend hSh hX hev hnb ((hSh.key u w hun hwn).mpr hxu) ((hSh.key w w' hwn hw'n).mpr hxw')

/-- (L2)+(L3) **every event under `XInvV`: success with `XInvV`, or `.overlap` at its vertex** —
    vertical edges, equal abscissae, `verticalIsCrossed` included -/
theorem xinvV_handleNext (hSh : ShX R ε Vε) {s : St XQ} {xs X : Rat} {ivs : List IV}
    (hX : XInvV R ε s xs X ivs) {w : Nat} {es : List Nat} {rest : List (Nat × List Nat)}
    (hev : s.events = (w, es) :: rest) :
    (∃ s', (handleNext : SM XQ Unit).run s = .ok ((), s') ∧
      ∃ ivs', XInvV R ε s' ((shearRing ε R).x w) (R.x w) ivs') ∨
      ∃ k, (handleNext : SM XQ Unit).run s = .error (.overlap k (F (R.pt w).1 (R.pt w).2)) :=
  xstepV hSh hX hev

/-- **under `XInvV` two active edges of the sheared ring do not meet before the next event** -/
theorem xinvV_no_meet {s : St XQ} {xs X : Rat} {ivs : List IV} (hX : XInvV R ε s xs X ivs)
    {w : Nat} {es : List Nat} {rest : List (Nat × List Nat)} (hev : s.events = (w, es) :: rest)
    {a b : AE} (ha : a ∈ flatE ivs) (hb : b ∈ flatE ivs) (hne : a ≠ b) {x' : Rat} (h1 : xs < x')
    (h2 : x' ≤ (shearRing ε R).x w)
    (he : hY (shearRing ε R) a x' = hY (shearRing ε R) b x') : a.rv = b.rv :=
  no_meetV hX hev ha hb hne h1 h2 he

/-- the event loop from a state with `XInvV` to the left of a meeting point of the sheared ring -/
theorem crossing_loop_V (hSh : ShX R ε Vε) {u v u' v' : Nat} {xm : Rat}
    (hM : MeetAt (shearRing ε R) u v u' v' xm) {s : St XQ} {xs X : Rat} {ivs : List IV}
    (hX : XInvV R ε s xs X ivs) (hxm : xs < xm) :
    ∃ k z, z < R.n ∧ (shearRing ε R).x z < xm ∧
      (loop (s.verts.size + 1)).run s = .error (.overlap k (F (R.pt z).1 (R.pt z).2)) :=
  xloopV hSh hM (s.verts.size + 1) s xs X ivs hX
    (by rw [hX.inv.vget.1]; exact Nat.lt_succ_of_le (meas_le (R := shearRing ε R) xs)) hxm

/-- the event loop from a state with `XInvV`: it runs to the end or stops with `.overlap` -/
theorem xinvV_loop (hSh : ShX R ε Vε) {s : St XQ} {xs X : Rat} {ivs : List IV}
    (hX : XInvV R ε s xs X ivs) :
    (∃ s', (loop (s.verts.size + 1)).run s = .ok ((), s') ∧ s'.mono = true) ∨
      ∃ k z, z < R.n ∧ (loop (s.verts.size + 1)).run s = .error (.overlap k (F (R.pt z).1 (R.pt z).2)) :=
  xloopV_total hSh (s.verts.size + 1) s xs X ivs hX
    (by rw [hX.inv.vget.1]; exact Nat.lt_succ_of_le (meas_le (R := shearRing ε R) xs))

/-! ### non-vacuity: crossing inputs with equal abscissae and vertical edges, evaluated by the
    kernel; the hypotheses checked by `decide`; the theorems applied -/

/-- the bow-tie on the unit square: two vertical edges, the diagonals cross -/
def BowTie : List (Array (Rat × Rat)) := [#[(0, 0), (1, 1), (1, 0), (0, 1)]]

/-- two overlapping axis-parallel rectangles -/
def TwoRectX : List (Array (Rat × Rat)) :=
  [#[(0, 0), (2, 0), (2, 2), (0, 2)], #[(1, 1), (3, 1), (3, 3), (1, 3)]]

/-- an L-shape crossed by a rectangle -/
def LRect : List (Array (Rat × Rat)) :=
  [#[(0, 0), (4, 0), (4, 2), (2, 2), (2, 4), (0, 4)], #[(1, 1), (6, 1), (6, 3), (1, 3)]]

/-- a rectangle and a triangle whose vertical edge crosses the upper edge of the rectangle: the
    crossing is found by `verticalIsCrossed` -/
def VertCross : List (Array (Rat × Rat)) :=
  [#[(0, 0), (4, 0), (4, 2), (0, 2)], #[(2, 1), (3, 3 / 2), (2, 3)]]

/-- a self-crossing quadrilateral whose vertical edge is crossed: found by `verticalIsCrossed` at
    the Bend vertex `(2, 1/2)` -/
def VertBend : List (Array (Rat × Rat)) := [#[(1, 1), (2, 1 / 2), (2, 3), (5 / 2, 1)]]

/-- where the model stops -/
def stopsAt (r : Except (SErr XQ) (List (Pt XQ × Pt XQ × Pt XQ))) (k : PType) (p : Pt XQ) : Bool :=
  match r with
  | .error (.overlap k' q) => decide (k' = k) && decide (q = p)
  | _ => false

example : GeneralV BowTie ∧ HasCrossing (ringOf BowTie) := by decide +kernel
example : GeneralV TwoRectX ∧ HasCrossing (ringOf TwoRectX) := by decide +kernel
example : GeneralV LRect ∧ HasCrossing (ringOf LRect) := by decide +kernel
example : GeneralV VertCross ∧ HasCrossing (ringOf VertCross) := by decide +kernel
example : GeneralV VertBend ∧ HasCrossing (ringOf VertBend) := by decide +kernel

-- none of them is covered by `C16General` (equal abscissae)
example : ¬ C16General.General BowTie ∧ ¬ C16General.General TwoRectX ∧ ¬ C16General.General LRect := by
  decide +kernel

-- the model on these inputs
example : stopsAt (sweep (toInput BowTie)) .bend (F 0 1) = true := by decide +kernel
example : stopsAt (sweep (toInput TwoRectX)) .start (F 1 1) = true := by decide +kernel
example : stopsAt (sweep (toInput LRect)) .start (F 2 2) = true := by decide +kernel
example : stopsAt (sweep (toInput VertCross)) .start (F 2 1) = true := by decide +kernel
example : stopsAt (sweep (toInput VertBend)) .bend (F 2 (1 / 2)) = true := by decide +kernel

-- the theorems on these inputs
example : ∃ k p, sweep (toInput BowTie) = .error (.overlap k p) ∧
    sweepMon (toInput BowTie) = .error (.overlap k p) ∧ IsInput BowTie p :=
  crossing_rejected_V BowTie (by decide +kernel) (by decide +kernel)
example : ∃ k p, sweep (toInput TwoRectX) = .error (.overlap k p) ∧
    sweepMon (toInput TwoRectX) = .error (.overlap k p) ∧ IsInput TwoRectX p :=
  crossing_rejected_V TwoRectX (by decide +kernel) (by decide +kernel)
example : ∃ k p, sweep (toInput LRect) = .error (.overlap k p) ∧
    sweepMon (toInput LRect) = .error (.overlap k p) ∧ IsInput LRect p :=
  crossing_rejected_V LRect (by decide +kernel) (by decide +kernel)
example : ∃ k p, sweep (toInput VertBend) = .error (.overlap k p) ∧
    sweepMon (toInput VertBend) = .error (.overlap k p) ∧ IsInput VertBend p :=
  crossing_rejected_V VertBend (by decide +kernel) (by decide +kernel)
example : ∃ ε, ShX (ringOf TwoRectX) ε (GenVAccept.shearVerts ε (ringOf TwoRectX)) ∧ ∃ k z, z < (ringOf TwoRectX).n ∧
    sweep (toInput TwoRectX) = .error (.overlap k (F ((ringOf TwoRectX).pt z).1 ((ringOf TwoRectX).pt z).2)) ∧
    sweepMon (toInput TwoRectX) = .error (.overlap k (F ((ringOf TwoRectX).pt z).1 ((ringOf TwoRectX).pt z).2)) ∧
    ∀ u v u' v' xm, MeetAt (shearRing ε (ringOf TwoRectX)) u v u' v' xm →
      (shearRing ε (ringOf TwoRectX)).x z < xm :=
  crossing_rejected_where_V TwoRectX (by decide +kernel) (by decide +kernel)
example : (∀ T, sweep (toInput VertCross) ≠ .ok T) ∧ (∀ T m, sweepMon (toInput VertCross) ≠ .ok (T, m)) :=
  crossing_no_triangles_V VertCross (by decide +kernel) (by decide +kernel)

-- a valid input (rectangle with a rectangular hole) satisfies the hypotheses and has no crossing
example : GeneralV [#[(0, 0), (4, 0), (4, 4), (0, 4)], #[(1, 1), (3, 1), (3, 3), (1, 3)]] ∧
    ¬ HasCrossing (ringOf [#[(0, 0), (4, 0), (4, 4), (0, 4)], #[(1, 1), (3, 1), (3, 3), (1, 3)]]) := by
  decide +kernel

end Cav.C16GeneralV
