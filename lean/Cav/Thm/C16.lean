/-
  C16 — local soundness of the crossing test on non-vertical finite edges.

  The overlap test of the triangulator compares the ordinates of two edges (`yExtrap`, read
  through `yAt`/`cmpAt`) at the two ends of a common abscissa range.  Over `XQ` with finite
  coordinates `yExtrap` is, inside the x-range of a non-vertical edge, the affine interpolation
  `yOn`; two affine functions that are ordered the same way at both ends of an interval do not
  cross inside it, and a proper crossing reverses the order.

  Model path used: `yExtrap`, `Pt.gt`/`Pt.cmp`.  `Num` operations used: `- / * +`, `ofEq`,
  `ofLe`, `ofGe`, `ofCmp`, `one`.
-/
import Cav.Lemmas.GeomXQ
import Mathlib.Tactic.LinearCombination

namespace Cav.C16
open Cav Num Cav.Geo

/-- a segment given by its left and right end point -/
abbrev Seg := (Rat × Rat) × (Rat × Rat)

/-- ordinate of the line through the end points of `e` at abscissa `x` (the expression
    `(1 - c) * y₁ + c * y₂`, `c = (x - x₁) / (x₂ - x₁)` of `y_extrap`) -/
def yOn (e : Seg) (x : Rat) : Rat :=
  (1 - (x - e.1.1) / (e.2.1 - e.1.1)) * e.1.2 + (x - e.1.1) / (e.2.1 - e.1.1) * e.2.2

/-- slope of a non-vertical segment -/
def slope (e : Seg) : Rat := (e.2.2 - e.1.2) / (e.2.1 - e.1.1)

/-- `yOn` is affine with slope `slope e` through the left end point -/
theorem yOn_affine (e : Seg) (h : e.1.1 < e.2.1) (x : Rat) :
    yOn e x = e.1.2 + slope e * (x - e.1.1) := by
  have hne : e.2.1 - e.1.1 ≠ 0 := sub_ne_zero.mpr (ne_of_gt h)
  unfold yOn slope
  field_simp
  ring

theorem yOn_left (e : Seg) : yOn e e.1.1 = e.1.2 := by
  unfold yOn; simp

theorem yOn_right (e : Seg) (h : e.1.1 < e.2.1) : yOn e e.2.1 = e.2.2 := by
  have hne : e.2.1 - e.1.1 ≠ 0 := sub_ne_zero.mpr (ne_of_gt h)
  unfold yOn
  rw [div_self hne]; ring

/-! ### closed form of `yExtrap` on finite arguments -/

/-- general closed form: sort the points lexicographically, then the vertical branch, the two
    clamping branches and the interpolation (`yExtrapQ`) -/
theorem yExtrap_fin (a b c d x : Rat) (right : Bool) :
    yExtrap (F a b) (F c d) (.fin x) right = .fin (yExtrapQ (a, b) (c, d) x right) :=
  Geo.yExtrap_fin a b c d x right

/-- `yExtrapQ` spelled out -/
example (p1 p2 : Rat × Rat) (x : Rat) (right : Bool) :
    yExtrapQ p1 p2 x right =
      (let l := if lexLt p2 p1 then p2 else p1
       let r := if lexLt p2 p1 then p1 else p2
       if x = l.1 ∧ x = r.1 then (if right then r.2 else l.2)
       else if x ≤ l.1 then l.2
       else if r.1 ≤ x then r.2
       else (1 - (x - l.1) / (r.1 - l.1)) * l.2 + (x - l.1) / (r.1 - l.1) * r.2) := rfl

/-- `yExtrap` is symmetric in its two point arguments (it sorts them) -/
theorem yExtrap_symm (a b c d : Rat) (x : XQ) (right : Bool) :
    yExtrap (F a b) (F c d) x right = yExtrap (F c d) (F a b) x right :=
  Geo.yExtrap_symm a b c d x right

/-- inside the closed x-range of a non-vertical edge, `yExtrap` is the interpolation `yOn`
    (at the two ends the clamping branches return the end point ordinates, which `yOn` also
    takes there) -/
theorem yExtrap_eq_yOn (e : Seg) (h : e.1.1 < e.2.1) (x : Rat) (hx0 : e.1.1 ≤ x)
    (hx1 : x ≤ e.2.1) (right : Bool) :
    yExtrap (F e.1.1 e.1.2) (F e.2.1 e.2.2) (.fin x) right = .fin (yOn e x) := by
  obtain ⟨⟨a, b⟩, ⟨c, d⟩⟩ := e
  simp only at h hx0 hx1 ⊢
  have hs : ¬ lexLt (c, d) (a, b) := by
    unfold lexLt; simp only [not_or, not_and, not_lt]
    exact ⟨le_of_lt h, fun h' => absurd h' (ne_of_gt h)⟩
  rw [yExtrap_sorted a b c d x right hs]
  congr 1
  have h1 : ¬ (x = a ∧ x = c) := fun ⟨h1, h2⟩ => absurd (h1.symm.trans h2) (ne_of_lt h)
  simp only [h1, if_false]
  by_cases h2 : x ≤ a
  · have : x = a := le_antisymm h2 hx0
    subst this
    simp only [le_refl, if_true]
    exact (yOn_left ((x, b), (c, d))).symm
  · simp only [h2, if_false]
    by_cases h3 : c ≤ x
    · have : x = c := le_antisymm hx1 h3
      subst this
      simp only [le_refl, if_true]
      exact (yOn_right ((a, b), (x, d)) h).symm
    · simp only [h3, if_false]
      rfl

/-- clamping branch: left of the edge `yExtrap` returns the ordinate of the left end point -/
theorem yExtrap_clamp_left (e : Seg) (h : e.1.1 < e.2.1) (x : Rat) (hx : x ≤ e.1.1)
    (right : Bool) :
    yExtrap (F e.1.1 e.1.2) (F e.2.1 e.2.2) (.fin x) right = .fin e.1.2 := by
  obtain ⟨⟨a, b⟩, ⟨c, d⟩⟩ := e
  simp only at h hx ⊢
  have hs : ¬ lexLt (c, d) (a, b) := by
    unfold lexLt; simp only [not_or, not_and, not_lt]
    exact ⟨le_of_lt h, fun h' => absurd h' (ne_of_gt h)⟩
  rw [yExtrap_sorted a b c d x right hs]
  have h1 : ¬ (x = a ∧ x = c) := fun ⟨h1, h2⟩ => absurd (h1.symm.trans h2) (ne_of_lt h)
  simp [h1, hx]

/-- clamping branch: right of the edge `yExtrap` returns the ordinate of the right end point -/
theorem yExtrap_clamp_right (e : Seg) (h : e.1.1 < e.2.1) (x : Rat) (hx : e.2.1 ≤ x)
    (right : Bool) :
    yExtrap (F e.1.1 e.1.2) (F e.2.1 e.2.2) (.fin x) right = .fin e.2.2 := by
  obtain ⟨⟨a, b⟩, ⟨c, d⟩⟩ := e
  simp only at h hx ⊢
  have hs : ¬ lexLt (c, d) (a, b) := by
    unfold lexLt; simp only [not_or, not_and, not_lt]
    exact ⟨le_of_lt h, fun h' => absurd h' (ne_of_gt h)⟩
  rw [yExtrap_sorted a b c d x right hs]
  have h1 : ¬ (x = a ∧ x = c) := fun ⟨h1, h2⟩ => absurd (h1.symm.trans h2) (ne_of_lt h)
  have h2 : ¬ x ≤ a := not_le.mpr (lt_of_lt_of_le h hx)
  simp [h1, h2, hx]

/-- vertical branch: on a vertical edge with `y₁ ≤ y₂`, at its abscissa `yExtrap` returns the
    upper end for `right = true` and the lower end otherwise -/
theorem yExtrap_vertical (a b d : Rat) (hbd : b ≤ d) (right : Bool) :
    yExtrap (F a b) (F a d) (.fin a) right = .fin (if right then d else b) := by
  have hs : ¬ lexLt (a, d) (a, b) := by unfold lexLt; simpa using hbd
  rw [yExtrap_sorted a b a d a right hs]
  simp

/-! ### affine functions ordered at both ends do not cross -/

/-- **no crossing**: if `e₁` is not above `e₂` at `x₀` and strictly below at `x₁ > x₀`, it is
    strictly below on all of `(x₀, x₁]`. -/
theorem ordered_at_both_ends_no_cross (e1 e2 : Seg) (h1 : e1.1.1 < e1.2.1) (h2 : e2.1.1 < e2.2.1)
    (x0 x1 : Rat) (h01 : x0 < x1)
    (hl : yOn e1 x0 ≤ yOn e2 x0) (hr : yOn e1 x1 < yOn e2 x1) :
    ∀ x, x0 < x → x ≤ x1 → yOn e1 x < yOn e2 x := by
  intro x hx0 hx1
  rw [yOn_affine e1 h1] at hl hr ⊢
  rw [yOn_affine e2 h2] at hl hr ⊢
  -- g x = (1 - t) g x0 + t g x1 with t = (x - x0) / (x1 - x0) ∈ (0, 1]
  have hd : 0 < x1 - x0 := sub_pos.mpr h01
  -- with g x := value of e2 minus value of e1 at x
  generalize hg0 : (e2.1.2 + slope e2 * (x0 - e2.1.1)) - (e1.1.2 + slope e1 * (x0 - e1.1.1)) = g0
  generalize hg1 : (e2.1.2 + slope e2 * (x1 - e2.1.1)) - (e1.1.2 + slope e1 * (x1 - e1.1.1)) = g1
  generalize hg : (e2.1.2 + slope e2 * (x - e2.1.1)) - (e1.1.2 + slope e1 * (x - e1.1.1)) = g
  have key : (x1 - x0) * g = (x1 - x) * g0 + (x - x0) * g1 := by
    rw [← hg, ← hg0, ← hg1]; ring
  have hl' : 0 ≤ g0 := by rw [← hg0]; linarith
  have hr' : 0 < g1 := by rw [← hg1]; linarith
  have t1 : 0 ≤ (x1 - x) * g0 := mul_nonneg (sub_nonneg.mpr hx1) hl'
  have t2 : 0 < (x - x0) * g1 := mul_pos (sub_pos.mpr hx0) hr'
  have : 0 < (x1 - x0) * g := by rw [key]; linarith
  have := (mul_pos_iff_of_pos_left hd).mp this
  rw [← hg] at this
  linarith

/-- the same with `yExtrap` itself, on a common abscissa range inside both edges -/
theorem yExtrap_ordered_no_cross (e1 e2 : Seg) (h1 : e1.1.1 < e1.2.1) (h2 : e2.1.1 < e2.2.1)
    (x0 x1 : Rat) (h01 : x0 < x1)
    (r1 : e1.1.1 ≤ x0 ∧ x1 ≤ e1.2.1) (r2 : e2.1.1 ≤ x0 ∧ x1 ≤ e2.2.1) (right : Bool)
    (hl : yOn e1 x0 ≤ yOn e2 x0) (hr : yOn e1 x1 < yOn e2 x1) :
    ∀ x, x0 < x → x ≤ x1 →
      ∃ y1 y2, yExtrap (F e1.1.1 e1.1.2) (F e1.2.1 e1.2.2) (.fin x) right = .fin y1 ∧
        yExtrap (F e2.1.1 e2.1.2) (F e2.2.1 e2.2.2) (.fin x) right = .fin y2 ∧ y1 < y2 := by
  intro x hx0 hx1
  refine ⟨yOn e1 x, yOn e2 x, ?_, ?_,
    ordered_at_both_ends_no_cross e1 e2 h1 h2 x0 x1 h01 hl hr x hx0 hx1⟩
  · exact yExtrap_eq_yOn e1 h1 x (le_trans r1.1 (le_of_lt hx0)) (le_trans hx1 r1.2) right
  · exact yExtrap_eq_yOn e2 h2 x (le_trans r2.1 (le_of_lt hx0)) (le_trans hx1 r2.2) right

/-- **a proper crossing reverses the order**: if the two lines meet at `xs ∈ (x₀, x₁)` with
    different slopes, then the strict order at `x₁` is the reverse of the strict order at `x₀`. -/
theorem cross_reverses_order (e1 e2 : Seg) (h1 : e1.1.1 < e1.2.1) (h2 : e2.1.1 < e2.2.1)
    (x0 xs x1 : Rat) (h0s : x0 < xs) (hs1 : xs < x1)
    (hmeet : yOn e1 xs = yOn e2 xs) (hslope : slope e1 ≠ slope e2) :
    (yOn e1 x0 < yOn e2 x0 ∧ yOn e2 x1 < yOn e1 x1) ∨
      (yOn e2 x0 < yOn e1 x0 ∧ yOn e1 x1 < yOn e2 x1) := by
  rw [yOn_affine e1 h1, yOn_affine e2 h2] at hmeet
  simp only [yOn_affine e1 h1, yOn_affine e2 h2]
  -- yOn e2 x - yOn e1 x = (slope e2 - slope e1) * (x - xs)
  have g : ∀ x, (e2.1.2 + slope e2 * (x - e2.1.1)) - (e1.1.2 + slope e1 * (x - e1.1.1)) =
      (slope e2 - slope e1) * (x - xs) := by
    intro x; linear_combination hmeet.symm
  rcases lt_or_gt_of_ne hslope with hlt | hgt
  · -- slope e1 < slope e2 : e2 below before, above after
    right
    have a0 := g x0; have a1 := g x1
    have p0 : (slope e2 - slope e1) * (x0 - xs) < 0 :=
      mul_neg_of_pos_of_neg (sub_pos.mpr hlt) (sub_neg.mpr h0s)
    have p1 : 0 < (slope e2 - slope e1) * (x1 - xs) :=
      mul_pos (sub_pos.mpr hlt) (sub_pos.mpr hs1)
    constructor <;> linarith
  · left
    have a0 := g x0; have a1 := g x1
    have p0 : 0 < (slope e2 - slope e1) * (x0 - xs) :=
      mul_pos_of_neg_of_neg (sub_neg.mpr hgt) (sub_neg.mpr h0s)
    have p1 : (slope e2 - slope e1) * (x1 - xs) < 0 :=
      mul_neg_of_neg_of_pos (sub_neg.mpr hgt) (sub_pos.mpr hs1)
    constructor <;> linarith

/-- contrapositive used by the code: the same strict order at both ends excludes a proper
    crossing strictly inside -/
theorem same_order_no_proper_cross (e1 e2 : Seg) (h1 : e1.1.1 < e1.2.1) (h2 : e2.1.1 < e2.2.1)
    (x0 x1 : Rat) (hl : yOn e1 x0 < yOn e2 x0) (hr : yOn e1 x1 < yOn e2 x1) :
    ¬ ∃ xs, x0 < xs ∧ xs < x1 ∧ yOn e1 xs = yOn e2 xs ∧ slope e1 ≠ slope e2 := by
  rintro ⟨xs, h0s, hs1, hmeet, hslope⟩
  rcases cross_reverses_order e1 e2 h1 h2 x0 xs x1 h0s hs1 hmeet hslope with ⟨-, h⟩ | ⟨h, -⟩
  · exact lt_asymm h hr
  · exact lt_asymm h hl

/-! ### examples -/

/-- the diagonals of the unit square cross at `1/2`; the order is reversed between `0` and `1` -/
example : yOn ((0, 0), (1, 1)) 0 < yOn ((0, 1), (1, 0)) 0 ∧
    yOn ((0, 1), (1, 0)) 1 < yOn ((0, 0), (1, 1)) 1 := by decide +kernel
example : yOn ((0, 0), (1, 1)) (1/2) = yOn ((0, 1), (1, 0)) (1/2) := by decide +kernel
example : yExtrap (F 0 0) (F 2 2) (.fin 1) true = .fin 1 := by decide +kernel
example : yExtrap (F 2 2) (F 0 0) (.fin 1) true = .fin 1 := by decide +kernel
example : yExtrap (F 0 0) (F 2 2) (.fin 5) true = .fin 2 := by decide +kernel
example : yExtrap (F 0 0) (F 2 2) (.fin (-5)) false = .fin 0 := by decide +kernel
example : yExtrap (F 0 0) (F 0 3) (.fin 0) true = .fin 3 := by decide +kernel
example : yExtrap (F 0 0) (F 0 3) (.fin 0) false = .fin 0 := by decide +kernel
example : yExtrap (F 0 0) (F 2 2) (.fin 1) true = .fin (yOn ((0, 0), (2, 2)) 1) :=
  yExtrap_eq_yOn ((0, 0), (2, 2)) (by decide +kernel) 1 (by decide +kernel) (by decide +kernel) true
example : yExtrap (F 0 0) (F 2 2) (.fin (-1)) true = .fin 0 :=
  yExtrap_clamp_left ((0, 0), (2, 2)) (by decide +kernel) (-1) (by decide +kernel) true
example : yExtrap (F 0 0) (F 2 2) (.fin 3) true = .fin 2 :=
  yExtrap_clamp_right ((0, 0), (2, 2)) (by decide +kernel) 3 (by decide +kernel) true
example : yExtrap (F 0 0) (F 0 3) (.fin 0) true = .fin 3 := yExtrap_vertical 0 0 3 (by decide) true
/-- the diagonals of the unit square: a proper crossing at `1/2` reverses the order -/
example : (yOn ((0, 0), (1, 1)) 0 < yOn ((0, 1), (1, 0)) 0 ∧
      yOn ((0, 1), (1, 0)) 1 < yOn ((0, 0), (1, 1)) 1) ∨
    (yOn ((0, 1), (1, 0)) 0 < yOn ((0, 0), (1, 1)) 0 ∧
      yOn ((0, 0), (1, 1)) 1 < yOn ((0, 1), (1, 0)) 1) :=
  cross_reverses_order ((0, 0), (1, 1)) ((0, 1), (1, 0)) (by decide +kernel) (by decide +kernel)
    0 (1/2) 1 (by decide +kernel) (by decide +kernel) (by decide +kernel) (by decide +kernel)
/-- two edges of a fan: same order at both ends, hence no proper crossing in between -/
example : ¬ ∃ xs, (1 : Rat) < xs ∧ xs < 2 ∧ yOn ((0, 0), (2, 0)) xs = yOn ((0, 0), (2, 2)) xs ∧
    slope ((0, 0), (2, 0)) ≠ slope ((0, 0), (2, 2)) :=
  same_order_no_proper_cross _ _ (by decide +kernel) (by decide +kernel) 1 2
    (by decide +kernel) (by decide +kernel)
example : ∀ x, (1 : Rat) < x → x ≤ 2 →
    ∃ y1 y2, yExtrap (F 0 0) (F 2 0) (.fin x) true = .fin y1 ∧
      yExtrap (F 0 0) (F 2 2) (.fin x) true = .fin y2 ∧ y1 < y2 :=
  yExtrap_ordered_no_cross ((0, 0), (2, 0)) ((0, 0), (2, 2)) (by decide +kernel)
    (by decide +kernel) 1 2 (by decide +kernel) (by decide +kernel) (by decide +kernel) true
    (by decide +kernel) (by decide +kernel)
example : ∀ x, (0 : Rat) < x → x ≤ 1 → yOn ((0, 0), (1, 0)) x < yOn ((0, 0), (1, 1)) x :=
  ordered_at_both_ends_no_cross _ _ (by decide +kernel) (by decide +kernel) 0 1 (by decide +kernel)
    (by decide +kernel) (by decide +kernel)

end Cav.C16
