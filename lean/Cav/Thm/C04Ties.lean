/-
  C04 (tie rules of the active-edge comparator) — why the comparator of the sweep orders two
  edges that END at the tie point by DESCENDING gradient, and two edges that START there by
  ascending gradient.

  `Sweep.cmpEdge a b` compares the ordinates of the two edges at the sweep abscissa and, on a
  tie,
    * if both edges have the same right end point and it lies on the sweep line, answers
      `totalCmp (grad b) (grad a)` (the rule added by the repair of 745c06b);
    * otherwise answers `totalCmp (tieGrad a) (tieGrad b)`.

  Part A (rational geometry): two non-vertical segments with a common right end point are, to
  the left of it, ordered by descending slope, everywhere the same way; with a common left end
  point they are ordered by ascending slope to the right of it.
  Part B: `cmpPure` is `cmpEdge` with the left end points passed in (`cmpEdge_eq_cmpPure`), and on
  finite non-vertical edges it answers AT the common end point what it answers next to it
  (`cmpPure_common_right`, `cmpPure_common_left`); a vertical edge arriving from below is below
  (`cmpPure_vertical_below_at_top`).  The rule before the repair (`cmpOld`) contradicts itself
  on a concrete pair.

  Model path used: `cmpEdge`, `yAt`, `edgeGrad`, `tieGrad`, `edgeLpt`, `yExtrap`, `Pt.grad`,
  `Pt.eq`.  `Num` operations used: `isFinite`, `totalCmp`, `ofEq`, `inf`, `- /`.
-/
import Cav.Thm.C16
import Cav.Lemmas.SweepRun
import Mathlib.Tactic.Ring
import Mathlib.Tactic.Linarith
import Mathlib.Tactic.FieldSimp

namespace Cav.C04Ties
open Cav Num Cav.Geo Cav.C16 Cav.Sweep Cav.SweepRun

/-! ## A. Rational geometry -/

/-- `yOn` is affine with slope `slope e` through the RIGHT end point -/
theorem yOn_affine_right (e : Seg) (h : e.1.1 < e.2.1) (x : Rat) :
    yOn e x = e.2.2 + slope e * (x - e.2.1) := by
  have hne : e.2.1 - e.1.1 ≠ 0 := sub_ne_zero.mpr (ne_of_gt h)
  unfold yOn slope
  field_simp
  ring

/-- **A.1** two non-vertical segments with a common right end point: to the left of it the
    steeper one is below -/
theorem tie_right_consistent (e1 e2 : Seg) (h1 : e1.1.1 < e1.2.1) (h2 : e2.1.1 < e2.2.1)
    (hq : e1.2 = e2.2) (x : Rat) (hx : x < e1.2.1) :
    yOn e1 x < yOn e2 x ↔ slope e2 < slope e1 := by
  rw [yOn_affine_right e1 h1, yOn_affine_right e2 h2, ← hq]
  have hneg : x - e1.2.1 < 0 := sub_neg.mpr hx
  constructor
  · intro h
    by_contra hn
    have : slope e2 * (x - e1.2.1) ≤ slope e1 * (x - e1.2.1) :=
      mul_le_mul_of_nonpos_right (not_lt.mp hn) (le_of_lt hneg)
    linarith
  · intro h
    have : slope e1 * (x - e1.2.1) < slope e2 * (x - e1.2.1) :=
      mul_lt_mul_of_neg_right h hneg
    linarith

/-- **A.1, `=` version**: to the left of a common right end point the two lines meet iff the
    slopes are equal -/
theorem tie_right_consistent_eq (e1 e2 : Seg) (h1 : e1.1.1 < e1.2.1) (h2 : e2.1.1 < e2.2.1)
    (hq : e1.2 = e2.2) (x : Rat) (hx : x < e1.2.1) :
    yOn e1 x = yOn e2 x ↔ slope e1 = slope e2 := by
  rw [yOn_affine_right e1 h1, yOn_affine_right e2 h2, ← hq]
  have hne : x - e1.2.1 ≠ 0 := ne_of_lt (sub_neg.mpr hx)
  constructor
  · intro h
    have : slope e1 * (x - e1.2.1) = slope e2 * (x - e1.2.1) := by linarith
    exact mul_right_cancel₀ hne this
  · intro h; rw [h]

/-- **A.2** two non-vertical segments with a common left end point: to the right of it the
    steeper one is above -/
theorem tie_left_consistent (e1 e2 : Seg) (h1 : e1.1.1 < e1.2.1) (h2 : e2.1.1 < e2.2.1)
    (hp : e1.1 = e2.1) (x : Rat) (hx : e1.1.1 < x) :
    yOn e1 x < yOn e2 x ↔ slope e1 < slope e2 := by
  rw [yOn_affine e1 h1, yOn_affine e2 h2, ← hp]
  have hpos : 0 < x - e1.1.1 := sub_pos.mpr hx
  constructor
  · intro h
    by_contra hn
    have : slope e2 * (x - e1.1.1) ≤ slope e1 * (x - e1.1.1) :=
      mul_le_mul_of_nonneg_right (not_lt.mp hn) (le_of_lt hpos)
    linarith
  · intro h
    have : slope e1 * (x - e1.1.1) < slope e2 * (x - e1.1.1) :=
      mul_lt_mul_of_pos_right h hpos
    linarith

/-- **A.2, `=` version** -/
theorem tie_left_consistent_eq (e1 e2 : Seg) (h1 : e1.1.1 < e1.2.1) (h2 : e2.1.1 < e2.2.1)
    (hp : e1.1 = e2.1) (x : Rat) (hx : e1.1.1 < x) :
    yOn e1 x = yOn e2 x ↔ slope e1 = slope e2 := by
  rw [yOn_affine e1 h1, yOn_affine e2 h2, ← hp]
  have hne : x - e1.1.1 ≠ 0 := ne_of_gt (sub_pos.mpr hx)
  constructor
  · intro h
    have : slope e1 * (x - e1.1.1) = slope e2 * (x - e1.1.1) := by linarith
    exact mul_right_cancel₀ hne this
  · intro h; rw [h]

/-- **A.3** the order to the left of a common right end point does not depend on where one
    looks -/
theorem common_right_order_constant (e1 e2 : Seg) (h1 : e1.1.1 < e1.2.1) (h2 : e2.1.1 < e2.2.1)
    (hq : e1.2 = e2.2) (x x' : Rat) (hx : x < e1.2.1) (hx' : x' < e1.2.1) :
    yOn e1 x < yOn e2 x ↔ yOn e1 x' < yOn e2 x' := by
  rw [tie_right_consistent e1 e2 h1 h2 hq x hx, tie_right_consistent e1 e2 h1 h2 hq x' hx']

/-- the same for a common left end point -/
theorem common_left_order_constant (e1 e2 : Seg) (h1 : e1.1.1 < e1.2.1) (h2 : e2.1.1 < e2.2.1)
    (hp : e1.1 = e2.1) (x x' : Rat) (hx : e1.1.1 < x) (hx' : e1.1.1 < x') :
    yOn e1 x < yOn e2 x ↔ yOn e1 x' < yOn e2 x' := by
  rw [tie_left_consistent e1 e2 h1 h2 hp x hx, tie_left_consistent e1 e2 h1 h2 hp x' hx']

/-! ## B. A pure reading of the comparator -/

section Pure
variable {α : Type} [Num α]

/-- the pure part of `Sweep.tieGrad`: `+∞` (vertical edge) is mapped to `-∞` -/
def tieOf (g : α) : α := if ofEq g (Num.inf : α) then -(Num.inf : α) else g

/-- `Sweep.cmpEdge` with the left end points `la`, `lb` (read from the back-chains by `edgeLpt`
    in the model) passed in; `ra`, `rb` are the stored right end points, `x` the sweep abscissa.
    (Stated for any `Num` instance; all theorems about its values below are on `XQ`.) -/
def cmpPure (la ra lb rb : Pt α) (x : α) : Ordering :=
  if !(Num.isFinite x) then .eq
  else
    match Num.totalCmp (yExtrap la ra x true) (yExtrap lb rb x true) with
    | .eq =>
      if ra.eq rb && ofEq ra.x x then Num.totalCmp (lb.grad rb) (la.grad ra)
      else Num.totalCmp (tieOf (la.grad ra)) (tieOf (lb.grad rb))
    | o => o

/-- the comparator as it was before the repair: ascending `tieGrad` on every tie -/
def cmpOld (la ra lb rb : Pt α) (x : α) : Ordering :=
  if !(Num.isFinite x) then .eq
  else
    match Num.totalCmp (yExtrap la ra x true) (yExtrap lb rb x true) with
    | .eq => Num.totalCmp (tieOf (la.grad ra)) (tieOf (lb.grad rb))
    | o => o

theorem run_yAt {e : Edge α} {s : St α} {l : Pt α} (h : (edgeLpt e).run s = .ok (l, s))
    (x : α) (r : Bool) : (yAt e x r).run s = .ok (yExtrap l e.rpt x r, s) := by
  unfold yAt
  rw [run_bind, h]
  rfl

theorem run_edgeGrad {e : Edge α} {s : St α} {l : Pt α} (h : (edgeLpt e).run s = .ok (l, s)) :
    (edgeGrad e).run s = .ok (l.grad e.rpt, s) := by
  unfold edgeGrad
  rw [run_bind, h]
  rfl

theorem run_tieGrad {e : Edge α} {s : St α} {l : Pt α} (h : (edgeLpt e).run s = .ok (l, s)) :
    (tieGrad e).run s = .ok (tieOf (l.grad e.rpt), s) := by
  unfold tieGrad
  rw [run_bind, run_edgeGrad h]
  rfl

/-- **B.4** `cmpEdge` is `cmpPure` of the left end points found by `edgeLpt`, the stored right
    end points and the sweep abscissa; it does not change the state. -/
theorem cmpEdge_eq_cmpPure (a b : Edge α) (s : St α) (la lb : Pt α)
    (ha : (edgeLpt a).run s = .ok (la, s)) (hb : (edgeLpt b).run s = .ok (lb, s)) :
    (cmpEdge a b).run s = .ok (cmpPure la a.rpt lb b.rpt s.x, s) := by
  unfold cmpEdge cmpPure
  rw [run_bind, run_get]
  dsimp only
  by_cases hf : (!(Num.isFinite s.x)) = true
  · rw [if_pos hf, if_pos hf]; rfl
  · rw [if_neg hf, if_neg hf, run_bind, run_yAt ha]
    dsimp only
    rw [run_bind, run_yAt hb]
    dsimp only
    cases hc : Num.totalCmp (yExtrap la a.rpt s.x true) (yExtrap lb b.rpt s.x true) with
    | lt => rfl
    | gt => rfl
    | eq =>
      dsimp only
      by_cases ht : (a.rpt.eq b.rpt && ofEq a.rpt.x s.x) = true
      · rw [if_pos ht, if_pos ht, run_bind, run_edgeGrad hb]
        dsimp only
        rw [run_bind, run_edgeGrad ha]
        rfl
      · rw [if_neg ht, if_neg ht, run_bind, run_tieGrad ha]
        dsimp only
        rw [run_bind, run_tieGrad hb]
        rfl

end Pure

/-! ### `cmpPure` on finite values -/

theorem totalCmp_fin (a b : Rat) :
    Num.totalCmp (XQ.fin a) (XQ.fin b) = if a < b then .lt else if b < a then .gt else .eq := rfl

theorem totalCmp_fin_lt (a b : Rat) : Num.totalCmp (XQ.fin a) (XQ.fin b) = .lt ↔ a < b := by
  rw [totalCmp_fin]
  split_ifs with h1 h2 <;> simp [h1]

@[simp] theorem tieOf_fin (g : Rat) : tieOf (XQ.fin g) = .fin g := rfl

/-- strictly different finite ordinates decide -/
theorem cmpPure_of_ne {la ra lb rb : Pt XQ} {x ya yb : Rat}
    (h1 : yExtrap la ra (.fin x) true = .fin ya) (h2 : yExtrap lb rb (.fin x) true = .fin yb)
    (hne : ya ≠ yb) : cmpPure la ra lb rb (.fin x) = .lt ↔ ya < yb := by
  unfold cmpPure
  rw [h1, h2, totalCmp_fin]
  rcases lt_or_gt_of_ne hne with h | h
  · simp [h]
  · simp [h, lt_asymm h]

/-- on a tie of finite ordinates the two tie rules -/
theorem cmpPure_of_eq {la ra lb rb : Pt XQ} {x ya : Rat}
    (h1 : yExtrap la ra (.fin x) true = .fin ya) (h2 : yExtrap lb rb (.fin x) true = .fin ya) :
    cmpPure la ra lb rb (.fin x) =
      if ra.eq rb && ofEq ra.x (.fin x) then Num.totalCmp (lb.grad rb) (la.grad ra)
      else Num.totalCmp (tieOf (la.grad ra)) (tieOf (lb.grad rb)) := by
  unfold cmpPure
  rw [h1, h2, totalCmp_fin]
  simp

/-- gradient of a finite non-vertical edge -/
theorem grad_slope (a b c d : Rat) (h : a < c) :
    (F a b).grad (F c d) = .fin (slope ((a, b), (c, d))) := by
  rw [grad_fin, if_neg (ne_of_gt h)]
  rfl

/-- **B.5** two finite non-vertical edges with a common right end point and different slopes:
    on the whole common abscissa range up to AND INCLUDING the common end point (where the
    repaired tie rule applies) the comparator says "below" iff the edge is the steeper one -/
theorem cmpPure_common_right (a1 b1 a2 b2 q1 q2 : Rat) (h1 : a1 < q1) (h2 : a2 < q1)
    (hs : slope ((a1, b1), (q1, q2)) ≠ slope ((a2, b2), (q1, q2)))
    (x : Rat) (hx0 : max a1 a2 ≤ x) (hx1 : x ≤ q1) :
    cmpPure (F a1 b1) (F q1 q2) (F a2 b2) (F q1 q2) (.fin x) = .lt ↔
      slope ((a2, b2), (q1, q2)) < slope ((a1, b1), (q1, q2)) := by
  have hx01 : a1 ≤ x := le_trans (le_max_left _ _) hx0
  have hx02 : a2 ≤ x := le_trans (le_max_right _ _) hx0
  have y1 : yExtrap (F a1 b1) (F q1 q2) (.fin x) true = .fin (yOn ((a1, b1), (q1, q2)) x) :=
    yExtrap_eq_yOn ((a1, b1), (q1, q2)) h1 x hx01 hx1 true
  have y2 : yExtrap (F a2 b2) (F q1 q2) (.fin x) true = .fin (yOn ((a2, b2), (q1, q2)) x) :=
    yExtrap_eq_yOn ((a2, b2), (q1, q2)) h2 x hx02 hx1 true
  rcases lt_or_eq_of_le hx1 with hlt | heq
  · -- strictly to the left: the ordinates differ and are ordered by descending slope
    have hne : yOn ((a1, b1), (q1, q2)) x ≠ yOn ((a2, b2), (q1, q2)) x := fun h =>
      hs ((tie_right_consistent_eq ((a1, b1), (q1, q2)) ((a2, b2), (q1, q2)) h1 h2 rfl x hlt).mp h)
    rw [cmpPure_of_ne y1 y2 hne]
    exact tie_right_consistent ((a1, b1), (q1, q2)) ((a2, b2), (q1, q2)) h1 h2 rfl x hlt
  · -- at the common right end point: the repaired tie rule
    subst heq
    rw [yOn_right ((a1, b1), (x, q2)) h1] at y1
    rw [yOn_right ((a2, b2), (x, q2)) h2] at y2
    rw [cmpPure_of_eq y1 y2, grad_slope _ _ _ _ h1, grad_slope _ _ _ _ h2]
    have : ((F x q2).eq (F x q2) && ofEq (F x q2).x (XQ.fin x)) = true := by
      simp [Pt.eq_fin]
    rw [if_pos this, totalCmp_fin_lt]

/-- **B.6** two finite non-vertical edges with a common left end point and different slopes: on
    the whole common abscissa range from AND INCLUDING the common end point the comparator says
    "below" iff the edge is the less steep one -/
theorem cmpPure_common_left (p1 p2 r1 s1 r2 s2 : Rat) (h1 : p1 < r1) (h2 : p1 < r2)
    (hs : slope ((p1, p2), (r1, s1)) ≠ slope ((p1, p2), (r2, s2)))
    (x : Rat) (hx0 : p1 ≤ x) (hx1 : x ≤ min r1 r2) :
    cmpPure (F p1 p2) (F r1 s1) (F p1 p2) (F r2 s2) (.fin x) = .lt ↔
      slope ((p1, p2), (r1, s1)) < slope ((p1, p2), (r2, s2)) := by
  have hx11 : x ≤ r1 := le_trans hx1 (min_le_left _ _)
  have hx12 : x ≤ r2 := le_trans hx1 (min_le_right _ _)
  have y1 : yExtrap (F p1 p2) (F r1 s1) (.fin x) true = .fin (yOn ((p1, p2), (r1, s1)) x) :=
    yExtrap_eq_yOn ((p1, p2), (r1, s1)) h1 x hx0 hx11 true
  have y2 : yExtrap (F p1 p2) (F r2 s2) (.fin x) true = .fin (yOn ((p1, p2), (r2, s2)) x) :=
    yExtrap_eq_yOn ((p1, p2), (r2, s2)) h2 x hx0 hx12 true
  rcases lt_or_eq_of_le hx0 with hlt | heq
  · have hne : yOn ((p1, p2), (r1, s1)) x ≠ yOn ((p1, p2), (r2, s2)) x := fun h =>
      hs ((tie_left_consistent_eq ((p1, p2), (r1, s1)) ((p1, p2), (r2, s2)) h1 h2 rfl x hlt).mp h)
    rw [cmpPure_of_ne y1 y2 hne]
    exact tie_left_consistent ((p1, p2), (r1, s1)) ((p1, p2), (r2, s2)) h1 h2 rfl x hlt
  · -- at the common left end point: the ascending `tieGrad` rule (the right end points are not
    -- on the sweep line)
    subst heq
    rw [yOn_left ((p1, p2), (r1, s1))] at y1
    rw [yOn_left ((p1, p2), (r2, s2))] at y2
    rw [cmpPure_of_eq y1 y2, grad_slope _ _ _ _ h1, grad_slope _ _ _ _ h2]
    have : ((F r1 s1).eq (F r2 s2) && ofEq (F r1 s1).x (XQ.fin p1)) = false := by
      simp [ne_of_gt h1]
    rw [this, tieOf_fin, tieOf_fin]
    simp only [Bool.false_eq_true, if_false]
    exact totalCmp_fin_lt _ _

/-- **B.7** a vertical edge arriving from below and a non-vertical edge ending at the same
    point: at the common (upper) end point the vertical edge is ordered below -/
theorem cmpPure_vertical_below_at_top (q1 b0 q2 a2 b2 : Rat) (hv : b0 < q2) (h2 : a2 < q1) :
    cmpPure (F q1 b0) (F q1 q2) (F a2 b2) (F q1 q2) (.fin q1) = .lt := by
  have y1 : yExtrap (F q1 b0) (F q1 q2) (.fin q1) true = .fin q2 := by
    rw [yExtrap_vertical q1 b0 q2 (le_of_lt hv) true]; rfl
  have y2 : yExtrap (F a2 b2) (F q1 q2) (.fin q1) true = .fin q2 :=
    yExtrap_clamp_right ((a2, b2), (q1, q2)) h2 q1 (le_refl _) true
  rw [cmpPure_of_eq y1 y2, grad_slope _ _ _ _ h2]
  have hg : (F q1 b0).grad (F q1 q2) = .pinf := by
    rw [grad_fin, if_pos rfl, if_neg (lt_asymm hv)]
  have : ((F q1 q2).eq (F q1 q2) && ofEq (F q1 q2).x (XQ.fin q1)) = true := by
    simp [Pt.eq_fin]
  rw [if_pos this, hg]
  rfl

/-! ### B.8 the rule before the repair was inconsistent -/

/-- the edges `(1,12)-(7,12)` and `(1,14)-(7,12)` end at the same point; just to the left of it
    (and everywhere to the left) the first is below the second … -/
example : yOn ((1, 12), (7, 12)) 6 < yOn ((1, 14), (7, 12)) 6 ∧
    cmpOld (F 1 12) (F 7 12) (F 1 14) (F 7 12) (.fin 6) = .lt ∧
    cmpOld (F 1 12) (F 7 12) (F 1 14) (F 7 12) (.fin 1) = .lt := by decide +kernel

/-- … but ascending gradient (the old rule) puts it ABOVE at the common end point: the stored
    order of the two edges contradicts the comparator when the sweep line reaches `x = 7` -/
example : cmpOld (F 1 12) (F 7 12) (F 1 14) (F 7 12) (.fin 7) = .gt ∧
    cmpOld (F 1 14) (F 7 12) (F 1 12) (F 7 12) (.fin 7) = .lt := by decide +kernel

/-- the repaired comparator answers at the end point what it answers to the left of it -/
example : cmpPure (F 1 12) (F 7 12) (F 1 14) (F 7 12) (.fin 6) = .lt ∧
    cmpPure (F 1 12) (F 7 12) (F 1 14) (F 7 12) (.fin 7) = .lt ∧
    cmpPure (F 1 14) (F 7 12) (F 1 12) (F 7 12) (.fin 6) = .gt ∧
    cmpPure (F 1 14) (F 7 12) (F 1 12) (F 7 12) (.fin 7) = .gt := by decide +kernel

/-- where the two rules differ is exactly the repaired case; elsewhere they agree, e.g. for two
    edges starting at a common point -/
example : cmpOld (F 1 12) (F 7 12) (F 1 12) (F 7 14) (.fin 1) = .lt ∧
    cmpPure (F 1 12) (F 7 12) (F 1 12) (F 7 14) (.fin 1) = .lt := by decide +kernel

/-! ### non-vacuity -/

/-- B.5 on the pair above, at the common right end point `x = 7` -/
example : cmpPure (F 1 12) (F 7 12) (F 1 14) (F 7 12) (.fin 7) = .lt :=
  (cmpPure_common_right 1 12 1 14 7 12 (by decide +kernel) (by decide +kernel)
    (by decide +kernel) 7 (by decide +kernel) (by decide +kernel)).mpr (by decide +kernel)

/-- B.6 on two edges leaving `(1,12)`, at the common left end point `x = 1` -/
example : cmpPure (F 1 12) (F 7 12) (F 1 12) (F 7 14) (.fin 1) = .lt :=
  (cmpPure_common_left 1 12 7 12 7 14 (by decide +kernel) (by decide +kernel)
    (by decide +kernel) 1 (by decide +kernel) (by decide +kernel)).mpr (by decide +kernel)

/-- B.7: the vertical edge `(7,3)-(7,12)` is below the edge `(1,14)-(7,12)` at `(7,12)` -/
example : cmpPure (F 7 3) (F 7 12) (F 1 14) (F 7 12) (.fin 7) = .lt :=
  cmpPure_vertical_below_at_top 7 3 12 1 14 (by decide +kernel) (by decide +kernel)

end Cav.C04Ties
