/-
  C04 — every valid polygon set is accepted (the part that is a theorem).

  Full statement (NOT proved; decided by exhaustive enumeration, see DESIGN §4 C04):
    `ValidPolySet P → ∃ T, sweep P = .ok T`
  It needs the planar sweep invariant.  What IS proved, for every `Num` instance (so also for the
  `Float` instance the implementation is compared with) and every input:

  * the three VALIDATION errors (`NoPolygon`, `NonFiniteInputError`, `DuplicatePoint`) are reserved
    for inputs that really have that defect — a set whose polygons have ≥ 3 vertices, all finite and
    pairwise distinct, is never rejected by validation;
  * over `XQ` the model never runs out of fuel, so on such an input the only possible outcomes
    are a triangle list, an `Overlap`/`NoPointType` error, or one of the explicit panic outcomes.
-/
import Cav.Thm.C15

namespace Cav.C04
open Cav Cav.C15 Cav.SweepSetup

variable {α : Type} [Num α]

/-- the validation part of "valid": sizes, finiteness, distinctness (w.r.t. `Pt.eq`) -/
def PassesValidation (polys : List (Array (Pt α))) : Prop :=
  (∀ poly ∈ polys, 3 ≤ poly.size) ∧
  (∀ poly ∈ polys, ∀ p ∈ poly.toList, Num.isFinite p.x = true ∧ Num.isFinite p.y = true) ∧
  (∀ (i j : Nat) (q p : Pt α), i < j → (allPts polys)[i]? = some q → (allPts polys)[j]? = some p → q.eq p = false)

/-- **Validation never rejects a valid set** (every `Num` instance, every input). -/
theorem validation_accepts_valid (polys : List (Array (Pt α))) (hv : PassesValidation polys) :
    sweep polys ≠ .error .noPolygon ∧ sweep polys ≠ .error .nonFinite ∧
      ∀ p, sweep polys ≠ .error (.duplicate p) := by
  obtain ⟨hsz, hfin, hdist⟩ := hv
  refine ⟨?_, ?_, ?_⟩
  · intro h
    obtain ⟨poly, hp, hlt⟩ := sweep_noPolygon_sound h
    have := hsz poly hp
    omega
  · intro h
    obtain ⟨poly, hp, p, hpp, hnf⟩ := sweep_nonFinite_sound h
    exact hnf (hfin poly hp p hpp)
  · intro p h
    obtain ⟨_, i, j, q, hij, hi, hj, he⟩ := sweep_duplicate_sound h
    have := hdist i j q p hij hi hj
    rw [this] at he
    cases he

/-- Over `XQ` (exact arithmetic with IEEE special values): on an input that passes validation
    the model returns triangles, an `Overlap` or `NoPointType` error, or an explicit panic
    outcome — never a validation error and never fuel exhaustion. -/
theorem valid_outcomes (polys : List (Array (Pt XQ))) (hv : PassesValidation polys) :
    (∃ tris, sweep polys = .ok tris) ∨ (∃ k p, sweep polys = .error (.overlap k p)) ∨
      (∃ p, sweep polys = .error (.noPointType p)) ∨ (∃ k, sweep polys = .error (.panic k)) := by
  obtain ⟨h1, h2, h3⟩ := validation_accepts_valid polys hv
  have h4 := sweep_never_oof polys
  cases hs : sweep polys with
  | ok tris => exact Or.inl ⟨tris, rfl⟩
  | error e =>
    cases e with
    | overlap k p => exact Or.inr (Or.inl ⟨k, p, rfl⟩)
    | duplicate p => exact absurd hs (h3 p)
    | nonFinite => exact absurd hs h2
    | noPolygon => exact absurd hs h1
    | noPointType p => exact Or.inr (Or.inr (Or.inl ⟨p, rfl⟩))
    | panic k => exact Or.inr (Or.inr (Or.inr ⟨k, rfl⟩))
    | oof => exact absurd hs h4

/-- conversely, a successful run certifies that the input passed validation -/
theorem ok_passes_validation {polys : List (Array (Pt α))} {tris : List (Pt α × Pt α × Pt α)}
    (h : sweep polys = .ok tris) : (∀ poly ∈ polys, 3 ≤ poly.size) ∧ (∀ p ∈ allPts polys, FinPt p) :=
  ⟨(sweep_ok_input_valid h).1, (sweep_ok_input_valid h).2.1⟩

end Cav.C04
