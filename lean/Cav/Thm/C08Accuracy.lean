/-
  C08 (accuracy clause, exact class) — `gen_display_cav` (3-D) integrates `f · |det Dg|` over the
  whole region: on the exact class every stored value is the exact integral over its own triangle
  within an explicit bound, the stored estimate is below the tolerance, and the values add up over
  the triangulation; with an acceptance theorem of C04 the sum is tied to the area of the input
  polygon.

  Exact class: `f` a bivariate polynomial given by a list of terms `(i, j, c)` through the
  GENERATED dual-number operations (`Acc3.adPoly2`: `AD.add`, `AD.mul`), the `c`-curve affine,
  `c(z) = (a·z + k₁, b·z + k₂)` (`Acc3.cAff`), so that `g(x,y) = (x − a·f, y − b·f)` up to a constant
  and `det Dg = 1 − a·f_x − b·f_y` is a polynomial.  `|det Dg|` is resolved
    (a) for the constant `c`-curve (`a = b = 0`, `det Dg = 1`), total degree of `f` ≤ 30;
    (b) for affine `f` (`det Dg = 1 − a·q − b·r` constant, either sign, also `0`);
    (c) whenever `σ·det Dg ≥ 0` for a `σ = ±1` at the rational points OF THE TRIANGLE in question
        (the sign may differ from triangle to triangle), total degree of `f` ≤ 15.

  The sweep model needs `−∞`, so the model run is over `XQ = ℚ ∪ {±∞, NaN}`; polygons, tolerance
  and coefficients are finite (`XQ.fin`), and `Acc3.gkTriangle_fin` (`Lemmas/Acc3Xfer.lean`) shows
  that the `XQ` run of the triangle routine on such data IS the image of the `Rat` run, to which
  `C09Accuracy.gkTriangle_poly_accuracy` applies (any number of outer and inner bisections);
  `Acc3.gkTriangle_congr` (`Lemmas/Acc3Congr.lean`): the routine only evaluates the integrand at
  points of the closed triangle.

  (V1) `integrand_const_c_eq`, `integrand_affine_eq`, `integrand_sign_eq` (from
       `Acc3.integrand3_adPoly2_cAff` in `Lemmas/Acc3AD.lean`): the model's integrand
       `C08.integrand3 f c` over `Rat` is the evaluation of an explicit term list;
       `Acc3.integrand3_fin`: over `XQ` at finite points it is the image of the integrand over `Rat`
  (V2) `cav3_piece_accuracy_local` (general), `cav3_piece_accuracy_of_terms`, `…_const_c`,
       `…_affine`, `…_sign_local`, `…_sign`; `…_real`, `…_const_c_iterated`, `…_sign_iterated`:
       the exact value as a real (iterated) integral
  (V3) `cav3_total_local` (general), `cav3_total_of_terms`, `…_const_c`, `…_affine`,
       `…_sign_local`, `…_sign`; `cav3_total_const`, `cav3_quad_const`, `cav3_convex_const`

  The exact value of a triangle `t = (p0, p1, p2)` for the polynomial `terms'`,
  `Acc3.triExactQ terms' t : Rat`, is
    * the iterated integral of `C09Accuracy` (`Acc3.triIntegral_eq`, `Acc3.triInner_spec`);
    * `triFactor t · ∫_0^1 ∫_0^{1−s} φ(p0 + s(p1−p0) + r(p2−p0)) dr ds` for every continuous
      `φ : ℝ² → ℝ` that `terms'` represents at the rational points (`Acc3.triExactQ_eq_iterated`;
      `triFactor t = 2·area(t)`, `Acc3.triFactor_triQ`), in particular for `φ = f·|det Dg|`
      (`Acc3.triExactQ_terms`, `Acc3.triExactQ_cavTerms`);
    * `k · area(t)` for a constant integrand `k` (`Acc3.triExactQ_const`).

  Not stated: the identification of the iterated simplex integral with the 2-dimensional Lebesgue
  integral over the triangle (change of variables); that the triangles of `sweep` tile the region
  (C04 gives the area sum for triangles, simple quadrilaterals, convex and x-monotone polygons);
  the success clause (`.ok` for a given tolerance).

  Model path used: `genDisplayCav3` (`go`), `disp3DNew` (only `triag`, `integ`), `sweep` (opaque:
  its result and `SweepCorners.sweep_corners`), `gkTriangle` and everything below it,
  `absJacobianDet`, `AD.add`, `AD.sub`, `AD.mul`, `AD.ofF`; `Num` operations (instances
  `instNumXQ`, `instNumRat`): `+ - * /`, `neg`, `abs`, `ofNat`, `lt`, `le`, `beq`, `isNaN`.
-/
import Cav.Lemmas.Acc3Real
import Cav.Lemmas.Acc3Congr
import Cav.Thm.C04QuadV
import Cav.Thm.C04Convex

namespace Cav.C08Accuracy
open Cav Num Cav.Gen Cav.Geo Cav.Acc2 Cav.Acc3 Cav.DispL Cav.C01 Cav.C08 Cav.C09Accuracy

/-- the reported integration value of a display as a rational number (`0` if there is none) -/
def dispVal (d : Disp3D XQ) : Rat :=
  match d.integ with
  | some (v, _) => toRat v
  | none => 0

/-! ## (V1) the integrand of the model as an explicit polynomial (over `Rat`)

`C08.integrand3 f c = fun x y => (f (AD.ofF x, AD.ofF y)).v * absJacobianDet (gAD3 f c) (x, y)` is the
integrand `genDisplayCav3` hands to `gkTriangle` (`C08.cav3_integ_per_triangle`). -/

/-- (a) constant `c`-curve: the integrand is `f` -/
theorem integrand_const_c_eq (terms : List (Nat × Nat × Rat)) (k1 k2 : Rat) :
    integrand3 (adPoly2 terms) (cAff 0 0 k1 k2) = evalTerms terms :=
  funext fun x => funext fun y => integrand3_adPoly2_const terms k1 k2 x y

/-- (b) affine `f`, affine `c`: the integrand is `|1 − a·q − b·r| · (p + q·x + r·y)` -/
theorem integrand_affine_eq (p q r a b k1 k2 : Rat) :
    integrand3 (adPoly2 (affTerms p q r)) (cAff a b k1 k2) =
      evalTerms (affTerms (p * |1 - a * q - b * r|) (q * |1 - a * q - b * r|)
        (r * |1 - a * q - b * r|)) :=
  funext fun x => funext fun y => integrand3_affine p q r a b k1 k2 x y

/-- (c) `σ·det Dg ≥ 0` everywhere: the integrand is `f · σ·(1 − a·f_x − b·f_y)` -/
theorem integrand_sign_eq (terms : List (Nat × Nat × Rat)) (σ a b k1 k2 : Rat)
    (hσ : σ = 1 ∨ σ = -1) (hs : ∀ x y : Rat, 0 ≤ σ * evalTerms (detTerms a b terms) x y) :
    integrand3 (adPoly2 terms) (cAff a b k1 k2) = evalTerms (cavTerms σ a b terms) :=
  funext fun x => funext fun y => integrand3_adPoly2_sign terms σ a b k1 k2 hσ hs x y

/-- in general: `f · |1 − a·f_x − b·f_y|` -/
theorem integrand_cAff_eq (terms : List (Nat × Nat × Rat)) (a b k1 k2 : Rat) :
    integrand3 (adPoly2 terms) (cAff a b k1 k2) =
      fun x y => evalTerms terms x y * |evalTerms (detTerms a b terms) x y| :=
  funext fun x => funext fun y => integrand3_adPoly2_cAff terms a b k1 k2 x y

/-! ## (V2) one display -/

/-- the step for one sweep triangle; the integrand has to be the polynomial `terms'` only at the
    points of that triangle -/
theorem piece_of_display (F : AD XQ × AD XQ → AD XQ) (f : AD Rat × AD Rat → AD Rat)
    (C : AD XQ → AD XQ × AD XQ) (c : AD Rat → AD Rat × AD Rat) (hF : HomF F f) (hC : HomC C c)
    (terms' : List (Nat × Nat × Rat)) (hdeg : DegLe 30 terms') (cfg : Cfg3D XQ) (tol : Rat)
    (htol : cfg.tol = .fin tol) (tr : Pt XQ × Pt XQ × Pt XQ) (hft : FinTri tr)
    (hI : OnTri (triQ tr) (fun x y => integrand3 f c x y = evalTerms terms' x y))
    (d : Disp3D XQ) (hD : IsDisplayOf F C cfg tr d) (v e : XQ) (hv : d.integ = some (v, e)) :
    d.triag = finTri (triQ tr) ∧
      ∃ v' e' : Rat, v = .fin v' ∧ e = .fin e' ∧
        |v' - triExactQ terms' (triQ tr)| ≤ triBoundQ terms' (triQ tr) ∧ e' < tol ∧ 0 ≤ e' := by
  have ht : d.triag = triOf tr := by
    have := congrArg Disp3D.triag hD.1
    rwa [disp3DNew_triag] at this
  refine ⟨by rw [ht, triOf_fin hft], ?_⟩
  rcases hD.2 with ⟨_, hn⟩ | ⟨_, w, hw, hg⟩
  · rw [hn] at hv; cases hv
  · rw [hw] at hv
    cases hv
    rw [triOf_fin hft, htol,
      gkTriangle_fin (integrand3 F C) (integrand3 f c) (integrand3_fin F f C c hF hC)] at hg
    obtain ⟨v', e', hr, rfl, rfl⟩ := finRes_eq_ok hg
    exact ⟨v', e', rfl, rfl,
      gkTriangle_terms_accuracy_local terms' hdeg _ (triQ tr) hI tol _ v' e' hr⟩

/-- **(V2) `cav3_piece_accuracy`, general form.**  Let the closures `F`, `C` over `XQ` be the images
    of closures `f`, `c` over `Rat` on finite dual numbers (`HomF`, `HomC`), and let the integrand
    `f · absJacobianDet g` over `Rat` agree AT THE POINTS OF THE TRIANGLE `d.triag` with the
    polynomial with the terms `terms'` of total degree ≤ 30.  For finite polygons and a finite
    tolerance `tol`: if `gen_display_cav` succeeds, a display `d` with a stored value `(v, e)` has a
    finite triangle, finite `v` and `e`, and `|v − I(d.triag)| ≤ triBoundQ terms' (d.triag)` and
    `0 ≤ e < tol`, where `I(t) = triExactQ terms' t` is the exact iterated integral over the unit
    simplex of `triFactor t · terms'(p0 + s(p1−p0) + r(p2−p0))` — after any number of outer and
    inner bisections of the triangle routine. -/
theorem cav3_piece_accuracy_local (F : AD XQ × AD XQ → AD XQ) (f : AD Rat × AD Rat → AD Rat)
    (C : AD XQ → AD XQ × AD XQ) (c : AD Rat → AD Rat × AD Rat) (hF : HomF F f) (hC : HomC C c)
    (terms' : List (Nat × Nat × Rat)) (hdeg : DegLe 30 terms') (polys : List (Array (Pt XQ)))
    (hfin : ∀ p ∈ SweepSetup.allPts polys, Finite p) (cfg : Cfg3D XQ) (tol : Rat)
    (htol : cfg.tol = .fin tol) (ds : List (Disp3D XQ))
    (h : genDisplayCav3 F C polys cfg = .ok ds) (d : Disp3D XQ) (hd : d ∈ ds)
    (hI : OnTri (ratTri d.triag) (fun x y => integrand3 f c x y = evalTerms terms' x y))
    (v e : XQ) (hv : d.integ = some (v, e)) :
    d.triag = finTri (ratTri d.triag) ∧ v = .fin (toRat v) ∧ e = .fin (toRat e) ∧
      |toRat v - triExactQ terms' (ratTri d.triag)| ≤ triBoundQ terms' (ratTri d.triag) ∧
      toRat e < tol ∧ 0 ≤ toRat e := by
  rw [genDisplayCav3_eq] at h
  cases hs : sweep polys with
  | error err => rw [hs] at h; cases h
  | ok tris =>
    rw [hs] at h
    obtain ⟨tr, htr, hE⟩ := mapE_mem h hd
    have hD := tri3E_ok F C cfg tr d hE
    have ht : d.triag = triOf tr := by
      have := congrArg Disp3D.triag hD.1
      rwa [disp3DNew_triag] at this
    rw [ht, ratTri_triOf] at hI
    obtain ⟨ht', v', e', rfl, rfl, hacc⟩ := piece_of_display F f C c hF hC terms' hdeg cfg tol
      htol tr (sweep_finTri hfin hs tr htr) hI d hD v e hv
    rw [ht', ratTri_finTri]
    exact ⟨rfl, rfl, rfl, hacc⟩

/-- the same when the integrand is the polynomial `terms'` at every rational point -/
theorem cav3_piece_accuracy_of_terms (F : AD XQ × AD XQ → AD XQ) (f : AD Rat × AD Rat → AD Rat)
    (C : AD XQ → AD XQ × AD XQ) (c : AD Rat → AD Rat × AD Rat) (hF : HomF F f) (hC : HomC C c)
    (terms' : List (Nat × Nat × Rat)) (hI : ∀ x y : Rat, integrand3 f c x y = evalTerms terms' x y)
    (hdeg : DegLe 30 terms') (polys : List (Array (Pt XQ)))
    (hfin : ∀ p ∈ SweepSetup.allPts polys, Finite p) (cfg : Cfg3D XQ) (tol : Rat)
    (htol : cfg.tol = .fin tol) (ds : List (Disp3D XQ))
    (h : genDisplayCav3 F C polys cfg = .ok ds) (d : Disp3D XQ) (hd : d ∈ ds) (v e : XQ)
    (hv : d.integ = some (v, e)) :
    d.triag = finTri (ratTri d.triag) ∧ v = .fin (toRat v) ∧ e = .fin (toRat e) ∧
      |toRat v - triExactQ terms' (ratTri d.triag)| ≤ triBoundQ terms' (ratTri d.triag) ∧
      toRat e < tol ∧ 0 ≤ toRat e :=
  cav3_piece_accuracy_local F f C c hF hC terms' hdeg polys hfin cfg tol htol ds h d hd
    (OnTri.of_forall hI) v e hv

/-- an inequality between rationals as an inequality in `ℝ` against a real number identified with
    the exact value -/
theorem abs_sub_real_of_rat {v q b : Rat} {I : ℝ} (hq : ((q : Rat) : ℝ) = I) (h : |v - q| ≤ b) :
    |((v : Rat) : ℝ) - I| ≤ ((b : Rat) : ℝ) := by
  rw [← hq, ← Rat.cast_sub, ← Rat.cast_abs, Rat.cast_le]
  exact h

/-- the same with the exact value as Mathlib's interval integral (the form of
    `C09Accuracy.gkTriangle_poly_accuracy`) -/
theorem cav3_piece_accuracy_real (F : AD XQ × AD XQ → AD XQ) (f : AD Rat × AD Rat → AD Rat)
    (C : AD XQ → AD XQ × AD XQ) (c : AD Rat → AD Rat × AD Rat) (hF : HomF F f) (hC : HomC C c)
    (terms' : List (Nat × Nat × Rat)) (hI : ∀ x y : Rat, integrand3 f c x y = evalTerms terms' x y)
    (hdeg : DegLe 30 terms') (polys : List (Array (Pt XQ)))
    (hfin : ∀ p ∈ SweepSetup.allPts polys, Finite p) (cfg : Cfg3D XQ) (tol : Rat)
    (htol : cfg.tol = .fin tol) (ds : List (Disp3D XQ))
    (h : genDisplayCav3 F C polys cfg = .ok ds) (d : Disp3D XQ) (hd : d ∈ ds) (v e : XQ)
    (hv : d.integ = some (v, e)) :
    |((toRat v : Rat) : ℝ) -
        ∫ s in ((0 : Rat) : ℝ)..((1 : Rat) : ℝ),
          evalPolyR (triInner (triPoly terms' (ratTri d.triag))) s| ≤
      ((triBound (triPoly terms' (ratTri d.triag)) : Rat) : ℝ) := by
  obtain ⟨-, -, -, h4, -⟩ := cav3_piece_accuracy_of_terms F f C c hF hC terms' hI hdeg polys hfin
    cfg tol htol ds h d hd v e hv
  exact abs_sub_real_of_rat (triIntegral_eq terms' (ratTri d.triag)).symm h4

/-- **(V2)(a) constant `c`-curve**: `f = adPoly2 terms` of total degree ≤ 30, `c(z) = (k₁, k₂)`;
    the integrand is `f` itself -/
theorem cav3_piece_accuracy_const_c (terms : List (Nat × Nat × Rat)) (hdeg : DegLe 30 terms)
    (k1 k2 : Rat) (polys : List (Array (Pt XQ))) (hfin : ∀ p ∈ SweepSetup.allPts polys, Finite p)
    (cfg : Cfg3D XQ) (tol : Rat) (htol : cfg.tol = .fin tol) (ds : List (Disp3D XQ))
    (h : genDisplayCav3 (adPoly2 (finTerms terms)) (cAff (.fin 0) (.fin 0) (.fin k1) (.fin k2))
      polys cfg = .ok ds) (d : Disp3D XQ) (hd : d ∈ ds) (v e : XQ) (hv : d.integ = some (v, e)) :
    d.triag = finTri (ratTri d.triag) ∧ v = .fin (toRat v) ∧ e = .fin (toRat e) ∧
      |toRat v - triExactQ terms (ratTri d.triag)| ≤ triBoundQ terms (ratTri d.triag) ∧
      toRat e < tol ∧ 0 ≤ toRat e :=
  cav3_piece_accuracy_of_terms _ _ _ _ (homF_adPoly2 terms) (homC_cAff 0 0 k1 k2) terms
    (integrand3_adPoly2_const terms k1 k2) hdeg polys hfin cfg tol htol ds h d hd v e hv

/-- … with the exact value as `2·area(t)` times the iterated integral over the unit simplex of `f`
    composed with the affine parametrisation `P(s,r) = p0 + s(p1−p0) + r(p2−p0)` of the triangle -/
theorem cav3_piece_accuracy_const_c_iterated (terms : List (Nat × Nat × Rat))
    (hdeg : DegLe 30 terms) (k1 k2 : Rat) (polys : List (Array (Pt XQ)))
    (hfin : ∀ p ∈ SweepSetup.allPts polys, Finite p)
    (cfg : Cfg3D XQ) (tol : Rat) (htol : cfg.tol = .fin tol) (ds : List (Disp3D XQ))
    (h : genDisplayCav3 (adPoly2 (finTerms terms)) (cAff (.fin 0) (.fin 0) (.fin k1) (.fin k2))
      polys cfg = .ok ds) (d : Disp3D XQ) (hd : d ∈ ds) (v e : XQ) (hv : d.integ = some (v, e)) :
    |((toRat v : Rat) : ℝ) -
        ((triFactor (ratTri d.triag) : Rat) : ℝ) *
          ∫ s in (0 : ℝ)..1, ∫ r in (0 : ℝ)..(1 - s),
            evalTermsR terms (paramX (ratTri d.triag) s r) (paramY (ratTri d.triag) s r)| ≤
      ((triBoundQ terms (ratTri d.triag) : Rat) : ℝ) :=
  abs_sub_real_of_rat (triExactQ_terms terms _)
    (cav3_piece_accuracy_const_c terms hdeg k1 k2 polys hfin cfg tol htol ds h d hd v e hv).2.2.2.1

/-- the terms of `|1 − a·q − b·r| · (p + q·x + r·y)` -/
def affCavTerms (p q r a b : Rat) : List (Nat × Nat × Rat) :=
  affTerms (p * |1 - a * q - b * r|) (q * |1 - a * q - b * r|) (r * |1 - a * q - b * r|)

theorem degLe_affCavTerms (p q r a b : Rat) : DegLe 30 (affCavTerms p q r a b) := by
  intro tm htm
  simp only [affCavTerms, affTerms, List.mem_cons, List.not_mem_nil, or_false] at htm
  rcases htm with rfl | rfl | rfl <;> simp

/-- **(V2)(b) affine `f`, affine `c`**: `f(x,y) = p + q·x + r·y`, `c(z) = (a·z + k₁, b·z + k₂)`;
    the integrand is `|1 − a·q − b·r| · f` (determinant of either sign, also `0`) -/
theorem cav3_piece_accuracy_affine (p q r a b k1 k2 : Rat) (polys : List (Array (Pt XQ)))
    (hfin : ∀ p ∈ SweepSetup.allPts polys, Finite p)
    (cfg : Cfg3D XQ) (tol : Rat) (htol : cfg.tol = .fin tol) (ds : List (Disp3D XQ))
    (h : genDisplayCav3 (adPoly2 (finTerms (affTerms p q r)))
      (cAff (.fin a) (.fin b) (.fin k1) (.fin k2)) polys cfg = .ok ds)
    (d : Disp3D XQ) (hd : d ∈ ds) (v e : XQ) (hv : d.integ = some (v, e)) :
    d.triag = finTri (ratTri d.triag) ∧ v = .fin (toRat v) ∧ e = .fin (toRat e) ∧
      |toRat v - triExactQ (affCavTerms p q r a b) (ratTri d.triag)| ≤
        triBoundQ (affCavTerms p q r a b) (ratTri d.triag) ∧
      toRat e < tol ∧ 0 ≤ toRat e :=
  cav3_piece_accuracy_of_terms _ _ _ _ (homF_adPoly2 _) (homC_cAff a b k1 k2)
    (affCavTerms p q r a b) (integrand3_affine p q r a b k1 k2)
    (degLe_affCavTerms p q r a b)
    polys hfin cfg tol htol ds h d hd v e hv

/-- **(V2)(c) determinant of constant sign ON THE TRIANGLE**: `f = adPoly2 terms` of total degree
    ≤ 15 (so that `f · det Dg` has total degree ≤ 30), `c` affine, and
    `σ·(1 − a·f_x − b·f_y) ≥ 0` at the rational points of the triangle `d.triag` for a `σ = ±1`;
    the integrand is `f · σ·det Dg` with the terms `cavTerms σ a b terms` -/
theorem cav3_piece_accuracy_sign_local (terms : List (Nat × Nat × Rat)) (hdeg : DegLe 15 terms)
    (σ a b k1 k2 : Rat) (hσ : σ = 1 ∨ σ = -1)
    (polys : List (Array (Pt XQ))) (hfin : ∀ p ∈ SweepSetup.allPts polys, Finite p)
    (cfg : Cfg3D XQ) (tol : Rat) (htol : cfg.tol = .fin tol) (ds : List (Disp3D XQ))
    (h : genDisplayCav3 (adPoly2 (finTerms terms)) (cAff (.fin a) (.fin b) (.fin k1) (.fin k2))
      polys cfg = .ok ds) (d : Disp3D XQ) (hd : d ∈ ds)
    (hs : OnTri (ratTri d.triag) (fun x y => 0 ≤ σ * evalTerms (detTerms a b terms) x y))
    (v e : XQ) (hv : d.integ = some (v, e)) :
    d.triag = finTri (ratTri d.triag) ∧ v = .fin (toRat v) ∧ e = .fin (toRat e) ∧
      |toRat v - triExactQ (cavTerms σ a b terms) (ratTri d.triag)| ≤
        triBoundQ (cavTerms σ a b terms) (ratTri d.triag) ∧
      toRat e < tol ∧ 0 ≤ toRat e :=
  cav3_piece_accuracy_local _ _ _ _ (homF_adPoly2 terms) (homC_cAff a b k1 k2)
    (cavTerms σ a b terms) (DegLe_cavTerms 15 σ a b terms hdeg) polys hfin cfg tol htol ds h d hd
    (fun s r h0 h1 h2 => integrand3_adPoly2_sign_at terms σ a b k1 k2 hσ _ _ (hs s r h0 h1 h2))
    v e hv

/-- **(V2)(c) determinant of constant sign at every rational point** -/
theorem cav3_piece_accuracy_sign (terms : List (Nat × Nat × Rat)) (hdeg : DegLe 15 terms)
    (σ a b k1 k2 : Rat) (hσ : σ = 1 ∨ σ = -1)
    (hs : ∀ x y : Rat, 0 ≤ σ * evalTerms (detTerms a b terms) x y)
    (polys : List (Array (Pt XQ))) (hfin : ∀ p ∈ SweepSetup.allPts polys, Finite p)
    (cfg : Cfg3D XQ) (tol : Rat) (htol : cfg.tol = .fin tol) (ds : List (Disp3D XQ))
    (h : genDisplayCav3 (adPoly2 (finTerms terms)) (cAff (.fin a) (.fin b) (.fin k1) (.fin k2))
      polys cfg = .ok ds) (d : Disp3D XQ) (hd : d ∈ ds) (v e : XQ) (hv : d.integ = some (v, e)) :
    d.triag = finTri (ratTri d.triag) ∧ v = .fin (toRat v) ∧ e = .fin (toRat e) ∧
      |toRat v - triExactQ (cavTerms σ a b terms) (ratTri d.triag)| ≤
        triBoundQ (cavTerms σ a b terms) (ratTri d.triag) ∧
      toRat e < tol ∧ 0 ≤ toRat e :=
  cav3_piece_accuracy_sign_local terms hdeg σ a b k1 k2 hσ polys hfin cfg tol htol ds h d hd
    (OnTri.of_forall hs) v e hv

/-- … with the exact value as `2·area(t)` times the iterated integral over the unit simplex of
    `f · |1 − a·f_x − b·f_y|` composed with the affine parametrisation of the triangle -/
theorem cav3_piece_accuracy_sign_iterated (terms : List (Nat × Nat × Rat)) (hdeg : DegLe 15 terms)
    (σ a b k1 k2 : Rat) (hσ : σ = 1 ∨ σ = -1)
    (hs : ∀ x y : Rat, 0 ≤ σ * evalTerms (detTerms a b terms) x y)
    (polys : List (Array (Pt XQ))) (hfin : ∀ p ∈ SweepSetup.allPts polys, Finite p)
    (cfg : Cfg3D XQ) (tol : Rat) (htol : cfg.tol = .fin tol) (ds : List (Disp3D XQ))
    (h : genDisplayCav3 (adPoly2 (finTerms terms)) (cAff (.fin a) (.fin b) (.fin k1) (.fin k2))
      polys cfg = .ok ds) (d : Disp3D XQ) (hd : d ∈ ds) (v e : XQ) (hv : d.integ = some (v, e)) :
    |((toRat v : Rat) : ℝ) -
        ((triFactor (ratTri d.triag) : Rat) : ℝ) *
          ∫ s in (0 : ℝ)..1, ∫ r in (0 : ℝ)..(1 - s),
            evalTermsR terms (paramX (ratTri d.triag) s r) (paramY (ratTri d.triag) s r) *
              (|evalTermsR (detTerms a b terms) (paramX (ratTri d.triag) s r)
                (paramY (ratTri d.triag) s r)|)| ≤
      ((triBoundQ (cavTerms σ a b terms) (ratTri d.triag) : Rat) : ℝ) :=
  abs_sub_real_of_rat (triExactQ_cavTerms terms σ a b hσ hs _)
    (cav3_piece_accuracy_sign terms hdeg σ a b k1 k2 hσ hs polys hfin cfg tol htol ds h d hd v e
      hv).2.2.2.1

/-! ## (V3) the whole triangulation -/

/-- **(V3) `cav3_total`, general form.**  The polynomial may depend on the triangle
    (`terms' t`, e.g. through the sign of the determinant) and the integrand has to agree with it
    only at the points of that triangle, for every triangle of `sweep polys`.  With integration
    switched on: the displays correspond one-to-one to the triangles of `sweep polys`, every
    display stores a finite value, and the sum of the stored values is within the sum of the
    per-triangle bounds of the sum of the exact per-triangle integrals. -/
theorem cav3_total_local (F : AD XQ × AD XQ → AD XQ) (f : AD Rat × AD Rat → AD Rat)
    (C : AD XQ → AD XQ × AD XQ) (c : AD Rat → AD Rat × AD Rat) (hF : HomF F f) (hC : HomC C c)
    (terms' : (Rat × Rat) × (Rat × Rat) × (Rat × Rat) → List (Nat × Nat × Rat))
    (polys : List (Array (Pt XQ)))
    (hloc : ∀ tris, sweep polys = .ok tris → ∀ tr ∈ tris, DegLe 30 (terms' (triQ tr)) ∧
      OnTri (triQ tr) (fun x y => integrand3 f c x y = evalTerms (terms' (triQ tr)) x y))
    (hfin : ∀ p ∈ SweepSetup.allPts polys, Finite p) (cfg : Cfg3D XQ) (tol : Rat)
    (htol : cfg.tol = .fin tol) (hci : cfg.computeInteg = true) (ds : List (Disp3D XQ))
    (h : genDisplayCav3 F C polys cfg = .ok ds) :
    ∃ tris, sweep polys = .ok tris ∧ ds.map (·.triag) = tris.map triOf ∧
      (∀ d ∈ ds, ∃ v e : Rat, d.integ = some (.fin v, .fin e)) ∧
      |(ds.map dispVal).sum - (tris.map fun tr => triExactQ (terms' (triQ tr)) (triQ tr)).sum| ≤
        (tris.map fun tr => triBoundQ (terms' (triQ tr)) (triQ tr)).sum := by
  obtain ⟨tris, hs, hf⟩ := cav3_integ_per_triangle F C polys cfg ds h
  obtain ⟨tris', hs', -, hmap⟩ := cav3_count_and_triag F C polys cfg ds h
  rw [hs] at hs'
  cases hs'
  have hpiece : ∀ tr ∈ tris, ∀ d, IsDisplayOf F C cfg tr d →
      ∃ v' e' : Rat, d.integ = some (.fin v', .fin e') ∧
        |v' - triExactQ (terms' (triQ tr)) (triQ tr)| ≤ triBoundQ (terms' (triQ tr)) (triQ tr) := by
    intro tr htr d hD
    have hft := sweep_finTri hfin hs tr htr
    obtain ⟨hdeg, hI⟩ := hloc tris hs tr htr
    rcases hD.2 with ⟨hc, _⟩ | ⟨_, ⟨v, e⟩, hw, _⟩
    · rw [hc] at hci; cases hci
    · obtain ⟨-, v', e', rfl, rfl, hacc, -⟩ := piece_of_display F f C c hF hC (terms' (triQ tr))
        hdeg cfg tol htol tr hft hI d hD v e hw
      exact ⟨v', e', hw, hacc⟩
  refine ⟨tris, hs, hmap, ?_, ?_⟩
  · intro d hd
    rw [genDisplayCav3_eq, hs] at h
    obtain ⟨tr, htr, hE⟩ := mapE_mem h hd
    obtain ⟨v', e', hw, -⟩ := hpiece tr htr d (tri3E_ok F C cfg tr d hE)
    exact ⟨v', e', hw⟩
  · refine sum_abs_sub_le (IsDisplayOf F C cfg) dispVal _ _ hf ?_
    intro tr htr d hD
    obtain ⟨v', e', hw, hacc⟩ := hpiece tr htr d hD
    have : dispVal d = v' := by simp only [dispVal, hw]; rfl
    rw [this]
    exact hacc

/-- **(V3)** for an integrand that is one polynomial `terms'` at every rational point -/
theorem cav3_total_of_terms (F : AD XQ × AD XQ → AD XQ) (f : AD Rat × AD Rat → AD Rat)
    (C : AD XQ → AD XQ × AD XQ) (c : AD Rat → AD Rat × AD Rat) (hF : HomF F f) (hC : HomC C c)
    (terms' : List (Nat × Nat × Rat)) (hI : ∀ x y : Rat, integrand3 f c x y = evalTerms terms' x y)
    (hdeg : DegLe 30 terms') (polys : List (Array (Pt XQ)))
    (hfin : ∀ p ∈ SweepSetup.allPts polys, Finite p) (cfg : Cfg3D XQ) (tol : Rat)
    (htol : cfg.tol = .fin tol) (hci : cfg.computeInteg = true) (ds : List (Disp3D XQ))
    (h : genDisplayCav3 F C polys cfg = .ok ds) :
    ∃ tris, sweep polys = .ok tris ∧ ds.map (·.triag) = tris.map triOf ∧
      (∀ d ∈ ds, ∃ v e : Rat, d.integ = some (.fin v, .fin e)) ∧
      |(ds.map dispVal).sum - (tris.map fun tr => triExactQ terms' (triQ tr)).sum| ≤
        (tris.map fun tr => triBoundQ terms' (triQ tr)).sum :=
  cav3_total_local F f C c hF hC (fun _ => terms') polys
    (fun _ _ _ _ => ⟨hdeg, OnTri.of_forall hI⟩) hfin cfg tol htol hci ds h

/-- the per-triangle quantities may be read off the stored triangles -/
theorem map_triag_eq {β : Type} (g : (Rat × Rat) × (Rat × Rat) × (Rat × Rat) → β)
    (ds : List (Disp3D XQ)) (tris : List (Pt XQ × Pt XQ × Pt XQ))
    (h : ds.map (·.triag) = tris.map triOf) :
    ds.map (fun d => g (ratTri d.triag)) = tris.map (fun tr => g (triQ tr)) := by
  have := congrArg (List.map (fun T => g (ratTri T))) h
  simpa only [List.map_map, Function.comp_def, ratTri_triOf] using this

/-- **(V3)(a) constant `c`-curve** -/
theorem cav3_total_const_c (terms : List (Nat × Nat × Rat)) (hdeg : DegLe 30 terms)
    (k1 k2 : Rat) (polys : List (Array (Pt XQ))) (hfin : ∀ p ∈ SweepSetup.allPts polys, Finite p)
    (cfg : Cfg3D XQ) (tol : Rat) (htol : cfg.tol = .fin tol) (hci : cfg.computeInteg = true)
    (ds : List (Disp3D XQ))
    (h : genDisplayCav3 (adPoly2 (finTerms terms)) (cAff (.fin 0) (.fin 0) (.fin k1) (.fin k2))
      polys cfg = .ok ds) :
    ∃ tris, sweep polys = .ok tris ∧ ds.map (·.triag) = tris.map triOf ∧
      (∀ d ∈ ds, ∃ v e : Rat, d.integ = some (.fin v, .fin e)) ∧
      |(ds.map dispVal).sum - (tris.map fun tr => triExactQ terms (triQ tr)).sum| ≤
        (tris.map fun tr => triBoundQ terms (triQ tr)).sum :=
  cav3_total_of_terms _ _ _ _ (homF_adPoly2 terms) (homC_cAff 0 0 k1 k2) terms
    (integrand3_adPoly2_const terms k1 k2) hdeg polys hfin cfg tol htol hci ds h

/-- **(V3)(b) affine `f`, affine `c`** -/
theorem cav3_total_affine (p q r a b k1 k2 : Rat) (polys : List (Array (Pt XQ)))
    (hfin : ∀ p ∈ SweepSetup.allPts polys, Finite p)
    (cfg : Cfg3D XQ) (tol : Rat) (htol : cfg.tol = .fin tol) (hci : cfg.computeInteg = true)
    (ds : List (Disp3D XQ))
    (h : genDisplayCav3 (adPoly2 (finTerms (affTerms p q r)))
      (cAff (.fin a) (.fin b) (.fin k1) (.fin k2)) polys cfg = .ok ds) :
    ∃ tris, sweep polys = .ok tris ∧ ds.map (·.triag) = tris.map triOf ∧
      (∀ d ∈ ds, ∃ v e : Rat, d.integ = some (.fin v, .fin e)) ∧
      |(ds.map dispVal).sum - (tris.map fun tr => triExactQ (affCavTerms p q r a b) (triQ tr)).sum| ≤
        (tris.map fun tr => triBoundQ (affCavTerms p q r a b) (triQ tr)).sum :=
  cav3_total_of_terms _ _ _ _ (homF_adPoly2 _) (homC_cAff a b k1 k2)
    (affCavTerms p q r a b) (integrand3_affine p q r a b k1 k2) (degLe_affCavTerms p q r a b)
    polys hfin cfg tol htol hci ds h

/-- **(V3)(c) determinant of constant sign on each triangle** (the sign `σ t = ±1` may differ from
    triangle to triangle) -/
theorem cav3_total_sign_local (terms : List (Nat × Nat × Rat)) (hdeg : DegLe 15 terms)
    (σ : (Rat × Rat) × (Rat × Rat) × (Rat × Rat) → Rat) (a b k1 k2 : Rat)
    (polys : List (Array (Pt XQ)))
    (hs : ∀ tris, sweep polys = .ok tris → ∀ tr ∈ tris,
      (σ (triQ tr) = 1 ∨ σ (triQ tr) = -1) ∧
        OnTri (triQ tr) (fun x y => 0 ≤ σ (triQ tr) * evalTerms (detTerms a b terms) x y))
    (hfin : ∀ p ∈ SweepSetup.allPts polys, Finite p)
    (cfg : Cfg3D XQ) (tol : Rat) (htol : cfg.tol = .fin tol) (hci : cfg.computeInteg = true)
    (ds : List (Disp3D XQ))
    (h : genDisplayCav3 (adPoly2 (finTerms terms)) (cAff (.fin a) (.fin b) (.fin k1) (.fin k2))
      polys cfg = .ok ds) :
    ∃ tris, sweep polys = .ok tris ∧ ds.map (·.triag) = tris.map triOf ∧
      (∀ d ∈ ds, ∃ v e : Rat, d.integ = some (.fin v, .fin e)) ∧
      |(ds.map dispVal).sum -
          (tris.map fun tr => triExactQ (cavTerms (σ (triQ tr)) a b terms) (triQ tr)).sum| ≤
        (tris.map fun tr => triBoundQ (cavTerms (σ (triQ tr)) a b terms) (triQ tr)).sum :=
  cav3_total_local _ _ _ _ (homF_adPoly2 terms) (homC_cAff a b k1 k2)
    (fun t => cavTerms (σ t) a b terms) polys
    (fun tris hsw tr htr => ⟨DegLe_cavTerms 15 _ a b terms hdeg,
      fun s r h0 h1 h2 => integrand3_adPoly2_sign_at terms _ a b k1 k2 (hs tris hsw tr htr).1 _ _
        ((hs tris hsw tr htr).2 s r h0 h1 h2)⟩)
    hfin cfg tol htol hci ds h

/-- **(V3)(c) determinant of constant sign at every rational point** -/
theorem cav3_total_sign (terms : List (Nat × Nat × Rat)) (hdeg : DegLe 15 terms)
    (σ a b k1 k2 : Rat) (hσ : σ = 1 ∨ σ = -1)
    (hs : ∀ x y : Rat, 0 ≤ σ * evalTerms (detTerms a b terms) x y)
    (polys : List (Array (Pt XQ))) (hfin : ∀ p ∈ SweepSetup.allPts polys, Finite p)
    (cfg : Cfg3D XQ) (tol : Rat) (htol : cfg.tol = .fin tol) (hci : cfg.computeInteg = true)
    (ds : List (Disp3D XQ))
    (h : genDisplayCav3 (adPoly2 (finTerms terms)) (cAff (.fin a) (.fin b) (.fin k1) (.fin k2))
      polys cfg = .ok ds) :
    ∃ tris, sweep polys = .ok tris ∧ ds.map (·.triag) = tris.map triOf ∧
      (∀ d ∈ ds, ∃ v e : Rat, d.integ = some (.fin v, .fin e)) ∧
      |(ds.map dispVal).sum - (tris.map fun tr => triExactQ (cavTerms σ a b terms) (triQ tr)).sum| ≤
        (tris.map fun tr => triBoundQ (cavTerms σ a b terms) (triQ tr)).sum :=
  cav3_total_sign_local terms hdeg (fun _ => σ) a b k1 k2 polys
    (fun _ _ _ _ => ⟨hσ, OnTri.of_forall hs⟩) hfin cfg tol htol hci ds h

/-! ### constant integrand: the sum is `k · area` -/

/-- **constant integrand `k`, general form**: if `f · absJacobianDet g = k` at every rational point
    (e.g. `f = k` and `c` constant), the stored values add up to `k` times half the sum of the
    absolute orientation determinants of the triangles, within `|k| · Σ|det| · constRel`
    (`constRel = 1e-16·(3/2 + 1/(4e16))`) -/
theorem cav3_total_const (F : AD XQ × AD XQ → AD XQ) (f : AD Rat × AD Rat → AD Rat)
    (C : AD XQ → AD XQ × AD XQ) (c : AD Rat → AD Rat × AD Rat) (hF : HomF F f) (hC : HomC C c)
    (k : Rat) (hI : ∀ x y : Rat, integrand3 f c x y = k) (polys : List (Array (Pt XQ)))
    (hfin : ∀ p ∈ SweepSetup.allPts polys, Finite p) (cfg : Cfg3D XQ) (tol : Rat)
    (htol : cfg.tol = .fin tol) (hci : cfg.computeInteg = true) (ds : List (Disp3D XQ))
    (h : genDisplayCav3 F C polys cfg = .ok ds) :
    ∃ tris, sweep polys = .ok tris ∧ ds.length = tris.length ∧
      |(ds.map dispVal).sum - k * ((tris.map fun tr => |orientPt tr.1 tr.2.1 tr.2.2|).sum / 2)| ≤
        |k| * (tris.map fun tr => |orientPt tr.1 tr.2.1 tr.2.2|).sum * constRel := by
  obtain ⟨tris, hs, hmap, -, hsum⟩ := cav3_total_of_terms F f C c hF hC [(0, 0, k)]
    (fun x y => by rw [hI]; simp [evalTerms]) (by intro tm htm; simp at htm; subst htm; simp)
    polys hfin cfg tol htol hci ds h
  refine ⟨tris, hs, by simpa using congrArg List.length hmap, ?_⟩
  have e1 : (tris.map fun tr => triExactQ [(0, 0, k)] (triQ tr)).sum =
      k * ((tris.map fun tr => |orientPt tr.1 tr.2.1 tr.2.2|).sum / 2) := by
    clear hsum hmap hs
    induction tris with
    | nil => simp
    | cons tr tris ih =>
      rw [List.map_cons, List.sum_cons, List.map_cons, List.sum_cons, ih, triExactQ_const,
        triFactor_triQ]
      ring
  have e2 : (tris.map fun tr => triBoundQ [(0, 0, k)] (triQ tr)).sum =
      |k| * (tris.map fun tr => |orientPt tr.1 tr.2.1 tr.2.2|).sum * constRel := by
    clear hsum hmap hs e1
    induction tris with
    | nil => simp
    | cons tr tris ih =>
      rw [List.map_cons, List.sum_cons, List.map_cons, List.sum_cons, ih, triBoundQ_const,
        triFactor_triQ]
      ring
  rwa [e1, e2] at hsum

/-- the constant closure `f = k` as a term list, and the constant `c`-curve: integrand `k` -/
theorem integrand3_const (k k1 k2 x y : Rat) :
    integrand3 (adPoly2 [(0, 0, k)]) (cAff 0 0 k1 k2) x y = k := by
  rw [integrand3_adPoly2_const]
  simp [evalTerms]

/-- **fully concrete corollary, simple quadrilateral** (`C04QuadV.quad_accepted_general`): for
    rational points `a b c d` forming a simple quadrilateral (any start vertex, either orientation,
    abscissae may coincide), the constant `f = k` and a constant `c`-curve: whenever
    `gen_display_cav` succeeds with integration on and a finite tolerance, it returns two displays
    whose values add up to `k · area(abcd)` (shoelace formula) within `|k| · 2·area · constRel`. -/
theorem cav3_quad_const (a b c d : Rat × Rat) (hs : QuadCases.SimpleQuad a b c d) (k k1 k2 tol : Rat)
    (cfg : Cfg3D XQ) (htol : cfg.tol = .fin tol) (hci : cfg.computeInteg = true)
    (ds : List (Disp3D XQ))
    (h : genDisplayCav3 (adPoly2 (finTerms [(0, 0, k)])) (cAff (.fin 0) (.fin 0) (.fin k1) (.fin k2))
      [#[F a.1 a.2, F b.1 b.2, F c.1 c.2, F d.1 d.2]] cfg = .ok ds) :
    ds.length = 2 ∧
      |(ds.map dispVal).sum -
          k * (|(a.1 * b.2 - a.2 * b.1) + (b.1 * c.2 - b.2 * c.1) + (c.1 * d.2 - c.2 * d.1) +
            (d.1 * a.2 - d.2 * a.1)| / 2)| ≤
        |k| * |(a.1 * b.2 - a.2 * b.1) + (b.1 * c.2 - b.2 * c.1) + (c.1 * d.2 - c.2 * d.1) +
            (d.1 * a.2 - d.2 * a.1)| * constRel := by
  obtain ⟨t1, t2, hm, -, -, -, harea⟩ := C04QuadV.quad_accepted_general a b c d hs
  have hsw := sweep_of_sweepMon hm
  have hfin : ∀ p ∈ SweepSetup.allPts [#[F a.1 a.2, F b.1 b.2, F c.1 c.2, F d.1 d.2]], Finite p := by
    intro p hp
    simp only [SweepSetup.allPts, List.flatMap_cons, List.flatMap_nil, List.append_nil,
      List.mem_cons, List.not_mem_nil, or_false] at hp
    rcases hp with rfl | rfl | rfl | rfl <;> exact ⟨_, _, rfl⟩
  obtain ⟨tris, hs', hlen, hsum⟩ := cav3_total_const _ _ _ _ (homF_adPoly2 [(0, 0, k)])
    (homC_cAff 0 0 k1 k2) k (integrand3_const k k1 k2) _ hfin cfg tol htol hci ds h
  rw [hsw] at hs'
  cases hs'
  simp only [List.map_cons, List.map_nil, List.sum_cons, List.sum_nil, add_zero, harea] at hsum
  exact ⟨hlen, hsum⟩

/-- **fully concrete corollary, strictly convex polygon in general position**
    (`C04Convex.convex_accepted`): `n − 2` displays whose values add up to `k · area(P)`
    (`area = |shoelace P| / 2`) within `|k| · |shoelace P| · constRel`. -/
theorem cav3_convex_const (P : Array (Rat × Rat)) (hn : 3 ≤ P.size) (hx : CvxPoly.DistinctX P)
    (hc : CvxPoly.StrictlyConvex P) (hm : CvxPoly.XMonotone P) (k k1 k2 tol : Rat)
    (cfg : Cfg3D XQ) (htol : cfg.tol = .fin tol) (hci : cfg.computeInteg = true)
    (ds : List (Disp3D XQ))
    (h : genDisplayCav3 (adPoly2 (finTerms [(0, 0, k)])) (cAff (.fin 0) (.fin 0) (.fin k1) (.fin k2))
      [P.map (fun p => F p.1 p.2)] cfg = .ok ds) :
    ds.length = P.size - 2 ∧
      |(ds.map dispVal).sum - k * (|CvxPoly.shoelace P| / 2)| ≤
        |k| * |CvxPoly.shoelace P| * constRel := by
  obtain ⟨T, hmon, hlenT, -, -, harea⟩ := C04Convex.convex_accepted P hn hx hc hm
  have hsw := sweep_of_sweepMon hmon
  have hfin : ∀ p ∈ SweepSetup.allPts [P.map (fun p => F p.1 p.2)], Finite p := by
    intro p hp
    simp only [SweepSetup.allPts, List.flatMap_cons, List.flatMap_nil, List.append_nil,
      Array.toList_map, List.mem_map] at hp
    obtain ⟨q, -, rfl⟩ := hp
    exact ⟨_, _, rfl⟩
  obtain ⟨tris, hs', hlen, hsum⟩ := cav3_total_const _ _ _ _ (homF_adPoly2 [(0, 0, k)])
    (homC_cAff 0 0 k1 k2) k (integrand3_const k k1 k2) _ hfin cfg tol htol hci ds h
  rw [hsw] at hs'
  cases hs'
  rw [harea] at hsum
  exact ⟨by rw [hlen, hlenT], hsum⟩

/-! ## Non-vacuity: concrete runs of the model, evaluated by the kernel (`decide +kernel`) -/

/-- what the examples observe of a run: per display the stored triangle and whether a value is
    stored -/
def runShape (r : Except (Disp3Err XQ) (List (Disp3D XQ))) :
    Option (List ((P2 XQ × P2 XQ × P2 XQ) × Bool)) :=
  match r with
  | .ok ds => some (ds.map fun d => (d.triag, d.integ.isSome))
  | .error _ => none

theorem runShape_ok {r : Except (Disp3Err XQ) (List (Disp3D XQ))}
    {l : List ((P2 XQ × P2 XQ × P2 XQ) × Bool)} (h : runShape r = some l) :
    ∃ ds, r = .ok ds ∧ ds.map (·.triag) = l.map (·.1) := by
  cases r with
  | error e => cases h
  | ok ds =>
    simp only [runShape, Option.some.injEq] at h
    exact ⟨ds, rfl, by rw [← h, List.map_map]; rfl⟩

/-! ### `f(x,y) = x + y`, `c(z) = (z, 2z)` on the unit square

`g(x,y) = (−y, −2x − y)`, `det Dg = 1 − 1 − 2 = −2` (negative!), integrand `2x + 2y`, exact value
`∫∫ 2(x+y) = 2 = 2/3 + 4/3` over the two triangles. -/

def fXY : AD XQ × AD XQ → AD XQ := adPoly2 (finTerms (affTerms 0 1 1))
def cZ2Z : AD XQ → AD XQ × AD XQ := cAff (.fin 1) (.fin 2) (.fin 0) (.fin 0)
def cfgEx : Cfg3D XQ := ⟨true, 1, 1, 1, 20, .fin (1 / 100)⟩
def unitSquare : List (Array (Pt XQ)) := [#[F 0 0, F 1 0, F 1 1, F 0 1]]

theorem square_run : runShape (genDisplayCav3 fXY cZ2Z unitSquare cfgEx) =
    some [(((.fin 0, .fin 0), (.fin 0, .fin 1), (.fin 1, .fin 0)), true),
      (((.fin 0, .fin 1), (.fin 1, .fin 0), (.fin 1, .fin 1)), true)] := by
  decide +kernel

theorem unitSquare_finite : ∀ p ∈ SweepSetup.allPts unitSquare, Finite p := by
  intro p hp
  simp only [unitSquare, SweepSetup.allPts, List.flatMap_cons, List.flatMap_nil, List.append_nil,
    List.mem_cons, List.not_mem_nil, or_false] at hp
  rcases hp with rfl | rfl | rfl | rfl <;> exact ⟨_, _, rfl⟩

example : affCavTerms 0 1 1 1 2 = [(0, 0, 0), (1, 0, 2), (0, 1, 2)] := by decide +kernel

/-- the hypotheses of `cav3_piece_accuracy_affine` and `cav3_total_affine` are satisfiable by a run
    with two triangles; the two stored values are within `3.0e-16` and `6.0e-16` of `2/3` and `4/3`
    and add up to `2` within `9.0e-16` -/
example : ∃ ds, genDisplayCav3 fXY cZ2Z unitSquare cfgEx = .ok ds ∧ ds.length = 2 ∧
    (∀ d ∈ ds, ∀ v e, d.integ = some (v, e) →
      v = .fin (toRat v) ∧
      |toRat v - triExactQ (affCavTerms 0 1 1 1 2) (ratTri d.triag)| ≤
        triBoundQ (affCavTerms 0 1 1 1 2) (ratTri d.triag) ∧ toRat e < 1 / 100 ∧ 0 ≤ toRat e) ∧
    |(ds.map dispVal).sum - 2| ≤ 90000000000000002 / 10 ^ 32 := by
  obtain ⟨ds, hr, htri⟩ := runShape_ok square_run
  refine ⟨ds, hr, by simpa using congrArg List.length htri, ?_, ?_⟩
  · intro d hd v e hv
    obtain ⟨-, h2, -, h4, h5⟩ := cav3_piece_accuracy_affine 0 1 1 1 2 0 0 unitSquare
      unitSquare_finite cfgEx (1 / 100) rfl ds hr d hd v e hv
    exact ⟨h2, h4, h5⟩
  · obtain ⟨tris, -, hmap, -, hsum⟩ := cav3_total_affine 0 1 1 1 2 0 0 unitSquare
      unitSquare_finite cfgEx (1 / 100) rfl rfl ds hr
    rw [← map_triag_eq (triExactQ (affCavTerms 0 1 1 1 2)) ds tris hmap,
      ← map_triag_eq (triBoundQ (affCavTerms 0 1 1 1 2)) ds tris hmap] at hsum
    have e1 : ∀ g : (Rat × Rat) × (Rat × Rat) × (Rat × Rat) → Rat,
        ds.map (fun d => g (ratTri d.triag)) =
          [g ((0, 0), (0, 1), (1, 0)), g ((0, 1), (1, 0), (1, 1))] := by
      intro g
      have := congrArg (List.map (fun T => g (ratTri T))) htri
      rw [List.map_map, List.map_map] at this
      exact this
    rw [e1, e1] at hsum
    have e2 : ([triExactQ (affCavTerms 0 1 1 1 2) ((0, 0), (0, 1), (1, 0)),
        triExactQ (affCavTerms 0 1 1 1 2) ((0, 1), (1, 0), (1, 1))] : List Rat).sum = 2 := by
      decide +kernel
    have e3 : ([triBoundQ (affCavTerms 0 1 1 1 2) ((0, 0), (0, 1), (1, 0)),
        triBoundQ (affCavTerms 0 1 1 1 2) ((0, 1), (1, 0), (1, 1))] : List Rat).sum =
        90000000000000002 / 10 ^ 32 := by
      decide +kernel
    rwa [e2, e3] at hsum

/-! ### `f(x,y) = x²`, `c(z) = (z, 0)` on the triangle `(1,0),(2,0),(1,1)`: determinant negative ON
    the triangle only

`g(x,y) = (x − x², y)`, `det Dg = 1 − 2x` changes sign at `x = 1/2`; on the triangle `1 ≤ x ≤ 2`, so
`σ = −1`, the integrand is `x²(2x − 1)` and the exact value `101/60`. -/

def fSq : AD XQ × AD XQ → AD XQ := adPoly2 (finTerms [(2, 0, 1)])
def cZ0 : AD XQ → AD XQ × AD XQ := cAff (.fin 1) (.fin 0) (.fin 0) (.fin 0)
def rightTri : List (Array (Pt XQ)) := [#[F 1 0, F 2 0, F 1 1]]

theorem tri_run : runShape (genDisplayCav3 fSq cZ0 rightTri cfgEx) =
    some [(((.fin 1, .fin 0), (.fin 1, .fin 1), (.fin 2, .fin 0)), true)] := by
  decide +kernel

theorem rightTri_sign :
    OnTri ((1, 0), (1, 1), (2, 0))
      (fun x y => 0 ≤ (-1 : Rat) * evalTerms (detTerms 1 0 [(2, 0, 1)]) x y) := by
  intro s r h0 h1 h2
  show 0 ≤ (-1 : Rat) * evalTerms (detTerms 1 0 [(2, 0, 1)]) _ _
  rw [evalTerms_detTerms]
  simp [dxTerms, dyTerms, evalTerms]
  linarith

/-- the sign hypothesis does NOT hold at every rational point (so `cav3_piece_accuracy_sign` would
    not apply) -/
example : ¬ ∀ x y : Rat, 0 ≤ (-1 : Rat) * evalTerms (detTerms 1 0 [(2, 0, 1)]) x y := by
  intro h
  have := h 0 0
  rw [evalTerms_detTerms] at this
  simp [dxTerms, dyTerms, evalTerms] at this
  linarith

example : cavTerms (-1) 1 0 [(2, 0, 1)] = [(2, 0, -1), (3, 0, 2), (4, 0, 0)] := by decide +kernel
example : triExactQ (cavTerms (-1) 1 0 [(2, 0, 1)]) ((1, 0), (1, 1), (2, 0)) = 101 / 60 := by
  decide +kernel

/-- `cav3_piece_accuracy_sign_local` on this run: the stored value is within `2.2e-15` of `101/60` -/
example : ∃ ds, genDisplayCav3 fSq cZ0 rightTri cfgEx = .ok ds ∧ ds.length = 1 ∧
    ∀ d ∈ ds, ∀ v e, d.integ = some (v, e) →
      v = .fin (toRat v) ∧ |toRat v - 101 / 60| ≤ 650000000000000009 / (3 * 10 ^ 32) ∧
        toRat e < 1 / 100 ∧ 0 ≤ toRat e := by
  obtain ⟨ds, hr, htri⟩ := runShape_ok tri_run
  refine ⟨ds, hr, by simpa using congrArg List.length htri, ?_⟩
  obtain ⟨d0, rfl, hT'⟩ := List.map_eq_singleton_iff.mp htri
  have hT : d0.triag = ((XQ.fin 1, XQ.fin 0), (XQ.fin 1, XQ.fin 1), (XQ.fin 2, XQ.fin 0)) := hT'
  intro d hd v e hv
  rw [List.mem_singleton.mp hd] at hv
  have hfin : ∀ p ∈ SweepSetup.allPts rightTri, Finite p := by
    intro p hp
    simp only [rightTri, SweepSetup.allPts, List.flatMap_cons, List.flatMap_nil, List.append_nil,
      List.mem_cons, List.not_mem_nil, or_false] at hp
    rcases hp with rfl | rfl | rfl <;> exact ⟨_, _, rfl⟩
  have hs : OnTri (ratTri d0.triag)
      (fun x y => 0 ≤ (-1 : Rat) * evalTerms (detTerms 1 0 [(2, 0, 1)]) x y) := by
    rw [hT]; exact rightTri_sign
  obtain ⟨-, h2, -, h4, h5⟩ := cav3_piece_accuracy_sign_local [(2, 0, 1)] (by decide) (-1) 1 0 0 0
    (Or.inr rfl) rightTri hfin cfgEx (1 / 100) rfl [d0] hr d0 List.mem_cons_self hs v e hv
  rw [hT] at h4
  have e1 : triExactQ (cavTerms (-1) 1 0 [(2, 0, 1)])
      (ratTri ((XQ.fin 1, XQ.fin 0), (XQ.fin 1, XQ.fin 1), (XQ.fin 2, XQ.fin 0))) = 101 / 60 := by
    decide +kernel
  have e2 : triBoundQ (cavTerms (-1) 1 0 [(2, 0, 1)])
      (ratTri ((XQ.fin 1, XQ.fin 0), (XQ.fin 1, XQ.fin 1), (XQ.fin 2, XQ.fin 0))) =
      650000000000000009 / (3 * 10 ^ 32) := by
    decide +kernel
  rw [e1, e2] at h4
  exact ⟨h2, h4, h5⟩

/-! ### constant `f = 3`, constant `c = (5, −1)` on the dart `(0,0),(3,1),(0,2),(1,1)`

A non-convex simple quadrilateral with two vertices on a vertical line; area `2`, so the two stored
values add up to `6` within `3 · 4 · constRel ≈ 1.8e-15`. -/

def fThree : AD XQ × AD XQ → AD XQ := adPoly2 (finTerms [(0, 0, 3)])
def cConst : AD XQ → AD XQ × AD XQ := cAff (.fin 0) (.fin 0) (.fin 5) (.fin (-1))

theorem dart_run : (runShape (genDisplayCav3 fThree cConst [#[F 0 0, F 3 1, F 0 2, F 1 1]] cfgEx)).isSome =
    true := by
  decide +kernel

example : ∃ ds, genDisplayCav3 fThree cConst [#[F 0 0, F 3 1, F 0 2, F 1 1]] cfgEx = .ok ds ∧
    ds.length = 2 ∧ |(ds.map dispVal).sum - 6| ≤ 12 * constRel := by
  cases hr : genDisplayCav3 fThree cConst [#[F 0 0, F 3 1, F 0 2, F 1 1]] cfgEx with
  | error e =>
    have h := dart_run
    rw [hr] at h
    cases h
  | ok ds =>
    obtain ⟨hl, hsum⟩ := cav3_quad_const (0, 0) (3, 1) (0, 2) (1, 1) (by decide +kernel) 3 5 (-1)
      (1 / 100) cfgEx rfl rfl ds hr
    refine ⟨ds, rfl, hl, ?_⟩
    norm_num at hsum ⊢
    linarith

example : constRel = 60000000000000001 / (4 * 10 ^ 32) := by decide +kernel

end Cav.C08Accuracy
