/-
  C01 (success clause, general form) — a uniform bound on the single-panel estimates at ONE dyadic
  depth forces the 1-D adaptive integrator to SUCCEED within `2^m − 1` bisections
  (exact arithmetic, every integrand `f : Rat → Rat`).

  Setting.  `dyadic a b d` is the list of the `2^d` sub-panels of `[a,b]` obtained by `d` rounds of
  bisection, each panel `(p,q)` being replaced by `(p,(p+q)/2)`, `((p+q)/2,q)` — the midpoint
  expression of the model (`gk1dLoop`: `(iv.a + iv.b) / two`, and `two = 2` over `Rat`).
  Hypotheses: every depth-`m` panel has estimate `|G10 − K21| ≤ η`, and `2^m · η < tol`.

  Why it holds (loop invariant, `Lemmas/QuadBudget.lean`): every panel in the priority set is a
  dyadic panel of depth `≤ m`, the panels tile `[a,b]` (the invariant of C02), hence there are at
  most `2^m` of them, and `accu` is the sum of their estimates.  At the loop head either
  `accu < tol` (success) or the worst panel has estimate `≥ accu / #panels ≥ tol / 2^m > η`, so it
  is not at depth `m`, and its two halves are again of depth `≤ m`.  Every bisection increases the
  number of panels by one, so at most `2^m − 1` bisections happen.

  Budget.  The model (as the source) tests the budget BEFORE the tolerance at each loop head
  (`fuel = 0` is the convergence error), so `k` bisections followed by the successful test need a
  budget of `k + 1`: the hypothesis is `2^m ≤ n` for `mi = some n`, and it is sharp
  (`budget_sharp` below: with `m = 1`, budget `1 = 2^m − 1` fails).  `mi = none` is `usize::MAX =
  2^64 − 1` iterations, so it needs `m < 64`.  Over `Rat` there is no NaN, so the NaN test is dead.

  Model path used: `gk1d`, `gk1dLoop`, `gkApprox`, `setInsert`, `setRemove`, `panelCmp`, `sumVals`;
  `Num` operations used: `+ - * /`, `ofNat`, `lt`, `beq`, `isNaN`, `abs` (instance `instNumRat`).
-/
import Cav.Thm.C02
import Cav.Thm.C10
import Cav.Lemmas.QuadBudget

namespace Cav.C01Budget
open Cav Num Cav.QuadTiling

/-! ### the dyadic panels (definition in `Lemmas/QuadBudget.lean`, restated) -/

theorem dyadic_zero (a b : Rat) : dyadic a b 0 = [(a, b)] := rfl

theorem dyadic_succ (a b : Rat) (d : Nat) :
    dyadic a b (d + 1) =
      (dyadic a b d).flatMap (fun p => [(p.1, (p.1 + p.2) / 2), ((p.1 + p.2) / 2, p.2)]) := rfl

/-- the midpoint used by `dyadic` is the one the model computes -/
theorem model_midpoint (p q : Rat) : (p + q) / (Num.two : Rat) = (p + q) / 2 := by rw [two_eq]

/-- there are `2^d` panels at depth `d` -/
theorem dyadic_count (a b : Rat) (d : Nat) : (dyadic a b d).length = 2 ^ d := dyadic_length a b d

/-- every panel at depth `d` has signed width `(b − a) / 2^d` -/
theorem dyadic_panel_width (a b : Rat) (d : Nat) (p : Rat × Rat) (hp : p ∈ dyadic a b d) :
    p.2 - p.1 = (b - a) / 2 ^ d := dyadic_width hp

example : dyadic (0 : Rat) 1 2 = [(0, 1/4), (1/4, 1/2), (1/2, 3/4), (3/4, 1)] := by decide +kernel

/-! ### L1/L2: success within the budget -/

/-- **MAIN THEOREM (fuel form).**  For every integrand `f : Rat → Rat`, all bounds `a ≠ b` in
    either order, every depth `m`, every `η` and `tol`: if every dyadic panel of depth `m` has
    single-panel estimate `|G10 − K21| ≤ η`, if `2^m · η < tol`, and if the iteration budget
    (`n` for `some n`, `2^64 − 1` for `none`) is at least `2^m`, then the integrator returns
    `.ok (v, e)` with `0 ≤ e < tol`, having evaluated the rule pair on at most `2^(m+1) − 1` panels
    (the first panel and two per bisection, at most `2^m − 1` bisections). -/
theorem gk1d_succeeds_of_depth_bound_fuel (f : Rat → Rat) (a b tol η : Rat) (m : Nat)
    (mi : Option Nat) (hab : a ≠ b)
    (hη : ∀ p ∈ dyadic a b m, (gkApprox f p.1 p.2).2 ≤ η) (htol : 2 ^ m * η < tol)
    (hbud : 2 ^ m ≤ mi.getD 18446744073709551615) :
    ∃ v e : Rat, (gk1d f a b tol mi).res = .ok (v, e) ∧ 0 ≤ e ∧ e < tol ∧
      (gk1d f a b tol mi).panels.length ≤ 2 ^ (m + 1) - 1 := by
  have key : ∃ v e : Rat, (gk1d f a b tol mi).res = .ok (v, e) ∧
      (gk1d f a b tol mi).panels.length + 2 * 1 ≤ 1 + 2 * 2 ^ m := by
    rw [C02.gk1d_of_ne f a b tol mi hab]
    have hdep : ∀ p ∈ [(⟨(gkApprox f a b).2, (gkApprox f a b).1, a, b⟩ : Panel Rat)],
        ∃ d, d ≤ m ∧ (p.a, p.b) ∈ dyadic a b d := by
      intro p hp
      rw [List.mem_singleton.mp hp]
      exact ⟨0, Nat.zero_le _, List.mem_singleton.mpr rfl⟩
    have hfuel : 2 ^ m + 1 ≤ mi.getD 18446744073709551615 +
        [(⟨(gkApprox f a b).2, (gkApprox f a b).1, a, b⟩ : Panel Rat)].length := by
      simp only [List.length_singleton]; omega
    rcases lt_or_gt_of_ne hab with hlt | hgt
    · exact loop_succeeds dir_lt f tol a b η m hab hη htol _ _ _ _ (Inv.init f hlt) hdep hfuel
    · exact loop_succeeds dir_gt f tol a b η m hab hη htol _ _ _ _
        (Inv.init f (r := fun x y => y < x) hgt) hdep hfuel
  obtain ⟨v, e, hres, hcnt⟩ := key
  refine ⟨v, e, hres, ?_, ?_, ?_⟩
  · obtain ⟨L, _, _, _, he, _⟩ := C02.gk1d_ok_is_tiling_sum f a b tol mi v e hab hres
    rw [he]
    apply List.sum_nonneg
    intro x hx
    obtain ⟨p, _, rfl⟩ := List.mem_map.mp hx
    exact err_nonneg f p.1 p.2
  · rcases C10.gk1d_ok_honest f a b tol mi v e hres with ⟨h, _, _⟩ | ⟨_, h⟩
    · exact absurd (of_decide_eq_true h) hab
    · exact of_decide_eq_true h
  · have : 2 ^ (m + 1) = 2 * 2 ^ m := by rw [pow_succ]; omega
    omega

/-- **L1 (success clause of C01, general form).**  With the hypotheses above and budget
    `mi = some n`, `2^m ≤ n`, or `mi = none` (`usize::MAX`) and `m < 64`, success is reported. -/
theorem gk1d_succeeds_of_depth_bound (f : Rat → Rat) (a b tol η : Rat) (m : Nat)
    (mi : Option Nat) (hab : a ≠ b)
    (hη : ∀ p ∈ dyadic a b m, (gkApprox f p.1 p.2).2 ≤ η) (htol : 2 ^ m * η < tol)
    (hmi : (mi = none ∧ m < 64) ∨ ∃ n, mi = some n ∧ 2 ^ m ≤ n) :
    ∃ v e : Rat, (gk1d f a b tol mi).res = .ok (v, e) := by
  have hbud : 2 ^ m ≤ mi.getD 18446744073709551615 := by
    rcases hmi with ⟨rfl, hm⟩ | ⟨n, rfl, hn⟩
    · have h1 : 2 ^ m ≤ 2 ^ 63 := Nat.pow_le_pow_right (by decide) (by omega)
      exact le_trans h1 (by decide)
    · exact hn
  obtain ⟨v, e, h, _⟩ := gk1d_succeeds_of_depth_bound_fuel f a b tol η m mi hab hη htol hbud
  exact ⟨v, e, h⟩

/-- the same for a finite budget: `2^m` iterations suffice -/
theorem gk1d_succeeds_of_depth_bound_some (f : Rat → Rat) (a b tol η : Rat) (m n : Nat)
    (hab : a ≠ b) (hη : ∀ p ∈ dyadic a b m, (gkApprox f p.1 p.2).2 ≤ η)
    (htol : 2 ^ m * η < tol) (hn : 2 ^ m ≤ n) :
    ∃ v e : Rat, (gk1d f a b tol (some n)).res = .ok (v, e) :=
  gk1d_succeeds_of_depth_bound f a b tol η m (some n) hab hη htol (Or.inr ⟨n, rfl, hn⟩)

/-- the same for the unlimited budget (`m < 64` because `none` is `2^64 − 1` iterations) -/
theorem gk1d_succeeds_of_depth_bound_none (f : Rat → Rat) (a b tol η : Rat) (m : Nat)
    (hab : a ≠ b) (hη : ∀ p ∈ dyadic a b m, (gkApprox f p.1 p.2).2 ≤ η)
    (htol : 2 ^ m * η < tol) (hm : m < 64) :
    ∃ v e : Rat, (gk1d f a b tol none).res = .ok (v, e) :=
  gk1d_succeeds_of_depth_bound f a b tol η m none hab hη htol (Or.inl ⟨rfl, hm⟩)

/-- coincident bounds included: then the routine returns `(0,0)` whatever the budget -/
theorem gk1d_succeeds_of_depth_bound_all (f : Rat → Rat) (a b tol η : Rat) (m : Nat)
    (mi : Option Nat) (hη : ∀ p ∈ dyadic a b m, (gkApprox f p.1 p.2).2 ≤ η)
    (htol : 2 ^ m * η < tol) (hmi : (mi = none ∧ m < 64) ∨ ∃ n, mi = some n ∧ 2 ^ m ≤ n) :
    ∃ v e : Rat, (gk1d f a b tol mi).res = .ok (v, e) := by
  by_cases hab : a = b
  · exact ⟨_, _, (C10.gk1d_eq_bounds f a b tol mi (decide_eq_true hab)).1⟩
  · exact gk1d_succeeds_of_depth_bound f a b tol η m mi hab hη htol hmi

/-- the integrand evaluations of a run, in call order: 31 abscissae per evaluated panel -/
def evalPoints (o : Out1 Rat) : List Rat := o.panels.flatMap (fun p => panelAbscissae p.1 p.2)

theorem evalPoints_length (o : Out1 Rat) : (evalPoints o).length = 31 * o.panels.length := by
  unfold evalPoints
  induction o.panels with
  | nil => rfl
  | cons p ps ih =>
    rw [List.flatMap_cons, List.length_append, ih, C02.panelAbscissae_length, List.length_cons]
    omega

/-- **L2 (evaluation count).**  Under the hypotheses of the main theorem the run asks at most
    `31 · (2^(m+1) − 1)` integrand values, whatever the budget beyond `2^m`. -/
theorem gk1d_depth_bound_evals (f : Rat → Rat) (a b tol η : Rat) (m : Nat)
    (mi : Option Nat) (hab : a ≠ b)
    (hη : ∀ p ∈ dyadic a b m, (gkApprox f p.1 p.2).2 ≤ η) (htol : 2 ^ m * η < tol)
    (hbud : 2 ^ m ≤ mi.getD 18446744073709551615) :
    (evalPoints (gk1d f a b tol mi)).length ≤ 31 * (2 ^ (m + 1) - 1) := by
  obtain ⟨_, _, _, _, _, h⟩ := gk1d_succeeds_of_depth_bound_fuel f a b tol η m mi hab hη htol hbud
  rw [evalPoints_length]
  exact Nat.mul_le_mul_left 31 h

/-! ### L3: non-vacuity with `m ≥ 1` (kernel evaluation, `decide +kernel`)

`x ↦ x^20` on `[−1, 1]` (degree 20: outside the exact class of `C01Success`).  The first-panel
estimate is about `2.9e-6`; each of the two depth-1 panels has estimate about `1.4e-12`.  With
`tol = 1e-9`, `η = 2e-12`, `m = 1` the hypotheses hold, the first panel does NOT pass, and the run
bisects once.

`x ↦ 1 / (1 + 25 x²)` (Runge) on `[−1, 1]`, `tol = 1e-8`, `η = 3e-13`, `m = 3`: the theorem
promises success within 7 bisections (budget 8); the actual run makes 3. -/

/-- the degree-20 monomial -/
def pow20 : Rat → Rat := fun x => x ^ 20

/-- Runge's function -/
def runge : Rat → Rat := fun x => 1 / (1 + 25 * x ^ 2)

theorem pow20_depth1_bound :
    ∀ p ∈ dyadic (-1 : Rat) 1 1, (gkApprox pow20 p.1 p.2).2 ≤ 2 / 10 ^ 12 := by decide +kernel

/-- the first panel alone does not pass: the instance is a genuine non-first-panel one -/
theorem pow20_first_panel_fails : ¬ (gkApprox pow20 (-1) 1).2 < 1 / 10 ^ 9 := by decide +kernel

/-- the theorem applies with `m = 1`, budget `2` … -/
theorem pow20_succeeds : ∃ v e : Rat, (gk1d pow20 (-1) 1 (1 / 10 ^ 9) (some 2)).res = .ok (v, e) :=
  gk1d_succeeds_of_depth_bound_some pow20 (-1) 1 (1 / 10 ^ 9) (2 / 10 ^ 12) 1 2 (by decide)
    pow20_depth1_bound (by norm_num) (by decide)

/-- … and agrees with the actual run, which bisects once -/
theorem pow20_run : (gk1d pow20 (-1) 1 (1 / 10 ^ 9) (some 2)).res.toBool = true ∧
    (gk1d pow20 (-1) 1 (1 / 10 ^ 9) (some 2)).panels = [(-1, 1), (-1, 0), (0, 1)] := by
  decide +kernel

/-- the budget hypothesis `2^m ≤ n` is sharp: the same data with budget `1 = 2^m − 1` is the
    convergence error -/
theorem budget_sharp : (gk1d pow20 (-1) 1 (1 / 10 ^ 9) (some 1)).res = .error .convergence := by
  decide +kernel

/-- unlimited budget: the same instance through the `none` form -/
example : ∃ v e : Rat, (gk1d pow20 (-1) 1 (1 / 10 ^ 9) none).res = .ok (v, e) :=
  gk1d_succeeds_of_depth_bound_none pow20 (-1) 1 (1 / 10 ^ 9) (2 / 10 ^ 12) 1 (by decide)
    pow20_depth1_bound (by norm_num) (by decide)

theorem runge_depth3_bound :
    ∀ p ∈ dyadic (-1 : Rat) 1 3, (gkApprox runge p.1 p.2).2 ≤ 3 / 10 ^ 13 := by decide +kernel

theorem runge_first_panel_fails : ¬ (gkApprox runge (-1) 1).2 < 1 / 10 ^ 8 := by decide +kernel

/-- a depth-3 instance: at most 7 bisections, at most 15 panels, at most 465 evaluations -/
theorem runge_succeeds : ∃ v e : Rat, (gk1d runge (-1) 1 (1 / 10 ^ 8) (some 8)).res = .ok (v, e) ∧
    0 ≤ e ∧ e < 1 / 10 ^ 8 ∧ (gk1d runge (-1) 1 (1 / 10 ^ 8) (some 8)).panels.length ≤ 15 :=
  gk1d_succeeds_of_depth_bound_fuel runge (-1) 1 (1 / 10 ^ 8) (3 / 10 ^ 13) 3 (some 8) (by decide)
    runge_depth3_bound (by norm_num) (by decide)

/-- the actual run of that instance: three bisections, seven panels -/
theorem runge_run : (gk1d runge (-1) 1 (1 / 10 ^ 8) (some 8)).res.toBool = true ∧
    (gk1d runge (-1) 1 (1 / 10 ^ 8) (some 8)).panels =
      [(-1, 1), (-1, 0), (0, 1), (0, 1/2), (1/2, 1), (-1, -1/2), (-1/2, 0)] := by
  decide +kernel

end Cav.C01Budget
