/-
  C20 — the Python module mirrors the Rust API (declarations).

  Kernel-decided facts about the regenerated declarations of `lib.rs`, `wrappers.rs`,
  `errors.rs` and the two `#[pyclass]` structs.  What pyo3 does with these declarations
  (argument extraction, `IntoPy`, panic trapping) is assumed, not modelled; the probe
  `py/c20_probe.py` observes it on the built extension module.
-/
import Cav.Gen.Wiring

namespace Cav.C20
open Cav Gen

/-- the module is called `cavint` and registers exactly the three wrapped functions (and the
    2-D display class) -/
theorem py_module :
    pymodule = ("cavint", ["class:CavDisplay2D", "fn:wrapped_display_cav2d", "fn:wrapped_display_cav2d_rs", "fn:wrapped_display_cav3d"]) := by
  decide

/-- Python-visible names -/
theorem py_names : pyfns.map (·.py) = ["display_cav2d", "display_cav2d_rs", "display_cav3d"] := by decide

/-- **Forwarding identity:** every shim forwards its i-th parameter as the i-th argument of the
    Rust function of the same name, whose parameter list (names and types) is identical. -/
theorem py_forward_identity :
    ∀ w ∈ pyfns, w.args = w.params.map (·.1) ∧ w.target = w.py ∧
      (apis.find? (·.name == w.target)).map (·.params) = some w.params ∧
      w.rust = "wrapped_" ++ w.py ∧ ("fn:" ++ w.rust) ∈ pymodule.2 := by
  decide

/-- ten positional parameters each, with the documented types -/
theorem py_param_types :
    pyfns.map (fun w => w.params.map (·.2)) =
      [["String", "String", "String", "bool", "usize", "usize", "usize", "usize", "usize", "f64"],
       ["String", "String", "String", "bool", "usize", "usize", "usize", "usize", "usize", "f64"],
       ["String", "String", "String", "String", "bool", "usize", "usize", "usize", "usize", "f64"]] := by
  decide

/-- **Getters:** every public field of both display classes has `#[pyo3(get)]` and nothing is settable -/
theorem py_getters_complete :
    pyclass2D = [("a", "get"), ("b", "get"), ("fv", "get"), ("xv", "get"), ("cvs", "get"), ("gv", "get"), ("dgv", "get"), ("integ_value", "get")] ∧
    pyclass3D = [("triag", "get"), ("curtains", "get"), ("top_mesh", "get"), ("bot_mesh", "get"), ("integ_value", "get")] := by
  decide

/-- failures are raised as `RuntimeError` carrying the Rust error text -/
theorem py_error_is_runtime_error : pyErrType = "PyRuntimeError" := by decide

/-- the shims return `PyResult<Vec<CavDisplay…>>` of the matching class -/
theorem py_return_types :
    pyfns.map (·.ret) = ["PyResult<Vec<CavDisplay2D>>", "PyResult<Vec<CavDisplay2D>>", "PyResult<Vec<CavDisplay3D>>"] := by
  decide

end Cav.C20
