/-
  C18 — interval lists and polygon sets parse to exactly what is written; anything else is an
  error.  This file: SOUNDNESS of the list parsers of `Model/Lists.lean` w.r.t. the written form
  `[e,e],[e,e],…` / `[[e,e],…],[…],…` (every entry a string of the expression grammar denoting a
  constant expression, order preserved, at least one element), and the reachability analysis of
  the `panic` outcome.
-/
import Cav.Lemmas.ListSound

namespace Cav.C18
open Cav Grammar ParseSound ListSound

/-- what a successful `compileIntervalList` means -/
theorem intervals_ok_iff {ctx : Ctx} {src : List Char} {l : List (E × E)} :
    compileIntervalList ctx src = .ok l ↔ parseListOf (parse2 ctx) false (stripWs src) = .ok [] l := by
  unfold compileIntervalList
  simp only
  split
  · rename_i he; simp [he]
  · rename_i he; simp [he]
  · rename_i he; simp [he]
  · rename_i rest v he
    cases rest with
    | nil => simp [he]
    | cons c r => simp [he]

theorem polygons_ok_iff {ctx : Ctx} {src : List Char} {l : List (List (E × E))} :
    compilePolygonSet ctx src = .ok l ↔
      parseListOf (fun e => parseListOf (parse2 ctx) true e) false (stripWs src) = .ok [] l := by
  unfold compilePolygonSet
  simp only
  split
  · rename_i he; simp [he]
  · rename_i he; simp [he]
  · rename_i he; simp [he]
  · rename_i rest v he
    cases rest with
    | nil => simp [he]
    | cons c r => simp [he]

/-- `AllPairs` form of interval-list soundness -/
theorem intervals_sound' {ctx : Ctx} {src : List Char} {l : List (E × E)}
    (h : compileIntervalList ctx src = .ok l) :
    ∃ pieces : List (List Char × List Char),
      stripWs src = [','].intercalate (pieces.map renderPair) ∧ pieces ≠ [] ∧
      AllPairs (PairOK ctx) l pieces := by
  obtain ⟨ps, hall, hne, hs⟩ := parseListOf_sound _ _ (parse2_elemSound ctx) false _ _ _ (intervals_ok_iff.1 h)
  obtain ⟨qs, rfl, hq⟩ := allPairs_choose hall
  refine ⟨qs, ?_, by rintro rfl; exact hne rfl, hq⟩
  rw [← joinComma_eq_intercalate]
  simpa using hs

/-- an accepted interval list is literally `[s₁,s₁'],[s₂,s₂'],…` (n ≥ 1) where each `sᵢ`, `sᵢ'`
    is a string of the expression grammar denoting the constant tree returned at position `i` -/
theorem intervals_sound {ctx : Ctx} {src : List Char} {l : List (E × E)}
    (h : compileIntervalList ctx src = .ok l) :
    ∃ pieces : List (List Char × List Char),
      stripWs src = [','].intercalate (pieces.map fun p => '[' :: p.1 ++ ',' :: p.2 ++ [']']) ∧
      pieces.length = l.length ∧ l.length ≥ 1 ∧
      ∀ (i : Nat) (h1 : i < l.length) (h2 : i < pieces.length),
        Prints ctx l[i].1 pieces[i].1 ∧ Prints ctx l[i].2 pieces[i].2 ∧
        l[i].1.varsLt 0 = true ∧ l[i].2.varsLt 0 = true := by
  obtain ⟨pieces, hs, hne, hall⟩ := intervals_sound' h
  have hlen := hall.length_eq
  refine ⟨pieces, hs, hlen.symm, ?_, fun i h1 h2 => hall.get i h1 h2⟩
  cases pieces with
  | nil => exact absurd rfl hne
  | cons p ps => simp at hlen; omega

/-- one polygon: a bracketed non-empty list of pairs -/
def PolyOK (ctx : Ctx) (poly : List (E × E)) (ps : List (List Char × List Char)) : Prop :=
  ps ≠ [] ∧ AllPairs (PairOK ctx) poly ps

/-- `[[a,b],[c,d],…]` -/
def renderPoly (ps : List (List Char × List Char)) : List Char :=
  '[' :: [','].intercalate (ps.map renderPair) ++ [']']

theorem poly_elemSound (ctx : Ctx) :
    ElemSound (fun e => parseListOf (parse2 ctx) true e)
      (fun v pre => ∃ ps, pre = renderPoly ps ∧ PolyOK ctx v ps) := by
  intro s rest v h
  obtain ⟨ps, hall, hne, hs⟩ := parseListOf_sound _ _ (parse2_elemSound ctx) true _ _ _ h
  obtain ⟨qs, rfl, hq⟩ := allPairs_choose hall
  refine ⟨renderPoly qs, ?_, qs, rfl, by rintro rfl; exact hne rfl, hq⟩
  rw [renderPoly, ← joinComma_eq_intercalate]
  simpa using hs

/-- `AllPairs` form of polygon-set soundness -/
theorem polygons_sound' {ctx : Ctx} {src : List Char} {l : List (List (E × E))}
    (h : compilePolygonSet ctx src = .ok l) :
    ∃ polys : List (List (List Char × List Char)),
      stripWs src = [','].intercalate (polys.map renderPoly) ∧ polys ≠ [] ∧
      AllPairs (PolyOK ctx) l polys := by
  obtain ⟨ps, hall, hne, hs⟩ := parseListOf_sound _ _ (poly_elemSound ctx) false _ _ _ (polygons_ok_iff.1 h)
  obtain ⟨qs, rfl, hq⟩ := allPairs_choose hall
  refine ⟨qs, ?_, by rintro rfl; exact hne rfl, hq⟩
  rw [← joinComma_eq_intercalate]
  simpa using hs

/-- an accepted polygon set is literally `[[..,..],…],[[..,..],…],…`: at least one polygon, each
    with at least one vertex, every coordinate a string of the expression grammar denoting the
    constant tree returned at the same position -/
theorem polygons_sound {ctx : Ctx} {src : List Char} {l : List (List (E × E))}
    (h : compilePolygonSet ctx src = .ok l) :
    ∃ polys : List (List (List Char × List Char)),
      stripWs src = [','].intercalate (polys.map fun ps =>
        '[' :: [','].intercalate (ps.map fun p => '[' :: p.1 ++ ',' :: p.2 ++ [']']) ++ [']']) ∧
      polys.length = l.length ∧ l.length ≥ 1 ∧
      ∀ (i : Nat) (h1 : i < l.length) (h2 : i < polys.length),
        polys[i].length = l[i].length ∧ l[i].length ≥ 1 ∧
        ∀ (j : Nat) (h3 : j < l[i].length) (h4 : j < polys[i].length),
          Prints ctx l[i][j].1 polys[i][j].1 ∧ Prints ctx l[i][j].2 polys[i][j].2 ∧
          l[i][j].1.varsLt 0 = true ∧ l[i][j].2.varsLt 0 = true := by
  obtain ⟨polys, hs, hne, hall⟩ := polygons_sound' h
  have hlen := hall.length_eq
  refine ⟨polys, hs, hlen.symm, ?_, fun i h1 h2 => ?_⟩
  · cases polys with
    | nil => exact absurd rfl hne
    | cons p ps => simp at hlen; omega
  · obtain ⟨hne', hall'⟩ := hall.get i h1 h2
    have hlen' := hall'.length_eq
    refine ⟨hlen'.symm, ?_, fun j h3 h4 => hall'.get j h3 h4⟩
    cases hp : polys[i] with
    | nil => exact absurd hp hne'
    | cons p ps => rw [hp] at hlen'; simp at hlen'; omega

/-! ### rejection -/

/-- the empty list is rejected (`parse_list_of_elem` needs a first element) -/
theorem intervals_empty_rejected (ctx : Ctx) (src : List Char) (h : stripWs src = []) :
    compileIntervalList ctx src = .error .parsing := by
  unfold compileIntervalList
  simp only [h]
  rfl

theorem polygons_empty_rejected (ctx : Ctx) (src : List Char) (h : stripWs src = []) :
    compilePolygonSet ctx src = .error .parsing := by
  unfold compilePolygonSet
  simp only [h]
  rfl

/-- an entry that mentions a variable is never returned -/
theorem intervals_entries_constant {ctx : Ctx} {src : List Char} {l : List (E × E)}
    (h : compileIntervalList ctx src = .ok l) : ∀ e ∈ l, e.1.varsLt 0 = true ∧ e.2.varsLt 0 = true := by
  obtain ⟨pieces, -, hlen, -, hall⟩ := intervals_sound h
  intro e he
  obtain ⟨i, hi, rfl⟩ := List.getElem_of_mem he
  exact (hall i hi (by omega)).2.2

/-! ### the `panic` outcome (an out-of-range index while evaluating an entry) -/

/-- **No panic, for every context and every text**: since the repair of the genuine defect
    (entries are evaluated with `safe_eval`), a variable in an entry is a parse error and the
    `panic` outcome of the model is unreachable. -/
theorem intervals_no_panic (ctx : Ctx) (src : List Char) : compileIntervalList ctx src ≠ .error .panic := by
  intro h
  unfold compileIntervalList at h
  simp only at h
  split at h
  · cases h
  · cases h
  · rename_i hp; exact parseListOf_no_panic (parse2_no_panic ctx) _ _ hp
  · split at h <;> cases h

theorem polygons_no_panic (ctx : Ctx) (src : List Char) : compilePolygonSet ctx src ≠ .error .panic := by
  intro h
  unfold compilePolygonSet at h
  simp only at h
  split at h
  · cases h
  · cases h
  · rename_i hp
    exact parseListOf_no_panic (fun s => parseListOf_no_panic (parse2_no_panic ctx) true s) _ _ hp
  · split at h <;> cases h

/-- `DefaultContext::default()` has no variables -/
theorem defaultCtx_var_free : ∀ p ∈ defaultCtx, ∀ i, p.2 ≠ .var i := by
  have h : defaultCtx.all (fun p => match p.2 with | .var _ => false | _ => true) = true := by decide
  intro p hp i hi
  have := List.all_eq_true.1 h p hp
  rw [hi] at this; cases this

/-- Boolean tests for kernel evaluation of concrete instances -/
def lerrIs {β : Type} (r : Except ListErr β) (e : ListErr) : Bool :=
  match r with | .error e' => e' == e | _ => false
theorem of_lerrIs {β : Type} {r : Except ListErr β} {e : ListErr} (h : lerrIs r e = true) :
    r = .error e := by
  cases r with
  | ok v => simp [lerrIs] at h
  | error e' => simp [lerrIs] at h; rw [h]
def lokIs {β : Type} [BEq β] (r : Except ListErr β) (v : β) : Bool :=
  match r with | .ok v' => v' == v | _ => false
theorem of_lokIs {β : Type} [BEq β] [LawfulBEq β] {r : Except ListErr β} {v : β}
    (h : lokIs r v = true) : r = .ok v := by
  cases r with
  | ok v' => simp [lokIs] at h; rw [h]
  | error e => simp [lokIs] at h

/-- a variable in an entry, with a context that binds it: an error value, not a panic -/
example : compileIntervalList (defaultCtx.insert "x" (.var 0)) "[x,1]".toList = .error .parsing :=
  of_lerrIs (by decide +kernel)
example : compilePolygonSet (defaultCtx.insert "x" (.var 0)) "[[0,0],[1,x]]".toList = .error .parsing :=
  of_lerrIs (by decide +kernel)

/-! ### non-vacuity -/

example : compileIntervalList defaultCtx "[0, 1], [pi/2, 2*pi]".toList =
    .ok [(.lit 0 0, .lit 1 0),
         (.bin .div (.cst "pi") (.lit 2 0), .bin .mul (.lit 2 0) (.cst "pi"))] :=
  of_lokIs (by decide +kernel)
example : compilePolygonSet defaultCtx "[[0,0],[1,0],[0,1]], [[2,2],[3,2],[2,3]]".toList =
    .ok [[(.lit 0 0, .lit 0 0), (.lit 1 0, .lit 0 0), (.lit 0 0, .lit 1 0)],
         [(.lit 2 0, .lit 2 0), (.lit 3 0, .lit 2 0), (.lit 2 0, .lit 3 0)]] :=
  of_lokIs (by decide +kernel)
/-- the entries go through the expression parser, so the list parsers inherit the repaired
    `parse_const`: a constant whose name starts with a number word is an entry like any other
    (before the repair: `.error .parsing`, `inf` was a number and `o` was left over before the ',') -/
example : compileIntervalList (defaultCtx.insert "info" .const) "[info, inf], [-nan, 2*info]".toList =
    .ok [(.cst "info", .litInf), (.un .neg .litNan, .bin .mul (.lit 2 0) (.cst "info"))] :=
  of_lokIs (by decide +kernel)
example : compileIntervalList defaultCtx "[info, 1]".toList = .error .parsing := of_lerrIs (by decide +kernel)
example : compileIntervalList defaultCtx "".toList = .error .parsing := of_lerrIs (by decide +kernel)
example : compileIntervalList defaultCtx "[0,1],".toList = .error .parsing := of_lerrIs (by decide +kernel)
example : compileIntervalList defaultCtx "[0,1][2,3]".toList = .error .residue := of_lerrIs (by decide +kernel)
example : compileIntervalList defaultCtx "[0,1,2]".toList = .error .parsing := of_lerrIs (by decide +kernel)
example : compilePolygonSet defaultCtx "[0,1]".toList = .error .parsing := of_lerrIs (by decide +kernel)
example : compilePolygonSet defaultCtx "[[0,1]],[]".toList = .error .parsing := of_lerrIs (by decide +kernel)

end Cav.C18
