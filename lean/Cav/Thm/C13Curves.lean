/-
  C13 — `gen_display_rs`: the translated `c`-curves of every piece.

  Property clause: "each curve attached at an interior sample starts on the x-axis at the reported
  g-value and reaches the graph of f at (x_i, f(x_i)) to within a small multiple of the tolerance,
  and all curves of a piece are horizontal translates of one another."

  `Thm/C13.lean` (`rs_piece_curves`) leaves the ordinates of the curves uncharacterised ("depend on
  root finding").  This file closes that gap.

  Names for the local quantities of the model text `rsPiece` (`Cav/Lemmas/RsCurves.lean`; the
  theorem `RsCurves.rsPiece_eq_M : rsPiece … = rsPieceM …` is `rfl`, so these ARE the quantities
  of the model, not a re-implementation):
    `rsLo cfg a b`, `rsHi cfg a b`     the piece ends `min a b + tol`, `max a b − tol`
    `rsMinX`, `rsMaxX`                 the same two points, ordered so that `f(minX) ≤ f(maxX)`
    `rsMinFdf`, `rsMaxFdf`             `(f, f')` at `minX`, `maxX`
    `rsCx g x = x − g(x)`
    `rsCRaw f g cfg a b y`             `c_raw(y)`: `cx x*`, `x*` the Brent root of `f − y` on
                                       `[minX, maxX]`, for `minFdf.1 ≤ y ≤ maxFdf.1`; a logarithmic
                                       tail outside
    `rsC f g cfg a b y`                `c_raw(y) − c_raw(0)`, the ONE `c`-curve of the piece

  Display coordinates: a curve point is `(y, x)` — first component the height `y = r·f(x_i)`,
  second component the horizontal position.  The graph point of `f` above `x_i` is `(f(x_i), x_i)`.

  Layers
    L1 (every `Num α`, no law of arithmetic)  `rs_curves_translates`, `rs_curves_translates_exists`;
       over `Rat`: `rs_curves_same_height`
    L2 (`Rat`)  `rs_curve_first_point`
    L3 (`Rat`)  `rs_curve_last_point`, `rs_curve_last_point_interior`, `rs_curve_end_offset`
    L4 (`Rat` model, real zeros; `f = adPoly pf`)  `rs_curve_root_near_real`,
       `rs_curve_end_near_graph`, `rs_curve_end_near_graph_of_strictMono`, `rs_curve_end_within`

  Model path: `genDisplayRs` (`pieces`, `ivs`), `rsPiece` (`curve`, `curves`), `vecFromRes`,
  `curveIdx`, `findRootBrent`.  `Num` operations used by the `Rat` statements: `+ - * /`, `ofNat`,
  `lt`, `abs` (the logarithmic tails use `ln1p`, which is junk over `Rat`; no statement below
  evaluates a tail except through the opaque value `rsC`).
-/
import Cav.Lemmas.RsCurves
import Cav.Lemmas.RsCurvesReal
import Cav.Lemmas.RsCurvesExamples

namespace Cav.C13Curves
open Cav Num Gen Cav.DispL Cav.RsCurves Cav.C01 Cav.C07Accuracy Cav.C11Roots

/-! ## L1  all curves of a piece are translates of one curve -/

section structural
variable {α : Type} [Num α]

/-- **L1.**  For every display `d` of a successful run, with `C = rsC f g cfg d.a d.b`
    (`C(y) = c_raw(y) − c_raw(0)`, a function of the PIECE only, not of the attachment index):
    * `k = c_raw(0)` was computed successfully and `gv = g(xv) + k`;
    * for every curve `cv` of `d`, attached at index `i = cv.1`: every `c_raw` call made for it
      succeeded (`C(r·fv[i]) = c_raw(r·fv[i]) − k` at each sample), and the curve is exactly
      `r ↦ (r·fv[i], gv[i] + C(r·fv[i]))`, `r` running over `vec_from_res(0, 1, y_res)`.
    So each curve is the graph of the same `C`, restricted to heights `r·fv[i]` and shifted
    horizontally by `gv[i]`. -/
theorem rs_curves_translates (f g : AD α → AD α) (ivs : List (α × α)) (cfg : Cfg2D α)
    (ds : List (Disp2D α)) (h : genDisplayRs f g ivs cfg = .ok ds) (d : Disp2D α) (hd : d ∈ ds) :
    ∃ k, rsCRaw f g cfg d.a d.b zero = .ok k ∧
      d.gv = (d.xv.map (fun x => (D1.fdf g x).1)).map (· + k) ∧
      ∀ cv ∈ d.cvs,
        (∀ r ∈ vecFromRes (zero : α) one cfg.yRes, ∃ cy,
          rsCRaw f g cfg d.a d.b (r * d.fv.getD cv.1 zero) = .ok cy ∧
          rsC f g cfg d.a d.b (r * d.fv.getD cv.1 zero) = cy - k) ∧
        cv.2 = (vecFromRes (zero : α) one cfg.yRes).map (fun r =>
          (r * d.fv.getD cv.1 zero,
           d.gv.getD cv.1 zero + rsC f g cfg d.a d.b (r * d.fv.getD cv.1 zero))) := by
  obtain ⟨k, hk, hgv, hc⟩ := rsPiece_ok_translates (genDisplayRs_mem h hd)
  refine ⟨k, hk, hgv, fun cv hcv => ⟨fun r hr => ?_, (hc cv hcv).2.2⟩⟩
  obtain ⟨cy, hcy⟩ := (hc cv hcv).2.1 r hr
  exact ⟨cy, hcy, rsC_of_ok hk hcy⟩

/-- **L1, existential form**: there is ONE function `C : α → α` such that every curve of the piece
    is `r ↦ (r·fv[i], gv[i] + C(r·fv[i]))`. -/
theorem rs_curves_translates_exists (f g : AD α → AD α) (ivs : List (α × α)) (cfg : Cfg2D α)
    (ds : List (Disp2D α)) (h : genDisplayRs f g ivs cfg = .ok ds) (d : Disp2D α) (hd : d ∈ ds) :
    ∃ C : α → α, ∀ cv ∈ d.cvs, cv.2 = (vecFromRes (zero : α) one cfg.yRes).map (fun r =>
      (r * d.fv.getD cv.1 zero, d.gv.getD cv.1 zero + C (r * d.fv.getD cv.1 zero))) := by
  obtain ⟨k, -, -, hc⟩ := rs_curves_translates f g ivs cfg ds h d hd
  exact ⟨rsC f g cfg d.a d.b, fun cv hcv => (hc cv hcv).2⟩

end structural

/-- **L1 over `Rat`, "horizontal translates"**: two points at the same height `y` on two curves of
    the same piece differ horizontally by exactly the difference of the two reported g-values:
    `p.2 − gv[i] = p'.2 − gv[i']` (both equal `C(y)`). -/
theorem rs_curves_same_height (f g : AD Rat → AD Rat) (ivs : List (Rat × Rat)) (cfg : Cfg2D Rat)
    (ds : List (Disp2D Rat)) (h : genDisplayRs f g ivs cfg = .ok ds) (d : Disp2D Rat) (hd : d ∈ ds)
    (cv cv' : Nat × List (Rat × Rat)) (hcv : cv ∈ d.cvs) (hcv' : cv' ∈ d.cvs)
    (p p' : Rat × Rat) (hp : p ∈ cv.2) (hp' : p' ∈ cv'.2) (hy : p.1 = p'.1) :
    p.2 - d.gv.getD cv.1 0 = p'.2 - d.gv.getD cv'.1 0 := by
  obtain ⟨C, hC⟩ := rs_curves_translates_exists f g ivs cfg ds h d hd
  rw [hC cv hcv, List.mem_map] at hp
  rw [hC cv' hcv', List.mem_map] at hp'
  obtain ⟨r, -, rfl⟩ := hp
  obtain ⟨r', -, rfl⟩ := hp'
  simp only at hy ⊢
  rw [hy, rat_zero]
  ring

open Cav.RsCurvesEx in
/-- the hypotheses of L1 are satisfiable (`f = x`, `g = 2x` on `[0,1]`, `x_res = y_res = 2`, one
    intermediate curve, `tol = 1/100`; kernel-evaluated run `RsCurvesEx.rs_run`): one display with
    three curves, all translates of one `C` -/
example : ∃ ds, genDisplayRs (adPoly fEx) (adPoly gEx) [(0, 1)] cfgC = .ok ds ∧ ds ≠ [] ∧
    ∀ d ∈ ds, d.cvs.length = 3 ∧ ∃ C : Rat → Rat, ∀ cv ∈ d.cvs,
      cv.2 = (vecFromRes (0 : Rat) 1 cfgC.yRes).map (fun r =>
        (r * d.fv.getD cv.1 0, d.gv.getD cv.1 0 + C (r * d.fv.getD cv.1 0))) := by
  obtain ⟨d, h, -, -, -, -, -, hc⟩ := rs_run_display
  refine ⟨[d], h, by simp, fun d' hd' => ?_⟩
  obtain rfl : d' = d := by simpa using hd'
  refine ⟨by rw [hc]; rfl, ?_⟩
  have := rs_curves_translates_exists _ _ _ _ _ h d' hd'
  simpa only [rat_zero, rat_one] using this

/-- the one curve of that piece at two sampled heights: `C(1/4) = −1/4 + 1/100`,
    `C(1/2) = −1/2 + 1/100` (`c_raw(y) = y − 2y` inside the range of `f`, `k = c_raw(0) = −1/100`
    from the lower tail) -/
example :
    rsCRaw (adPoly RsCurvesEx.fEx) (adPoly RsCurvesEx.gEx) RsCurvesEx.cfgC 0 1 0 = .ok (-1/100) ∧
    rsC (adPoly RsCurvesEx.fEx) (adPoly RsCurvesEx.gEx) RsCurvesEx.cfgC 0 1 (1/4) = -24/100 ∧
    rsC (adPoly RsCurvesEx.fEx) (adPoly RsCurvesEx.gEx) RsCurvesEx.cfgC 0 1 (1/2) = -49/100 := by
  decide +kernel

/-! ## L2, L3  first and last point (over `Rat`) -/

section curves
variable (f g : AD Rat → AD Rat) (ivs : List (Rat × Rat)) (cfg : Cfg2D Rat)
  (ds : List (Disp2D Rat)) (h : genDisplayRs f g ivs cfg = .ok ds) (d : Disp2D Rat) (hd : d ∈ ds)
include h hd

/-- **L2, curve start** (`r = 0`): every curve starts at `(0, gv[i])` — at height `0` (on the
    x-axis) at the reported g-value (`0·fv[i] = 0` and `C(0) = c_raw(0) − c_raw(0) = 0`). -/
theorem rs_curve_first_point : ∀ cv ∈ d.cvs, cv.2.head? = some (0, d.gv.getD cv.1 0) :=
  rsPiece_curve_head (genDisplayRs_mem h hd)

/-- every attachment index is a valid grid index, and the samples there are `fv[i] = f(x_i)`,
    `gv[i] = g(x_i) + k` with `k = c_raw(0)` (`g(x_i)` the value part of `fdf`) -/
theorem rs_curve_samples : ∃ k, rsCRaw f g cfg d.a d.b 0 = .ok k ∧ ∀ cv ∈ d.cvs, ∃ xi,
    d.xv[cv.1]? = some xi ∧ d.fv.getD cv.1 0 = D1.f f xi ∧
      d.gv.getD cv.1 0 = (D1.fdf g xi).1 + k :=
  rsPiece_samples_at (genDisplayRs_mem h hd)

/-- **L3, curve end** (`r = 1`): every curve ends at `(fv[i], gv[i] + C(fv[i]))`, where
    `c_raw(fv[i])` succeeded with some `cy`, `k = c_raw(0)`, and `C(fv[i]) = cy − k`. -/
theorem rs_curve_last_point : ∀ cv ∈ d.cvs,
    cv.2.getLast? = some (d.fv.getD cv.1 0,
      d.gv.getD cv.1 0 + rsC f g cfg d.a d.b (d.fv.getD cv.1 0)) ∧
    ∃ cy k, rsCRaw f g cfg d.a d.b (d.fv.getD cv.1 0) = .ok cy ∧
      rsCRaw f g cfg d.a d.b 0 = .ok k ∧ rsC f g cfg d.a d.b (d.fv.getD cv.1 0) = cy - k := by
  intro cv hcv
  obtain ⟨⟨cy, hcy⟩, hl⟩ := rsPiece_curve_last (genDisplayRs_mem h hd) cv hcv
  obtain ⟨k, hk, -⟩ := rs_curve_samples f g ivs cfg ds h d hd
  exact ⟨hl, cy, k, hcy, hk, rsC_of_ok (by rw [rat_zero]; exact hk) hcy⟩

/-- **L3, curve end inside the range of `f`.**  If the end height `fv[i]` passes both range tests
    of the model (`!(fv[i] < minFdf.1)` and `!(maxFdf.1 < fv[i])`: neither logarithmic tail is
    taken) then, with `x_i = xv[i]`:
    * `find_root_brent(minX, maxX, x ↦ f(x) − f(x_i), tol, max_rf_iters)` succeeded with some `x*`;
    * the curve ends at `(f(x_i), x* + (g(x_i) − g(x*)))`
      (`g(x_i) = (fdf g x_i).1` as stored in `gv`, `g(x*) = D1.f g x*` as used by `cx`). -/
theorem rs_curve_last_point_interior (cv : Nat × List (Rat × Rat)) (hcv : cv ∈ d.cvs)
    (hlo : Num.lt (d.fv.getD cv.1 0) (rsMinFdf f cfg d.a d.b).1 = false)
    (hhi : Num.lt (rsMaxFdf f cfg d.a d.b).1 (d.fv.getD cv.1 0) = false) :
    ∃ xi xs, d.xv[cv.1]? = some xi ∧ d.fv.getD cv.1 0 = D1.f f xi ∧
      findRootBrent (rsMinX f cfg d.a d.b) (rsMaxX f cfg d.a d.b) (fun x => D1.f f x - D1.f f xi)
        cfg.tol cfg.maxRfIters = .ok xs ∧
      cv.2.getLast? = some (D1.f f xi, xs + ((D1.fdf g xi).1 - D1.f g xs)) :=
  rsPiece_curve_last_interior (genDisplayRs_mem h hd) cv hcv hlo hhi

/-- **L3, the offset from the graph of `f`.**  In the situation of `rs_curve_last_point_interior`
    the end point `p` of the curve has the height of the graph point `(f(x_i), x_i)`, and its
    horizontal distance from it is exactly `(x* − x_i) − (g(x*) − g(x_i))`; the root `x*` lies in
    the closed interval spanned by `minX`, `maxX`. -/
theorem rs_curve_end_offset (cv : Nat × List (Rat × Rat)) (hcv : cv ∈ d.cvs)
    (hlo : Num.lt (d.fv.getD cv.1 0) (rsMinFdf f cfg d.a d.b).1 = false)
    (hhi : Num.lt (rsMaxFdf f cfg d.a d.b).1 (d.fv.getD cv.1 0) = false) :
    ∃ xi xs p, d.xv[cv.1]? = some xi ∧
      findRootBrent (rsMinX f cfg d.a d.b) (rsMaxX f cfg d.a d.b) (fun x => D1.f f x - D1.f f xi)
        cfg.tol cfg.maxRfIters = .ok xs ∧
      (min (rsMinX f cfg d.a d.b) (rsMaxX f cfg d.a d.b) ≤ xs ∧
        xs ≤ max (rsMinX f cfg d.a d.b) (rsMaxX f cfg d.a d.b)) ∧
      cv.2.getLast? = some p ∧ p.1 = D1.f f xi ∧
      p.2 - xi = (xs - xi) - (D1.f g xs - (D1.fdf g xi).1) := by
  obtain ⟨xi, xs, hxi, -, hxs, hl⟩ :=
    rs_curve_last_point_interior f g ivs cfg ds h d hd cv hcv hlo hhi
  exact ⟨xi, xs, _, hxi, hxs, C11.brent_in_hull _ _ _ _ _ _ hxs, hl, rfl, by ring⟩

end curves

open Cav.RsCurvesEx in
/-- L2 and L3 on the concrete run: the curve attached at the interior sample `x_1 = 1/2` starts at
    `(0, gv[1]) = (0, 99/100)`; its end height `f(x_1) = 1/2` passes both range tests
    (`minFdf.1 = 1/100`, `maxFdf.1 = 99/100`), so the hypotheses of
    `rs_curve_last_point_interior` / `rs_curve_end_offset` are satisfiable; the end is `(1/2, 1/2)`,
    the graph point `(f(x_1), x_1)` itself -/
example : ∃ ds d cv, genDisplayRs (adPoly fEx) (adPoly gEx) [(0, 1)] cfgC = .ok ds ∧ d ∈ ds ∧
    cv ∈ d.cvs ∧ cv.1 = 1 ∧ d.xv[cv.1]? = some (1/2) ∧
    cv.2.head? = some (0, d.gv.getD cv.1 0) ∧ d.gv.getD cv.1 0 = 99/100 ∧
    Num.lt (d.fv.getD cv.1 0) (rsMinFdf (adPoly fEx) cfgC d.a d.b).1 = false ∧
    Num.lt (rsMaxFdf (adPoly fEx) cfgC d.a d.b).1 (d.fv.getD cv.1 0) = false ∧
    cv.2.getLast? = some (1/2, 1/2) ∧
    ∃ xi xs p, d.xv[cv.1]? = some xi ∧
      findRootBrent (rsMinX (adPoly fEx) cfgC d.a d.b) (rsMaxX (adPoly fEx) cfgC d.a d.b)
        (fun x => D1.f (adPoly fEx) x - D1.f (adPoly fEx) xi) cfgC.tol cfgC.maxRfIters = .ok xs ∧
      cv.2.getLast? = some p ∧
      p.2 - xi = (xs - xi) - (D1.f (adPoly gEx) xs - (D1.fdf (adPoly gEx) xi).1) := by
  obtain ⟨d, h, ha, hb, hxv, hfv, hgv, hc⟩ := rs_run_display
  have hd : d ∈ [d] := by simp
  have hcv : ((1 : Nat), [((0 : Rat), (99/100 : Rat)), (1/4, 3/4), (1/2, 1/2)]) ∈ d.cvs := by
    rw [hc]; simp
  have hlo : Num.lt (d.fv.getD 1 0) (rsMinFdf (adPoly fEx) cfgC d.a d.b).1 = false := by
    rw [ha, hb, hfv]; decide +kernel
  have hhi : Num.lt (rsMaxFdf (adPoly fEx) cfgC d.a d.b).1 (d.fv.getD 1 0) = false := by
    rw [ha, hb, hfv]; decide +kernel
  refine ⟨[d], d, _, h, hd, hcv, rfl, by rw [hxv]; rfl,
    rs_curve_first_point _ _ _ _ _ h d hd _ hcv, by rw [hgv]; rfl, hlo, hhi, rfl, ?_⟩
  obtain ⟨xi, xs, p, h1, h2, -, h3, -, h4⟩ := rs_curve_end_offset _ _ _ _ _ h d hd _ hcv hlo hhi
  exact ⟨xi, xs, p, h1, h2, h3, h4⟩

/-! ## L4  polynomial `f`: the root is near a true solution, and near `x_i` when `f` is injective -/

section poly
variable (pf : List Rat) (g : AD Rat → AD Rat) (ivs : List (Rat × Rat)) (cfg : Cfg2D Rat)
  (ds : List (Disp2D Rat)) (h : genDisplayRs (adPoly pf) g ivs cfg = .ok ds)
  (d : Disp2D Rat) (hd : d ∈ ds)
include h hd

/-- **L4a.**  `f = adPoly pf` (the polynomial `evalPoly pf` as a dual-number closure).  In the
    situation of `rs_curve_last_point_interior` the Brent result `x*` locates a TRUE real solution
    `ζ` of `f(ζ) = f(x_i)` (`evalPolyR pf` is the real polynomial) in the closed interval spanned
    by `minX`, `maxX`: `ζ = x*`, or `0 < tol` and `|x* − ζ| < 2·tol` (`C11Roots.Located`). -/
theorem rs_curve_root_near_real (cv : Nat × List (Rat × Rat)) (hcv : cv ∈ d.cvs)
    (hlo : Num.lt (d.fv.getD cv.1 0) (rsMinFdf (adPoly pf) cfg d.a d.b).1 = false)
    (hhi : Num.lt (rsMaxFdf (adPoly pf) cfg d.a d.b).1 (d.fv.getD cv.1 0) = false) :
    ∃ (xi xs : Rat) (ζ : ℝ), d.xv[cv.1]? = some xi ∧
      cv.2.getLast? = some (evalPoly pf xi, xs + ((D1.fdf g xi).1 - D1.f g xs)) ∧
      evalPolyR pf ζ = ((evalPoly pf xi : Rat) : ℝ) ∧
      ((min (rsMinX (adPoly pf) cfg d.a d.b) (rsMaxX (adPoly pf) cfg d.a d.b) : Rat) : ℝ) ≤ ζ ∧
      ζ ≤ ((max (rsMinX (adPoly pf) cfg d.a d.b) (rsMaxX (adPoly pf) cfg d.a d.b) : Rat) : ℝ) ∧
      Located cfg.tol xs ζ := by
  obtain ⟨xi, xs, hxi, -, hxs, hl⟩ :=
    rs_curve_last_point_interior (adPoly pf) g ivs cfg ds h d hd cv hcv hlo hhi
  obtain ⟨ζ, hζ, h1, h2, hloc⟩ := brent_level_near_real pf _ _ _ _ _ xs hxs
  rw [D1_f_adPoly] at hζ hl
  exact ⟨xi, xs, ζ, hxi, hl, hζ, h1, h2, hloc⟩

/-- **L4b, the curve reaches the graph of `f` to within `2·tol` in the root.**  `f = adPoly pf`,
    `0 ≤ tol`; the curve `cv` is attached at `x_i = xv[i]`, its end height passes both range tests,
    `x_i` lies in the trimmed piece `[min a b + tol, max a b − tol]` (an INTERIOR sample: the two
    end samples `a`, `b` never do for `tol > 0`), and the real polynomial `f` is injective on the
    trimmed piece (e.g. `StrictMonoOn.injOn` / `StrictAntiOn.injOn`).  Then the true solution of
    `f(ζ) = f(x_i)` is `x_i` itself, so `|x* − x_i| ≤ 2·tol`, and the curve ends at
    `(f(x_i), x* + (g(x_i) − g(x*)))`. -/
theorem rs_curve_end_near_graph (cv : Nat × List (Rat × Rat)) (hcv : cv ∈ d.cvs)
    (hlo : Num.lt (d.fv.getD cv.1 0) (rsMinFdf (adPoly pf) cfg d.a d.b).1 = false)
    (hhi : Num.lt (rsMaxFdf (adPoly pf) cfg d.a d.b).1 (d.fv.getD cv.1 0) = false)
    (htol : 0 ≤ cfg.tol) (xi : Rat) (hxi : d.xv[cv.1]? = some xi)
    (hin : min d.a d.b + cfg.tol ≤ xi ∧ xi ≤ max d.a d.b - cfg.tol)
    (hinj : Set.InjOn (evalPolyR pf)
      (Set.Icc ((min d.a d.b + cfg.tol : Rat) : ℝ) ((max d.a d.b - cfg.tol : Rat) : ℝ))) :
    ∃ xs : Rat,
      findRootBrent (rsMinX (adPoly pf) cfg d.a d.b) (rsMaxX (adPoly pf) cfg d.a d.b)
        (fun x => D1.f (adPoly pf) x - D1.f (adPoly pf) xi) cfg.tol cfg.maxRfIters = .ok xs ∧
      (min d.a d.b + cfg.tol ≤ xs ∧ xs ≤ max d.a d.b - cfg.tol) ∧
      cv.2.getLast? = some (evalPoly pf xi, xs + ((D1.fdf g xi).1 - D1.f g xs)) ∧
      |xs - xi| ≤ 2 * cfg.tol := by
  obtain ⟨xi', xs, hxi', -, hxs, hl⟩ :=
    rs_curve_last_point_interior (adPoly pf) g ivs cfg ds h d hd cv hcv hlo hhi
  rw [hxi] at hxi'
  cases hxi'
  have hle : min d.a d.b + cfg.tol ≤ max d.a d.b - cfg.tol := le_trans hin.1 hin.2
  obtain ⟨e1, e2⟩ := rs_hull_eq (adPoly pf) cfg d.a d.b
  rw [rsLo_eq, rsHi_eq, min_eq_left hle] at e1
  rw [rsLo_eq, rsHi_eq, max_eq_right hle] at e2
  have hull := C11.brent_in_hull _ _ _ _ _ _ hxs
  rw [e1, e2] at hull
  refine ⟨xs, hxs, hull, by rw [D1_f_adPoly] at hl; exact hl, ?_⟩
  apply brent_level_near_point_le pf _ _ _ _ xi xs htol
  · rw [e1, e2]; exact hin
  · rw [e1, e2]; exact hinj
  · exact hxs

/-- **L4b for a strictly monotone `f`** (increasing; for a decreasing `f` use
    `StrictAntiOn.injOn` with `rs_curve_end_near_graph`): `|x* − x_i| ≤ 2·tol`. -/
theorem rs_curve_end_near_graph_of_strictMono (cv : Nat × List (Rat × Rat)) (hcv : cv ∈ d.cvs)
    (hlo : Num.lt (d.fv.getD cv.1 0) (rsMinFdf (adPoly pf) cfg d.a d.b).1 = false)
    (hhi : Num.lt (rsMaxFdf (adPoly pf) cfg d.a d.b).1 (d.fv.getD cv.1 0) = false)
    (htol : 0 ≤ cfg.tol) (xi : Rat) (hxi : d.xv[cv.1]? = some xi)
    (hin : min d.a d.b + cfg.tol ≤ xi ∧ xi ≤ max d.a d.b - cfg.tol)
    (hmono : StrictMonoOn (evalPolyR pf)
      (Set.Icc ((min d.a d.b + cfg.tol : Rat) : ℝ) ((max d.a d.b - cfg.tol : Rat) : ℝ))) :
    ∃ xs : Rat,
      findRootBrent (rsMinX (adPoly pf) cfg d.a d.b) (rsMaxX (adPoly pf) cfg d.a d.b)
        (fun x => D1.f (adPoly pf) x - D1.f (adPoly pf) xi) cfg.tol cfg.maxRfIters = .ok xs ∧
      (min d.a d.b + cfg.tol ≤ xs ∧ xs ≤ max d.a d.b - cfg.tol) ∧
      cv.2.getLast? = some (evalPoly pf xi, xs + ((D1.fdf g xi).1 - D1.f g xs)) ∧
      |xs - xi| ≤ 2 * cfg.tol :=
  rs_curve_end_near_graph pf g ivs cfg ds h d hd cv hcv hlo hhi htol xi hxi hin hmono.injOn

/-- **L4c, "to within a small multiple of the tolerance".**  In addition to the hypotheses of
    `rs_curve_end_near_graph`: the value of `g` does not depend on the tangent it is given
    (`(fdf g x).1 = D1.f g x`; true for every closure built from the `AD` operations) and `g` is
    `L`-Lipschitz on the trimmed piece.  Then the curve ends at a point `p` with the height
    `f(x_i)` of the graph point `(f(x_i), x_i)` and horizontal distance at most `(1 + L)·2·tol`
    from it. -/
theorem rs_curve_end_within (cv : Nat × List (Rat × Rat)) (hcv : cv ∈ d.cvs)
    (hlo : Num.lt (d.fv.getD cv.1 0) (rsMinFdf (adPoly pf) cfg d.a d.b).1 = false)
    (hhi : Num.lt (rsMaxFdf (adPoly pf) cfg d.a d.b).1 (d.fv.getD cv.1 0) = false)
    (htol : 0 ≤ cfg.tol) (xi : Rat) (hxi : d.xv[cv.1]? = some xi)
    (hin : min d.a d.b + cfg.tol ≤ xi ∧ xi ≤ max d.a d.b - cfg.tol)
    (hinj : Set.InjOn (evalPolyR pf)
      (Set.Icc ((min d.a d.b + cfg.tol : Rat) : ℝ) ((max d.a d.b - cfg.tol : Rat) : ℝ)))
    (hg : ∀ x, (D1.fdf g x).1 = D1.f g x) (L : Rat) (hL0 : 0 ≤ L)
    (hL : ∀ u v : Rat, (min d.a d.b + cfg.tol ≤ u ∧ u ≤ max d.a d.b - cfg.tol) →
      (min d.a d.b + cfg.tol ≤ v ∧ v ≤ max d.a d.b - cfg.tol) →
      |D1.f g u - D1.f g v| ≤ L * |u - v|) :
    ∃ p : Rat × Rat, cv.2.getLast? = some p ∧ p.1 = evalPoly pf xi ∧
      |p.2 - xi| ≤ (1 + L) * (2 * cfg.tol) := by
  obtain ⟨xs, -, hull, hl, hd2⟩ :=
    rs_curve_end_near_graph pf g ivs cfg ds h d hd cv hcv hlo hhi htol xi hxi hin hinj
  refine ⟨_, hl, rfl, ?_⟩
  have hLip := hL xs xi hull hin
  rw [hg]
  have e : xs + (D1.f g xi - D1.f g xs) - xi = (xs - xi) - (D1.f g xs - D1.f g xi) := by ring
  show |xs + (D1.f g xi - D1.f g xs) - xi| ≤ _
  rw [e]
  have h1 : |(xs - xi) - (D1.f g xs - D1.f g xi)| ≤ |xs - xi| + |D1.f g xs - D1.f g xi| :=
    abs_sub _ _
  have h2 : L * |xs - xi| ≤ L * (2 * cfg.tol) := mul_le_mul_of_nonneg_left hd2 hL0
  linarith

end poly

open Cav.RsCurvesEx in
/-- L4 on the concrete run: `f = x` is injective, the interior sample `x_1 = 1/2` lies in the
    trimmed piece `[1/100, 99/100]`, `g = 2x` is `2`-Lipschitz and tangent-free: all hypotheses of
    `rs_curve_end_near_graph` and `rs_curve_end_within` are satisfiable, and the curve attached at
    `x_1` ends at the height `f(x_1) = 1/2` within `(1 + 2)·2·tol = 6/100` of the graph point -/
example : ∃ ds d cv, genDisplayRs (adPoly fEx) (adPoly gEx) [(0, 1)] cfgC = .ok ds ∧ d ∈ ds ∧
    cv ∈ d.cvs ∧ cv.1 = 1 ∧
    (∃ xs : Rat, (1/100 ≤ xs ∧ xs ≤ 99/100) ∧ |xs - 1/2| ≤ 2 * (1/100)) ∧
    ∃ p : Rat × Rat, cv.2.getLast? = some p ∧ p.1 = 1/2 ∧ |p.2 - 1/2| ≤ 6/100 := by
  obtain ⟨d, h, ha, hb, hxv, hfv, hgv, hc⟩ := rs_run_display
  have hd : d ∈ [d] := by simp
  have hcv : ((1 : Nat), [((0 : Rat), (99/100 : Rat)), (1/4, 3/4), (1/2, 1/2)]) ∈ d.cvs := by
    rw [hc]; simp
  have hlo : Num.lt (d.fv.getD 1 0) (rsMinFdf (adPoly fEx) cfgC d.a d.b).1 = false := by
    rw [ha, hb, hfv]; decide +kernel
  have hhi : Num.lt (rsMaxFdf (adPoly fEx) cfgC d.a d.b).1 (d.fv.getD 1 0) = false := by
    rw [ha, hb, hfv]; decide +kernel
  have hxi : d.xv[1]? = some (1/2 : Rat) := by rw [hxv]; rfl
  have htol : (0 : Rat) ≤ cfgC.tol := by decide +kernel
  have hin : min d.a d.b + cfgC.tol ≤ 1/2 ∧ (1/2 : Rat) ≤ max d.a d.b - cfgC.tol := by
    rw [ha, hb]; decide +kernel
  have hinj : Set.InjOn (evalPolyR fEx)
      (Set.Icc ((min d.a d.b + cfgC.tol : Rat) : ℝ) ((max d.a d.b - cfgC.tol : Rat) : ℝ)) := by
    intro x _ y _ hxy
    simpa [fEx, evalPolyR_cons, evalPolyR_nil] using hxy
  have hlohi : min d.a d.b + cfgC.tol = 1/100 ∧ max d.a d.b - cfgC.tol = 99/100 := by
    rw [ha, hb]; decide +kernel
  refine ⟨[d], d, _, h, hd, hcv, rfl, ?_, ?_⟩
  · obtain ⟨xs, -, hull, -, hd2⟩ :=
      rs_curve_end_near_graph fEx (adPoly gEx) _ cfgC _ h d hd _ hcv hlo hhi htol _ hxi hin hinj
    rw [hlohi.1, hlohi.2] at hull
    exact ⟨xs, hull, hd2⟩
  · obtain ⟨p, h1, h2, h3⟩ :=
      rs_curve_end_within fEx (adPoly gEx) _ cfgC _ h d hd _ hcv hlo hhi htol _ hxi hin hinj
        (fun x => by rw [D1_fdf_adPoly, D1_f_adPoly]) 2 (by norm_num)
        (fun u v _ _ => by
          rw [D1_f_adPoly, D1_f_adPoly]
          have e : evalPoly gEx u - evalPoly gEx v = 2 * (u - v) := by
            simp only [gEx, evalPoly_cons, evalPoly_nil]; ring
          rw [e, abs_mul]; norm_num)
    refine ⟨p, h1, by rw [h2]; decide +kernel, ?_⟩
    have : (1 + 2) * (2 * cfgC.tol) = 6/100 := by decide +kernel
    rw [← this]; exact h3

end Cav.C13Curves
