/-
  C05 — forward-mode AD returns the plain value and the true derivative.

  Model path: the GENERATED dual-number primitives `Cav/Gen/AD.lean` (translate/ad.py, from
  `src/core/differentiable.rs` and `src/core/parsing.rs`), the tree evaluators `E.evalF` / `E.evalAD`
  of `Cav/Model/Expr.lean` (`evalAD` calls the generated primitives), at the instance
  `instNumReal : Num ℝ` (`Cav/Inst/Real.lean`): every `f64` operation has its real-analysis meaning.
  Derivatives are Mathlib's `HasDerivAt`.  Rounding is NOT modelled here.

  Operations of `Num` used: `+ - * /`, `neg`, `ofNat 0/1/2`, `ofInt`, `ofDec`, `abs`, `lt`, `sqrt`,
  `exp`, `ln`, `sin … atanh`, `powf`, `powi`.  Unused: `le beq isNaN isFinite signBit totalCmp ln1p
  round toNat inf nan` (`litInf`/`litNan` are excluded by `InDomain`).

  (a) one specification per generated primitive (23), with the exact hypothesis each needs;
  (b) `ad_correct`: all trees, any number of variables, arbitrary tangents;
  (c) corollaries: value independent of tangents, tangent linear in tangents, `D1.f/df/fdf/
      composition` of a tree closure, `absJacobianDet`; the domain is open;
  (d) `example`s: every hypothesis is satisfiable at a concrete non-trivial instance;
  (e) `powi_zero_zero_value`: why `powi` needs `base ≠ 0 ∨ 1 ≤ n`.

  Helper lemmas: `Cav/Lemmas/ADReal.lean`.
-/
import Cav.Lemmas.ADReal
import Mathlib.LinearAlgebra.Matrix.Determinant.Basic

namespace Cav.C05
open Gen ADReal

/-! ## (a) the generated primitives

Shape of every lemma: `u`, `v` are curves with `HasDerivAt u u' t`, `HasDerivAt v v' t`; the
primitive applied to the dual numbers `⟨u t, u'⟩`, `⟨v t, v'⟩` returns the plain value in `.v` and the
derivative at `t` of the plain operation along the curves in `.d`. -/

section
variable {u v : ℝ → ℝ} {u' v' t : ℝ}

theorem AD.add_spec (hu : HasDerivAt u u' t) (hv : HasDerivAt v v' t) :
    (Gen.AD.add ⟨u t, u'⟩ ⟨v t, v'⟩).v = u t + v t ∧
    HasDerivAt (fun s => u s + v s) (Gen.AD.add ⟨u t, u'⟩ ⟨v t, v'⟩).d t :=
  ⟨rfl, hu.add hv⟩

theorem AD.sub_spec (hu : HasDerivAt u u' t) (hv : HasDerivAt v v' t) :
    (Gen.AD.sub ⟨u t, u'⟩ ⟨v t, v'⟩).v = u t - v t ∧
    HasDerivAt (fun s => u s - v s) (Gen.AD.sub ⟨u t, u'⟩ ⟨v t, v'⟩).d t :=
  ⟨rfl, hu.sub hv⟩

theorem AD.mul_spec (hu : HasDerivAt u u' t) (hv : HasDerivAt v v' t) :
    (Gen.AD.mul ⟨u t, u'⟩ ⟨v t, v'⟩).v = u t * v t ∧
    HasDerivAt (fun s => u s * v s) (Gen.AD.mul ⟨u t, u'⟩ ⟨v t, v'⟩).d t := by
  refine ⟨rfl, (hu.mul hv).congr_deriv ?_⟩
  simp only [Gen.AD.mul]; ring

theorem AD.div_spec (hu : HasDerivAt u u' t) (hv : HasDerivAt v v' t) (hv0 : v t ≠ 0) :
    (Gen.AD.div ⟨u t, u'⟩ ⟨v t, v'⟩).v = u t / v t ∧
    HasDerivAt (fun s => u s / v s) (Gen.AD.div ⟨u t, u'⟩ ⟨v t, v'⟩).d t := by
  refine ⟨rfl, (hu.div hv hv0).congr_deriv ?_⟩
  simp only [Gen.AD.div, Num.powi, zpow_ofNat]; field_simp

theorem AD.neg_spec (hu : HasDerivAt u u' t) :
    (Gen.AD.neg ⟨u t, u'⟩).v = -u t ∧
    HasDerivAt (fun s => -u s) (Gen.AD.neg ⟨u t, u'⟩).d t :=
  ⟨rfl, hu.neg⟩

theorem AD.abs_spec (hu : HasDerivAt u u' t) (h0 : u t ≠ 0) :
    (Gen.AD.abs ⟨u t, u'⟩).v = |u t| ∧
    HasDerivAt (fun s => |u s|) (Gen.AD.abs ⟨u t, u'⟩).d t := by
  refine ⟨rfl, ?_⟩
  have h := (hasDerivAt_abs h0).comp t hu
  refine h.congr_deriv ?_
  simp only [Gen.AD.abs, Num.lt, Num.ofNat, Nat.cast_zero, decide_eq_true_eq]
  rcases lt_or_gt_of_ne h0 with hn | hp
  · simp [hn]
  · simp [hp, not_lt.mpr hp.le]

/-- hypothesis `u t ≠ 0` (suffices because `Real.log x = Real.log |x|`; the `f64` meaning of `ln`
    is modelled only for `u t > 0`, which is what `InDomain` asks) -/
theorem AD.ln_spec (hu : HasDerivAt u u' t) (h0 : u t ≠ 0) :
    (Gen.AD.ln ⟨u t, u'⟩).v = Real.log (u t) ∧
    HasDerivAt (fun s => Real.log (u s)) (Gen.AD.ln ⟨u t, u'⟩).d t :=
  ⟨rfl, hu.log h0⟩

theorem AD.sqrt_spec (hu : HasDerivAt u u' t) (h0 : 0 < u t) :
    (Gen.AD.sqrt ⟨u t, u'⟩).v = Real.sqrt (u t) ∧
    HasDerivAt (fun s => Real.sqrt (u s)) (Gen.AD.sqrt ⟨u t, u'⟩).d t := by
  refine ⟨rfl, (hu.sqrt h0.ne').congr_deriv ?_⟩
  simp [Gen.AD.sqrt, Num.sqrt, Num.ofNat]

theorem AD.exp_spec (hu : HasDerivAt u u' t) :
    (Gen.AD.exp ⟨u t, u'⟩).v = Real.exp (u t) ∧
    HasDerivAt (fun s => Real.exp (u s)) (Gen.AD.exp ⟨u t, u'⟩).d t :=
  ⟨rfl, hu.exp⟩

theorem AD.sin_spec (hu : HasDerivAt u u' t) :
    (Gen.AD.sin ⟨u t, u'⟩).v = Real.sin (u t) ∧
    HasDerivAt (fun s => Real.sin (u s)) (Gen.AD.sin ⟨u t, u'⟩).d t :=
  ⟨rfl, hu.sin⟩

theorem AD.cos_spec (hu : HasDerivAt u u' t) :
    (Gen.AD.cos ⟨u t, u'⟩).v = Real.cos (u t) ∧
    HasDerivAt (fun s => Real.cos (u s)) (Gen.AD.cos ⟨u t, u'⟩).d t :=
  ⟨rfl, hu.cos⟩

theorem AD.tan_spec (hu : HasDerivAt u u' t) (h0 : Real.cos (u t) ≠ 0) :
    (Gen.AD.tan ⟨u t, u'⟩).v = Real.tan (u t) ∧
    HasDerivAt (fun s => Real.tan (u s)) (Gen.AD.tan ⟨u t, u'⟩).d t := by
  refine ⟨rfl, ((Real.hasDerivAt_tan h0).comp t hu).congr_deriv ?_⟩
  simp only [Gen.AD.tan, Num.powi, Num.cos, zpow_ofNat]; ring

theorem AD.asin_spec (hu : HasDerivAt u u' t) (h1 : -1 < u t) (h2 : u t < 1) :
    (Gen.AD.asin ⟨u t, u'⟩).v = Real.arcsin (u t) ∧
    HasDerivAt (fun s => Real.arcsin (u s)) (Gen.AD.asin ⟨u t, u'⟩).d t := by
  refine ⟨rfl, ((Real.hasDerivAt_arcsin h1.ne' h2.ne).comp t hu).congr_deriv ?_⟩
  simp only [Gen.AD.asin, Num.powi, Num.sqrt, Num.ofNat, Nat.cast_one, zpow_ofNat]; ring

theorem AD.acos_spec (hu : HasDerivAt u u' t) (h1 : -1 < u t) (h2 : u t < 1) :
    (Gen.AD.acos ⟨u t, u'⟩).v = Real.arccos (u t) ∧
    HasDerivAt (fun s => Real.arccos (u s)) (Gen.AD.acos ⟨u t, u'⟩).d t := by
  refine ⟨rfl, ((Real.hasDerivAt_arccos h1.ne' h2.ne).comp t hu).congr_deriv ?_⟩
  simp only [Gen.AD.acos, Num.powi, Num.sqrt, Num.ofNat, Nat.cast_one, zpow_ofNat]; ring

theorem AD.atan_spec (hu : HasDerivAt u u' t) :
    (Gen.AD.atan ⟨u t, u'⟩).v = Real.arctan (u t) ∧
    HasDerivAt (fun s => Real.arctan (u s)) (Gen.AD.atan ⟨u t, u'⟩).d t := by
  refine ⟨rfl, hu.arctan.congr_deriv ?_⟩
  simp only [Gen.AD.atan, Num.powi, Num.ofNat, Nat.cast_one, zpow_ofNat]; ring

theorem AD.sinh_spec (hu : HasDerivAt u u' t) :
    (Gen.AD.sinh ⟨u t, u'⟩).v = Real.sinh (u t) ∧
    HasDerivAt (fun s => Real.sinh (u s)) (Gen.AD.sinh ⟨u t, u'⟩).d t :=
  ⟨rfl, hu.sinh⟩

theorem AD.cosh_spec (hu : HasDerivAt u u' t) :
    (Gen.AD.cosh ⟨u t, u'⟩).v = Real.cosh (u t) ∧
    HasDerivAt (fun s => Real.cosh (u s)) (Gen.AD.cosh ⟨u t, u'⟩).d t :=
  ⟨rfl, hu.cosh⟩

theorem AD.tanh_spec (hu : HasDerivAt u u' t) :
    (Gen.AD.tanh ⟨u t, u'⟩).v = Real.tanh (u t) ∧
    HasDerivAt (fun s => Real.tanh (u s)) (Gen.AD.tanh ⟨u t, u'⟩).d t := by
  refine ⟨rfl, ((hasDerivAt_tanh (u t)).comp t hu).congr_deriv ?_⟩
  simp only [Gen.AD.tanh, Num.powi, Num.cosh, zpow_ofNat]; ring

theorem AD.asinh_spec (hu : HasDerivAt u u' t) :
    (Gen.AD.asinh ⟨u t, u'⟩).v = Real.arsinh (u t) ∧
    HasDerivAt (fun s => Real.arsinh (u s)) (Gen.AD.asinh ⟨u t, u'⟩).d t := by
  refine ⟨rfl, hu.arsinh.congr_deriv ?_⟩
  simp only [Gen.AD.asinh, Num.powi, Num.sqrt, Num.ofNat, Nat.cast_one, zpow_ofNat]
  rw [add_comm]; ring

theorem AD.acosh_spec (hu : HasDerivAt u u' t) (h1 : 1 < u t) :
    (Gen.AD.acosh ⟨u t, u'⟩).v = Real.arcosh (u t) ∧
    HasDerivAt (fun s => Real.arcosh (u s)) (Gen.AD.acosh ⟨u t, u'⟩).d t := by
  refine ⟨rfl, ((Real.hasDerivAt_arcosh (Set.mem_Ioi.mpr h1)).comp t hu).congr_deriv ?_⟩
  simp only [Gen.AD.acosh, Num.powi, Num.sqrt, Num.ofNat, Nat.cast_one, zpow_ofNat]; ring

theorem AD.atanh_spec (hu : HasDerivAt u u' t) (h1 : -1 < u t) (h2 : u t < 1) :
    (Gen.AD.atanh ⟨u t, u'⟩).v = Real.artanh (u t) ∧
    HasDerivAt (fun s => Real.artanh (u s)) (Gen.AD.atanh ⟨u t, u'⟩).d t := by
  refine ⟨rfl, ((hasDerivAt_artanh h1 h2).comp t hu).congr_deriv ?_⟩
  simp only [Gen.AD.atanh, Num.ofNat, Nat.cast_one]; ring


/-- exponent: any `i32` except `i32::MIN` (so that the wrapping `n - 1` of the source is `n - 1`);
    base: `u t ≠ 0`, or `1 ≤ n`.  (The derivative clause alone also holds at `u t = 0, n = 0`; the
    value clause does not, see `powi_zero_zero_value`.) -/
theorem AD.powi_spec (hu : HasDerivAt u u' t) {n : Int}
    (hn1 : -2147483648 < n) (hn2 : n < 2147483648) (h0 : u t ≠ 0 ∨ 1 ≤ n) :
    (Gen.AD.powi ⟨u t, u'⟩ n).v = u t ^ n ∧
    HasDerivAt (fun s => u s ^ n) (Gen.AD.powi ⟨u t, u'⟩ n).d t := by
  have hd : u t ≠ 0 ∨ 0 ≤ n := h0.imp id (fun h => by omega)
  constructor
  · simp only [Gen.AD.powi, Num.powi, i32sub_one hn1 hn2]
    rcases h0 with h | h
    · rw [zpow_sub_one₀ h]; field_simp
    · by_cases hz : u t = 0
      · rw [hz, zero_mul, zero_zpow n (by omega)]
      · rw [zpow_sub_one₀ hz]; field_simp
  · refine ((hasDerivAt_zpow n (u t) hd).comp t hu).congr_deriv ?_
    simp only [Gen.AD.powi, Num.powi, Num.ofInt, i32sub_one hn1 hn2]

theorem AD.pow_spec (hu : HasDerivAt u u' t) (hv : HasDerivAt v v' t) (h0 : 0 < u t) :
    (Gen.AD.pow ⟨u t, u'⟩ ⟨v t, v'⟩).v = u t ^ v t ∧
    (Gen.AD.pow ⟨u t, u'⟩ ⟨v t, v'⟩).v = Real.exp (Real.log (u t) * v t) ∧
    HasDerivAt (fun s => u s ^ v s) (Gen.AD.pow ⟨u t, u'⟩ ⟨v t, v'⟩).d t := by
  refine ⟨(Real.rpow_def_of_pos h0 _).symm, rfl, ?_⟩
  have h1 : HasDerivAt (fun s => Real.exp (Real.log (u s) * v s))
      (Gen.AD.pow ⟨u t, u'⟩ ⟨v t, v'⟩).d t := by
    refine ((hu.log h0.ne').mul hv).exp.congr_deriv ?_
    simp only [Gen.AD.pow, Gen.AD.exp, Gen.AD.mul, Gen.AD.ln, Num.exp, Num.ln, Pi.mul_apply]; ring
  refine h1.congr_of_eventuallyEq ?_
  filter_upwards [hu.continuousAt.eventually (lt_mem_nhds h0)] with s hs
  exact Real.rpow_def_of_pos hs _


/-- the value of `AD::pow` is `exp(ln a · b)`, which is `a ^ b` when the base is positive -/
theorem AD.pow_value (a b : Gen.AD ℝ) (h0 : 0 < a.v) : (Gen.AD.pow a b).v = a.v ^ b.v :=
  (Real.rpow_def_of_pos h0 _).symm

end

/-! ## (b) the whole tree -/

/-- open domain of each registered unary function (argument value `v`) -/
def UDom : UFn → ℝ → Prop
  | .abs, v => v ≠ 0
  | .ln, v => 0 < v
  | .sqrt, v => 0 < v
  | .tan, v => Real.cos v ≠ 0
  | .asin, v => -1 < v ∧ v < 1
  | .acos, v => -1 < v ∧ v < 1
  | .atanh, v => -1 < v ∧ v < 1
  | .acosh, v => 1 < v
  | .user _, _ => False
  | _, _ => True

/-- open domain of each binary operator (argument values `a`, `b`) -/
def BDom : BOp → ℝ → ℝ → Prop
  | .div, _, b => b ≠ 0
  | .pow, a, _ => 0 < a
  | _, _, _ => True

/-- domain of `powi` with exponent `n` (an `i32` other than `i32::MIN`) at base value `v` -/
def PDom (n : Int) (v : ℝ) : Prop :=
  -2147483648 < n ∧ n < 2147483648 ∧ (v ≠ 0 ∨ 1 ≤ n)

/-- **Every sub-expression lies in the open domain of its operator**, at the variable values `xs`
    (sub-expression values are those of the PLAIN evaluator `E.evalF`):
    variable indices `< xs.length`; no `inf`/`nan` literal; no user-registered function; and per node
    `UDom` / `BDom` / `PDom` above. -/
def InDomain (cst : String → ℝ) (xs : List ℝ) : E → Prop
  | .var i => i < xs.length
  | .lit _ _ => True
  | .litInf => False
  | .litNan => False
  | .cst _ => True
  | .un f x => InDomain cst xs x ∧
      ∃ v, x.evalF ⟨cst, fun _ x => x⟩ xs = some v ∧ UDom f v
  | .bin op l r => InDomain cst xs l ∧ InDomain cst xs r ∧
      ∃ a b, l.evalF ⟨cst, fun _ x => x⟩ xs = some a ∧
        r.evalF ⟨cst, fun _ x => x⟩ xs = some b ∧ BDom op a b
  | .powi x n => InDomain cst xs x ∧
      ∃ v, x.evalF ⟨cst, fun _ x => x⟩ xs = some v ∧ PDom n v

/-- all 17 registered unary functions at once: `UFn.applyAD` (the generated method) against
    `UFn.applyF` (the `f64` function), on `UDom` -/
theorem unary_spec (f : UFn) {u : ℝ → ℝ} {u' t : ℝ} (hu : HasDerivAt u u' t) (hd : UDom f (u t)) :
    (f.applyAD (fun _ x => x) ⟨u t, u'⟩).v = f.applyF (fun _ x => x) (u t) ∧
    HasDerivAt (fun s => f.applyF (fun _ x => x) (u s)) (f.applyAD (fun _ x => x) ⟨u t, u'⟩).d t := by
  cases f with
  | abs => exact AD.abs_spec hu hd
  | sin => exact AD.sin_spec hu
  | cos => exact AD.cos_spec hu
  | tan => exact AD.tan_spec hu hd
  | asin => exact AD.asin_spec hu hd.1 hd.2
  | acos => exact AD.acos_spec hu hd.1 hd.2
  | atan => exact AD.atan_spec hu
  | ln => exact AD.ln_spec hu (ne_of_gt hd)
  | exp => exact AD.exp_spec hu
  | sqrt => exact AD.sqrt_spec hu hd
  | sinh => exact AD.sinh_spec hu
  | cosh => exact AD.cosh_spec hu
  | tanh => exact AD.tanh_spec hu
  | asinh => exact AD.asinh_spec hu
  | acosh => exact AD.acosh_spec hu hd
  | atanh => exact AD.atanh_spec hu hd.1 hd.2
  | neg => exact AD.neg_spec hu
  | user n => exact hd.elim

/-- all 5 binary operators at once, on `BDom` -/
theorem binary_spec (op : BOp) {u v : ℝ → ℝ} {u' v' t : ℝ} (hu : HasDerivAt u u' t)
    (hv : HasDerivAt v v' t) (hd : BDom op (u t) (v t)) :
    (op.applyAD ⟨u t, u'⟩ ⟨v t, v'⟩).v = op.applyF (u t) (v t) ∧
    HasDerivAt (fun s => op.applyF (u s) (v s)) (op.applyAD ⟨u t, u'⟩ ⟨v t, v'⟩).d t := by
  cases op with
  | add => exact AD.add_spec hu hv
  | sub => exact AD.sub_spec hu hv
  | mul => exact AD.mul_spec hu hv
  | div => exact AD.div_spec hu hv hd
  | pow => exact ⟨(AD.pow_spec hu hv hd).1, (AD.pow_spec hu hv hd).2.2⟩

/-- **Forward-mode AD of a whole tree is value + true derivative.**
    For every tree `e` (any size), any number of variables moving along curves `ρ` that are
    differentiable at `t` with ARBITRARY tangents `ρ'`, if `e` is in domain at the point `ρ(t)`:
    `evalAD` at the dual numbers `⟨ρᵢ t, ρ'ᵢ⟩` succeeds with a result `r` such that `r.v` is the plain
    value and `r.d` is the derivative at `t` of the plain evaluator along the curve. -/
theorem ad_correct (cst : String → ℝ) (e : E) (ρ : List (ℝ → ℝ)) (ρ' : List ℝ) (t : ℝ)
    (hlen : ρ'.length = ρ.length)
    (hρ : ∀ i (h : i < ρ.length), HasDerivAt (ρ[i]) (ρ'[i]'(by omega)) t)
    (hdom : InDomain cst (ρ.map (· t)) e) :
    ∃ r : Gen.AD ℝ,
      e.evalAD ⟨cst, fun _ x => x⟩ (List.zipWith (fun f d => ⟨f t, d⟩) ρ ρ') = some r ∧
      e.evalF ⟨cst, fun _ x => x⟩ (ρ.map (· t)) = some r.v ∧
      HasDerivAt (fun s => (e.evalF ⟨cst, fun _ x => x⟩ (ρ.map (· s))).getD 0) r.d t := by
  induction e with
  | var i =>
    have hi : i < ρ.length := by simpa [InDomain] using hdom
    exact ADCorrectAt.var hlen hi (hρ i hi)
  | lit m k => exact ADCorrectAt.const _ (fun _ => rfl) (fun _ => rfl)
  | litInf => exact hdom.elim
  | litNan => exact hdom.elim
  | cst n => exact ADCorrectAt.const _ (fun _ => rfl) (fun _ => rfl)
  | un f x ih =>
    obtain ⟨hx, v, hv, hd⟩ := hdom
    refine ADCorrectAt.map1 _ _ (fun _ => rfl) (fun _ => rfl) (ih hx) ?_
    intro u u' hu hut
    have : v = u t := Option.some.inj (hv.symm.trans hut)
    exact unary_spec f hu (this ▸ hd)
  | bin op l r ihl ihr =>
    obtain ⟨hl, hr, a, b, ha, hb, hd⟩ := hdom
    refine ADCorrectAt.map2 (BOp.applyF op) (BOp.applyAD op) ?_ ?_ (ihl hl) (ihr hr) ?_
    · intro xs a b h1 h2; simp only [E.evalF, h1, h2]
    · intro vs a b h1 h2; simp only [E.evalAD, h1, h2]
    · intro u v u' v' hu hv hut hvt
      have h1 : a = u t := Option.some.inj (ha.symm.trans hut)
      have h2 : b = v t := Option.some.inj (hb.symm.trans hvt)
      exact binary_spec op hu hv (h1 ▸ h2 ▸ hd)
  | powi x n ih =>
    obtain ⟨hx, v, hv, hn1, hn2, h0⟩ := hdom
    refine ADCorrectAt.map1 _ _ (fun _ => rfl) (fun _ => rfl) (ih hx) ?_
    intro u u' hu hut
    have : v = u t := Option.some.inj (hv.symm.trans hut)
    exact AD.powi_spec hu hn1 hn2 (this ▸ h0)

/-! ## (c) corollaries -/

/-- the value component of `evalAD` does not depend on the tangents (no domain condition needed;
    `none` on both sides when a variable index is out of range) -/
theorem ad_value_indep_of_tangent (cst : String → ℝ) (e : E) (xs ds₁ ds₂ : List ℝ)
    (h₁ : ds₁.length = xs.length) (h₂ : ds₂.length = xs.length) :
    (e.evalAD ⟨cst, fun _ x => x⟩ (List.zipWith AD.mk xs ds₁)).map (·.v) =
    (e.evalAD ⟨cst, fun _ x => x⟩ (List.zipWith AD.mk xs ds₂)).map (·.v) := by
  have h := evalAD_linRel cst 1 0
    (linRelO_zip 1 0 xs ds₁ ds₂ ds₁ h₁ h₂ h₁ (fun i hi => by ring)) e
  revert h
  cases e.evalAD ⟨cst, fun _ x => x⟩ (List.zipWith AD.mk xs ds₁) <;>
    cases e.evalAD ⟨cst, fun _ x => x⟩ (List.zipWith AD.mk xs ds₂) <;> intro h
  · rfl
  · exact h.elim
  · exact h.elim
  · exact congrArg some h.1.symm

/-- the tangent component of `evalAD` is linear in the tangents: tangents `a·d₁ + b·d₂` give
    value `r₁.v` and tangent `a·r₁.d + b·r₂.d` (no domain condition needed) -/
theorem ad_tangent_linear (cst : String → ℝ) (e : E) (xs d₁ d₂ : List ℝ) (a b : ℝ)
    (h₁ : d₁.length = xs.length) (h₂ : d₂.length = xs.length) {r₁ r₂ : Gen.AD ℝ}
    (hr₁ : e.evalAD ⟨cst, fun _ x => x⟩ (List.zipWith AD.mk xs d₁) = some r₁)
    (hr₂ : e.evalAD ⟨cst, fun _ x => x⟩ (List.zipWith AD.mk xs d₂) = some r₂) :
    e.evalAD ⟨cst, fun _ x => x⟩
        (List.zipWith AD.mk xs (List.zipWith (fun p q => a * p + b * q) d₁ d₂)) =
      some ⟨r₁.v, a * r₁.d + b * r₂.d⟩ := by
  have h := evalAD_linRel cst a b
    (linRelO_zip a b xs d₁ d₂ (List.zipWith (fun p q => a * p + b * q) d₁ d₂) h₁ h₂
      (by simp [h₁, h₂]) (fun i hi => by simp)) e
  rw [hr₁, hr₂] at h
  revert h
  cases e.evalAD ⟨cst, fun _ x => x⟩
      (List.zipWith AD.mk xs (List.zipWith (fun p q => a * p + b * q) d₁ d₂)) with
  | none => intro h; exact h.elim
  | some r₃ =>
    intro h
    obtain ⟨v, d⟩ := r₃
    obtain ⟨-, hv, hd⟩ := h
    simp only at hv hd
    rw [hv, hd]

/-- additivity -/
theorem ad_tangent_add (cst : String → ℝ) (e : E) (xs d₁ d₂ : List ℝ)
    (h₁ : d₁.length = xs.length) (h₂ : d₂.length = xs.length) {r₁ r₂ : Gen.AD ℝ}
    (hr₁ : e.evalAD ⟨cst, fun _ x => x⟩ (List.zipWith AD.mk xs d₁) = some r₁)
    (hr₂ : e.evalAD ⟨cst, fun _ x => x⟩ (List.zipWith AD.mk xs d₂) = some r₂) :
    e.evalAD ⟨cst, fun _ x => x⟩ (List.zipWith AD.mk xs (List.zipWith (· + ·) d₁ d₂)) =
      some ⟨r₁.v, r₁.d + r₂.d⟩ := by
  have h := ad_tangent_linear cst e xs d₁ d₂ 1 1 h₁ h₂ hr₁ hr₂
  simpa using h

/-- homogeneity -/
theorem ad_tangent_smul (cst : String → ℝ) (e : E) (xs d : List ℝ) (c : ℝ)
    (h₁ : d.length = xs.length) {r : Gen.AD ℝ}
    (hr : e.evalAD ⟨cst, fun _ x => x⟩ (List.zipWith AD.mk xs d) = some r) :
    e.evalAD ⟨cst, fun _ x => x⟩ (List.zipWith AD.mk xs (d.map (c * ·))) =
      some ⟨r.v, c * r.d⟩ := by
  have h := ad_tangent_linear cst e xs d d c 0 h₁ h₁ hr hr
  simpa [List.zipWith_self] using h

/-! ### closures built from trees -/

/-- the `AD → AD` closure `|x| expr.eval(&[x])` of a one-variable tree (`getD`: the panic of an
    out-of-range variable never happens for an in-domain tree) -/
noncomputable def closure1 (cst : String → ℝ) (e : E) : Gen.AD ℝ → Gen.AD ℝ :=
  fun x => (e.evalAD ⟨cst, fun _ x => x⟩ [x]).getD ⟨0, 0⟩

/-- the plain `f64 → f64` function of a one-variable tree -/
noncomputable def plain1 (cst : String → ℝ) (e : E) : ℝ → ℝ :=
  fun y => (e.evalF ⟨cst, fun _ x => x⟩ [y]).getD 0

/-- the `[AD;2] → [AD;2]` closure of two two-variable trees -/
noncomputable def closure2 (cst : String → ℝ) (e₁ e₂ : E) : Gen.AD ℝ × Gen.AD ℝ → Gen.AD ℝ × Gen.AD ℝ :=
  fun p => ((e₁.evalAD ⟨cst, fun _ x => x⟩ [p.1, p.2]).getD ⟨0, 0⟩,
            (e₂.evalAD ⟨cst, fun _ x => x⟩ [p.1, p.2]).getD ⟨0, 0⟩)

/-- the plain function of a two-variable tree -/
noncomputable def plain2 (cst : String → ℝ) (e : E) : ℝ → ℝ → ℝ :=
  fun x y => (e.evalF ⟨cst, fun _ x => x⟩ [x, y]).getD 0

/-- `df` is the second component of `fdf` — for every closure, by definition -/
theorem d1_df_eq_fdf_snd (F : Gen.AD ℝ → Gen.AD ℝ) (x : ℝ) :
    Gen.D1.df F x = (Gen.D1.fdf F x).2 := rfl

/-- `f` (seeded with tangent 0) is the first component of `fdf` (seeded with tangent 1) for a
    closure built from any tree; false for arbitrary closures -/
theorem d1_f_eq_fdf_fst (cst : String → ℝ) (e : E) (x : ℝ) :
    Gen.D1.f (closure1 cst e) x = (Gen.D1.fdf (closure1 cst e) x).1 := by
  have h := ad_value_indep_of_tangent cst e [x] [Num.ofNat 0] [Num.ofNat 1] rfl rfl
  simp only [List.zipWith_cons_cons, List.zipWith_nil_right] at h
  simp only [Gen.D1.f, Gen.D1.fdf, closure1]
  revert h
  cases e.evalAD ⟨cst, fun _ x => x⟩ [(⟨x, Num.ofNat 0⟩ : Gen.AD ℝ)] <;>
    cases e.evalAD ⟨cst, fun _ x => x⟩ [(⟨x, Num.ofNat 1⟩ : Gen.AD ℝ)] <;> intro h <;>
    simp_all

/-- one variable moving along the curve `g`: the composition closure -/
theorem d1_composition_hasDerivAt (cst : String → ℝ) (e : E) {g : ℝ → ℝ} {g' t : ℝ}
    (hg : HasDerivAt g g' t) (hdom : InDomain cst [g t] e) :
    (Gen.D1.composition (closure1 cst e) (g t, g')).1 = plain1 cst e (g t) ∧
    HasDerivAt (fun s => plain1 cst e (g s)) (Gen.D1.composition (closure1 cst e) (g t, g')).2 t := by
  obtain ⟨r, hAD, hF, hD⟩ := ad_correct cst e [g] [g'] t rfl
    (fun i h => by
      have : i = 0 := by simpa using h
      subst this; exact hg) hdom
  simp only [List.zipWith_cons_cons, List.zipWith_nil_right] at hAD
  simp only [List.map_cons, List.map_nil] at hF hD
  simp only [Gen.D1.composition, closure1, plain1, hAD, hF, Option.getD_some]
  exact ⟨trivial, hD⟩

/-- the chain rule: `composition F (g t, g') = (f (g t), f' · g')` -/
theorem d1_composition_chain (cst : String → ℝ) (e : E) {g : ℝ → ℝ} {g' f' t : ℝ}
    (hg : HasDerivAt g g' t) (hdom : InDomain cst [g t] e)
    (hf' : HasDerivAt (plain1 cst e) f' (g t)) :
    Gen.D1.composition (closure1 cst e) (g t, g') = (plain1 cst e (g t), f' * g') := by
  obtain ⟨hv, hd⟩ := d1_composition_hasDerivAt cst e hg hdom
  have := hd.unique (hf'.comp t hg)
  exact Prod.ext hv this

/-- the chain rule at an arbitrary point and tangent (take `g s = x + g'·s` at `0`) -/
theorem d1_composition_chain' (cst : String → ℝ) (e : E) {x g' f' : ℝ}
    (hdom : InDomain cst [x] e) (hf' : HasDerivAt (plain1 cst e) f' x) :
    Gen.D1.composition (closure1 cst e) (x, g') = (plain1 cst e x, f' * g') := by
  have hg : HasDerivAt (fun s : ℝ => x + g' * s) g' 0 := by
    simpa using ((hasDerivAt_id (0 : ℝ)).const_mul g').const_add x
  have h0 : x + g' * 0 = x := by simp
  have := d1_composition_chain (f' := f') cst e hg (by rw [h0]; exact hdom) (by rw [h0]; exact hf')
  rwa [h0] at this

/-- `fdf` returns the plain value and the true derivative -/
theorem d1_fdf_spec (cst : String → ℝ) (e : E) {x : ℝ} (hdom : InDomain cst [x] e) :
    (Gen.D1.fdf (closure1 cst e) x).1 = plain1 cst e x ∧
    HasDerivAt (plain1 cst e) (Gen.D1.fdf (closure1 cst e) x).2 x := by
  have h := d1_composition_hasDerivAt cst e (hasDerivAt_id x) hdom
  simpa [Gen.D1.composition, Gen.D1.fdf, Num.ofNat] using h

/-- `df` is the true derivative of the plain function, `f` is its value -/
theorem d1_df_hasDerivAt (cst : String → ℝ) (e : E) {x : ℝ} (hdom : InDomain cst [x] e) :
    Gen.D1.f (closure1 cst e) x = plain1 cst e x ∧
    HasDerivAt (plain1 cst e) (Gen.D1.df (closure1 cst e) x) x := by
  rw [d1_f_eq_fdf_fst, d1_df_eq_fdf_snd]
  exact d1_fdf_spec cst e hdom

/-- the two seeded evaluations of `absJacobianDet` for one two-variable tree: seeding `(1,0)` gives
    the partial derivative in the first variable, seeding `(0,1)` the one in the second -/
theorem ad_partials (cst : String → ℝ) (e : E) {x y : ℝ} (hdom : InDomain cst [x, y] e) :
    ∃ r₁ r₂ : Gen.AD ℝ,
      e.evalAD ⟨cst, fun _ x => x⟩ [⟨x, 1⟩, ⟨y, 0⟩] = some r₁ ∧
      e.evalAD ⟨cst, fun _ x => x⟩ [⟨x, 0⟩, ⟨y, 1⟩] = some r₂ ∧
      r₁.v = plain2 cst e x y ∧ r₂.v = plain2 cst e x y ∧
      HasDerivAt (fun s => plain2 cst e s y) r₁.d x ∧
      HasDerivAt (fun s => plain2 cst e x s) r₂.d y := by
  obtain ⟨r₁, hAD₁, hF₁, hD₁⟩ := ad_correct cst e [fun s => s, fun _ => y] [1, 0] x rfl
    (fun i h => by
      have : i = 0 ∨ i = 1 := by simp at h; omega
      rcases this with rfl | rfl
      · exact hasDerivAt_id x
      · exact hasDerivAt_const x y) hdom
  obtain ⟨r₂, hAD₂, hF₂, hD₂⟩ := ad_correct cst e [fun _ => x, fun s => s] [0, 1] y rfl
    (fun i h => by
      have : i = 0 ∨ i = 1 := by simp at h; omega
      rcases this with rfl | rfl
      · exact hasDerivAt_const y x
      · exact hasDerivAt_id y) hdom
  simp only [List.zipWith_cons_cons, List.zipWith_nil_right] at hAD₁ hAD₂
  simp only [List.map_cons, List.map_nil] at hF₁ hD₁ hF₂ hD₂
  refine ⟨r₁, r₂, hAD₁, hAD₂, ?_, ?_, hD₁, hD₂⟩
  · simp [plain2, hF₁]
  · simp [plain2, hF₂]

/-- `abs_jacobian_det` of a map given by two in-domain two-variable trees is
    `|∂₁g₁ ∂₂g₂ − ∂₁g₂ ∂₂g₁|`, for ANY witnesses `aᵢⱼ = ∂ⱼgᵢ` of the partial derivatives of the plain
    evaluators along the coordinate lines -/
theorem absJacobianDet_spec (cst : String → ℝ) (e₁ e₂ : E) {x y : ℝ}
    (h₁ : InDomain cst [x, y] e₁) (h₂ : InDomain cst [x, y] e₂) {a₁₁ a₁₂ a₂₁ a₂₂ : ℝ}
    (d₁₁ : HasDerivAt (fun s => plain2 cst e₁ s y) a₁₁ x)
    (d₁₂ : HasDerivAt (fun s => plain2 cst e₁ x s) a₁₂ y)
    (d₂₁ : HasDerivAt (fun s => plain2 cst e₂ s y) a₂₁ x)
    (d₂₂ : HasDerivAt (fun s => plain2 cst e₂ x s) a₂₂ y) :
    Gen.absJacobianDet (closure2 cst e₁ e₂) (x, y) = |a₁₁ * a₂₂ - a₂₁ * a₁₂| := by
  obtain ⟨p₁, p₂, hp₁, hp₂, -, -, hp₁', hp₂'⟩ := ad_partials cst e₁ h₁
  obtain ⟨q₁, q₂, hq₁, hq₂, -, -, hq₁', hq₂'⟩ := ad_partials cst e₂ h₂
  simp only [Gen.absJacobianDet, closure2, Num.ofNat, Nat.cast_one, Nat.cast_zero, hp₁, hp₂, hq₁,
    hq₂, Option.getD_some, Num.abs]
  rw [hp₁'.unique d₁₁, hp₂'.unique d₁₂, hq₁'.unique d₂₁, hq₂'.unique d₂₂]

/-- the partial derivatives exist, and `abs_jacobian_det` is the absolute value of the determinant
    of the Jacobian matrix -/
theorem absJacobianDet_det (cst : String → ℝ) (e₁ e₂ : E) {x y : ℝ}
    (h₁ : InDomain cst [x, y] e₁) (h₂ : InDomain cst [x, y] e₂) :
    ∃ a₁₁ a₁₂ a₂₁ a₂₂ : ℝ,
      HasDerivAt (fun s => plain2 cst e₁ s y) a₁₁ x ∧
      HasDerivAt (fun s => plain2 cst e₁ x s) a₁₂ y ∧
      HasDerivAt (fun s => plain2 cst e₂ s y) a₂₁ x ∧
      HasDerivAt (fun s => plain2 cst e₂ x s) a₂₂ y ∧
      Gen.absJacobianDet (closure2 cst e₁ e₂) (x, y) = |Matrix.det !![a₁₁, a₁₂; a₂₁, a₂₂]| := by
  obtain ⟨p₁, p₂, -, -, -, -, hp₁', hp₂'⟩ := ad_partials cst e₁ h₁
  obtain ⟨q₁, q₂, -, -, -, -, hq₁', hq₂'⟩ := ad_partials cst e₂ h₂
  refine ⟨_, _, _, _, hp₁', hp₂', hq₁', hq₂', ?_⟩
  rw [absJacobianDet_spec cst e₁ e₂ h₁ h₂ hp₁' hp₂' hq₁' hq₂', Matrix.det_fin_two_of]
  congr 1; ring

/-! ### the domain is open, so the AD closure's own value function is differentiable -/

theorem UDom_isOpen (f : UFn) : IsOpen {v : ℝ | UDom f v} := by
  cases f with
  | abs => exact isOpen_ne
  | ln => exact isOpen_Ioi
  | sqrt => exact isOpen_Ioi
  | tan => exact isOpen_ne.preimage Real.continuous_cos
  | asin => exact isOpen_Ioo
  | acos => exact isOpen_Ioo
  | atanh => exact isOpen_Ioo
  | acosh => exact isOpen_Ioi
  | user n => exact isOpen_empty
  | _ => exact isOpen_univ

theorem BDom_eventually (op : BOp) {u v : ℝ → ℝ} {t : ℝ} (hu : ContinuousAt u t)
    (hv : ContinuousAt v t) (hd : BDom op (u t) (v t)) : ∀ᶠ s in nhds t, BDom op (u s) (v s) := by
  cases op with
  | div => exact hv.eventually_ne hd
  | pow => exact hu.eventually (lt_mem_nhds hd)
  | _ => exact Filter.Eventually.of_forall fun _ => trivial

theorem PDom_eventually (n : Int) {u : ℝ → ℝ} {t : ℝ} (hu : ContinuousAt u t)
    (hd : PDom n (u t)) : ∀ᶠ s in nhds t, PDom n (u s) := by
  obtain ⟨h1, h2, h3 | h3⟩ := hd
  · filter_upwards [hu.eventually_ne h3] with s hs
    exact ⟨h1, h2, Or.inl hs⟩
  · exact Filter.Eventually.of_forall fun _ => ⟨h1, h2, Or.inr h3⟩

/-- `InDomain` is an open condition along differentiable curves -/
theorem inDomain_eventually (cst : String → ℝ) (e : E) (ρ : List (ℝ → ℝ)) (ρ' : List ℝ) (t : ℝ)
    (hlen : ρ'.length = ρ.length)
    (hρ : ∀ i (h : i < ρ.length), HasDerivAt (ρ[i]) (ρ'[i]'(by omega)) t)
    (hdom : InDomain cst (ρ.map (· t)) e) :
    ∀ᶠ s in nhds t, InDomain cst (ρ.map (· s)) e := by
  -- value of a sub-expression along the curve: continuous at `t`, and `evalF` returns it
  have key : ∀ x : E, InDomain cst (ρ.map (· t)) x → ∀ v,
      x.evalF ⟨cst, fun _ x => x⟩ (ρ.map (· t)) = some v →
      ∃ w : ℝ → ℝ, ContinuousAt w t ∧ w t = v ∧
        ∀ s, x.evalF ⟨cst, fun _ x => x⟩ (ρ.map (· s)) = some (w s) := by
    intro x hx v hv
    obtain ⟨r, -, hF, hD⟩ := ad_correct cst x ρ ρ' t hlen hρ hx
    refine ⟨_, hD.continuousAt, by rw [hv]; rfl, fun s => ?_⟩
    have hs : (x.evalF ⟨cst, fun _ x => x⟩ (ρ.map (· s))).isSome = true := by
      rw [evalF_isSome_congr _ (ys := ρ.map (· t)) (by simp), hF]; rfl
    obtain ⟨z, hz⟩ := Option.isSome_iff_exists.mp hs
    rw [hz]; rfl
  induction e with
  | var i => exact Filter.Eventually.of_forall fun s => by simpa [InDomain] using hdom
  | lit m k => exact Filter.Eventually.of_forall fun _ => trivial
  | litInf => exact hdom.elim
  | litNan => exact hdom.elim
  | cst n => exact Filter.Eventually.of_forall fun _ => trivial
  | un f x ih =>
    obtain ⟨hx, v, hv, hd⟩ := hdom
    obtain ⟨w, hwc, hwt, hw⟩ := key x hx v hv
    have hev : ∀ᶠ s in nhds t, UDom f (w s) :=
      hwc.preimage_mem_nhds ((UDom_isOpen f).mem_nhds (by rw [hwt]; exact hd))
    filter_upwards [ih hx, hev] with s h1 h2
    exact ⟨h1, w s, hw s, h2⟩
  | bin op l r ihl ihr =>
    obtain ⟨hl, hr, a, b, ha, hb, hd⟩ := hdom
    obtain ⟨wa, hac, hat, hwa⟩ := key l hl a ha
    obtain ⟨wb, hbc, hbt, hwb⟩ := key r hr b hb
    have hev := BDom_eventually op hac hbc (by rw [hat, hbt]; exact hd)
    filter_upwards [ihl hl, ihr hr, hev] with s h1 h2 h3
    exact ⟨h1, h2, wa s, wb s, hwa s, hwb s, h3⟩
  | powi x n ih =>
    obtain ⟨hx, v, hv, hd⟩ := hdom
    obtain ⟨w, hwc, hwt, hw⟩ := key x hx v hv
    have hev := PDom_eventually n hwc (by rw [hwt]; exact hd)
    filter_upwards [ih hx, hev] with s h1 h2
    exact ⟨h1, w s, hw s, h2⟩

/-- the closure's own value function `D1.f F` (not only the plain evaluator) has derivative
    `D1.df F x` at every in-domain point -/
theorem d1_f_hasDerivAt (cst : String → ℝ) (e : E) {x : ℝ} (hdom : InDomain cst [x] e) :
    HasDerivAt (Gen.D1.f (closure1 cst e)) (Gen.D1.df (closure1 cst e) x) x := by
  have hev := inDomain_eventually cst e [fun s => s] [1] x rfl
    (fun i h => by
      have : i = 0 := by simpa using h
      subst this; exact hasDerivAt_id x) hdom
  refine (d1_df_hasDerivAt cst e hdom).2.congr_of_eventuallyEq ?_
  filter_upwards [hev] with y hy
  exact (d1_df_hasDerivAt cst e hy).1

/-! ## (d) the hypotheses are satisfiable (non-vacuity) -/

section examples

/-! primitives with a domain hypothesis, at `u s = s` (and `v s = 1 + s`) -/

example : HasDerivAt (fun s : ℝ => s / (1 + s)) (Gen.AD.div ⟨2, 1⟩ ⟨1 + 2, 1⟩).d 2 :=
  (AD.div_spec (u := fun s => s) (v := fun s => 1 + s) (hasDerivAt_id' 2)
    ((hasDerivAt_id' 2).const_add 1) (by norm_num)).2

example : HasDerivAt (fun s : ℝ => |s|) (Gen.AD.abs ⟨-3, 1⟩).d (-3) :=
  (AD.abs_spec (u := fun s => s) (hasDerivAt_id' (-3)) (by norm_num)).2

/-- … and the tangent computed there is `-1` -/
example : (Gen.AD.abs (⟨-3, 1⟩ : Gen.AD ℝ)).d = -1 := by
  simp [Gen.AD.abs, Num.lt, Num.ofNat]

example : HasDerivAt (fun s : ℝ => Real.log s) (Gen.AD.ln ⟨2, 1⟩).d 2 :=
  (AD.ln_spec (u := fun s => s) (hasDerivAt_id' 2) (by norm_num)).2

example : HasDerivAt (fun s : ℝ => Real.sqrt s) (Gen.AD.sqrt ⟨4, 1⟩).d 4 :=
  (AD.sqrt_spec (u := fun s => s) (hasDerivAt_id' 4) (by norm_num)).2

example : HasDerivAt (fun s : ℝ => Real.tan s) (Gen.AD.tan ⟨0, 1⟩).d 0 :=
  (AD.tan_spec (u := fun s => s) (hasDerivAt_id' 0) (by simp)).2

example : HasDerivAt (fun s : ℝ => Real.arcsin s) (Gen.AD.asin ⟨1 / 2, 1⟩).d (1 / 2) :=
  (AD.asin_spec (u := fun s => s) (hasDerivAt_id' (1 / 2)) (by norm_num) (by norm_num)).2

example : HasDerivAt (fun s : ℝ => Real.arccos s) (Gen.AD.acos ⟨1 / 2, 1⟩).d (1 / 2) :=
  (AD.acos_spec (u := fun s => s) (hasDerivAt_id' (1 / 2)) (by norm_num) (by norm_num)).2

example : HasDerivAt (fun s : ℝ => Real.arcosh s) (Gen.AD.acosh ⟨2, 1⟩).d 2 :=
  (AD.acosh_spec (u := fun s => s) (hasDerivAt_id' 2) (by norm_num)).2

example : HasDerivAt (fun s : ℝ => Real.artanh s) (Gen.AD.atanh ⟨1 / 2, 1⟩).d (1 / 2) :=
  (AD.atanh_spec (u := fun s => s) (hasDerivAt_id' (1 / 2)) (by norm_num) (by norm_num)).2

/-- negative exponent, base `≠ 0` -/
example : HasDerivAt (fun s : ℝ => s ^ (-2 : Int)) (Gen.AD.powi ⟨3, 1⟩ (-2)).d 3 :=
  (AD.powi_spec (u := fun s => s) (hasDerivAt_id' 3) (by norm_num) (by norm_num)
    (Or.inl (by norm_num))).2

/-- positive exponent at base `0` -/
example : HasDerivAt (fun s : ℝ => s ^ (3 : Int)) (Gen.AD.powi ⟨0, 1⟩ 3).d 0 :=
  (AD.powi_spec (u := fun s => s) (hasDerivAt_id' 0) (by norm_num) (by norm_num)
    (Or.inr (by norm_num))).2

/-- `s ^ s` at `2` -/
example : HasDerivAt (fun s : ℝ => s ^ s) (Gen.AD.pow ⟨2, 1⟩ ⟨2, 1⟩).d 2 :=
  (AD.pow_spec (u := fun s => s) (v := fun s => s) (hasDerivAt_id' 2) (hasDerivAt_id' 2)
    (by norm_num)).2.2

example : (Gen.AD.pow (⟨2, 1⟩ : Gen.AD ℝ) ⟨3, 0⟩).v = (2 : ℝ) ^ (3 : ℝ) :=
  AD.pow_value _ _ (by norm_num)

example : HasDerivAt (fun s : ℝ => Real.sqrt s)
    ((UFn.sqrt).applyAD (fun _ x => x) (⟨4, 1⟩ : Gen.AD ℝ)).d 4 :=
  (unary_spec .sqrt (u := fun s => s) (hasDerivAt_id' 4) (by simp [UDom])).2

example : HasDerivAt (fun s : ℝ => s / (1 + s))
    ((BOp.div).applyAD (⟨2, 1⟩ : Gen.AD ℝ) ⟨1 + 2, 1⟩).d 2 :=
  (binary_spec .div (u := fun s => s) (v := fun s => 1 + s) (hasDerivAt_id' 2)
    ((hasDerivAt_id' 2).const_add 1) (by simp [BDom]; norm_num)).2

/-! trees -/

/-- `x / (1 + x*x)` -/
def exTree : E := .bin .div (.var 0) (.bin .add (.lit 1 0) (.bin .mul (.var 0) (.var 0)))

theorem exTree_inDomain (cst : String → ℝ) (x : ℝ) : InDomain cst [x] exTree := by
  simp [exTree, InDomain, E.evalF, BDom, BOp.applyF, Num.ofDec]
  nlinarith [mul_self_nonneg x]

/-- `ad_correct` applies to `exTree` along the curve `s ↦ s²` at `t = 2` with tangent `2·2` -/
example (cst : String → ℝ) : ∃ r : Gen.AD ℝ,
    exTree.evalAD ⟨cst, fun _ x => x⟩ [⟨(2 : ℝ) ^ 2, 2 * 2⟩] = some r ∧
    HasDerivAt (fun s : ℝ => (exTree.evalF ⟨cst, fun _ x => x⟩ [s ^ 2]).getD 0) r.d 2 := by
  obtain ⟨r, h1, -, h3⟩ := ad_correct cst exTree [fun s => s ^ 2] [2 * 2] 2 rfl
    (fun i h => by
      have : i = 0 := by simpa using h
      subst this
      simpa using hasDerivAt_pow 2 (2 : ℝ))
    (exTree_inDomain cst _)
  exact ⟨r, h1, h3⟩

/-- the derivative of `x / (1 + x²)` at `2` computed by the generated code is `-3/25` -/
example (cst : String → ℝ) : Gen.D1.df (closure1 cst exTree) 2 = -3 / 25 := by
  simp [Gen.D1.df, closure1, exTree, E.evalAD, BOp.applyAD, Gen.AD.div, Gen.AD.add, Gen.AD.mul,
    Gen.AD.ofF, Num.ofDec, Num.ofNat, Num.powi]
  norm_num

example (cst : String → ℝ) :
    HasDerivAt (plain1 cst exTree) (Gen.D1.df (closure1 cst exTree) 2) 2 :=
  (d1_df_hasDerivAt cst exTree (exTree_inDomain cst 2)).2

example (cst : String → ℝ) :
    HasDerivAt (Gen.D1.f (closure1 cst exTree)) (Gen.D1.df (closure1 cst exTree) 2) 2 :=
  d1_f_hasDerivAt cst exTree (exTree_inDomain cst 2)

/-- chain rule instance: tangent `5` at the point `2` -/
example (cst : String → ℝ) : ∃ f' : ℝ, HasDerivAt (plain1 cst exTree) f' 2 ∧
    Gen.D1.composition (closure1 cst exTree) (2, 5) = (plain1 cst exTree 2, f' * 5) :=
  ⟨_, (d1_fdf_spec cst exTree (exTree_inDomain cst 2)).2,
    d1_composition_chain' cst exTree (exTree_inDomain cst 2)
      (d1_fdf_spec cst exTree (exTree_inDomain cst 2)).2⟩

/-- a two-variable tree touching every kind of domain condition:
    `ln(x) * y^x + (y ** -2) + atanh(x / 4) + sqrt(acosh(y)) + tan(asin(x / 4)) + abs(acos(x/4))` -/
def exTree2 : E :=
  .bin .add (.bin .add (.bin .add (.bin .add (.bin .add
    (.bin .mul (.un .ln (.var 0)) (.bin .pow (.var 1) (.var 0)))
    (.powi (.var 1) (-2)))
    (.un .atanh (.bin .div (.var 0) (.lit 4 0))))
    (.un .sqrt (.un .acosh (.var 1))))
    (.un .tan (.un .asin (.bin .div (.var 0) (.lit 4 0)))))
    (.un .abs (.un .acos (.bin .div (.var 0) (.lit 4 0))))

theorem exTree2_inDomain (cst : String → ℝ) : InDomain cst [2, 3] exTree2 := by
  simp [exTree2, InDomain, E.evalF, UDom, BDom, PDom, BOp.applyF, UFn.applyF, Num.ofDec,
    Num.acosh, Num.asin, Num.acos]
  have h1 : (-1 : ℝ) < 2 / 4 := by norm_num
  have h2 : (2 / 4 : ℝ) < 1 := by norm_num
  refine ⟨⟨⟨⟨h1, h2⟩, Real.arcosh_pos (by norm_num)⟩, ⟨h1, h2⟩, ?_⟩, h1, h2⟩
  rw [Real.cos_arcsin]
  exact (Real.sqrt_pos.mpr (by norm_num)).ne'

/-- `ad_correct` applies to `exTree2` at `(2,3)` along arbitrary differentiable curves through that
    point with arbitrary tangents `(p, q)` -/
example (cst : String → ℝ) (p q : ℝ) : ∃ r : Gen.AD ℝ,
    exTree2.evalAD ⟨cst, fun _ x => x⟩ [⟨2 + p * 0, p⟩, ⟨3 + q * 0, q⟩] = some r ∧
    HasDerivAt (fun s : ℝ => (exTree2.evalF ⟨cst, fun _ x => x⟩ [2 + p * s, 3 + q * s]).getD 0)
      r.d 0 := by
  obtain ⟨r, h1, -, h3⟩ := ad_correct cst exTree2 [fun s => 2 + p * s, fun s => 3 + q * s] [p, q] 0
    rfl
    (fun i h => by
      have : i = 0 ∨ i = 1 := by simp at h; omega
      rcases this with rfl | rfl
      · simpa using ((hasDerivAt_id' (0 : ℝ)).const_mul p).const_add 2
      · simpa using ((hasDerivAt_id' (0 : ℝ)).const_mul q).const_add 3)
    (by simpa using exTree2_inDomain cst)
  exact ⟨r, h1, h3⟩

/-- polar-like map with domain conditions: `g₁ = x / y`, `g₂ = ln(x) * y` at `(2, 3)` -/
def exG1 : E := .bin .div (.var 0) (.var 1)
def exG2 : E := .bin .mul (.un .ln (.var 0)) (.var 1)

theorem exG1_inDomain (cst : String → ℝ) : InDomain cst [2, 3] exG1 := by
  simp [exG1, InDomain, E.evalF, BDom]

theorem exG2_inDomain (cst : String → ℝ) : InDomain cst [2, 3] exG2 := by
  simp [exG2, InDomain, E.evalF, UDom, BDom]

example (cst : String → ℝ) : ∃ a₁₁ a₁₂ a₂₁ a₂₂ : ℝ,
    HasDerivAt (fun s => plain2 cst exG1 s 3) a₁₁ 2 ∧
    HasDerivAt (fun s => plain2 cst exG1 2 s) a₁₂ 3 ∧
    HasDerivAt (fun s => plain2 cst exG2 s 3) a₂₁ 2 ∧
    HasDerivAt (fun s => plain2 cst exG2 2 s) a₂₂ 3 ∧
    Gen.absJacobianDet (closure2 cst exG1 exG2) (2, 3) = |Matrix.det !![a₁₁, a₁₂; a₂₁, a₂₂]| :=
  absJacobianDet_det cst exG1 exG2 (exG1_inDomain cst) (exG2_inDomain cst)

/-- the value the generated code computes there: `|(1/3)·ln 2 − (3/2)·(−2/9)| = ln 2 / 3 + 1/3` -/
example (cst : String → ℝ) :
    Gen.absJacobianDet (closure2 cst exG1 exG2) (2, 3) = |1 / 3 * Real.log 2 + 1 / 3| := by
  simp [Gen.absJacobianDet, closure2, exG1, exG2, E.evalAD, BOp.applyAD, UFn.applyAD, Gen.AD.div,
    Gen.AD.mul, Gen.AD.ln, Num.ofNat, Num.powi, Num.abs, Num.ln]
  congr 1
  ring

/-- tangent linearity instance on `exTree` -/
example (cst : String → ℝ) (a b : ℝ) {r₁ r₂ : Gen.AD ℝ}
    (h₁ : exTree.evalAD ⟨cst, fun _ x => x⟩ [⟨2, 1⟩] = some r₁)
    (h₂ : exTree.evalAD ⟨cst, fun _ x => x⟩ [⟨2, 7⟩] = some r₂) :
    exTree.evalAD ⟨cst, fun _ x => x⟩ [⟨2, a * 1 + b * 7⟩] = some ⟨r₁.v, a * r₁.d + b * r₂.d⟩ :=
  ad_tangent_linear cst exTree [2] [1] [7] a b rfl rfl h₁ h₂

/-- … whose hypotheses hold: the evaluations succeed -/
example (cst : String → ℝ) (d : ℝ) :
    ∃ r, exTree.evalAD ⟨cst, fun _ x => x⟩ [(⟨2, d⟩ : Gen.AD ℝ)] = some r := by
  simp [exTree, E.evalAD]

end examples

/-! ## (e) the `powi` hypothesis is needed -/

/-- why the hypothesis of `AD.powi_spec` is needed: at base `0`, exponent `0` the generated formula
    `v * powi v (n-1)` gives `0 * 0⁻¹ = 0` over `ℝ`, not `0 ^ 0 = 1`. -/
theorem powi_zero_zero_value :
    (Gen.AD.powi (⟨0, 1⟩ : Gen.AD ℝ) 0).v = 0 ∧ ((0 : ℝ) ^ (0 : Int) = 1) := by
  constructor
  · simp [Gen.AD.powi]
  · simp

/-- … so at base `0`, exponent `0` the `AD` evaluator and the `f64` evaluator of `x ** 0` disagree
    (over `f64` the `AD` side is `0 · ∞ = NaN`, the plain side `1`) -/
theorem powi_zero_zero_disagrees :
    (Gen.BA.powiAD (⟨0, 1⟩ : Gen.AD ℝ) 0).v ≠ Gen.BA.powiF (0 : ℝ) 0 := by
  have h := powi_zero_zero_value
  show (Gen.AD.powi (⟨0, 1⟩ : Gen.AD ℝ) 0).v ≠ (0 : ℝ) ^ (0 : Int)
  rw [h.1, h.2]; norm_num

/-- why `-2^31 < n` is needed: at `n = i32::MIN` the source's `n - 1` wraps to `i32::MAX`, and the
    value returned is `v^(2^31)` instead of `v^(-2^31)` -/
theorem powi_i32_min_value :
    Gen.i32sub (-2147483648) 1 = 2147483647 ∧
    (Gen.AD.powi (⟨2, 1⟩ : Gen.AD ℝ) (-2147483648)).v = (2 : ℝ) ^ (2147483648 : Int) := by
  have h : Gen.i32sub (-2147483648) 1 = 2147483647 := by decide
  refine ⟨h, ?_⟩
  show (2 : ℝ) * (2 : ℝ) ^ (Gen.i32sub (-2147483648) 1) = _
  rw [h, show (2147483648 : Int) = 2147483647 + 1 from rfl, zpow_add_one₀ two_ne_zero, mul_comm]


end Cav.C05
