/-
  C03 (number, non-degeneracy and total area of the triangles) for GENERAL VALID INPUT IN GENERAL
  POSITION: every finite list of simple polygons with pairwise disjoint boundaries — several
  components, holes, islands in holes, arbitrary nesting depth, any orientation, any starting
  vertex, polygons that are not x-monotone (Start vertices that split an in-interval, End vertices
  that merge two) — whose vertex abscissae are pairwise different (`ValidSet`, decidable, defined
  in `Cav/Thm/C04General.lean`).  The sweep model over `XQ` accepts such a set with `mono = true`
  (`C04General.general_accepted`); here the OUTPUT is characterised.  Everything below is PROVEN
  (no `sorry`; axioms: `propext`, `Classical.choice`, `Quot.sound`).

  MAIN THEOREM (the formulation with the nesting depth, (O1)–(O3) complete):

      general_output :  ValidSet polys →
        ∃ T, sweepMon (toInput polys) = .ok (T, true) ∧ T.length = triCount polys ∧
             (T.map |orient|).sum = evenOddArea2 polys

  and `general_output_full` adds: every triangle has non-zero area and all its corners are input
  vertices.  Here (`Cav/Lemmas/GenOutPolyDefs.lean`, decidable, computed from the polygons alone):
    * `holeLike R b P` — PARITY OF THE NESTING DEPTH of the polygon `P` (first ring index `b`): a
      vertical ray going down from the leftmost vertex of `P` crosses an odd number of edges of the
      polygon set (edges of `P` itself are never crossed: these are edges of the other polygons);
    * `triCount polys = Σ_i (if holeLike_i then n_i + 2 else n_i - 2) = Σ (n_i - 2) + 4·#(odd depth)`;
    * `evenOddArea2 polys = |Σ_i (if holeLike_i then -1 else 1) · |shoelace P_i||` (outer polygons
      minus holes plus islands …); the inner sum is itself non-negative (`general_output_area`).

  LAYERS.
  (L1) `general_output_geo` (all five kinds of events — Bend, proper Start, splitting Start,
       closing End, merging End — for an in-interval at an arbitrary position):
           T.length = triCountR (ringOf polys) ∧ (T.map |orient|).sum = areaR (ringOf polys)
       where the right-hand sides are GEOMETRIC quantities of the vertex ring, defined without any
       reference to the sweep (`Cav/Lemmas/GenOutDefs.lean`):
         - `nBelow R u v`: number of ring edges that cross the vertical line through the left end
           `u` of the ring edge `u → v` below that edge; `isLo R u v`: it is even (the edge is a
           LOWER boundary edge of the even-odd region);
         - `triCountR R = Σ_v vWeight R v`: `1` for a Bend vertex, `0` for a Start/End vertex whose
           lower edge is a lower boundary edge (convex corner of the region), `2` otherwise (a Start
           vertex inside the region, an End vertex that merges two in-intervals);
         - `areaR R = Σ_{u → v} ± cross (pt u) (pt v)` over the left-to-right ring edges, `+` for
           lower boundary edges, `-` for upper ones (area under the upper minus area under the
           lower boundary: the sum over all vertical slabs of the trapezoids of the in-intervals).
       Invariant `XInv` (`Cav/Lemmas/GenOutInv.lean`): the general sweep invariant `Inv` plus a
       ghost description of every back-chain — read from the head to the tail it is
       `X.reverse ++ m :: Y`, abscissae strictly decreasing from the rightmost node `m` along `X`
       and along `Y`, no convex corner in either part, the points strictly between the lower and
       the upper edge of the in-interval (`Shape`, `Cav/Lemmas/GenOutShape.lean`); node indices of
       different chains are different; `out.length + Σ chain lengths = cnt R xs + #intervals`;
       `areaSum out = wDone R xs + Σ pathSum chain`; lower/upper edges of in-intervals are
       lower/upper boundary edges; every triangle has positive area.  Per-event steps:
       `xbend_lo`, `xbend_hi`, `xstart_proper`, `xstart_split`, `xend_close`, `xend_merge`
       (`Cav/Lemmas/GenOutX*.lean`), loop `xloop`.
  (L2) `areaR_evenOdd`, `general_output_area`: `areaR = Σ (-1)^depth |shoelace|`.  Uses coherence
       (`Coh`: the region stays on the same side along each polygon, collected by the sweep) and
       `ccw_shoelace` (a simple polygon is walked counter-clockwise through its leftmost vertex iff
       its shoelace area is positive; proved by sweeping the polygon alone).
  (L3) `triCountR_eq`: `triCountR = triCount`.  Uses `single_turn_sum` — the theorem of turning
       tangents in the form "the signed half-turns at the Start/End vertices of a simple polygon
       add up to twice the half-turn at its rightmost vertex", proved by a second sweep invariant
       (`ArcInv`, `Cav/Lemmas/GenOutArc*.lean`): the processed parts of the boundaries are
       non-crossing arcs whose half-turn sum is `+1`/`-1` according to the order of their two ends
       on the sweep line.

  NOT PROVED (O4): that every triangle lies inside the even-odd region and that the interiors of
  the triangles are pairwise disjoint (the tiling property).  With the area identity proved here
  containment alone would imply disjointness almost everywhere, but containment needs a further
  per-triangle invariant (every emitted triangle lies between the lower and the upper boundary
  of its in-interval) that is not established.
-/
import Cav.Lemmas.GenOutFinal
import Cav.Lemmas.GenOutPoly
import Cav.Lemmas.GenOutSub
import Cav.Lemmas.GenOutArcLoop
import Cav.Lemmas.GenOutArcC
import Cav.Thm.C04General
import Cav.Thm.C04Convex
import Cav.Thm.C03

set_option linter.unusedSimpArgs false
set_option linter.unusedVariables false

namespace Cav.C03General
open Cav Num Cav.Geo Cav.Sweep Cav.QuadGeom Cav.CvxEvents Cav.CvxLoop
open Cav.GenInv Cav.GenRing Cav.GenValid Cav.GenOutDefs Cav.GenOutFinal Cav.C04General
open Cav.CvxPoly Cav.GenOutPoly Cav.GenOutSub Cav.C04Convex
open Cav.GenOutArc Cav.GenOutArcLoop Cav.GenOutArcC Cav.GenSetup Cav.GenAccept Cav.GenLoop

/-- the sum of the absolute doubled areas of a list of triangles -/
abbrev absAreaSum (T : List (Pt XQ × Pt XQ × Pt XQ)) : Rat :=
  (T.map fun tr => |orientPt tr.1 tr.2.1 tr.2.2|).sum

/-- **count and area of the output for every valid polygon set in general position**, in
    geometric terms of the vertex ring; moreover every vertex is coherent (the region stays on the
    same side when one walks along a polygon), and the vertex of greatest abscissa is an End
    vertex of weight `0` (a closing End) -/
theorem general_output_geo (polys : List (Array (Rat × Rat))) (hv : ValidSet polys) :
    ∃ T, sweepMon (toInput polys) = .ok (T, true) ∧ T.length = triCountR (ringOf polys) ∧
      absAreaSum T = areaR (ringOf polys) ∧
      (∀ v, v < (ringOf polys).n → Coh (ringOf polys) v) ∧
      (∀ v, v < (ringOf polys).n → (∀ u, u < (ringOf polys).n → (ringOf polys).x u ≤ (ringOf polys).x v) →
        vWeight (ringOf polys) v = 0) ∧
      ∀ tr ∈ T, 0 < |orientPt tr.1 tr.2.1 tr.2.2| := by
  obtain ⟨h3, hx, hA, hS⟩ := hv
  exact output_of_noCross polys h3 hx (noCross_of (ringOK polys h3 hx) hA hS)

/-- the same with the semantic validity `NoCross` of the vertex ring -/
theorem general_output_noCross (polys : List (Array (Rat × Rat))) (h3 : ∀ p ∈ polys, 3 ≤ p.size)
    (hx : ((polys.flatMap Array.toList).map (·.1)).Nodup) (hN : NoCross (ringOf polys)) :
    ∃ T, sweepMon (toInput polys) = .ok (T, true) ∧ T.length = triCountR (ringOf polys) ∧
      absAreaSum T = areaR (ringOf polys) :=
  let ⟨T, h1, h2, h3', _, _, _⟩ := output_of_noCross polys h3 hx hN
  ⟨T, h1, h2, h3'⟩

/-! ### the area in terms of the polygons -/

/-- **orientation of a simple polygon**: a polygon of a valid set is walked counter-clockwise
    through its leftmost vertex iff its shoelace area is positive.  (Proof: the sweep of the
    polygon alone emits triangles of total area `± shoelace`, the sign being the one of the walk
    through the leftmost vertex, below which no edge passes.) -/
theorem ccw_shoelace {polys : List (Array (Rat × Rat))} (hv : ValidSet polys) {P : Array (Rat × Rat)}
    (hm : P ∈ polys) : (if ccwAtLeft P then 1 else -1) * shoelace P = |shoelace P| := by
  have hv1 := valid_single hv hm
  obtain ⟨T, -, -, harea, hcoh, -, -⟩ := general_output_geo [P] hv1
  obtain ⟨h3, hx, hA, hS⟩ := hv1
  have hN := noCross_of (ringOK [P] h3 hx) hA hS
  have h3P : 3 ≤ P.size := h3 P (by simp)
  have hL : leftIdx P < P.size := leftIdx_lt (by omega)
  have hsum := areaR_polys h3 hx hcoh (fun bp => leftIdx bp.2) (by
    intro bp hbp
    have : bp.2 ∈ [P] := block_mem hbp
    simp only [List.mem_singleton] at this
    rw [this]; exact hL)
  have hws := walkSign_left h3 hx hN (single_cells P) (by simp) (hcoh _ (by
    show ([] : List Cell).length + leftIdx P < (ringOf [P]).n
    rw [single_n]; simpa using hL))
  have hlo := single_isLo h3P hx hN
  simp only [List.length_nil, Nat.zero_add] at hws
  rw [if_pos hlo, mul_one] at hws
  have hblocks : blocks 0 [P] = [(0, P)] := rfl
  rw [hblocks] at hsum
  simp only [List.map_cons, List.map_nil, List.sum_cons, List.sum_nil, Nat.zero_add, add_zero] at hsum
  rw [hws] at hsum
  have hpos : 0 ≤ (if ccwAtLeft P then (1 : Rat) else -1) * shoelace P := by
    rw [← hsum, ← harea]; exact areaSum_nonneg T
  by_cases hc : ccwAtLeft P
  · rw [if_pos hc] at hpos ⊢
    rw [one_mul] at hpos ⊢
    exact (abs_of_nonneg hpos).symm
  · rw [if_neg hc] at hpos ⊢
    have : shoelace P ≤ 0 := by linarith
    rw [abs_of_nonpos this]; ring

/-- the geometric area of the ring is the alternating sum of the shoelace areas: polygons at even
    nesting depth count positively, polygons at odd depth negatively -/
theorem areaR_evenOdd (polys : List (Array (Rat × Rat))) (hv : ValidSet polys)
    (hcoh : ∀ v, v < (ringOf polys).n → Coh (ringOf polys) v) :
    areaR (ringOf polys) = evenOddSigned polys := by
  have hv' := hv
  obtain ⟨h3, hx, hA, hS⟩ := hv
  have hN := noCross_of (ringOK polys h3 hx) hA hS
  rw [areaR_polys h3 hx hcoh (fun bp => leftIdx bp.2) (by
    intro bp hbp
    exact leftIdx_lt (by have := h3 bp.2 (block_mem hbp); omega))]
  unfold evenOddSigned
  apply sum_map_congr
  rintro ⟨b, P⟩ hbp
  obtain ⟨hm, Cd, Cr, hb, hC⟩ := GenOutSub.blocks_decomp hbp
  subst hb
  have hlt : Cd.length + leftIdx P < (ringOf polys).n :=
    block_lt hbp (leftIdx_lt (by have := h3 P hm; omega))
  have hws := walkSign_left h3 hx hN hC hm (hcoh _ hlt)
  simp only []
  rw [hws]
  have hsh := ccw_shoelace hv' hm
  unfold holeLike
  by_cases hlo : isLo (ringOf polys) (Cd.length + leftIdx P) (lowerNbr (ringOf polys) (Cd.length + leftIdx P))
  · simp only [hlo, if_true, not_true_eq_false, if_false, mul_one, one_mul]; exact hsh
  · simp only [hlo, if_false, not_false_eq_true, if_true]
    rw [← hsh]; ring

/-- **count (geometric form) and AREA (polygon form) of the output for every valid polygon set in
    general position**: the absolute doubled areas of the triangles add up to the doubled area of
    the even-odd region, `Σ (-1)^depth |shoelace|` (outer polygons minus holes plus islands …) -/
theorem general_output_area (polys : List (Array (Rat × Rat))) (hv : ValidSet polys) :
    ∃ T, sweepMon (toInput polys) = .ok (T, true) ∧ T.length = triCountR (ringOf polys) ∧
      absAreaSum T = evenOddArea2 polys ∧ evenOddArea2 polys = evenOddSigned polys := by
  obtain ⟨T, h1, h2, h3, hcoh, -, hpos⟩ := general_output_geo polys hv
  have h4 := areaR_evenOdd polys hv hcoh
  have hnn : 0 ≤ evenOddSigned polys := by rw [← h4, ← h3]; exact areaSum_nonneg T
  have h5 : evenOddArea2 polys = evenOddSigned polys := abs_of_nonneg hnn
  exact ⟨T, h1, h2, by rw [h5, ← h4]; exact h3, h5⟩

/-! ### the number of triangles in terms of the polygons -/

/-- **the theorem of turning tangents, in the form needed here**: the signed half-turns at the
    Start and End vertices of a simple polygon add up to `2` times the half-turn at its vertex of
    greatest abscissa.  (Proof: the arcs of the boundary to the left of the sweep line do not
    cross, `Cav/Lemmas/GenOutArc*.lean`.) -/
theorem single_turn_sum {P : Array (Rat × Rat)} (hv1 : ValidSet [P]) :
    ∃ w, w < P.size ∧ (∀ u, u < P.size → (ringOf [P]).x u ≤ (ringOf [P]).x w) ∧
      ((List.range P.size).map fun i => turnE (ringOf [P]) i).sum = 2 * turnE (ringOf [P]) w := by
  obtain ⟨h3, hx, hA, hS⟩ := hv1
  have hR := ringOK [P] h3 hx
  have hN := noCross_of hR hA hS
  obtain ⟨seen, evs, -, hE⟩ := setup_all [P] h3 hx
  obtain ⟨xs, hxs⟩ := exists_lt_all ((List.range (ringOf [P]).n).map (ringOf [P]).x)
  have hxs' : ∀ v, v < (ringOf [P]).n → xs < (ringOf [P]).x v :=
    fun v hv => hxs _ (List.mem_map.mpr ⟨v, List.mem_range.mpr hv, rfl⟩)
  have hI : Inv (ringOf [P]) (QuadRun.stQ (vertsOf (cellsAll 0 [P])) evs) xs [] := inv_init hR hE hxs'
  obtain ⟨xs', A', D', hA', hall⟩ := aloop hN ((ringOf [P]).n + 1) _ xs [] [] [] hI
    (arcInv_init hxs') (Nat.lt_succ_of_le (meas_le xs))
  exact single_turns (h3 P (by simp)) hA' hall

/-- the half-turns of a polygon of a valid set add up to `+2` if it is walked counter-clockwise
    through its leftmost vertex, to `-2` otherwise -/
theorem turn_sum_ccw {polys : List (Array (Rat × Rat))} (hv : ValidSet polys) {P : Array (Rat × Rat)}
    (hm : P ∈ polys) :
    ((List.range P.size).map fun i => turnE (ringOf [P]) i).sum = 2 * (if ccwAtLeft P then 1 else -1) := by
  have hv1 := valid_single hv hm
  obtain ⟨w, hw, hmax, hsum⟩ := single_turn_sum hv1
  obtain ⟨T, -, -, -, hcoh, hfin, -⟩ := general_output_geo [P] hv1
  obtain ⟨h3, hx, hA, hS⟩ := hv1
  have hR := ringOK [P] h3 hx
  have hN := noCross_of hR hA hS
  have h3P : 3 ≤ P.size := h3 P (by simp)
  have hL : leftIdx P < P.size := leftIdx_lt (by omega)
  have hn : (ringOf [P]).n = P.size := single_n P
  have hwn : w < (ringOf [P]).n := by rw [hn]; exact hw
  have hw0 : vWeight (ringOf [P]) w = 0 :=
    hfin w hwn (fun u hu => hmax u (by rw [hn] at hu; exact hu))
  have hvt := vWeight_turn hR hN hwn (hcoh w hwn)
  have hblk : (0, P) ∈ blocks 0 [P] := by simp [blocks]
  have hwb := walkSign_block h3 hx hcoh hblk hw hL
  simp only [Nat.zero_add] at hwb
  have hws := walkSign_left h3 hx hN (single_cells P) (by simp) (hcoh _ (by
    show ([] : List Cell).length + leftIdx P < (ringOf [P]).n
    rw [hn]; simpa using hL))
  have hlo := single_isLo h3P hx hN
  simp only [List.length_nil, Nat.zero_add] at hws
  rw [if_pos hlo, mul_one] at hws
  rw [hw0, hwb, hws] at hvt
  rw [hsum]
  congr 1
  by_cases hc : ccwAtLeft P
  · rw [if_pos hc] at hvt ⊢
    have : ((turnE (ringOf [P]) w : Int) : Rat) = ((1 : Int) : Rat) := by push_cast; push_cast at hvt; linarith
    exact_mod_cast this
  · rw [if_neg hc] at hvt ⊢
    have : ((turnE (ringOf [P]) w : Int) : Rat) = ((-1 : Int) : Rat) := by push_cast; push_cast at hvt; linarith
    exact_mod_cast this

/-- the weights of the vertices of one polygon: `n - 2` at even nesting depth, `n + 2` at odd depth -/
theorem block_count {polys : List (Array (Rat × Rat))} (hv : ValidSet polys)
    (hcoh : ∀ v, v < (ringOf polys).n → Coh (ringOf polys) v) {b : Nat} {P : Array (Rat × Rat)}
    (hbp : (b, P) ∈ blocks 0 polys) :
    ((List.range P.size).map fun i => vWeight (ringOf polys) (b + i)).sum =
      if holeLike (ringOf polys) b P then P.size + 2 else P.size - 2 := by
  have hv' := hv
  obtain ⟨h3, hx, hA, hS⟩ := hv
  have hN := noCross_of (ringOK polys h3 hx) hA hS
  obtain ⟨hm, Cd, Cr, hb, hC⟩ := GenOutSub.blocks_decomp hbp
  subst hb
  have h3P : 3 ≤ P.size := h3 P hm
  have hL : leftIdx P < P.size := leftIdx_lt (by omega)
  have hlt : Cd.length + leftIdx P < (ringOf polys).n := block_lt hbp hL
  have hbw := block_weights h3 hx hN hcoh hbp hL
  rw [walkSign_left h3 hx hN hC hm (hcoh _ hlt), turn_sum_ccw hv' hm] at hbw
  unfold holeLike
  by_cases hc : ccwAtLeft P <;>
    by_cases hlo : isLo (ringOf polys) (Cd.length + leftIdx P) (lowerNbr (ringOf polys) (Cd.length + leftIdx P))
  all_goals
    simp only [hc, hlo, if_true, if_false, not_true_eq_false, not_false_eq_true] at hbw ⊢
    push_cast at hbw
  · have : ((((List.range P.size).map fun i => vWeight (ringOf polys) (Cd.length + i)).sum : Nat) : Rat) =
        ((P.size - 2 : Nat) : Rat) := by rw [Nat.cast_sub (by omega)]; push_cast; linarith
    exact_mod_cast this
  · have : ((((List.range P.size).map fun i => vWeight (ringOf polys) (Cd.length + i)).sum : Nat) : Rat) =
        ((P.size + 2 : Nat) : Rat) := by push_cast; linarith
    exact_mod_cast this
  · have : ((((List.range P.size).map fun i => vWeight (ringOf polys) (Cd.length + i)).sum : Nat) : Rat) =
        ((P.size - 2 : Nat) : Rat) := by rw [Nat.cast_sub (by omega)]; push_cast; linarith
    exact_mod_cast this
  · have : ((((List.range P.size).map fun i => vWeight (ringOf polys) (Cd.length + i)).sum : Nat) : Rat) =
        ((P.size + 2 : Nat) : Rat) := by push_cast; linarith
    exact_mod_cast this

/-- the geometric number of triangles of the ring is `Σ (n_i - 2) + 4 · #(polygons at odd depth)` -/
theorem triCountR_eq (polys : List (Array (Rat × Rat))) (hv : ValidSet polys)
    (hcoh : ∀ v, v < (ringOf polys).n → Coh (ringOf polys) v) :
    triCountR (ringOf polys) = triCount polys := by
  rw [triCountR_polys]
  unfold triCount
  apply sum_map_congr
  rintro ⟨b, P⟩ hbp
  exact block_count hv hcoh hbp

/-- **C03, count and area, for every valid polygon set in general position**: the sweep model
    accepts with `mono = true`; the number of triangles is `n_i - 2` for every polygon at even
    nesting depth plus `n_i + 2` for every polygon at odd depth (`Σ (n_i - 2) + 4 · #odd`); the
    absolute doubled areas of the triangles add up to the doubled area of the even-odd region
    `|Σ (-1)^depth_i |shoelace_i||` (outer polygons minus holes plus islands …).  The parity of the
    nesting depth of a polygon is `holeLike`: a vertical ray going down from its leftmost vertex
    crosses an odd number of edges (necessarily of other polygons). -/
theorem general_output (polys : List (Array (Rat × Rat))) (hv : ValidSet polys) :
    ∃ T, sweepMon (toInput polys) = .ok (T, true) ∧ T.length = triCount polys ∧
      absAreaSum T = evenOddArea2 polys := by
  obtain ⟨T, h1, h2, h3, hcoh, -, hpos⟩ := general_output_geo polys hv
  have h4 := areaR_evenOdd polys hv hcoh
  have hnn : 0 ≤ evenOddSigned polys := by rw [← h4, ← h3]; exact areaSum_nonneg T
  have h5 : evenOddArea2 polys = evenOddSigned polys := abs_of_nonneg hnn
  exact ⟨T, h1, by rw [h2]; exact triCountR_eq polys hv hcoh, by rw [h5, ← h4]; exact h3⟩

/-- the plain result of the model (without the ghost flag) -/
theorem sweep_of_sweepMon {polys : List (Array (Pt XQ))} {T : List (Pt XQ × Pt XQ × Pt XQ)} {m : Bool}
    (h : sweepMon polys = .ok (T, m)) : sweep polys = .ok T := by
  unfold sweepMon at h
  unfold sweep
  cases hr : (Sweep.run polys).run (Sweep.initSt : St XQ) with
  | error e => rw [hr] at h; cases h
  | ok r =>
    rw [hr] at h
    simp only [Except.ok.injEq, Prod.mk.injEq] at h
    simp only [h.1]

/-- **C03 for every valid polygon set in general position**, all proven parts together: accepted
    with `mono = true`; number of triangles; every triangle has non-zero area; every corner is an
    input vertex; the areas add up to the area of the even-odd region -/
theorem general_output_full (polys : List (Array (Rat × Rat))) (hv : ValidSet polys) :
    ∃ T, sweepMon (toInput polys) = .ok (T, true) ∧ T.length = triCount polys ∧
      (∀ tr ∈ T, orientPt tr.1 tr.2.1 tr.2.2 ≠ 0) ∧
      (∀ tr ∈ T, tr.1 ∈ (toInput polys).flatMap Array.toList ∧
        tr.2.1 ∈ (toInput polys).flatMap Array.toList ∧ tr.2.2 ∈ (toInput polys).flatMap Array.toList) ∧
      absAreaSum T = evenOddArea2 polys := by
  obtain ⟨T, h1, h2, h3, hcoh, -, hpos⟩ := general_output_geo polys hv
  have h4 := areaR_evenOdd polys hv hcoh
  have hnn : 0 ≤ evenOddSigned polys := by rw [← h4, ← h3]; exact areaSum_nonneg T
  have h5 : evenOddArea2 polys = evenOddSigned polys := abs_of_nonneg hnn
  refine ⟨T, h1, by rw [h2]; exact triCountR_eq polys hv hcoh, ?_, ?_, by rw [h5, ← h4]; exact h3⟩
  · intro tr htr h0
    have := hpos tr htr
    rw [h0, abs_zero] at this
    exact lt_irrefl _ this
  · exact Cav.C03.sweep_corners (sweep_of_sweepMon h1)

/-! ### non-vacuity: the example sets of `C04General.lean`, evaluated by the kernel, and the
    theorems applied to them -/

/-- number of triangles, total doubled area and ghost flag of the model's result -/
def outSummary (polys : List (Array (Rat × Rat))) : Nat × Rat × Bool :=
  match sweepMon (toInput polys) with
  | .ok (T, m) => (T.length, absAreaSum T, m)
  | .error _ => (0, 0, false)

-- two triangles side by side: (3 - 2) + (3 - 2) triangles, area 8 + 12
example : outSummary TwoTri = (2, 20, true) := by decide +kernel
example : triCount TwoTri = 2 ∧ evenOddArea2 TwoTri = 20 := by decide +kernel
-- a quadrilateral with a triangular hole: (4 - 2) + (3 + 2) triangles, area 144 - 7
example : outSummary Holed = (7, 137, true) := by decide +kernel
example : triCount Holed = 7 ∧ evenOddArea2 Holed = 137 := by decide +kernel
-- an island in a hole: (4 - 2) + (3 + 2) + (3 - 2) triangles
example : outSummary Island = (8, 685 / 4, true) := by decide +kernel
example : triCount Island = 8 ∧ evenOddArea2 Island = 685 / 4 := by decide +kernel
-- a Start vertex that splits an in-interval, and a second component
example : outSummary SplitP = (4, 122, true) := by decide +kernel
example : triCount SplitP = 4 ∧ evenOddArea2 SplitP = 122 := by decide +kernel
-- an End vertex that merges two in-intervals
example : outSummary MergeP = (3, 122, true) := by decide +kernel
example : triCount MergeP = 3 ∧ evenOddArea2 MergeP = 122 := by decide +kernel

-- the nesting parities, and the geometric quantities of the ring agree as well
example : ¬ holeLike (ringOf Island) 0 (Island.getD 0 #[]) ∧ holeLike (ringOf Island) 4 (Island.getD 1 #[]) ∧
    ¬ holeLike (ringOf Island) 7 (Island.getD 2 #[]) := by decide +kernel
example : triCountR (ringOf Island) = 8 ∧ areaR (ringOf Island) = 685 / 4 := by decide +kernel
example : triCountR (ringOf SplitP) = 4 ∧ areaR (ringOf MergeP) = 122 := by decide +kernel

-- the theorem instantiated
example : ∃ T, sweepMon (toInput TwoTri) = .ok (T, true) ∧ T.length = triCount TwoTri ∧
    absAreaSum T = evenOddArea2 TwoTri := general_output TwoTri (by decide +kernel)
example : ∃ T, sweepMon (toInput Holed) = .ok (T, true) ∧ T.length = triCount Holed ∧
    absAreaSum T = evenOddArea2 Holed := general_output Holed (by decide +kernel)
example : ∃ T, sweepMon (toInput Island) = .ok (T, true) ∧ T.length = triCount Island ∧
    absAreaSum T = evenOddArea2 Island := general_output Island (by decide +kernel)
example : ∃ T, sweepMon (toInput SplitP) = .ok (T, true) ∧ T.length = triCount SplitP ∧
    absAreaSum T = evenOddArea2 SplitP := general_output SplitP (by decide +kernel)
example : ∃ T, sweepMon (toInput MergeP) = .ok (T, true) ∧ T.length = triCount MergeP ∧
    absAreaSum T = evenOddArea2 MergeP := general_output MergeP (by decide +kernel)
example : ∃ T, sweepMon (toInput Island) = .ok (T, true) ∧ T.length = 8 ∧
    (∀ tr ∈ T, orientPt tr.1 tr.2.1 tr.2.2 ≠ 0) ∧ absAreaSum T = 685 / 4 := by
  obtain ⟨T, h1, h2, h3, -, h5⟩ := general_output_full Island (by decide +kernel)
  refine ⟨T, h1, ?_, h3, ?_⟩
  · rw [h2]; decide +kernel
  · rw [h5]; decide +kernel

-- the hypothesis is needed: crossing triangles are not `ValidSet` and are rejected
example : ¬ ValidSet CrossTri := by decide +kernel
example : outSummary CrossTri = (0, 0, false) := by decide +kernel

end Cav.C03General
