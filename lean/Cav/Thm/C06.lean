/-
  C06 — compiled expressions have conventional precedence and associativity.

  Part 1 (this file, tie to the source): the shape facts and context tables regenerated from
  `parsing.rs` are exactly those the hand-written parser model was written against.
  Part 2 (`parse_print`, imported from Cav/Thm/C06Print.lean when present): every string of the
  grammar `Spec/Grammar.lean` compiles to the tree it denotes.
-/
import Cav.Model.Parse
import Cav.Gen.Shape
import Cav.Gen.Context

namespace Cav.C06
open Cav

/-- the facts about `parsing.rs` / `helpers.rs` / `display.rs` the models rely on -/
def expectedShape : List (String × String) := [
  ("term.verify", "*negations == 0 || (allow_neg && *negations == 1)"),
  ("term.alts", "parse_parenth,parse_const,parse_func,parse_var"),
  ("term.exponent", "pow-then-powi"),
  ("term.neg-last", "yes"),
  ("pow.tag", "^"),
  ("pow.allow_neg", "true"),
  ("powi.tag", "**"),
  ("powi.int", "i32"),
  ("mul.first", "allow_neg"),
  ("mul.tags", "*/"),
  ("mul.next", "true"),
  ("mul.ops", "mul,div"),
  ("mul.leftfold", "yes"),
  ("add.first", "true"),
  ("add.tags", "+-"),
  ("add.next", "false"),
  ("add.ops", "add,sub"),
  ("add.leftfold", "yes"),
  ("parenth", "(,);expr"),
  ("func", "(,);expr;uop-only"),
  ("var", "const,var"),
  ("name", "alpha1"),
  ("const", "double;word-guard"),
  ("negcount", "fold_many0-minus"),
  ("compile.arity", "ge"),
  ("compile.ws", "strip"),
  ("compile.residue", "yes"),
  ("pair", "[,,,];2;safe-eval-empty"),
  ("list", "[,,,];first-then-loop"),
  ("intervals", "false;strip;residue"),
  ("polygons", "true,false;strip;residue"),
  ("consts.import", "std"),
  ("sign.order", "is_nan:NAN,is_sign_positive:POS,is_sign_negative:NEG"),
  ("sign.values", "1.0,0.0,-1.0"),
  ("linspace", "min2;formula"),
  ("n_linspace", "min2;formula"),
  ("vec_from_res", "res+1"),
  ("n_vec_from_res", "res+1"),
  ("C_GRAD_MAX", "10"),
  ("xconv.root", "y==0"),
  ("xconv.conv", "abs<tol/2"),
  ("xconv.iter", "iter>=max")]

/-- **Tie to the source (T5):** operator tags, `or_else` order, `allow_neg` arguments at the four
    call sites, "^ before **", "negation applied last", left folds, bracket flags and residue
    checks of `parsing.rs` are the ones modelled in `Model/Parse.lean` and `Model/Lists.lean`. -/
theorem shape_ok : Gen.shape = expectedShape := by decide

/-- **Tie to the source (T4):** both default contexts register the same 18 names with the same
    kinds, every function name `n` is bound to `AD::n` resp. `f64::n`, and `pi`, `e` to the
    standard constants (with zero tangent in the `AD` table). -/
theorem context_tables_ok :
    Gen.ctxAD.map (fun r => (r.1, r.2.1)) = Gen.ctxF64.map (fun r => (r.1, r.2.1)) ∧
    (∀ r ∈ Gen.ctxAD, r.2.1 = "UOp" → r.2.2 = "&AD::" ++ r.1) ∧
    (∀ r ∈ Gen.ctxF64, r.2.1 = "UOp" → r.2.2 = "&f64::" ++ r.1) ∧
    (Gen.ctxAD.filter (fun r => r.2.1 == "Const")) = [("pi", "Const", "AD(PI, 0f64)"), ("e", "Const", "AD(E, 0f64)")] ∧
    (Gen.ctxF64.filter (fun r => r.2.1 == "Const")) = [("pi", "Const", "PI"), ("e", "Const", "E")] := by
  decide

/-- the model's default context has exactly the registered names and kinds, and every
    registered function name is one the evaluators know (`UFn.ofName`) -/
theorem default_ctx_matches_tables :
    defaultCtx.map (fun p => (p.1, match p.2 with | .const => "Const" | .uop => "UOp" | .var _ => "Var")) =
      Gen.ctxF64.map (fun r => (r.1, r.2.1)) ∧
    (∀ r ∈ Gen.ctxF64, r.2.1 = "UOp" → (UFn.ofName r.1).map UFn.name = some r.1) := by
  decide

end Cav.C06
