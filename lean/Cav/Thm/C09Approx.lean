/-
  C09 (approximable class) — the accuracy clause of C09 beyond the exact polynomial class, exact
  arithmetic.

  `Thm/C09Accuracy.lean` proves the accuracy of the adaptive 2-D routine and of the triangle
  routine for integrands that ARE polynomials of degree ≤ 31 in the inner variable
  (`f x y = evalPoly (cs x) y`).  Here the integrand handed to the routine is an arbitrary
  `f : Rat → Rat → Rat` (think: the sample values as actually computed, rounding included, or a
  smooth non-polynomial function) that stays within `δ` of such a function on the integration
  region: `|f x y − evalPoly (cs x) y| ≤ δ` for every rational `x` between the outer bounds and
  every rational `y` between the inner bounds `innerAB x`.

  Why it works: every successful inner run — however it bisected — is within
  `innerBound + |u(x)−l(x)|/2 · W · δ` of the exact inner integral of the polynomial
  (`C01Approx.gk1d_approx_accuracy_rat`; `W = kronrodW ≤ 2 + 1e-16` is the sum of the absolute
  Kronrod weights); the outer step of `C09Accuracy` only uses "every inner value is within `ε` of
  `evalPoly Fs x`" (`gk2d_accuracy_of_inner`), so it goes through unchanged with the larger `ε`.

  Definitions: `evalPoly`, `evalPolyR`, `absPolyAt`, `exactInt` as in `Thm/C01.lean`;
  `Acc2.innerBound` as in `Thm/C09Accuracy.lean`; `C01Approx.kronrodW` in `Lemmas/AccApprox.lean`;
  `innerBoundApprox` in `Lemmas/Acc2Approx.lean`.

  Model path used: `gk2d`, `gk2dLoop`, `gkApprox2`, `nested`, `gkTriangle`, `triIntegrand`,
  `triFactor`, `gk1d`, `gk1dLoop`, `gkApprox`, `symRule`, `unitRule`, `denorm`; `Num` operations
  used: `+ - * /`, `ofNat`, `lt`, `le`, `beq`, `isNaN`, `abs` (instance `instNumRat`).
-/
import Cav.Thm.C09Accuracy
import Cav.Thm.C01Approx
import Cav.Lemmas.Acc2Approx

namespace Cav.C09Approx
open Cav Num Cav.C01 Cav.Quad2D Cav.Acc2 Cav.C09Accuracy

/-! ## L1 — one inner run -/

theorem innerBoundApprox_eq (cs : Rat → List Rat) (innerAB : Rat → Rat × Rat) (δ x : Rat) :
    innerBoundApprox cs innerAB δ x =
      innerBound cs innerAB x +
        |((innerAB x).2 - (innerAB x).1) / 2| * C01Approx.kronrodW * δ := rfl

/-- **one inner run, perturbed integrand.**  Fix an outer abscissa `x`, let `(l, u) = innerAB x`
    and let `f x ·` be within `δ` of the polynomial `cs x` (degree ≤ 31) at every rational `y`
    between `l` and `u` (either order).  Every successful inner run `gk1d (f x) l u tol' mi'`
    — any tolerance, any budget, any number of bisections, `l = u` included — returns a value `w`
    within `innerBound cs innerAB x + |u−l|/2 · W · δ` of the exact integral of the polynomial
    over `[l, u]`. -/
theorem inner_run_approx (f : Rat → Rat → Rat) (cs : Rat → List Rat)
    (innerAB : Rat → Rat × Rat) (δ x : Rat) (hdy : (cs x).length ≤ 32)
    (hf : ∀ y, min (innerAB x).1 (innerAB x).2 ≤ y → y ≤ max (innerAB x).1 (innerAB x).2 →
      |f x y - evalPoly (cs x) y| ≤ δ)
    (tol' : Rat) (mi' : Option Nat) (w e' : Rat)
    (h : (gk1d (f x) (innerAB x).1 (innerAB x).2 tol' mi').res = .ok (w, e')) :
    |w - exactInt (cs x) (innerAB x).1 (innerAB x).2| ≤
      innerBound cs innerAB x +
        |((innerAB x).2 - (innerAB x).1) / 2| * C01Approx.kronrodW * δ :=
  inner_run_approx_rat f cs innerAB δ x hdy hf tol' mi' w e' h

/-! ## L2 — the 2-D routine, rational statement -/

/-- **the outer step alone.**  No assumption on the integrand: if every successful inner run at
    a rational abscissa `x` between `a` and `b` (any tolerance, any budget) is within `ε` of
    `evalPoly Fs x`, `Fs` of degree ≤ 31, then a successful 2-D result is within
    `|b−a|/2 · 1e-16 · Σ_k |Fs[k]|·max(|a|,|b|)^k + |b−a|/2 · ε · (2 + 1e-16)` of the exact
    integral of `Fs` — any number of outer bisections. -/
theorem gk2d_accuracy_of_inner_runs (f : Rat → Rat → Rat) (Fs : List Rat) (a b : Rat)
    (innerAB : Rat → Rat × Rat) (tol : Rat) (mi : Option Nat) (ε : Rat)
    (hdx : Fs.length ≤ 32) (hab : a ≠ b) (hε0 : 0 ≤ ε)
    (hin : ∀ x, min a b ≤ x → x ≤ max a b → ∀ (tol' : Rat) (mi' : Option Nat) (w e' : Rat),
      (gk1d (f x) (innerAB x).1 (innerAB x).2 tol' mi').res = .ok (w, e') →
        |w - evalPoly Fs x| ≤ ε)
    (v e : Rat) (h : (gk2d f a b innerAB tol mi).res = .ok (v, e)) :
    |v - exactInt Fs a b| ≤
      |(b - a) / 2| * (1 / 10 ^ 16) * absPolyAt Fs (max |a| |b|) +
        |(b - a) / 2| * (ε * (2 + 1 / 10 ^ 16)) :=
  gk2d_accuracy_of_inner f Fs a b innerAB tol mi ε hdx hab hε0 hin v e h

/-- **accuracy of the 2-D routine on the approximable class (rational form).**  Let `f` be ANY
    integrand with `|f x y − Σ_k (cs x)[k]·y^k| ≤ δ` for every rational `x` between `a` and `b` and
    every rational `y` between the inner bounds `(l, u) = innerAB x`; `cs x` of degree ≤ 31; `Fs`
    (degree ≤ 31) the exact inner integral of the polynomial, `evalPoly Fs x = ∫_l^u cs x`; `ε` a
    bound of `innerBound cs innerAB x + |u−l|/2·W·δ` for those `x`.  Whenever the 2-D adaptive
    routine reports success `(v, e)` on `f` — after any number of outer bisections, each inner
    run after any number of inner bisections — then
    `|v − ∫_a^b Fs| ≤ |b−a|/2 · 1e-16 · Σ_k |Fs[k]|·max(|a|,|b|)^k + |b−a|/2 · ε · (2 + 1e-16)`
    and `0 ≤ e < tol`.  (All hypotheses are only required on the integration region.) -/
theorem gk2d_approx_accuracy_rat (f : Rat → Rat → Rat) (cs : Rat → List Rat)
    (Fs : List Rat) (a b : Rat) (innerAB : Rat → Rat × Rat) (tol : Rat) (mi : Option Nat)
    (δ ε : Rat)
    (hf : ∀ x, min a b ≤ x → x ≤ max a b →
      ∀ y, min (innerAB x).1 (innerAB x).2 ≤ y → y ≤ max (innerAB x).1 (innerAB x).2 →
        |f x y - evalPoly (cs x) y| ≤ δ)
    (hdy : ∀ x, min a b ≤ x → x ≤ max a b → (cs x).length ≤ 32)
    (hF : ∀ x, min a b ≤ x → x ≤ max a b →
      evalPoly Fs x = exactInt (cs x) (innerAB x).1 (innerAB x).2)
    (hdx : Fs.length ≤ 32) (hab : a ≠ b)
    (hε : ∀ x, min a b ≤ x → x ≤ max a b →
      innerBound cs innerAB x +
        |((innerAB x).2 - (innerAB x).1) / 2| * C01Approx.kronrodW * δ ≤ ε)
    (v e : Rat) (h : (gk2d f a b innerAB tol mi).res = .ok (v, e)) :
    |v - exactInt Fs a b| ≤
        |(b - a) / 2| * (1 / 10 ^ 16) * absPolyAt Fs (max |a| |b|) +
          |(b - a) / 2| * (ε * (2 + 1 / 10 ^ 16)) ∧
      e < tol ∧ 0 ≤ e :=
  ⟨gk2d_approx_accuracy_rat_core f cs Fs a b innerAB tol mi δ ε hf hdy hF hdx hab hε v e h,
    C10.gk2d_ok_estimate f a b innerAB tol mi v e (Or.inl hab) h⟩

/-- the same with the perturbation made explicit: `ε₀` bounds the polynomial inner bound
    `innerBound`, `M` bounds the inner half-lengths `|u(x)−l(x)|/2`, and the table bound
    `W ≤ 2 + 1e-16` is substituted.  The perturbation `δ` of the integrand enters the result as
    `|b−a|/2 · M · (2 + 1e-16)² · δ` (for `M = |u−l|/2`: the area of the region times `δ`, up to
    the table defect). -/
theorem gk2d_approx_accuracy_rat' (f : Rat → Rat → Rat) (cs : Rat → List Rat)
    (Fs : List Rat) (a b : Rat) (innerAB : Rat → Rat × Rat) (tol : Rat) (mi : Option Nat)
    (δ ε₀ M : Rat)
    (hf : ∀ x, min a b ≤ x → x ≤ max a b →
      ∀ y, min (innerAB x).1 (innerAB x).2 ≤ y → y ≤ max (innerAB x).1 (innerAB x).2 →
        |f x y - evalPoly (cs x) y| ≤ δ)
    (hdy : ∀ x, min a b ≤ x → x ≤ max a b → (cs x).length ≤ 32)
    (hF : ∀ x, min a b ≤ x → x ≤ max a b →
      evalPoly Fs x = exactInt (cs x) (innerAB x).1 (innerAB x).2)
    (hdx : Fs.length ≤ 32) (hab : a ≠ b)
    (hε₀ : ∀ x, min a b ≤ x → x ≤ max a b → innerBound cs innerAB x ≤ ε₀)
    (hM : ∀ x, min a b ≤ x → x ≤ max a b → |((innerAB x).2 - (innerAB x).1) / 2| ≤ M)
    (v e : Rat) (h : (gk2d f a b innerAB tol mi).res = .ok (v, e)) :
    |v - exactInt Fs a b| ≤
        |(b - a) / 2| * (1 / 10 ^ 16) * absPolyAt Fs (max |a| |b|) +
          |(b - a) / 2| * ((ε₀ + M * (2 + 1 / 10 ^ 16) * δ) * (2 + 1 / 10 ^ 16)) ∧
      e < tol ∧ 0 ≤ e := by
  have ha1 : min a b ≤ a := min_le_left _ _
  have ha2 : a ≤ max a b := le_max_left _ _
  have hδ : 0 ≤ δ := le_trans (abs_nonneg _)
    (hf a ha1 ha2 (innerAB a).1 (min_le_left _ _) (le_max_left _ _))
  have hM0 : 0 ≤ M := le_trans (abs_nonneg _) (hM a ha1 ha2)
  refine gk2d_approx_accuracy_rat f cs Fs a b innerAB tol mi δ _ hf hdy hF hdx hab ?_ v e h
  intro x hx1 hx2
  have h1 := hε₀ x hx1 hx2
  have h2 := hM x hx1 hx2
  have h3 : |((innerAB x).2 - (innerAB x).1) / 2| * C01Approx.kronrodW ≤
      M * (2 + 1 / 10 ^ 16) :=
    mul_le_mul h2 C01Approx.kronrodW_le C01Approx.kronrodW_pos.le hM0
  have h4 := mul_le_mul_of_nonneg_right h3 hδ
  linarith

/-! ## L3 — against the true integral (Mathlib interval integral) -/

/-- **MAIN THEOREM (accuracy of the 2-D routine, approximable class).**  Hypotheses as in
    `gk2d_approx_accuracy_rat`.  Whenever the 2-D adaptive routine reports success `(v, e)` on
    `f` — any number of outer and inner bisections — then
    * `Fs` IS the inner integral of the approximating polynomial at every rational abscissa
      between `a` and `b` (Mathlib interval integral);
    * `|v − ∫_a^b Fs| ≤ |b−a|/2 · 1e-16 · Σ_k |Fs[k]|·max(|a|,|b|)^k + |b−a|/2 · ε · (2 + 1e-16)`
      with `ε ≥ innerBound + |u−l|/2·W·δ` (outer table defect + outer weight mass × (inner table
      defect + inner weight mass × perturbation));
    * the reported estimate satisfies `0 ≤ e < tol`. -/
theorem gk2d_approx_accuracy (f : Rat → Rat → Rat) (cs : Rat → List Rat)
    (Fs : List Rat) (a b : Rat) (innerAB : Rat → Rat × Rat) (tol : Rat) (mi : Option Nat)
    (δ ε : Rat)
    (hf : ∀ x, min a b ≤ x → x ≤ max a b →
      ∀ y, min (innerAB x).1 (innerAB x).2 ≤ y → y ≤ max (innerAB x).1 (innerAB x).2 →
        |f x y - evalPoly (cs x) y| ≤ δ)
    (hdy : ∀ x, min a b ≤ x → x ≤ max a b → (cs x).length ≤ 32)
    (hF : ∀ x, min a b ≤ x → x ≤ max a b →
      evalPoly Fs x = exactInt (cs x) (innerAB x).1 (innerAB x).2)
    (hdx : Fs.length ≤ 32) (hab : a ≠ b)
    (hε : ∀ x, min a b ≤ x → x ≤ max a b →
      innerBound cs innerAB x +
        |((innerAB x).2 - (innerAB x).1) / 2| * C01Approx.kronrodW * δ ≤ ε)
    (v e : Rat) (h : (gk2d f a b innerAB tol mi).res = .ok (v, e)) :
    (∀ x : Rat, min a b ≤ x → x ≤ max a b →
      ∫ y in ((innerAB x).1 : ℝ)..((innerAB x).2 : ℝ), evalPolyR (cs x) y =
        evalPolyR Fs (x : ℝ)) ∧
    |(v : ℝ) - ∫ x in (a : ℝ)..(b : ℝ), evalPolyR Fs x| ≤
      (((|(b - a) / 2| * (1 / 10 ^ 16) * absPolyAt Fs (max |a| |b|) +
        |(b - a) / 2| * (ε * (2 + 1 / 10 ^ 16)) : Rat)) : ℝ) ∧
    e < tol ∧ 0 ≤ e := by
  obtain ⟨h1, h2⟩ :=
    gk2d_approx_accuracy_rat f cs Fs a b innerAB tol mi δ ε hf hdy hF hdx hab hε v e h
  refine ⟨fun x hx1 hx2 => ?_, ?_, h2⟩
  · rw [integral_eq_exactInt, ← hF x hx1 hx2, evalPolyR_cast]
  · rw [integral_eq_exactInt, ← Rat.cast_sub, ← Rat.cast_abs, Rat.cast_le]
    exact h1

/-- **against a true outer function.**  If moreover a real function `G` (think: the true inner
    integral `x ↦ ∫_{l(x)}^{u(x)} Φ(x,y) dy` of a real integrand `Φ`) is interval integrable and
    within `ε₃` of the polynomial `Fs` everywhere on `[a,b]`, then a successful result is within
    the bound of `gk2d_approx_accuracy` plus `|b−a|·ε₃` of `∫_a^b G`. -/
theorem gk2d_approx_accuracy_outer (f : Rat → Rat → Rat) (cs : Rat → List Rat)
    (Fs : List Rat) (G : ℝ → ℝ) (a b : Rat) (innerAB : Rat → Rat × Rat) (tol : Rat)
    (mi : Option Nat) (δ ε : Rat) (ε₃ : ℝ)
    (hf : ∀ x, min a b ≤ x → x ≤ max a b →
      ∀ y, min (innerAB x).1 (innerAB x).2 ≤ y → y ≤ max (innerAB x).1 (innerAB x).2 →
        |f x y - evalPoly (cs x) y| ≤ δ)
    (hdy : ∀ x, min a b ≤ x → x ≤ max a b → (cs x).length ≤ 32)
    (hF : ∀ x, min a b ≤ x → x ≤ max a b →
      evalPoly Fs x = exactInt (cs x) (innerAB x).1 (innerAB x).2)
    (hdx : Fs.length ≤ 32) (hab : a ≠ b)
    (hε : ∀ x, min a b ≤ x → x ≤ max a b →
      innerBound cs innerAB x +
        |((innerAB x).2 - (innerAB x).1) / 2| * C01Approx.kronrodW * δ ≤ ε)
    (hGi : IntervalIntegrable G MeasureTheory.volume (a : ℝ) (b : ℝ))
    (hG : ∀ x ∈ Set.uIcc (a : ℝ) (b : ℝ), |G x - evalPolyR Fs x| ≤ ε₃)
    (v e : Rat) (h : (gk2d f a b innerAB tol mi).res = .ok (v, e)) :
    |(v : ℝ) - ∫ x in (a : ℝ)..(b : ℝ), G x| ≤
      (((|(b - a) / 2| * (1 / 10 ^ 16) * absPolyAt Fs (max |a| |b|) +
        |(b - a) / 2| * (ε * (2 + 1 / 10 ^ 16)) : Rat)) : ℝ) + |(b : ℝ) - a| * ε₃ ∧
    e < tol ∧ 0 ≤ e := by
  obtain ⟨_, h1, h2⟩ :=
    gk2d_approx_accuracy f cs Fs a b innerAB tol mi δ ε hf hdy hF hdx hab hε v e h
  refine ⟨?_, h2⟩
  have hint := C01Approx.integral_sub_poly_le Fs G (a : ℝ) (b : ℝ) ε₃ hGi hG
  calc |(v : ℝ) - ∫ x in (a : ℝ)..(b : ℝ), G x|
      = |((v : ℝ) - ∫ x in (a : ℝ)..(b : ℝ), evalPolyR Fs x) +
          ((∫ x in (a : ℝ)..(b : ℝ), evalPolyR Fs x) - ∫ x in (a : ℝ)..(b : ℝ), G x)| := by
        congr 1; ring
    _ ≤ |(v : ℝ) - ∫ x in (a : ℝ)..(b : ℝ), evalPolyR Fs x| +
          |(∫ x in (a : ℝ)..(b : ℝ), evalPolyR Fs x) - ∫ x in (a : ℝ)..(b : ℝ), G x| :=
        abs_add_le _ _
    _ ≤ _ := add_le_add h1 hint

/-- the inner half of the previous hypothesis at a rational abscissa: if a real integrand
    `Φ x ·` is within `ε₂` of the polynomial `cs x` on `[l, u] = innerAB x`, its inner integral is
    within `|u−l|·ε₂` of `evalPolyR Fs x` -/
theorem inner_integral_close (cs : Rat → List Rat) (Fs : List Rat) (innerAB : Rat → Rat × Rat)
    (x : Rat) (φ : ℝ → ℝ) (ε₂ : ℝ)
    (hF : evalPoly Fs x = exactInt (cs x) (innerAB x).1 (innerAB x).2)
    (hφi : IntervalIntegrable φ MeasureTheory.volume ((innerAB x).1 : ℝ) ((innerAB x).2 : ℝ))
    (hφ : ∀ y ∈ Set.uIcc ((innerAB x).1 : ℝ) ((innerAB x).2 : ℝ),
      |φ y - evalPolyR (cs x) y| ≤ ε₂) :
    |(∫ y in ((innerAB x).1 : ℝ)..((innerAB x).2 : ℝ), φ y) - evalPolyR Fs (x : ℝ)| ≤
      |((innerAB x).2 : ℝ) - (innerAB x).1| * ε₂ := by
  have h := C01Approx.integral_sub_poly_le (cs x) φ _ _ ε₂ hφi hφ
  rw [integral_eq_exactInt, ← hF, ← evalPolyR_cast, abs_sub_comm] at h
  exact h

/-! ## L4 — the triangle routine -/

/-- **triangle, transformed integrand close to a polynomial.**  If the integrand handed to the
    2-D routine, `(s, r) ↦ triIntegrand f t s r`, is within `δ` of `Σ_k (cs s)[k]·r^k` (degree ≤ 31
    in `r`) for all rational `0 ≤ s ≤ 1`, `0 ≤ r ≤ 1−s`, the exact inner integral of that
    polynomial over `[0, 1−s]` is the polynomial `Fs` of degree ≤ 31, and `ε` bounds
    `innerBound + (1−s)/2·W·δ` for `0 ≤ s ≤ 1`, then every successful result `(v, e)` of
    `gkTriangle` — any number of outer and inner bisections — is within `triBoundOf Fs ε` of
    `∫_0^1 Fs`, and `0 ≤ e < tol`. -/
theorem gkTriangle_approx_accuracy_of_transformed (f : Rat → Rat → Rat)
    (t : (Rat × Rat) × (Rat × Rat) × (Rat × Rat)) (cs : Rat → List Rat) (Fs : List Rat)
    (tol : Rat) (mi : Option Nat) (δ ε : Rat)
    (hf : ∀ s r, 0 ≤ s → s ≤ 1 → 0 ≤ r → r ≤ 1 - s →
      |triIntegrand f t s r - evalPoly (cs s) r| ≤ δ)
    (hdy : ∀ s, 0 ≤ s → s ≤ 1 → (cs s).length ≤ 32)
    (hF : ∀ s, 0 ≤ s → s ≤ 1 → evalPoly Fs s = exactInt (cs s) 0 (1 - s)) (hdx : Fs.length ≤ 32)
    (hε : ∀ s, 0 ≤ s → s ≤ 1 →
      innerBound cs (fun u => (0, 1 - u)) s + (1 - s) / 2 * C01Approx.kronrodW * δ ≤ ε)
    (v e : Rat) (h : (gkTriangle f t tol mi).res = .ok (v, e)) :
    (∀ s : Rat, 0 ≤ s → s ≤ 1 →
      ∫ r in ((0 : Rat) : ℝ)..((1 - s : Rat) : ℝ), evalPolyR (cs s) r = evalPolyR Fs (s : ℝ)) ∧
    |(v : ℝ) - ∫ s in ((0 : Rat) : ℝ)..((1 : Rat) : ℝ), evalPolyR Fs s| ≤
      ((triBoundOf Fs ε : Rat) : ℝ) ∧
    e < tol ∧ 0 ≤ e := by
  rw [gkTriangle_eq_gk2d] at h
  have hmin : min (0 : Rat) 1 = 0 := by norm_num
  have hmax : max (0 : Rat) 1 = 1 := by norm_num
  obtain ⟨h1, h2, h3⟩ := gk2d_approx_accuracy (triIntegrand f t) cs Fs 0 1 (fun u => (0, 1 - u))
    tol mi δ ε
    (fun s hs0 hs1 r hr0 hr1 => by
      rw [hmin] at hs0; rw [hmax] at hs1
      have hs : (0 : Rat) ≤ 1 - s := by linarith
      simp only [min_eq_left hs] at hr0
      simp only [max_eq_right hs] at hr1
      exact hf s r hs0 hs1 hr0 hr1)
    (fun s hs0 hs1 => hdy s (by rwa [hmin] at hs0) (by rwa [hmax] at hs1))
    (fun s hs0 hs1 => hF s (by rwa [hmin] at hs0) (by rwa [hmax] at hs1)) hdx (by norm_num)
    (fun s hs0 hs1 => by
      rw [hmin] at hs0; rw [hmax] at hs1
      have hs : (0 : Rat) ≤ (1 - s) / 2 := by linarith
      have := hε s hs0 hs1
      simp only [sub_zero, abs_of_nonneg hs]
      exact this) v e h
  refine ⟨fun s hs0 hs1 => h1 s (by rwa [hmin]) (by rwa [hmax]), le_trans h2 (le_of_eq ?_), h3⟩
  congr 1
  unfold triBoundOf
  have e1 : |((1 : Rat) - 0) / 2| = 1 / 2 := by norm_num [abs_of_pos]
  have e2 : max |(0 : Rat)| |(1 : Rat)| = 1 := by norm_num
  rw [e1, e2]

/-- **triangle, `f` close to a polynomial of total degree ≤ 30 on the triangle.**  Let
    `g(x,y) = Σ c·x^i·y^j` over a finite list of terms with `i + j ≤ 30`, `t = (p0, p1, p2)` any
    triangle, and let `f` be ANY integrand with `|f(P) − g(P)| ≤ δ'` at every point
    `P = (1−s−r)·p0 + s·p1 + r·p2` of the triangle with rational barycentric coordinates
    (`0 ≤ s ≤ 1`, `0 ≤ r ≤ 1−s`).  With `G = triPoly terms t` (the transformed polynomial, as in
    `gkTriangle_poly_accuracy`): whenever `gkTriangle` reports success `(v, e)` on `f` — any number
    of outer and inner bisections — `v` is within
    `triBoundOf (triInner G) (triEps G + ½·(2 + 1e-16)·triFactor t·δ')` of the exact iterated
    integral `∫_0^1 triInner G` of the transformed polynomial, and `0 ≤ e < tol`.
    (`triFactor t` = twice the area: the perturbation enters as ≈ area × `δ'`.) -/
theorem gkTriangle_approx_accuracy (terms : List (Nat × Nat × Rat))
    (hdeg : ∀ tm ∈ terms, tm.1 + tm.2.1 ≤ 30) (f : Rat → Rat → Rat)
    (t : (Rat × Rat) × (Rat × Rat) × (Rat × Rat)) (δ' : Rat)
    (hf : ∀ s r : Rat, 0 ≤ s → s ≤ 1 → 0 ≤ r → r ≤ 1 - s →
      |f ((1 - s - r) * t.1.1 + s * t.2.1.1 + r * t.2.2.1)
          ((1 - s - r) * t.1.2 + s * t.2.1.2 + r * t.2.2.2) -
        evalTerms terms ((1 - s - r) * t.1.1 + s * t.2.1.1 + r * t.2.2.1)
          ((1 - s - r) * t.1.2 + s * t.2.1.2 + r * t.2.2.2)| ≤ δ')
    (tol : Rat) (mi : Option Nat) (v e : Rat) (h : (gkTriangle f t tol mi).res = .ok (v, e)) :
    |(v : ℝ) - ∫ s in ((0 : Rat) : ℝ)..((1 : Rat) : ℝ), evalPolyR (triInner (triPoly terms t)) s| ≤
      ((triBoundOf (triInner (triPoly terms t))
        (triEps (triPoly terms t) + 1 / 2 * (2 + 1 / 10 ^ 16) * (triFactor t * δ')) : Rat) : ℝ) ∧
    e < tol ∧ 0 ≤ e := by
  have hδ' : 0 ≤ δ' := le_trans (abs_nonneg _) (hf 0 0 le_rfl zero_le_one le_rfl (by norm_num))
  have hfac : 0 ≤ triFactor t := by
    obtain ⟨p0, p1, p2⟩ := t
    show 0 ≤ Num.abs _
    rw [numAbs_eq]; exact abs_nonneg _
  have hδ : 0 ≤ triFactor t * δ' := mul_nonneg hfac hδ'
  have hclose : ∀ s r : Rat, 0 ≤ s → s ≤ 1 → 0 ≤ r → r ≤ 1 - s →
      |triIntegrand f t s r - evalPoly (coeffsAt (triPoly terms t) s) r| ≤ triFactor t * δ' := by
    intro s r hs0 hs1 hr0 hr1
    have h1 := hf s r hs0 hs1 hr0 hr1
    have h2 : evalPoly (coeffsAt (triPoly terms t) s) r =
        triIntegrand (evalTerms terms) t s r := evalPoly2_triPoly terms t s r
    rw [h2]
    obtain ⟨p0, p1, p2⟩ := t
    have h11 : (Num.one : Rat) = 1 := by simp [Num.one, Num.ofNat]
    show |triFactor (p0, p1, p2) * f _ _ - triFactor (p0, p1, p2) * evalTerms terms _ _| ≤ _
    rw [h11, ← mul_sub, abs_mul, abs_of_nonneg hfac]
    exact mul_le_mul_of_nonneg_left h1 hfac
  have hTot := TotDeg_triPoly 30 terms hdeg t
  obtain ⟨_, h2, h3⟩ := gkTriangle_approx_accuracy_of_transformed f t (coeffsAt (triPoly terms t))
    (triInner (triPoly terms t)) tol mi (triFactor t * δ')
    (triEps (triPoly terms t) + 1 / 2 * (2 + 1 / 10 ^ 16) * (triFactor t * δ')) hclose
    (fun s _ _ => by rw [coeffsAt_length]; exact le_trans (TotDeg_length 31 _ hTot) (by decide))
    (fun s _ _ => evalPoly_triInner _ s) (triInner_length 31 _ hTot)
    (fun s hs0 hs1 => by
      have h1 := innerBound_tri_le (triPoly terms t) s hs0 hs1
      have h4 : (1 - s) / 2 * C01Approx.kronrodW ≤ 1 / 2 * (2 + 1 / 10 ^ 16) :=
        mul_le_mul (by linarith) C01Approx.kronrodW_le C01Approx.kronrodW_pos.le (by norm_num)
      have h5 := mul_le_mul_of_nonneg_right h4 hδ
      linarith) v e h
  exact ⟨h2, h3⟩

/-! ## L3' — a real integrand behind the sampled one -/

/-- **against a real integrand.**  Let `Φ : ℝ → ℝ → ℝ` be a real integrand which, at every
    rational outer abscissa `x` between `a` and `b`, is within `ε₂` of the polynomial `cs x`
    (degree ≤ 31) for all real `y` between the inner bounds; let `f : Rat → Rat → Rat` be the
    integrand actually handed to the routine, within `η` of `Φ` at the rational points of the
    region (`η` = rounding of the integrand values); `Fs`, `ε₀` (bound of `innerBound`) and `M`
    (bound of the inner half-lengths) as in `gk2d_approx_accuracy_rat'`; and let `G : ℝ → ℝ`
    (think: the true inner integral `x ↦ ∫ Φ(x,y) dy`, cf. `inner_integral_close`) be interval
    integrable and within `ε₃` of `Fs` on `[a,b]`.  Whenever the 2-D routine reports success
    `(v, e)` on `f` — any number of outer and inner bisections —
    `|v − ∫_a^b G| ≤ |b−a|/2·1e-16·Σ_k|Fs[k]|·max(|a|,|b|)^k
        + |b−a|/2·(ε₀ + M·(2+1e-16)·(ε₂+η))·(2+1e-16) + |b−a|·ε₃`, and `0 ≤ e < tol`. -/
theorem gk2d_approx_accuracy_real (Φ : ℝ → ℝ → ℝ) (G : ℝ → ℝ) (f : Rat → Rat → Rat)
    (cs : Rat → List Rat) (Fs : List Rat) (a b : Rat) (innerAB : Rat → Rat × Rat) (tol : Rat)
    (mi : Option Nat) (ε₀ M : Rat) (ε₂ η ε₃ : ℝ)
    (hΦ : ∀ x : Rat, min a b ≤ x → x ≤ max a b →
      ∀ y ∈ Set.uIcc ((innerAB x).1 : ℝ) ((innerAB x).2 : ℝ),
        |Φ (x : ℝ) y - evalPolyR (cs x) y| ≤ ε₂)
    (hf : ∀ x : Rat, min a b ≤ x → x ≤ max a b →
      ∀ y : Rat, min (innerAB x).1 (innerAB x).2 ≤ y → y ≤ max (innerAB x).1 (innerAB x).2 →
        |((f x y : Rat) : ℝ) - Φ (x : ℝ) (y : ℝ)| ≤ η)
    (hdy : ∀ x, min a b ≤ x → x ≤ max a b → (cs x).length ≤ 32)
    (hF : ∀ x, min a b ≤ x → x ≤ max a b →
      evalPoly Fs x = exactInt (cs x) (innerAB x).1 (innerAB x).2)
    (hdx : Fs.length ≤ 32) (hab : a ≠ b)
    (hε₀ : ∀ x, min a b ≤ x → x ≤ max a b → innerBound cs innerAB x ≤ ε₀)
    (hM : ∀ x, min a b ≤ x → x ≤ max a b → |((innerAB x).2 - (innerAB x).1) / 2| ≤ M)
    (hGi : IntervalIntegrable G MeasureTheory.volume (a : ℝ) (b : ℝ))
    (hG : ∀ x ∈ Set.uIcc (a : ℝ) (b : ℝ), |G x - evalPolyR Fs x| ≤ ε₃)
    (v e : Rat) (h : (gk2d f a b innerAB tol mi).res = .ok (v, e)) :
    |(v : ℝ) - ∫ x in (a : ℝ)..(b : ℝ), G x| ≤
        |((b : ℝ) - a) / 2| * (1 / 10 ^ 16 * ((absPolyAt Fs (max |a| |b|) : Rat) : ℝ)) +
          |((b : ℝ) - a) / 2| *
            (((ε₀ : ℝ) + (M : ℝ) * (2 + 1 / 10 ^ 16) * (ε₂ + η)) * (2 + 1 / 10 ^ 16)) +
          |(b : ℝ) - a| * ε₃ ∧
      e < tol ∧ 0 ≤ e := by
  refine ⟨?_, C10.gk2d_ok_estimate f a b innerAB tol mi v e (Or.inl hab) h⟩
  have hM0 : (0 : ℝ) ≤ (M : ℝ) := by
    have : (0 : Rat) ≤ M := le_trans (abs_nonneg _) (hM a (min_le_left _ _) (le_max_left _ _))
    exact_mod_cast this
  have hcore : |(v : ℝ) - ((exactInt Fs a b : Rat) : ℝ)| ≤
      (|((b : ℝ) - a) / 2| * (1 / 10 ^ 16 * ((absPolyAt Fs (max |a| |b|) : Rat) : ℝ)) +
        |((b : ℝ) - a) / 2| * ((ε₀ : ℝ) * (2 + 1 / 10 ^ 16))) +
      (|((b : ℝ) - a) / 2| * ((M : ℝ) * (2 + 1 / 10 ^ 16) * (2 + 1 / 10 ^ 16))) * (ε₂ + η) := by
    refine C01Approx.le_of_forall_rat_ge (by positivity) (fun q hq => ?_)
    have hfq : ∀ x, min a b ≤ x → x ≤ max a b →
        ∀ y, min (innerAB x).1 (innerAB x).2 ≤ y → y ≤ max (innerAB x).1 (innerAB x).2 →
          |f x y - evalPoly (cs x) y| ≤ q := by
      intro x hx1 hx2 y hy1 hy2
      have hy := C01Approx.cast_mem_uIcc hy1 hy2
      have h1 := hf x hx1 hx2 y hy1 hy2
      have h2 := hΦ x hx1 hx2 _ hy
      rw [evalPolyR_cast] at h2
      have h3 : |((f x y : Rat) : ℝ) - ((evalPoly (cs x) y : Rat) : ℝ)| ≤ (q : ℝ) := by
        calc |((f x y : Rat) : ℝ) - ((evalPoly (cs x) y : Rat) : ℝ)|
            = |(((f x y : Rat) : ℝ) - Φ (x : ℝ) (y : ℝ)) +
                (Φ (x : ℝ) (y : ℝ) - ((evalPoly (cs x) y : Rat) : ℝ))| := by congr 1; ring
          _ ≤ |((f x y : Rat) : ℝ) - Φ (x : ℝ) (y : ℝ)| +
                |Φ (x : ℝ) (y : ℝ) - ((evalPoly (cs x) y : Rat) : ℝ)| := abs_add_le _ _
          _ ≤ (q : ℝ) := by linarith
      rw [← Rat.cast_sub, ← Rat.cast_abs, Rat.cast_le] at h3
      exact h3
    have h4 := (Rat.cast_le (K := ℝ)).mpr
      (gk2d_approx_accuracy_rat' f cs Fs a b innerAB tol mi q ε₀ M hfq hdy hF hdx hab hε₀ hM
        v e h).1
    push_cast at h4
    linarith
  have hint := C01Approx.integral_sub_poly_le Fs G (a : ℝ) (b : ℝ) ε₃ hGi hG
  rw [integral_eq_exactInt] at hint
  have htri : |(v : ℝ) - ∫ x in (a : ℝ)..(b : ℝ), G x| ≤
      |(v : ℝ) - ((exactInt Fs a b : Rat) : ℝ)| +
        |((exactInt Fs a b : Rat) : ℝ) - ∫ x in (a : ℝ)..(b : ℝ), G x| := by
    calc |(v : ℝ) - ∫ x in (a : ℝ)..(b : ℝ), G x|
        = |((v : ℝ) - ((exactInt Fs a b : Rat) : ℝ)) +
            (((exactInt Fs a b : Rat) : ℝ) - ∫ x in (a : ℝ)..(b : ℝ), G x)| := by congr 1; ring
      _ ≤ _ := abs_add_le _ _
  linarith

/-! ## L5 — non-vacuity of the hypotheses -/

/-- the closeness hypothesis of `gk2d_approx_accuracy_rat` holds with `δ > 0` for an integrand
    that is NOT in the exact class: a polynomial family changed by `δ` at the single point
    `(1/3, 1/5)` -/
example (cs : Rat → List Rat) (δ : Rat) (hδ : 0 < δ) (a b : Rat) (innerAB : Rat → Rat × Rat) :
    ∀ x, min a b ≤ x → x ≤ max a b →
      ∀ y, min (innerAB x).1 (innerAB x).2 ≤ y → y ≤ max (innerAB x).1 (innerAB x).2 →
        |(fun x y => evalPoly (cs x) y + (if x = 1 / 3 ∧ y = 1 / 5 then δ else 0)) x y -
          evalPoly (cs x) y| ≤ δ := by
  intro x _ _ y _ _
  show |evalPoly (cs x) y + (if x = 1 / 3 ∧ y = 1 / 5 then δ else 0) - evalPoly (cs x) y| ≤ δ
  by_cases hx : x = 1 / 3 ∧ y = 1 / 5
  · rw [if_pos hx, add_sub_cancel_left, abs_of_pos hδ]
  · rw [if_neg hx, add_zero, sub_self, abs_zero]; exact hδ.le

/-! ### a fully instantiated instance: `x^20 + y^20` on `[-1,1]²`, perturbed at one point

`f20`, `sq`, `cs20`, `Fs20` of `Thm/C09Accuracy.lean`; the integrand is moved by `1e-9` at the
single point `(1/3, 1/5)` and is no longer in the exact class.  Every hypothesis of
`gk2d_approx_accuracy_rat'` is discharged (`ε₀ = 2e-16`, `M = 1`, `δ = 1e-9`); the conclusion
holds for every tolerance, budget and successful result. -/

/-- `x^20 + y^20`, changed by `1e-9` at `(1/3, 1/5)` -/
def f20p : Rat → Rat → Rat :=
  fun x y => f20 x y + (if x = 1 / 3 ∧ y = 1 / 5 then 1 / 10 ^ 9 else 0)

/-- `f20p` is not in the exact class of `cs20` -/
example : f20p (1 / 3) (1 / 5) ≠ evalPoly (cs20 (1 / 3)) (1 / 5) := by
  rw [← f20_hf]; simp [f20p]

theorem f20p_close (x y : Rat) : |f20p x y - evalPoly (cs20 x) y| ≤ 1 / 10 ^ 9 := by
  rw [← f20_hf]
  show |f20 x y + (if x = 1 / 3 ∧ y = 1 / 5 then 1 / 10 ^ 9 else 0) - f20 x y| ≤ 1 / 10 ^ 9
  by_cases hx : x = 1 / 3 ∧ y = 1 / 5
  · rw [if_pos hx, add_sub_cancel_left, abs_of_pos (by norm_num)]
  · rw [if_neg hx, add_zero, sub_self, abs_zero]; norm_num

/-- every successful run of the 2-D routine on `f20p` over `[-1,1]²` is within
    `1e-16·44/21 + (2e-16 + (2+1e-16)·1e-9)·(2+1e-16)` (`< 4.1e-9`) of the exact integral `8/21`
    of `x^20 + y^20` -/
theorem f20p_accuracy (tol : Rat) (mi : Option Nat) (v e : Rat)
    (h : (gk2d f20p (-1) 1 sq tol mi).res = .ok (v, e)) :
    |v - 8 / 21| ≤ 1 / 10 ^ 16 * (44 / 21) +
        (2 / 10 ^ 16 + (2 + 1 / 10 ^ 16) * (1 / 10 ^ 9)) * (2 + 1 / 10 ^ 16) ∧
      e < tol ∧ 0 ≤ e := by
  obtain ⟨h1, h2⟩ := gk2d_approx_accuracy_rat' f20p cs20 Fs20 (-1) 1 sq tol mi (1 / 10 ^ 9)
    (2 / 10 ^ 16) 1 (fun x _ _ y _ _ => f20p_close x y) (fun x _ _ => by simp [cs20])
    (fun x _ _ => f20_hF x) (by decide) (by norm_num) f20_hε
    (fun x _ _ => by show |((1 : Rat) - -1) / 2| ≤ 1; norm_num) v e h
  refine ⟨?_, h2⟩
  have hb : |((1 : Rat) - -1) / 2| * (1 / 10 ^ 16) * absPolyAt Fs20 (max |(-1 : Rat)| |(1 : Rat)|) =
      1 / 10 ^ 16 * (44 / 21) := by decide +kernel
  have hc : |((1 : Rat) - -1) / 2| = 1 := by norm_num
  rw [Fs20_exact, hb, hc] at h1
  refine le_trans h1 (le_of_eq ?_)
  ring

end Cav.C09Approx
