/-
  C05 — the default methods of `trait Differentiable1D` (used by implementors that provide only
  `f` and `df`): `fdf` pairs them, `composition` is the chain rule.  The defs are GENERATED from the
  trait block of `differentiable.rs` (`Gen/AD.lean`), so a slip such as multiplying by `gdg.0`
  instead of `gdg.1` breaks these theorems on the next run.
-/
import Cav.Gen.AD
import Cav.Inst.Real
import Mathlib.Analysis.Calculus.Deriv.Comp

namespace Cav.C05D
open Cav Gen

/-- structural (every `Num` instance): the default `fdf` is `(f x, df x)` -/
theorem fdfDefault_eq {α : Type} [Num α] (f df : α → α) (x : α) :
    D1.fdfDefault f df x = (f x, df x) := rfl

/-- structural (every `Num` instance): the default `composition` evaluates `f` and `df` at the inner
    VALUE and multiplies the derivative by the inner TANGENT -/
theorem compositionDefault_eq {α : Type} [Num α] (f df : α → α) (g g' : α) :
    D1.compositionDefault f df (g, g') = (f g, df g * g') := rfl

/-- over ℝ: the default `composition` is the chain rule -/
theorem compositionDefault_chain (f df : ℝ → ℝ) (hf : ∀ x, HasDerivAt f (df x) x)
    (g : ℝ → ℝ) (g' t : ℝ) (hg : HasDerivAt g g' t) :
    (D1.compositionDefault f df (g t, g')).1 = f (g t) ∧
    HasDerivAt (fun s => f (g s)) (D1.compositionDefault f df (g t, g')).2 t := by
  refine ⟨rfl, ?_⟩
  have h := (hf (g t)).comp t hg
  rw [compositionDefault_eq]
  exact h

/-- the defaults agree with the closure implementation on a closure's own `f`/`df` whenever the
    closure is tangent-linear with tangent-independent value (true for every compiled expression,
    `C05.ad_tangent_linear`, `C05.ad_value_indep_of_tangent`) -/
theorem default_agrees_with_closure (F : AD ℝ → AD ℝ)
    (hv : ∀ x d, (F ⟨x, d⟩).v = (F ⟨x, 0⟩).v) (hd : ∀ x d, (F ⟨x, d⟩).d = (F ⟨x, 1⟩).d * d)
    (g g' : ℝ) :
    D1.compositionDefault (D1.f F) (D1.df F) (g, g') = D1.composition F (g, g') := by
  simp only [compositionDefault_eq, D1.composition, D1.f, D1.df]
  rw [hv g g', hd g g']
  simp [Num.ofNat, instNumReal]

example : D1.compositionDefault (fun x : ℝ => x * x) (fun x => 2 * x) (3, 5) = (9, 30) := by
  simp [compositionDefault_eq]; norm_num

end Cav.C05D
