/-
  C06 / C17 — the parser model against the grammar `Spec/Grammar.lean`.

  * TERMINATION (`fuel_suffices`, `compile_ne_outOfFuel`): the fuel `compile` supplies always
    suffices, so `CompileErr.outOfFuel` is unreachable.
  * FUEL MONOTONICITY (`parseExpr_fuel_mono`, … one per mutual function): a result that is not
    `oof` does not change when more fuel is given.
  * COMPLETENESS (`parse_print`): every string of the grammar — trees of any size, minimal or
    redundant parentheses, arbitrary interleaved whitespace — compiles to the tree it denotes,
    for every context in which no registered name IS `inf` or `nan` (`Grammar.CtxOK'`).  Since the
    repair of `parse_const` names that merely START with such a word (`info`, `nano`) are fine;
    before it they had to be excluded (`Grammar.CtxOK`, which implies `CtxOK'`: `ctxOK_weaken`,
    `parse_print_old`).
  * as a corollary the grammar is UNAMBIGUOUS (`prints_unique`), and with soundness (C17) it IS
    the accepted language (`accepted_iff_prints`).

  Proofs: `Cav/Lemmas/ParseBody.lean` (unfolding, monotonicity), `ParseLex.lean`/`ParseLexC.lean`
  (lexers), `ParseFuel.lean` (consumption, termination), `ParsePrint.lean` (completeness).
-/
import Cav.Spec.Grammar
import Cav.Lemmas.ParseBody
import Cav.Lemmas.ParseFuel
import Cav.Lemmas.ParsePrint
import Cav.Lemmas.ParseSound

namespace Cav.C06
open Cav Cav.ParseLemmas

/-! ### fuel monotonicity -/

/-- once `parseExpr` does not run out of fuel, more fuel gives the same result -/
theorem parseExpr_fuel_mono (ctx : Ctx) (s : List Char) {f f' : Nat} (hle : f ≤ f')
    (h : parseExpr f ctx s ≠ .oof) : parseExpr f' ctx s = parseExpr f ctx s :=
  parseExpr_mono ctx s hle h

theorem loopAdd_fuel_mono (ctx : Ctx) (s : List Char) (acc : E) {f f' : Nat} (hle : f ≤ f')
    (h : loopAdd f ctx s acc ≠ .oof) : loopAdd f' ctx s acc = loopAdd f ctx s acc :=
  loopAdd_mono ctx s acc hle h

theorem parseMul_fuel_mono (ctx : Ctx) (s : List Char) (a : Bool) {f f' : Nat} (hle : f ≤ f')
    (h : parseMul f ctx s a ≠ .oof) : parseMul f' ctx s a = parseMul f ctx s a :=
  parseMul_mono ctx s a hle h

theorem loopMul_fuel_mono (ctx : Ctx) (s : List Char) (acc : E) {f f' : Nat} (hle : f ≤ f')
    (h : loopMul f ctx s acc ≠ .oof) : loopMul f' ctx s acc = loopMul f ctx s acc :=
  loopMul_mono ctx s acc hle h

theorem parseTerm_fuel_mono (ctx : Ctx) (s : List Char) (a : Bool) {f f' : Nat} (hle : f ≤ f')
    (h : parseTerm f ctx s a ≠ .oof) : parseTerm f' ctx s a = parseTerm f ctx s a :=
  parseTerm_mono ctx s a hle h

theorem parseParenth_fuel_mono (ctx : Ctx) (s : List Char) {f f' : Nat} (hle : f ≤ f')
    (h : parseParenth f ctx s ≠ .oof) : parseParenth f' ctx s = parseParenth f ctx s :=
  parseParenth_mono ctx s hle h

theorem parseFunc_fuel_mono (ctx : Ctx) (s : List Char) {f f' : Nat} (hle : f ≤ f')
    (h : parseFunc f ctx s ≠ .oof) : parseFunc f' ctx s = parseFunc f ctx s :=
  parseFunc_mono ctx s hle h

/-! ### consumption -/

/-- a successful `parseExpr` consumes at least one character -/
theorem parseExpr_consumes (ctx : Ctx) (f : Nat) (s rest : List Char) (t : E)
    (h : parseExpr f ctx s = .ok rest t) : rest.length < s.length :=
  (consumes_all ctx f).1 s rest t h

/-! ### termination -/

/-- TERMINATION: the fuel supplied by `compile` always suffices (so `outOfFuel` is unreachable) -/
theorem fuel_suffices (ctx : Ctx) (s : List Char) : ∀ fuel, fuelFor s ≤ fuel → parseExpr fuel ctx s ≠ .oof :=
  fun fuel h => (fuel_all ctx fuel).1 s h

theorem compile_ne_outOfFuel (arity : Nat) (ctx : Ctx) (src : List Char) :
    compile arity ctx src ≠ .error .outOfFuel := by
  unfold compile
  split
  · simp
  · have := fuel_suffices ctx (stripWs src) _ (Nat.le_refl _)
    simp only
    split
    · rename_i h; exact absurd h this
    · simp
    · split <;> simp

/-! ### completeness -/

/-- the parser's verdict on a string of the grammar, at exactly the fuel `compile` supplies -/
theorem parseExpr_prints (arity : Nat) (ctx : Ctx) (hctx : Grammar.CtxOK' arity ctx) (t : E) (s : List Char)
    (h : Grammar.Prints ctx t s) : parseExpr (fuelFor s) ctx s = .ok [] t := by
  obtain ⟨f0, hf⟩ := prints_ev hctx h
  have h1 : parseExpr (max f0 (fuelFor s)) ctx s = .ok [] t := hf _ (Nat.le_max_left _ _)
  rw [← h1]
  exact (parseExpr_fuel_mono ctx s (Nat.le_max_right _ _) (fuel_suffices ctx s _ (Nat.le_refl _))).symm

/-- COMPLETENESS: every string of the grammar compiles to the tree it denotes — for all trees of any size,
    all renderings (minimal or redundant parentheses), arbitrary interleaved whitespace. -/
theorem parse_print (arity : Nat) (ctx : Ctx) (hctx : Grammar.CtxOK' arity ctx) (t : E) (s : List Char)
    (h : Grammar.Prints ctx t s) (src : List Char) (hsrc : stripWs src = s) :
    compile arity ctx src = .ok t := by
  unfold compile
  split
  · rename_i hc
    exfalso
    rw [List.any_eq_true] at hc
    obtain ⟨p, hp, hm⟩ := hc
    cases hp2 : p.2 with
    | var i =>
      rw [hp2] at hm
      have h1 := hctx.1 p hp i hp2
      have h2 : arity ≤ i := by simpa using hm
      omega
    | const => rw [hp2] at hm; cases hm
    | uop => rw [hp2] at hm; cases hm
  · simp only [hsrc]
    rw [parseExpr_prints arity ctx hctx t s h]
    rfl

/-- the grammar is unambiguous: a string denotes at most one tree -/
theorem prints_unique (arity : Nat) (ctx : Ctx) (hctx : Grammar.CtxOK' arity ctx) (t1 t2 : E) (s : List Char)
    (h1 : Grammar.Prints ctx t1 s) (h2 : Grammar.Prints ctx t2 s) : t1 = t2 := by
  have e1 := parseExpr_prints arity ctx hctx t1 s h1
  have e2 := parseExpr_prints arity ctx hctx t2 s h2
  rw [e1] at e2
  cases e2; rfl

/-- the side condition that was needed before the repair of `parse_const` implies the present one -/
theorem ctxOK_weaken (arity : Nat) (ctx : Ctx) (h : Grammar.CtxOK arity ctx) : Grammar.CtxOK' arity ctx :=
  ParseLemmas.ctxOK_weaken h

/-- completeness as it was stated before the repair (now a corollary) -/
theorem parse_print_old (arity : Nat) (ctx : Ctx) (hctx : Grammar.CtxOK arity ctx) (t : E) (s : List Char)
    (h : Grammar.Prints ctx t s) (src : List Char) (hsrc : stripWs src = s) :
    compile arity ctx src = .ok t :=
  parse_print arity ctx (ctxOK_weaken arity ctx hctx) t s h src hsrc

/-- EXACTNESS: for a context in which no registered name is `inf` or `nan`, the accepted strings
    are exactly the strings of the grammar, with the tree they denote (soundness is
    `C17.parse_sound`, for all contexts) -/
theorem accepted_iff_prints (arity : Nat) (ctx : Ctx) (hctx : Grammar.CtxOK' arity ctx) (t : E)
    (src : List Char) : compile arity ctx src = .ok t ↔ Grammar.Prints ctx t (stripWs src) :=
  ⟨ParseSound.parse_sound arity ctx src t, fun h => parse_print arity ctx hctx t _ h src rfl⟩

/-! ### `CtxOK'` and `CtxOK` are decidable -/

/-- executable form of `CtxOK'` -/
def ctxOKb' (arity : Nat) (ctx : Ctx) : Bool :=
  ctx.all fun p =>
    (match p.2 with | .var i => decide (i < arity) | _ => true) &&
    (p.1.toList.map lower != ['n', 'a', 'n']) && (p.1.toList.map lower != ['i', 'n', 'f'])

theorem ctxOK'_iff (arity : Nat) (ctx : Ctx) : Grammar.CtxOK' arity ctx ↔ ctxOKb' arity ctx = true := by
  unfold Grammar.CtxOK' ctxOKb'
  rw [List.all_eq_true]
  constructor
  · intro ⟨h1, h2⟩ p hp
    have := h2 p hp
    simp only [Bool.and_eq_true, bne_iff_ne, ne_eq]
    refine ⟨⟨?_, this.1⟩, this.2⟩
    cases hp2 : p.2 with
    | var i => simpa using h1 p hp i hp2
    | const => rfl
    | uop => rfl
  · intro h
    refine ⟨fun p hp i hi => ?_, fun p hp => ?_⟩
    · have := h p hp
      simp only [Bool.and_eq_true, hi, decide_eq_true_eq] at this
      exact this.1.1
    · have := h p hp
      simp only [Bool.and_eq_true, bne_iff_ne, ne_eq] at this
      exact ⟨this.1.2, this.2⟩

instance (arity : Nat) (ctx : Ctx) : Decidable (Grammar.CtxOK' arity ctx) :=
  decidable_of_iff _ (ctxOK'_iff arity ctx).symm

/-- executable form of `CtxOK` (the condition before the repair) -/
def ctxOKb (arity : Nat) (ctx : Ctx) : Bool :=
  ctx.all fun p =>
    (match p.2 with | .var i => decide (i < arity) | _ => true) &&
    ((p.1.toList.take 3).map lower != ['n', 'a', 'n']) && ((p.1.toList.take 3).map lower != ['i', 'n', 'f'])

theorem ctxOK_iff (arity : Nat) (ctx : Ctx) : Grammar.CtxOK arity ctx ↔ ctxOKb arity ctx = true := by
  unfold Grammar.CtxOK ctxOKb
  rw [List.all_eq_true]
  constructor
  · intro ⟨h1, h2⟩ p hp
    have := h2 p hp
    simp only [Bool.and_eq_true, bne_iff_ne, ne_eq]
    refine ⟨⟨?_, this.1⟩, this.2⟩
    cases hp2 : p.2 with
    | var i => simpa using h1 p hp i hp2
    | const => rfl
    | uop => rfl
  · intro h
    refine ⟨fun p hp i hi => ?_, fun p hp => ?_⟩
    · have := h p hp
      simp only [Bool.and_eq_true, hi, decide_eq_true_eq] at this
      exact this.1.1
    · have := h p hp
      simp only [Bool.and_eq_true, bne_iff_ne, ne_eq] at this
      exact ⟨this.1.2, this.2⟩

instance (arity : Nat) (ctx : Ctx) : Decidable (Grammar.CtxOK arity ctx) :=
  decidable_of_iff _ (ctxOK_iff arity ctx).symm

/-! ### non-vacuity -/

/-- the default context with two variables -/
def ctxXY : Ctx := defaultCtx.insert "x" (.var 0) |>.insert "y" (.var 1)

/-- … and a constant whose name starts with a number word -/
def ctxInfo : Ctx := ctxXY.insert "info" .const

example : Grammar.CtxOK' 0 defaultCtx := by decide
example : Grammar.CtxOK' 2 ctxXY := by decide
example : Grammar.CtxOK 0 defaultCtx := by decide
example : Grammar.CtxOK 2 ctxXY := by decide
/-- the OLD condition excluded a constant called `info` (it was shadowed by `inf`) … -/
example : ¬ Grammar.CtxOK 2 ctxInfo := by decide
/-- … the present one does not, nor `nano`, `infinity`, `nanometre`, `Infimum` … -/
example : Grammar.CtxOK' 2 ctxInfo := by decide
example : Grammar.CtxOK' 2 (ctxXY.insert "nano" .const |>.insert "infinity" .const
    |>.insert "nanometre" (.var 0) |>.insert "Infimum" .uop) := by decide
/-- … it still excludes something: a name that IS a number word, in any case -/
example : ¬ Grammar.CtxOK' 2 (ctxXY.insert "inf" .const) := by decide
example : ¬ Grammar.CtxOK' 2 (ctxXY.insert "NaN" .uop) := by decide

/-- Boolean comparison of a `compile` result (for kernel evaluation of concrete instances) -/
def resIs (r v : Except CompileErr E) : Bool :=
  match r, v with
  | .ok t, .ok t' => t == t'
  | .error e, .error e' => e == e'
  | _, _ => false

theorem of_resIs {r v : Except CompileErr E} (h : resIs r v = true) : r = v := by
  cases r <;> cases v <;> simp [resIs] at h <;> rw [h]

/-- `info+1` is the constant `info` plus one (kernel evaluation of the model; before the repair
    this was `.error .residue`: `inf` was taken as a number and `o+1` was left over) -/
theorem info_plus_one :
    compile 2 ctxInfo "info+1".toList = .ok (.bin .add (.cst "info") (.lit 1 0)) :=
  of_resIs (by decide +kernel)

/-- the same through `parse_print`, with whitespace -/
example : compile 2 ctxInfo " info + 1 ".toList = .ok (.bin .add (.cst "info") (.lit 1 0)) := by
  refine parse_print 2 ctxInfo (by decide) _ "info+1".toList ?_ _ (by decide)
  have hinfo : Grammar.PAtom ctxInfo (.cst "info") ['i', 'n', 'f', 'o'] :=
    Grammar.PAtom.cst (n := ['i', 'n', 'f', 'o'])
      ⟨by simp, by intro d hd; simp at hd; rcases hd with rfl | rfl | rfl | rfl <;> decide⟩ (by decide)
  have d1 : Grammar.Digits ['1'] := ⟨by simp, by intro d hd; simp at hd; rw [hd]; decide⟩
  have n1 : Grammar.NumLeaf (.lit 1 0) ['1'] :=
    Grammar.NumLeaf.dec _ 0 0 ['1'] [] (Grammar.Mantissa.int _ d1) Grammar.Exponent.none
  exact Grammar.PExpr.add (.up (.up (.pos (.up hinfo)))) (.up (.pos (.up (.num n1))))

/-- the number words themselves are still numbers, next to a name that starts with one; a word
    directly followed by a letter is an error when the longer name is not registered -/
example : compile 2 ctxInfo "inf+info".toList = .ok (.bin .add .litInf (.cst "info")) :=
  of_resIs (by decide +kernel)
example : compile 2 ctxInfo "nan*INF".toList = .ok (.bin .mul .litNan .litInf) :=
  of_resIs (by decide +kernel)
example : compile 2 ctxInfo "inf+Info".toList = .error .parsing := of_resIs (by decide +kernel)

/-- `-x^2*sin(y)+3` denotes `((-(x^2)) * sin y) + 3` -/
theorem prints_example :
    Grammar.Prints ctxXY
      (.bin .add (.bin .mul (.un .neg (.bin .pow (.var 0) (.lit 2 0))) (.un .sin (.var 1))) (.lit 3 0))
      "-x^2*sin(y)+3".toList := by
  have dig : ∀ c : Char, isDigit c = true → Grammar.Digits [c] :=
    fun c hc => ⟨by simp, by intro d hd; simp at hd; rw [hd]; exact hc⟩
  have name1 : ∀ c : Char, isAlpha c = true → Grammar.IsName [c] :=
    fun c hc => ⟨by simp, by intro d hd; simp at hd; rw [hd]; exact hc⟩
  have n2 : Grammar.NumLeaf (.lit 2 0) ['2'] :=
    Grammar.NumLeaf.dec _ 0 0 ['2'] [] (Grammar.Mantissa.int _ (dig '2' (by decide))) Grammar.Exponent.none
  have n3 : Grammar.NumLeaf (.lit 3 0) ['3'] :=
    Grammar.NumLeaf.dec _ 0 0 ['3'] [] (Grammar.Mantissa.int _ (dig '3' (by decide))) Grammar.Exponent.none
  have hx : Grammar.PAtom ctxXY (.var 0) ['x'] := .var (name1 'x' (by decide)) (by decide)
  have hy : Grammar.PAtom ctxXY (.var 1) ['y'] := .var (name1 'y' (by decide)) (by decide)
  have hsin : Grammar.PAtom ctxXY (.un .sin (.var 1)) (['s', 'i', 'n'] ++ '(' :: ['y'] ++ [')']) :=
    Grammar.PAtom.call (n := ['s', 'i', 'n'])
      ⟨by simp, by intro d hd; simp at hd; rcases hd with rfl | rfl | rfl <;> decide⟩ (by decide)
      (.up (.up (.pos (.up hy))))
  have hpow : Grammar.PPow ctxXY (.bin .pow (.var 0) (.lit 2 0)) (['x'] ++ '^' :: ['2']) :=
    .pow hx (.pos (.up (.num n2)))
  have hmul : Grammar.PMul ctxXY true (.bin .mul (.un .neg (.bin .pow (.var 0) (.lit 2 0))) (.un .sin (.var 1)))
      (('-' :: (['x'] ++ '^' :: ['2'])) ++ '*' :: (['s', 'i', 'n'] ++ '(' :: ['y'] ++ [')'])) :=
    .mul (.up (.neg hpow)) (.pos (.up hsin))
  exact Grammar.PExpr.add (.up hmul) (.up (.pos (.up (.num n3))))

/-- … hence it compiles to that tree, with any whitespace -/
example :
    compile 2 ctxXY " - x ^2 *\tsin( y )\n + 3 ".toList =
      .ok (.bin .add (.bin .mul (.un .neg (.bin .pow (.var 0) (.lit 2 0))) (.un .sin (.var 1))) (.lit 3 0)) :=
  parse_print 2 ctxXY (by decide) _ _ prints_example _ (by decide)

/-- redundant parentheses: `((x))` denotes the same tree as `x` -/
example : Grammar.Prints ctxXY (.var 0) "((x))".toList := by
  have hx : Grammar.PAtom ctxXY (.var 0) ['x'] :=
    .var ⟨by simp, by intro d hd; simp at hd; rw [hd]; decide⟩ (by decide)
  have h1 : Grammar.PAtom ctxXY (.var 0) ('(' :: ['x'] ++ [')']) := .paren (.up (.up (.pos (.up hx))))
  exact .up (.up (.pos (.up (.paren (.up (.up (.pos (.up h1))))))))

end Cav.C06
