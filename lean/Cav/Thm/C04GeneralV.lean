/-
  C04 (every valid polygon set is accepted) WITHOUT THE HYPOTHESIS OF DISTINCT ABSCISSAE:
  every finite list of simple polygons with pairwise disjoint boundaries and pairwise different
  VERTICES — VERTICAL EDGES and several vertices on one vertical line allowed (axis-aligned
  shapes on small lattices: L, U, plus shapes, rectangles with rectangular holes, …), any
  nesting, any orientation, not necessarily x-monotone — is accepted by the sweep model over
  `XQ`, and the ghost flag `mono` stays `true`:

      `general_accepted_V : ValidSetV polys → ∃ T, sweepMon (toInput polys) = .ok (T, true)`

  Validity (`ValidSetV`, decidable, rationals, orientation determinants and lexicographic
  comparisons only):
    * every polygon has at least three vertices; all vertices of all polygons are different points;
    * `EdgesApartV`: two ring edges without a common vertex are apart — the end points of one lie
      strictly on one side of the other (`0 < orient a b c * orient a b d`), or all points of one
      come lexicographically before all points of the other;
    * `NoSpikeV`: at a vertex whose two neighbours are both lexicographically smaller or both
      greater the two edges are not collinear.
  (For segments this is exactly: the polygons are simple and their boundaries disjoint.)

  METHOD.  The sweep position of the model is a POINT in lexicographic order.  The shear
  `(x, y) ↦ (x + ε y, y)` keeps every orientation determinant, and for a small `ε > 0` the order of
  the sheared abscissae of the vertices is their lexicographic order (`GenVShear.exists_shear`).
  The sheared ring has distinct abscissae and is valid, so the whole geometric development of
  `C04General` (order of the active edges, queue, crossing edges; all the flat event lemmas)
  applies to it verbatim.  The invariant `InvV` keeps the HEAP facts for the original ring (the
  model stores and compares the original points) and the GEOMETRIC facts for the sheared ring at
  the sheared sweep abscissa.  The bridge (`GenVBridge*.lean`, `GenVInvW.lean`): for a valid ring
  the relative position of two active edges is decided by orientation determinants, which are
  the same in both pictures; so an order fact of the sheared ring gives the answer of the
  model's comparator at the original sweep abscissa (`cmpW_of_below`), INCLUDING ALL THE TIES:
    * two edges with a common right end point on the sweep line (a pending vertex): descending
      gradient (`cmpE_fanR0_lt`); a vertical edge arriving there from below is below
      (`cmpW_fanR_vert`);
    * two edges with a common left end point on the sweep line: ascending gradient, a vertical
      edge (read at its upper end) above;
    * a vertical active edge is read at its upper end (`yv`, `yE_V`);
  the look-ahead tests with equal right abscissae and with vertical edges (`wobW`, `wotW`: the
  `ofEq x1 x2` branch of `willOverlapBot/Top`); the gradients at an End vertex with a vertical
  edge (`gradsW`); `verticalIsCrossed` is executed and never fires on valid input
  (`vicfree_bend`, `vicfree_start`: an active edge below the sweep vertex passes below it, an
  active edge above a vertical new edge passes above or through its upper end); `fromTriplet`,
  the queue order and `Pt.ge` are lexicographic (`ftV_*`, `evAddV_eq_qAdd`, `geV_*`).  At heap
  level the Bend and Start lemmas are re-proved with `VicFree` in place of "the new edge is not
  vertical" (`GenVHeap*.lean`).

  Layers (all proven):
    (V1) `InvV` (`GenVInv.lean`), the order facts, preservation by Bend: `invV_bend`;
    (V2) inputs without vertical edges: `accepted_no_vertical` (`GenVStep*.lean`);
    (V3) vertical edges: `invV_handleNext` (every event: Start/End with a vertical edge, Bend
         onto/off a vertical edge, `verticalIsCrossed` never firing), `invV_loop`;
    (V4) `general_accepted_V`.
  The same relaxation for `crossing_rejected` / `general_total` (C16, C15) is NOT done here.
-/
import Cav.Lemmas.GenVAcceptW

set_option linter.unusedSimpArgs false
set_option linter.unusedVariables false

namespace Cav.C04GeneralV
open Cav Num Cav.Geo Cav.Sweep Cav.TriRun Cav.QuadRun Cav.QuadGeom
open Cav.GenGeom Cav.GenInv Cav.GenRing Cav.GenLoop Cav.GenVShear Cav.GenVBridge Cav.GenVInv
open Cav.GenVStep Cav.GenVStepW Cav.GenVAccept

/-- the input of the model for a list of rational polygons -/
abbrev toInput (polys : List (Array (Rat × Rat))) : List (Array (Pt XQ)) :=
  polys.map fun p => p.map fun q => F q.1 q.2

/-- **validity of a polygon list; equal abscissae and vertical edges allowed** -/
def ValidSetV (polys : List (Array (Rat × Rat))) : Prop :=
  (∀ p ∈ polys, 3 ≤ p.size) ∧ (polys.flatMap Array.toList).Nodup ∧
    EdgesApartV (ringOf polys) ∧ NoSpikeV (ringOf polys)

instance (polys : List (Array (Rat × Rat))) : Decidable (ValidSetV polys) := by
  unfold ValidSetV; exact inferInstance

/-! ### (V4) the general statement -/

/-- **every valid polygon list is accepted, and `mono` stays `true`** — no hypothesis on the
    abscissae: vertical edges and vertices on a common vertical line are allowed -/
theorem general_accepted_V (polys : List (Array (Rat × Rat))) (hv : ValidSetV polys) :
    ∃ T, sweepMon (toInput polys) = .ok (T, true) := by
  obtain ⟨h3, hnd, hA, hS⟩ := hv
  obtain ⟨ε, hSh⟩ := shOK_of_valid polys h3 hnd hA hS
  exact acceptW_of_shOK polys h3 hSh

/-- (V2) the special case without vertical edges (proved first, by the lemmas of
    `GenVStep*.lean`) -/
theorem accepted_no_vertical (polys : List (Array (Rat × Rat))) (hv : ValidSetV polys)
    (hnv : NoVert (ringOf polys)) : ∃ T, sweepMon (toInput polys) = .ok (T, true) := by
  obtain ⟨h3, hnd, hA, hS⟩ := hv
  obtain ⟨ε, hSh⟩ := shOK_of_valid polys h3 hnd hA hS
  exact acceptV_of_shOK polys h3 hSh hnv

/-- the sheared ring of a valid polygon list: distinct abscissae in lexicographic order, the same
    orientation determinants, valid (`NoCross`) -/
theorem valid_shear (polys : List (Array (Rat × Rat))) (hv : ValidSetV polys) :
    ∃ ε, ShOK (ringOf polys) ε (shearVerts ε (ringOf polys)) :=
  shOK_of_valid polys hv.1 hv.2.1 hv.2.2.1 hv.2.2.2

/-! ### (V1), (V3) the invariant and its preservation -/

variable {R : RingQ} {ε : Rat} {Vε : Array (Vtx XQ)}

/-- (V1) Bend vertex at the head of the queue (the old and the new edge may be vertical) -/
theorem invV_bend (hSh : ShOK R ε Vε) {s : St XQ} {xs X : Rat} {ivs : List IV}
    (hI : InvV R ε s xs X ivs) {w : Nat} {es : List Nat} {rest : List (Nat × List Nat)}
    (hev : s.events = (w, es) :: rest) {u w' : Nat}
    (hnb : (R.prv w = u ∧ R.nxt w = w') ∨ (R.prv w = w' ∧ R.nxt w = u))
    (hxu : lexLt (R.pt u) (R.pt w)) (hxw' : lexLt (R.pt w) (R.pt w')) :
    ∃ s', (handleNext : SM XQ Unit).run s = .ok ((), s') ∧
      ∃ ivs', InvV R ε s' ((shearRing ε R).x w) (R.x w) ivs' := by
  have hq := hI.q
  rw [hev] at hq
  have hwn : w < R.n := (hq.gt (w, es) List.mem_cons_self).1
  have hun : u < R.n := by
    rcases hnb with ⟨e, -⟩ | ⟨-, e⟩
    · rw [← e]; exact hSh.ring.prv_lt w hwn
    · rw [← e]; exact hSh.ring.nxt_lt w hwn
  have hw'n : w' < R.n := by
    rcases hnb with ⟨-, e⟩ | ⟨e, -⟩
    · rw [← e]; exact hSh.ring.nxt_lt w hwn
    · rw [← e]; exact hSh.ring.prv_lt w hwn
  exact stepW_bend hSh hI hev hnb ((hSh.key u w hun hwn).mpr hxu) ((hSh.key w w' hwn hw'n).mpr hxw')

/-- (V3) **every event keeps `InvV`** -/
theorem invV_handleNext (hSh : ShOK R ε Vε) {s : St XQ} {xs X : Rat} {ivs : List IV}
    (hI : InvV R ε s xs X ivs) {w : Nat} {es : List Nat} {rest : List (Nat × List Nat)}
    (hev : s.events = (w, es) :: rest) :
    ∃ s', (handleNext : SM XQ Unit).run s = .ok ((), s') ∧
      ∃ ivs', InvV R ε s' ((shearRing ε R).x w) (R.x w) ivs' :=
  stepW hSh hI hev

/-- the event loop from a state with `InvV` -/
theorem invV_loop (hSh : ShOK R ε Vε) {s : St XQ} {xs X : Rat} {ivs : List IV}
    (hI : InvV R ε s xs X ivs) :
    ∃ s', (loop (s.verts.size + 1)).run s = .ok ((), s') ∧ s'.mono = true :=
  loopW_ok hSh (s.verts.size + 1) s xs X ivs hI
    (by rw [hI.vget.1]; exact Nat.lt_succ_of_le (meas_le (R := shearRing ε R) xs))

/-! ### non-vacuity: axis-aligned shapes and other inputs with equal abscissae, evaluated by the
    kernel; the hypotheses checked by `decide`; the theorem applied -/

def Lshape : List (Array (Rat × Rat)) := [#[(0, 0), (2, 0), (2, 1), (1, 1), (1, 2), (0, 2)]]
def Ushape : List (Array (Rat × Rat)) :=
  [#[(0, 0), (3, 0), (3, 2), (2, 2), (2, 1), (1, 1), (1, 2), (0, 2)]]
def Plus : List (Array (Rat × Rat)) :=
  [#[(1, 0), (2, 0), (2, 1), (3, 1), (3, 2), (2, 2), (2, 3), (1, 3), (1, 2), (0, 2), (0, 1), (1, 1)]]
/-- a rectangle with a rectangular hole -/
def RectHole : List (Array (Rat × Rat)) :=
  [#[(0, 0), (4, 0), (4, 4), (0, 4)], #[(1, 1), (3, 1), (3, 3), (1, 3)]]
/-- two rectangles with edges on the common vertical line `x = 1` -/
def TwoRect : List (Array (Rat × Rat)) :=
  [#[(0, 0), (1, 0), (1, 1), (0, 1)], #[(1, 2), (2, 2), (2, 3), (1, 3)]]
/-- a rectangle with a hole and an island in the hole, all vertices on five vertical lines -/
def RectNest : List (Array (Rat × Rat)) :=
  [#[(0, 0), (6, 0), (6, 6), (0, 6)], #[(1, 1), (5, 1), (5, 5), (1, 5)], #[(2, 2), (4, 2), (4, 4), (2, 4)]]
/-- no vertical edge, but equal abscissae: two triangles one above the other -/
def TwoTriV : List (Array (Rat × Rat)) := [#[(0, 0), (4, 1), (2, 3)], #[(0, 5), (4, 6), (2, 8)]]
/-- vertical and slanted edges mixed, a reflex Start vertex on the vertical line of two others -/
def MixedV : List (Array (Rat × Rat)) := [#[(0, 0), (4, -1), (4, 5), (2, 2), (0, 4)]]

def acceptsMono (polys : List (Array (Rat × Rat))) : Bool :=
  match sweepMon (toInput polys) with
  | .ok (_, m) => m
  | .error _ => false

example : ValidSetV Lshape ∧ ValidSetV Ushape ∧ ValidSetV Plus ∧ ValidSetV RectHole := by
  decide +kernel
example : ValidSetV TwoRect ∧ ValidSetV RectNest ∧ ValidSetV TwoTriV ∧ ValidSetV MixedV := by
  decide +kernel
example : acceptsMono Lshape = true ∧ acceptsMono Ushape = true ∧ acceptsMono Plus = true ∧
    acceptsMono RectHole = true ∧ acceptsMono TwoRect = true ∧ acceptsMono RectNest = true ∧
    acceptsMono TwoTriV = true ∧ acceptsMono MixedV = true := by decide +kernel

example : ∃ T, sweepMon (toInput Lshape) = .ok (T, true) := general_accepted_V Lshape (by decide +kernel)
example : ∃ T, sweepMon (toInput Ushape) = .ok (T, true) := general_accepted_V Ushape (by decide +kernel)
example : ∃ T, sweepMon (toInput Plus) = .ok (T, true) := general_accepted_V Plus (by decide +kernel)
example : ∃ T, sweepMon (toInput RectHole) = .ok (T, true) :=
  general_accepted_V RectHole (by decide +kernel)
example : ∃ T, sweepMon (toInput TwoRect) = .ok (T, true) := general_accepted_V TwoRect (by decide +kernel)
example : ∃ T, sweepMon (toInput RectNest) = .ok (T, true) :=
  general_accepted_V RectNest (by decide +kernel)
example : ∃ T, sweepMon (toInput MixedV) = .ok (T, true) := general_accepted_V MixedV (by decide +kernel)
example : NoVert (ringOf TwoTriV) ∧ ¬ NoVert (ringOf Lshape) := by decide +kernel
example : ∃ T, sweepMon (toInput TwoTriV) = .ok (T, true) :=
  accepted_no_vertical TwoTriV (by decide +kernel) (by decide +kernel)

-- the hypotheses are needed: a rectangle whose hole touches its boundary in a vertex is not
-- `ValidSetV`, and the model rejects it
def TouchRect : List (Array (Rat × Rat)) := [#[(0, 0), (4, 0), (4, 4), (0, 4)], #[(1, 1), (4, 2), (1, 3)]]
example : ¬ ValidSetV TouchRect ∧ acceptsMono TouchRect = false := by decide +kernel

end Cav.C04GeneralV
