/- Driver stream for the sweep-line triangulator model. -/
import Cav.Drv.Wire
import Cav.Model.Sweep
import Cav.Model.SweepMon
import Cav.Inst.XQ

namespace Cav.Drv
open Cav

def fpt (p : Pt Float) : String := s!"{fx p.x},{fx p.y}"

/-- ` trace=<length>,<FNV-1a hash of the active-edge counts>` -/
def traceWire (t : List Nat) : String :=
  let h : UInt64 := t.foldl (fun h n => (h ^^^ UInt64.ofNat n) * 1099511628211) 14695981039346656037
  s!" trace={t.length},{h.toNat}"

def readPolys (n : Nat) (toks : List String) : List (Array (Pt Float)) := Id.run do
  let mut t := toks
  let mut out : List (Array (Pt Float)) := []
  for _ in [0:n] do
    match t with
    | k :: rest =>
      let k := k.toNat!
      let mut poly : Array (Pt Float) := #[]
      let mut r := rest
      for _ in [0:k] do
        match r with
        | x :: y :: r2 => poly := poly.push ⟨hx x, hx y⟩; r := r2
        | _ => break
      out := poly :: out
      t := r
    | [] => break
  return out.reverse

/-- `sweep <npoly> <n1> x y … <n2> x y …` -/
def drvSweep (toks : List String) : String :=
  match toks with
  | n :: rest =>
    let polys := readPolys n.toNat! rest
    let tr := traceWire (SweepMon.sweepTrace polys)
    match sweepMon polys with
    | .ok (ts, mono) =>
      s!"ok {ts.length}" ++ String.join (ts.map (fun t => s!" {fpt t.1} {fpt t.2.1} {fpt t.2.2}")) ++ tr
        ++ (if SweepMon.sweepChk polys then "" else " links=0") ++ (if mono then "" else " mono=0")
    | .error (.overlap k p) => s!"err overlap {k.name} {fpt p}" ++ tr
    | .error (.duplicate p) => s!"err duplicate {fpt p}" ++ tr
    | .error .nonFinite => "err nonfinite" ++ tr
    | .error .noPolygon => "err nopolygon" ++ tr
    | .error (.noPointType p) => s!"err nopointtype {fpt p}" ++ tr
    | .error (.panic k) => s!"panic {k}"
    | .error .oof => "err oof"
  | _ => "bad-request"

end Cav.Drv

namespace Cav.Drv
open Cav

/-- exact value of a binary64 bit pattern in `XQ` -/
def xqOfBits (b : UInt64) : XQ :=
  let n := b.toNat
  let neg := n ≥ 2 ^ 63
  let e : Nat := (n / 2 ^ 52) % 2048
  let m : Nat := n % 2 ^ 52
  if e == 2047 then (if m != 0 then .nan else if neg then .ninf else .pinf)
  else
    let (mant, ex) : Nat × Int := if e == 0 then (m, -1074) else (m + 2 ^ 52, (e : Int) - 1075)
    let q : Rat := if ex ≥ 0 then (mant * 2 ^ ex.toNat : Nat) else (mant : Rat) / ((2 ^ (-ex).toNat : Nat) : Rat)
    .fin (if neg then -q else q)

/-- nearest binary64 of an `XQ` value that is known to be exactly representable (dyadic);
    used only to print model results computed over exact arithmetic -/
def bitsOfXQ : XQ → String
  | .nan => "7ff8000000000000"
  | .pinf => "7ff0000000000000"
  | .ninf => "fff0000000000000"
  | .fin q =>
    let a := if q < 0 then -q else q
    let f := floatOfRatPos a.num.toNat a.den
    fx (if q < 0 then -f else f)

def fptq (p : Pt XQ) : String := s!"{bitsOfXQ p.x},{bitsOfXQ p.y}"

def readPolysQ (n : Nat) (toks : List String) : List (Array (Pt XQ)) := Id.run do
  let mut t := toks
  let mut out : List (Array (Pt XQ)) := []
  for _ in [0:n] do
    match t with
    | k :: rest =>
      let k := k.toNat!
      let mut poly : Array (Pt XQ) := #[]
      let mut r := rest
      for _ in [0:k] do
        match r with
        | x :: y :: r2 => poly := poly.push ⟨xqOfBits (parseHex x), xqOfBits (parseHex y)⟩; r := r2
        | _ => break
      out := poly :: out
      t := r
    | [] => break
  return out.reverse

/-- `sweepq …`: the same model at `XQ` (exact arithmetic with IEEE special values) -/
def drvSweepQ (toks : List String) : String :=
  match toks with
  | n :: rest =>
    let polys := readPolysQ n.toNat! rest
    let tr := traceWire (SweepMon.sweepTrace polys)
    match sweepMon polys with
    | .ok (ts, mono) =>
      s!"ok {ts.length}" ++ String.join (ts.map (fun t => s!" {fptq t.1} {fptq t.2.1} {fptq t.2.2}")) ++ tr
        ++ (if SweepMon.sweepChk polys then "" else " links=0") ++ (if mono then "" else " mono=0")
    | .error (.overlap k p) => s!"err overlap {k.name} {fptq p}" ++ tr
    | .error (.duplicate p) => s!"err duplicate {fptq p}" ++ tr
    | .error .nonFinite => "err nonfinite" ++ tr
    | .error .noPolygon => "err nopolygon" ++ tr
    | .error (.noPointType p) => s!"err nopointtype {fptq p}" ++ tr
    | .error (.panic k) => s!"panic {k}"
    | .error .oof => "err oof"
  | _ => "bad-request"

end Cav.Drv
