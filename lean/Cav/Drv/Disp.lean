/- Driver streams for the display / API models. -/
import Cav.Drv.Wire
import Cav.Drv.Parse
import Cav.Drv.Sweep
import Cav.Model.Api

namespace Cav.Drv
open Cav

def kF : Consts Float := ⟨piF, eF⟩

def hl (xs : List Float) : String := toHex16 (hashFloats hash0 xs)

def splitBars (toks : List String) : List (List String) :=
  let rec go : List String → List String → List (List String) → List (List String)
    | [], cur, acc => (cur.reverse :: acc).reverse
    | "|" :: rest, cur, acc => go rest [] (cur.reverse :: acc)
    | t :: rest, cur, acc => go rest (t :: cur) acc
  go toks [] []

def fmtInteg (i : Option (Float × Float)) : String :=
  match i with | some (v, e) => s!"{fx v},{fx e}" | none => "none"

def dump2 (d : Disp2D Float) : String :=
  let cv := " ".intercalate (d.cvs.map fun (i, pts) => s!"{i}:{pts.length}:{hl (pts.flatMap fun p => [p.1, p.2])}")
  s!"[{fx d.a} {fx d.b} n={d.xv.length} fv={hl d.fv} xv={hl d.xv} gv={hl d.gv} dgv={hl d.dgv} integ={fmtInteg d.integ} cvs={d.cvs.length} {cv}]"

def fmtSearch : SearchErr → String
  | .noConvergency => "conv" | .noBracketing => "bracket"

def fmtApiErr : ApiErr Float → String
  | .parse .paramOOB => "err oob"
  | .parse .parsing => "err parsing"
  | .parse .residue => "err residue"
  | .parse .outOfFuel => "err oof"
  | .list .parsing => "err parsing"
  | .list .residue => "err residue"
  | .list .panic => "panic index"
  | .list .outOfFuel => "err oof"
  | .disp (.root e) => s!"err root {fmtSearch e}"
  | .disp (.integ c) => if c then "err integ conv" else "err integ nan"
  | .integ c => if c then "err integ conv" else "err integ nan"
  | .tri (.overlap k p) => s!"err overlap {k.name} {fpt p}"
  | .tri (.duplicate p) => s!"err duplicate {fpt p}"
  | .tri .nonFinite => "err nonfinite"
  | .tri .noPolygon => "err nopolygon"
  | .tri (.noPointType p) => s!"err nopointtype {fpt p}"
  | .tri (.panic k) => s!"panic {k}"
  | .tri .oof => "err oof"
  | .panic => "panic index"

/-- `api2d <cav|rs> <f…> | <c…> | <intervals…> | compute xres yres interm maxrf maxint tol` -/
def drvApi2d (toks : List String) : String :=
  match toks with
  | kind :: rest =>
    match splitBars rest with
    | [f, c, iv, [ci, xr, yr, ic, mrf, mi, tol]] =>
      let cfg : Cfg2D Float := ⟨ci == "1", xr.toNat!, yr.toNat!, ic.toNat!, mrf.toNat!, mi.toNat!, hx tol⟩
      match displayCav2d kF (kind == "rs") (cps f) (cps c) (cps iv) cfg with
      | .ok ds => s!"ok {ds.length} " ++ " ".intercalate (ds.map dump2)
      | .error e => fmtApiErr e
    | _ => "bad-request"
  | _ => "bad-request"

def dump3 (d : Disp3D Float) : String :=
  let p2 (p : Float × Float) := [p.1, p.2]
  let p3 (p : Float × Float × Float) := [p.1, p.2.1, p.2.2]
  let tri := hl (p2 d.triag.1 ++ p2 d.triag.2.1 ++ p2 d.triag.2.2)
  let cur := " ".intercalate (d.curtains.map fun m => s!"{m.length}x{(m.headD []).length}:{hl (m.flatMap fun row => row.flatMap p3)}")
  let top := s!"{d.topMesh.length}x{(d.topMesh.headD []).length}:{hl (d.topMesh.flatMap fun row => row.flatMap p3)}"
  let bot := s!"{d.botMesh.length}x{(d.botMesh.headD []).length}:{hl (d.botMesh.flatMap fun row => row.flatMap p2)}"
  s!"[tri={tri} cur={cur} top={top} bot={bot} integ={fmtInteg d.integ}]"

/-- `api3d <f…> | <c1…> | <c2…> | <polygons…> | compute radial xres yres maxint tol` -/
def drvApi3d (toks : List String) : String :=
  match splitBars toks with
  | [f, c1, c2, ps, [ci, rr, xr, yr, mi, tol]] =>
    let cfg : Cfg3D Float := ⟨ci == "1", rr.toNat!, xr.toNat!, yr.toNat!, mi.toNat!, hx tol⟩
    match displayCav3d kF (cps f) (cps c1) (cps c2) (cps ps) cfg with
    | .ok ds => s!"ok {ds.length} " ++ " ".intercalate (ds.map dump3)
    | .error e => fmtApiErr e
  | _ => "bad-request"

/-- `split <f…> | x0 x1 … | tol maxrf` : `split_strictly_monotone` on an explicit grid -/
def drvSplit (toks : List String) : String :=
  match splitBars toks with
  | [f, xs, [tol, mrf]] =>
    match compile 1 (defaultCtx.insert "x" (.var 0)) (cps f) with
    | .error e => fmtCompile (.error e)
    | .ok t =>
      match splitStrictlyMonotone (closure1 kF t) (xs.map hx) (hx tol) mrf.toNat! with
      | .ok r => "ok " ++ " ".intercalate (r.map fx)
      | .error (.root e) => s!"err root {fmtSearch e}"
      | .error (.integ _) => "err integ"
  | _ => "bad-request"

/-- `splitt <f…> | <g…> | x0 x1 … | tol maxrf` : `split_translational` -/
def drvSplitT (toks : List String) : String :=
  match splitBars toks with
  | [f, g, xs, [tol, mrf]] =>
    let ctx := defaultCtx.insert "x" (.var 0)
    match compile 1 ctx (cps f), compile 1 ctx (cps g) with
    | .ok tf, .ok tg =>
      match splitTranslational (closure1 kF tf) (closure1 kF tg) (xs.map hx) (hx tol) mrf.toNat! with
      | .ok r => "ok " ++ " ".intercalate (r.map fx)
      | .error (.root e) => s!"err root {fmtSearch e}"
      | .error (.integ _) => "err integ"
    | _, _ => "err parsing"
  | _ => "bad-request"

end Cav.Drv
