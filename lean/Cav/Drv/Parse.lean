/- Driver streams for the parser / list / expression-evaluation models. -/
import Cav.Drv.Wire
import Cav.Model.Lists

namespace Cav.Drv
open Cav Gen

def hexStr (s : String) : String :=
  String.ofList ((s.splitOn ",").filterMap (fun t => if t.isEmpty then none else some (Char.ofNat (parseHex t).toNat)))

def cps (toks : List String) : List Char := toks.map (fun t => Char.ofNat (parseHex t).toNat)

/-- side information for evaluation: constant values and user-function aliases -/
structure CtxInfo where
  ctx : Ctx := []
  cval : List (String × Float) := []
  ualias : List (String × String) := []

def piF : Float := Float.ofBits 0x400921FB54442D18
def eF : Float := Float.ofBits 0x4005BF0A8B145769

/-- context spec tokens up to `|`: `D` | `v:<name>:<i>` | `c:<name>[:<bits>]` | `u:<name>[:<builtin>]`
    (names as comma-separated hex code points) -/
def parseCtx (toks : List String) : CtxInfo × List String := Id.run do
  let mut info : CtxInfo := {}
  let mut t := toks
  while true do
    match t with
    | "|" :: rest => t := rest; break
    | tok :: rest =>
      t := rest
      match tok.splitOn ":" with
      | ["D"] => info := { info with ctx := defaultCtx ++ info.ctx, cval := [("pi", piF), ("e", eF)] ++ info.cval }
      | ["v", n, i] => info := { info with ctx := info.ctx.insert (hexStr n) (.var i.toNat!) }
      | ["c", n] => info := { info with ctx := info.ctx.insert (hexStr n) .const }
      | ["c", n, b] => info := { info with ctx := info.ctx.insert (hexStr n) .const, cval := (hexStr n, hx b) :: info.cval }
      | ["u", n] => info := { info with ctx := info.ctx.insert (hexStr n) .uop }
      | ["u", n, al] => info := { info with ctx := info.ctx.insert (hexStr n) .uop, ualias := (hexStr n, al) :: info.ualias }
      | _ => pure ()
    | [] => break
  return (info, t)

def splitBar (toks : List String) : List String × List String :=
  (toks.takeWhile (· ≠ "|"), (toks.dropWhile (· ≠ "|")).drop 1)

def fmtCompile (r : Except CompileErr E) : String :=
  match r with
  | .ok t => s!"ok {t.sexp}"
  | .error .paramOOB => "err oob"
  | .error .parsing => "err parsing"
  | .error .residue => "err residue"
  | .error .outOfFuel => "err oof"

/-- `parse <arity> <ctx…> | <codepoints…>` -/
def drvParse (toks : List String) : String :=
  match toks with
  | ar :: rest =>
    let (info, src) := parseCtx rest
    fmtCompile (compile ar.toNat! info.ctx (cps src))
  | _ => "bad-request"

def envF (info : CtxInfo) : EnvF Float :=
  { cst := fun n => ((info.cval.find? (·.1 == n)).map (·.2)).getD nanF,
    ufn := fun n x =>
      match (info.ualias.find? (·.1 == n)).map (·.2) with
      | some al => match UFn.ofName al with | some f => f.applyF (fun _ y => y) x | none => x
      | none => x }

def envAD (info : CtxInfo) : EnvAD Float :=
  { cst := fun n => ((info.cval.find? (·.1 == n)).map (·.2)).getD nanF,
    ufn := fun n x =>
      match (info.ualias.find? (·.1 == n)).map (·.2) with
      | some al => match UFn.ofName al with | some f => f.applyAD (fun _ y => y) x | none => x
      | none => x }

/-- `evalf <arity> <ctx…> | <codepoints…> | x0 x1 …` → `ok <bits>` -/
def drvEvalF (toks : List String) : String :=
  match toks with
  | ar :: rest =>
    let (info, r2) := parseCtx rest
    let (src, vars) := splitBar r2
    match compile ar.toNat! info.ctx (cps src) with
    | .ok t =>
      match t.evalF (envF info) (vars.map hx) with
      | some v => s!"ok {fx v}"
      | none => "panic index"
    | .error e => fmtCompile (.error e)
  | _ => "bad-request"

/-- `evalad <arity> <ctx…> | <codepoints…> | x0 dx0 x1 dx1 …` → `ok <v> <d>` -/
def drvEvalAD (toks : List String) : String :=
  match toks with
  | ar :: rest =>
    let (info, r2) := parseCtx rest
    let (src, vars) := splitBar r2
    let rec pairs : List String → List (AD Float)
      | a :: b :: t => ⟨hx a, hx b⟩ :: pairs t
      | _ => []
    match compile ar.toNat! info.ctx (cps src) with
    | .ok t =>
      match t.evalAD (envAD info) (pairs vars) with
      | some v => s!"ok {fx v.v} {fx v.d}"
      | none => "panic index"
    | .error e => fmtCompile (.error e)
  | _ => "bad-request"

def fmtListErr : ListErr → String
  | .parsing => "err parsing" | .residue => "err residue" | .panic => "panic index" | .outOfFuel => "err oof"

def evalPair (info : CtxInfo) (p : E × E) : String :=
  let v (t : E) := match t.evalF (envF info) [] with | some x => fx x | none => "panic"
  s!"{v p.1},{v p.2}"

/-- `intervals <ctx…> | <codepoints…>` → `ok a,b a,b …` -/
def drvIntervals (toks : List String) : String :=
  let (info, src) := parseCtx toks
  match compileIntervalList info.ctx (cps src) with
  | .ok l => "ok " ++ " ".intercalate (l.map (evalPair info))
  | .error e => fmtListErr e

/-- `polygons <ctx…> | <codepoints…>` → `ok a,b;a,b;… a,b;…` -/
def drvPolygons (toks : List String) : String :=
  let (info, src) := parseCtx toks
  match compilePolygonSet info.ctx (cps src) with
  | .ok l => "ok " ++ " ".intercalate (l.map (fun poly => ";".intercalate (poly.map (evalPair info))))
  | .error e => fmtListErr e

/-- `ad <op> x dx [y dy | n]` : one generated AD primitive at Float -/
def drvAd (toks : List String) : String :=
  let out (r : AD Float) := s!"{fx r.v} {fx r.d}"
  match toks with
  | [op, x, dx] =>
    let a : AD Float := ⟨hx x, hx dx⟩
    match UFn.ofName op with
    | some f => out (f.applyAD (fun _ y => y) a)
    | none => if op == "neg" then out (AD.neg a) else "bad-op"
  | [op, x, dx, y, dy] =>
    let a : AD Float := ⟨hx x, hx dx⟩
    let b : AD Float := ⟨hx y, hx dy⟩
    match op with
    | "add" => out (AD.add a b) | "sub" => out (AD.sub a b) | "mul" => out (AD.mul a b)
    | "div" => out (AD.div a b) | "pow" => out (BA.powAD a b)
    | _ => "bad-op"
  | ["powi", x, dx, n] => out (BA.powiAD ⟨hx x, hx dx⟩ n.toInt!)
  | _ => "bad-request"

/-- `d1def a b x g0 g1`: the GENERATED trait defaults of `Differentiable1D` on the hand-written
    implementor `f t = sin(a t) + b t², df t = a cos(a t) + 2 b t` -/
def drvD1Def (toks : List String) : String :=
  match toks with
  | [a, b, x, g0, g1] =>
    let a := hx a; let b := hx b
    let f : Float → Float := fun t => Float.sin (a * t) + b * t * t
    let df : Float → Float := fun t => a * Float.cos (a * t) + 2.0 * b * t
    let p := D1.fdfDefault f df (hx x)
    let c := D1.compositionDefault f df (hx g0, hx g1)
    s!"{fx p.1} {fx p.2} {fx c.1} {fx c.2}"
  | _ => "bad-request"

end Cav.Drv
