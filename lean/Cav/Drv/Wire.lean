/- Wire helpers shared by all driver streams. -/
import Cav.Inst.Float
import Std.Data.HashMap

namespace Cav.Drv

def hexVal (c : Char) : Nat :=
  if '0' ≤ c ∧ c ≤ '9' then c.toNat - '0'.toNat
  else if 'a' ≤ c ∧ c ≤ 'f' then c.toNat - 'a'.toNat + 10
  else if 'A' ≤ c ∧ c ≤ 'F' then c.toNat - 'A'.toNat + 10
  else 0

def parseHex (s : String) : UInt64 :=
  (s.foldl (fun acc c => acc * 16 + hexVal c) 0).toUInt64

def hx (s : String) : Float := Float.ofBits (parseHex s)

def hexDigit (n : Nat) : Char :=
  if n < 10 then Char.ofNat ('0'.toNat + n) else Char.ofNat ('a'.toNat + n - 10)

def toHex16 (v : UInt64) : String :=
  let n := v.toNat
  String.ofList ((List.range 16).map (fun i => hexDigit ((n >>> (4 * (15 - i))) % 16)))

def fx (x : Float) : String := toHex16 x.toBits

/-- order-dependent hash of a sequence of bit patterns (FNV-1a style on 64-bit words) -/
def hashStep (h : UInt64) (w : UInt64) : UInt64 := (h ^^^ w) * 1099511628211
def hash0 : UInt64 := 14695981039346656037
def hashFloats (h : UInt64) (xs : List Float) : UInt64 := xs.foldl (fun h x => hashStep h x.toBits) h

def nanF : Float := 0.0 / 0.0

def parseMaxIter (s : String) : Option Nat := if s == "none" then none else s.toNat?

end Cav.Drv
