/- Driver streams for the quadrature models. -/
import Cav.Drv.Wire
import Cav.Model.Quad

namespace Cav.Drv
open Cav

def fmtRes (r : Except IntegErr (Float × Float)) : String :=
  match r with
  | .ok (v, e) => s!"ok {fx v} {fx e}"
  | .error .convergence => "err conv"
  | .error .nan => "err nan"

/-- pairs `x y x y …` into a lookup table keyed by the bits of `x` -/
def pairsMap (toks : List String) : Std.HashMap UInt64 Float := Id.run do
  let mut m : Std.HashMap UInt64 Float := {}
  let mut t := toks
  while true do
    match t with
    | x :: y :: rest => m := m.insert (parseHex x) (hx y); t := rest
    | _ => break
  return m

/-- `quad1d a b tol maxiter x y x y …` -/
def drvQuad1d (toks : List String) : String :=
  match toks with
  | a :: b :: tol :: mi :: rest =>
    let m := pairsMap rest
    let f : Float → Float := fun x => m.getD x.toBits nanF
    let o := gk1d f (hx a) (hx b) (hx tol) (parseMaxIter mi)
    let h := o.panels.foldl (fun h p => hashFloats h (panelAbscissae p.1 p.2)) hash0
    s!"{fmtRes o.res} panels {o.panels.length} hash {toHex16 h}"
  | _ => "bad-request"

/-- `panel a b x y …` : single `gk_approx` -/
def drvPanel (toks : List String) : String :=
  match toks with
  | a :: b :: rest =>
    let m := pairsMap rest
    let f : Float → Float := fun x => m.getD x.toBits nanF
    let r := gkApprox f (hx a) (hx b)
    s!"{fx r.1} {fx r.2}"
  | _ => "bad-request"

/-- triples `x y v …` keyed by both coordinates -/
def triplesMap (n : Nat) (toks : List String) : Std.HashMap (UInt64 × UInt64) Float × List String := Id.run do
  let mut m : Std.HashMap (UInt64 × UInt64) Float := {}
  let mut t := toks
  for _ in [0:n] do
    match t with
    | x :: y :: v :: rest => m := m.insert (parseHex x, parseHex y) (hx v); t := rest
    | _ => break
  return (m, t)

def abMap (n : Nat) (toks : List String) : Std.HashMap UInt64 (Float × Float) × List String := Id.run do
  let mut m : Std.HashMap UInt64 (Float × Float) := {}
  let mut t := toks
  for _ in [0:n] do
    match t with
    | x :: l :: u :: rest => m := m.insert (parseHex x) (hx l, hx u); t := rest
    | _ => break
  return (m, t)

def hashInner (h : UInt64) (c : InnerCall Float) : UInt64 :=
  -- inner_ab_fn(x) is called first, then f(x, y) for every abscissa of every inner panel
  let h := hashStep h c.x.toBits
  c.panels.foldl (fun h p =>
    (panelAbscissae p.1 p.2).foldl (fun h y => hashStep (hashStep h c.x.toBits) y.toBits) h) h

def hashOut2 (o : Out2 Float) : UInt64 × Nat :=
  o.panels.foldl (fun (h, n) p =>
    let h := p.2.2.1.foldl hashInner h
    let h := p.2.2.2.foldl hashInner h
    (h, n + p.2.2.1.length + p.2.2.2.length)) (hash0, 0)

/-- `quad2d a b tol maxiter nf nab  x y v …  x l u …` -/
def drvQuad2d (toks : List String) : String :=
  match toks with
  | a :: b :: tol :: mi :: nf :: nab :: rest =>
    let (fm, rest) := triplesMap nf.toNat! rest
    let (am, _) := abMap nab.toNat! rest
    let f : Float → Float → Float := fun x y => fm.getD (x.toBits, y.toBits) nanF
    let ab : Float → Float × Float := fun x => am.getD x.toBits (nanF, nanF)
    let o := gk2d f (hx a) (hx b) ab (hx tol) (parseMaxIter mi)
    let (h, n) := hashOut2 o
    s!"{fmtRes o.res} outer {o.panels.length} inner {n} hash {toHex16 h}"
  | _ => "bad-request"

/-- `tri x0 y0 x1 y1 x2 y2 tol maxiter nf  x y v …` (x,y are the *mapped* points handed to f) -/
def drvTri (toks : List String) : String :=
  match toks with
  | x0 :: y0 :: x1 :: y1 :: x2 :: y2 :: tol :: mi :: nf :: rest =>
    let (fm, _) := triplesMap nf.toNat! rest
    let f : Float → Float → Float := fun x y => fm.getD (x.toBits, y.toBits) nanF
    let o := gkTriangle f ((hx x0, hx y0), (hx x1, hx y1), (hx x2, hx y2)) (hx tol) (parseMaxIter mi)
    let (h, n) := hashOut2 o
    s!"{fmtRes o.res} outer {o.panels.length} inner {n} hash {toHex16 h}"
  | _ => "bad-request"

end Cav.Drv
