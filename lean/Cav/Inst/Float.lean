/-
  The executable instance of `Num`, used only by the driver `cavdrv` (correspondence).
  Nothing is proved about it; `Float` arithmetic is IEEE binary64 exactly as in Rust,
  the elementary functions end in the same system `libm`.
-/
import Cav.Num

namespace Cav

/-- C `log1p` (Rust `f64::ln_1p`). Compiled code only. -/
@[extern "log1p"] opaque floatLog1p : Float → Float

/-- C `hypot`. Compiled code only. -/
@[extern "hypot"] opaque floatHypot : Float → Float → Float

/-- `f64::copysign` -/
def floatCopysign (x s : Float) : Float :=
  Float.ofBits ((x.toBits &&& 0x7FFFFFFFFFFFFFFF) ||| (s.toBits &&& 0x8000000000000000))

/-- Rust 1.95 `f64::asinh` (std's own formula, not libm):
    `(ax + ax / (hypot(1, 1/ax) + 1/ax)).ln_1p().copysign(self)` -/
def floatAsinh (x : Float) : Float :=
  let ax := x.abs
  let ix := 1.0 / ax
  floatCopysign (floatLog1p (ax + (ax / (floatHypot 1.0 ix + ix)))) x

/-- Rust 1.95 `f64::acosh`: `if self < 1.0 { NAN } else { (self + ((self-1).sqrt() * (self+1).sqrt())).ln() }` -/
def floatAcosh (x : Float) : Float :=
  if x < 1.0 then (0.0 / 0.0) else Float.log (x + ((x - 1.0).sqrt * (x + 1.0).sqrt))

/-- Rust 1.95 `f64::atanh`: `0.5 * ((2.0 * self) / (1.0 - self)).ln_1p()` -/
def floatAtanh (x : Float) : Float :=
  0.5 * floatLog1p ((2.0 * x) / (1.0 - x))

/-- compiler-rt / compiler_builtins `__powidf2`, the routine behind `f64::powi`. -/
partial def floatPowiLoop (a : Float) (b : Nat) (r : Float) : Float :=
  let r := if b % 2 == 1 then r * a else r
  let b := b / 2
  if b == 0 then r else floatPowiLoop (a * a) b r

def floatPowi (a : Float) (n : Int) : Float :=
  let r := floatPowiLoop a n.natAbs 1.0
  if n < 0 then 1.0 / r else r

/-- key of `f64::total_cmp`: flip the magnitude bits of negative numbers, compare as `i64`. -/
def floatTotalKey (x : Float) : Int :=
  let b := x.toBits.toNat
  if b < 2 ^ 63 then (b : Int) else -((b - 2 ^ 63 : Nat) : Int) - 1

/-- Nearest binary64 to the non-negative rational `n / d` (round half to even), by exact
    integer arithmetic; this is what Rust's `str::parse::<f64>` computes. -/
def floatOfRatPos (n d : Nat) : Float :=
  if n == 0 then 0.0 else
  -- find e with 2^52 ≤ n / (d·2^e) < 2^53  (e may be negative)
  let ln := n.log2
  let ld := d.log2
  let e0 : Int := (ln : Int) - (ld : Int) - 52
  let scaled (e : Int) : Nat × Nat :=   -- numerator, denominator of n / (d·2^e)
    if e ≥ 0 then (n, d * 2 ^ e.toNat) else (n * 2 ^ (-e).toNat, d)
  let fix (e : Int) : Int :=
    let (a, b) := scaled e
    if a / b ≥ 2 ^ 53 then e + 1 else if a / b < 2 ^ 52 then e - 1 else e
  let e := fix (fix e0)
  -- subnormal range: exponent of the least significant bit is at least -1074
  let e := if e < -1074 then -1074 else e
  let (a, b) := scaled e
  let q := a / b
  let r := a % b
  let q := if 2 * r > b then q + 1 else if 2 * r == b then (if q % 2 == 1 then q + 1 else q) else q
  -- q·2^e, q ≤ 2^53
  if e > 971 then (1.0 / 0.0) else
  (Float.ofNat q).scaleB e

def floatOfDec (m : Nat) (e : Int) : Float :=
  -- out-of-range exponents are decided without building 10^|e| (m < 2^(log2 m + 1))
  if m == 0 then 0.0
  else if e > 400 then (1.0 / 0.0)
  else if e < -(400 + (m.log2 : Int)) then 0.0
  else if e ≥ 0 then floatOfRatPos (m * 10 ^ e.toNat) 1 else floatOfRatPos m (10 ^ (-e).toNat)

instance instNumFloat : Num Float where
  ofNat n := Float.ofNat n
  ofInt i := Float.ofInt i
  ofDec := floatOfDec
  abs := Float.abs
  lt a b := a < b
  le a b := a ≤ b
  beq a b := a == b
  isNaN := Float.isNaN
  isFinite := Float.isFinite
  signBit x := x.toBits >>> 63 != 0
  totalCmp a b := compare (floatTotalKey a) (floatTotalKey b)
  sqrt := Float.sqrt
  exp := Float.exp
  ln := Float.log
  ln1p := floatLog1p
  sin := Float.sin
  cos := Float.cos
  tan := Float.tan
  asin := Float.asin
  acos := Float.acos
  atan := Float.atan
  sinh := Float.sinh
  cosh := Float.cosh
  tanh := Float.tanh
  asinh := floatAsinh
  acosh := floatAcosh
  atanh := floatAtanh
  powf := Float.pow
  powi := floatPowi
  round := Float.round
  toNat x := x.toUSize.toNat
  inf := 1.0 / 0.0
  nan := 0.0 / 0.0

end Cav
