/-
  `XQ` = ℚ ∪ {−∞, +∞, NaN} with IEEE-754 special-value rules and EXACT finite arithmetic
  (DESIGN §1.2): the instance for theorems that are about NaN/∞ propagation, vertical-edge
  gradients and status honesty.  There is a single zero (no −0).
-/
import Cav.Num
import Cav.Inst.Rat

namespace Cav

inductive XQ where
  | nan
  | ninf
  | pinf
  | fin (q : Rat)
  deriving DecidableEq, Repr

namespace XQ

def neg : XQ → XQ
  | nan => nan | ninf => pinf | pinf => ninf | fin q => fin (-q)

def add : XQ → XQ → XQ
  | nan, _ => nan
  | _, nan => nan
  | pinf, ninf => nan
  | ninf, pinf => nan
  | pinf, _ => pinf
  | _, pinf => pinf
  | ninf, _ => ninf
  | _, ninf => ninf
  | fin a, fin b => fin (a + b)

def sub (a b : XQ) : XQ := add a (neg b)

/-- sign of a non-NaN value: -1, 0, 1 -/
def sgn : XQ → Int
  | nan => 0 | ninf => -1 | pinf => 1
  | fin q => if q < 0 then -1 else if q = 0 then 0 else 1

def ofSign (s : Int) : XQ := if s < 0 then ninf else pinf

def mul : XQ → XQ → XQ
  | nan, _ => nan
  | _, nan => nan
  | fin a, fin b => fin (a * b)
  | a, b => if sgn a = 0 || sgn b = 0 then nan else ofSign (sgn a * sgn b)

def div : XQ → XQ → XQ
  | nan, _ => nan
  | _, nan => nan
  | fin a, fin b =>
    if b = 0 then (if a = 0 then nan else ofSign (if a < 0 then -1 else 1))
    else fin (a / b)
  | fin _, _ => fin 0          -- finite / ±∞
  | a, fin b => ofSign (sgn a * (if b < 0 then -1 else 1))   -- ±∞ / finite (a zero divisor counts as +0)
  | _, _ => nan                -- ±∞ / ±∞

def lt : XQ → XQ → Bool
  | nan, _ => false
  | _, nan => false
  | ninf, ninf => false
  | ninf, _ => true
  | _, ninf => false
  | pinf, _ => false
  | _, pinf => true
  | fin a, fin b => decide (a < b)

def beq : XQ → XQ → Bool
  | nan, _ => false
  | _, nan => false
  | ninf, ninf => true
  | pinf, pinf => true
  | fin a, fin b => decide (a = b)
  | _, _ => false

def le (a b : XQ) : Bool := lt a b || beq a b

def abs : XQ → XQ
  | nan => nan | ninf => pinf | pinf => pinf | fin q => fin (if q < 0 then -q else q)

/-- `total_cmp` with NaN greatest (only the positive NaN is modelled) -/
def rank : XQ → Nat
  | ninf => 0 | fin _ => 1 | pinf => 2 | nan => 3

def totalCmp (a b : XQ) : Ordering :=
  match a, b with
  | fin x, fin y => if x < y then .lt else if y < x then .gt else .eq
  | _, _ => compare (rank a) (rank b)

def powNat (x : XQ) : Nat → XQ
  | 0 => fin 1
  | n + 1 => mul (powNat x n) x

end XQ

instance : Add XQ := ⟨XQ.add⟩
instance : Sub XQ := ⟨XQ.sub⟩
instance : Mul XQ := ⟨XQ.mul⟩
instance : Div XQ := ⟨XQ.div⟩
instance : Neg XQ := ⟨XQ.neg⟩

instance instNumXQ : Num XQ where
  ofNat n := .fin (n : Rat)
  ofInt i := .fin (i : Rat)
  ofDec m e := .fin ((m : Rat) * (10 : Rat) ^ e)
  abs := XQ.abs
  lt := XQ.lt
  le := XQ.le
  beq := XQ.beq
  isNaN x := x == .nan
  isFinite x := match x with | .fin _ => true | _ => false
  signBit x := match x with | .ninf => true | .fin q => decide (q < 0) | _ => false
  totalCmp := XQ.totalCmp
  sqrt _ := .nan
  exp _ := .nan
  ln _ := .nan
  ln1p _ := .nan
  sin _ := .nan
  cos _ := .nan
  tan _ := .nan
  asin _ := .nan
  acos _ := .nan
  atan _ := .nan
  sinh _ := .nan
  cosh _ := .nan
  tanh _ := .nan
  asinh _ := .nan
  acosh _ := .nan
  atanh _ := .nan
  powf _ _ := .nan
  powi x n := if n ≥ 0 then XQ.powNat x n.toNat else XQ.div (.fin 1) (XQ.powNat x (-n).toNat)
  round x := match x with | .fin q => .fin (ratRound q) | y => y
  toNat x := match x with | .fin q => q.floor.toNat | .pinf => 18446744073709551615 | _ => 0
  inf := .pinf
  nan := .nan

end Cav
