/-
  The exact instance of `Num` (DESIGN §1.2).  Transcendental operations are junk (`0`):
  no theorem over `Rat` uses a model path that touches them, and each theorem file says
  which operations its model path uses.
-/
import Cav.Num

namespace Cav

def ratRound (x : Rat) : Rat :=
  if x < 0 then -(((-x) + 1/2).floor : Int) else ((x + 1/2).floor : Int)

instance instNumRat : Num Rat where
  ofNat n := (n : Rat)
  ofInt i := (i : Rat)
  ofDec m e := (m : Rat) * (10 : Rat) ^ e
  abs x := if x < 0 then -x else x
  lt a b := decide (a < b)
  le a b := decide (a ≤ b)
  beq a b := decide (a = b)
  isNaN _ := false
  isFinite _ := true
  signBit x := decide (x < 0)
  totalCmp a b := if a < b then .lt else if b < a then .gt else .eq
  sqrt _ := 0
  exp _ := 0
  ln _ := 0
  ln1p _ := 0
  sin _ := 0
  cos _ := 0
  tan _ := 0
  asin _ := 0
  acos _ := 0
  atan _ := 0
  sinh _ := 0
  cosh _ := 0
  tanh _ := 0
  asinh _ := 0
  acosh _ := 0
  atanh _ := 0
  powf _ _ := 0
  powi x n := x ^ n
  round := ratRound
  toNat x := x.floor.toNat
  inf := 0
  nan := 0

end Cav
