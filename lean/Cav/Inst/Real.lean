/-
  The mathematical instance of `Num` (DESIGN §1.2): every field has its real-analysis
  meaning.  Noncomputable, proofs only.  The `Add/Sub/Mul/Div/Neg` parents are the
  standard Mathlib instances on `ℝ`, so `ring` / `field_simp` apply after unfolding.

  Junk conventions inherited from Mathlib (they matter only outside the domains stated in
  `Cav/Thm/C05.lean`): `x / 0 = 0`, `Real.log x = Real.log |x|`, `Real.log 0 = 0`,
  `Real.sqrt x = 0` for `x ≤ 0`, `Real.arcsin`/`arccos` clamp outside `[-1,1]`,
  `0 ^ (n : ℤ) = 0` for `n ≠ 0`, `inf = nan = 0`.
-/
import Cav.Num
import Mathlib.Analysis.SpecialFunctions.Trigonometric.Inverse
import Mathlib.Analysis.SpecialFunctions.Trigonometric.Arctan
import Mathlib.Analysis.SpecialFunctions.Arsinh
import Mathlib.Analysis.SpecialFunctions.Arcosh
import Mathlib.Analysis.SpecialFunctions.Artanh
import Mathlib.Analysis.SpecialFunctions.Pow.Real

namespace Cav

/-- `f64::round` (half away from zero) on `ℝ` -/
noncomputable def realRound (x : ℝ) : ℝ :=
  if x < 0 then -((⌊-x + 1 / 2⌋ : Int) : ℝ) else ((⌊x + 1 / 2⌋ : Int) : ℝ)

noncomputable instance instNumReal : Num ℝ where
  toAdd := inferInstance
  toSub := inferInstance
  toMul := inferInstance
  toDiv := inferInstance
  toNeg := inferInstance
  ofNat n := (n : ℝ)
  ofInt i := (i : ℝ)
  ofDec m e := (m : ℝ) * (10 : ℝ) ^ e
  abs x := |x|
  lt a b := decide (a < b)
  le a b := decide (a ≤ b)
  beq a b := decide (a = b)
  isNaN _ := false
  isFinite _ := true
  signBit x := decide (x < 0)
  totalCmp a b := if a < b then .lt else if b < a then .gt else .eq
  sqrt := Real.sqrt
  exp := Real.exp
  ln := Real.log
  ln1p x := Real.log (1 + x)
  sin := Real.sin
  cos := Real.cos
  tan := Real.tan
  asin := Real.arcsin
  acos := Real.arccos
  atan := Real.arctan
  sinh := Real.sinh
  cosh := Real.cosh
  tanh := Real.tanh
  asinh := Real.arsinh
  acosh := Real.arcosh
  atanh := Real.artanh
  powf x y := x ^ y
  powi x n := x ^ n
  round := realRound
  toNat x := ⌊x⌋₊
  inf := 0
  nan := 0

end Cav
