/-
  The numeric class every executable model in `Cav/Model` and every generated file in
  `Cav/Gen` is written against (DESIGN §1.2).

  One model text, several instances:
    * `Float`  (Cav/Inst/Float.lean)  – executable, used only by the driver `cavdrv`
    * `Rat`    (Cav/Inst/Rat.lean)    – exact, executable and provable
    * `Real`   (Cav/Inst/Real.lean)   – noncomputable, proofs only (Mathlib)

  The field names follow the Rust `f64` method they stand for.  Nothing here imports
  anything outside core Lean, so the driver links.
-/

/-- The operations of Rust's `f64` that `cavint` uses. -/
class Num (α : Type) extends Add α, Sub α, Mul α, Div α, Neg α where
  /-- `n as f64` for a `usize`/`i32` that is exactly representable -/
  ofNat : Nat → α
  ofInt : Int → α
  /-- decimal literal `m · 10^e` (correctly rounded in the `Float` instance) -/
  ofDec : Nat → Int → α
  abs : α → α
  /-- IEEE `<`, `<=`, `==` (all false when an argument is NaN; `-0 == +0`) -/
  lt : α → α → Bool
  le : α → α → Bool
  beq : α → α → Bool
  isNaN : α → Bool
  isFinite : α → Bool
  /-- `f64::is_sign_negative` (the IEEE sign bit) -/
  signBit : α → Bool
  /-- `f64::total_cmp` -/
  totalCmp : α → α → Ordering
  sqrt : α → α
  exp : α → α
  ln : α → α
  ln1p : α → α
  sin : α → α
  cos : α → α
  tan : α → α
  asin : α → α
  acos : α → α
  atan : α → α
  sinh : α → α
  cosh : α → α
  tanh : α → α
  asinh : α → α
  acosh : α → α
  atanh : α → α
  powf : α → α → α
  powi : α → Int → α
  /-- `f64::round` (half away from zero) -/
  round : α → α
  /-- `x as usize` (saturating, NaN ↦ 0) -/
  toNat : α → Nat
  inf : α
  nan : α

namespace Num
variable {α : Type} [Num α]

@[inline] def zero : α := Num.ofNat 0
@[inline] def one : α := Num.ofNat 1
@[inline] def two : α := Num.ofNat 2

/-- `a > b` in IEEE semantics. -/
@[inline] def gt (a b : α) : Bool := Num.lt b a
/-- `a >= b` in IEEE semantics. -/
@[inline] def ge (a b : α) : Bool := Num.le b a
/-- `a != b` in IEEE semantics (true when an argument is NaN). -/
@[inline] def bne (a b : α) : Bool := !(Num.beq a b)

/-- `f64::partial_cmp`. -/
def partialCmp (a b : α) : Option Ordering :=
  if Num.lt a b then some .lt
  else if Num.lt b a then some .gt
  else if Num.beq a b then some .eq
  else none

/-- `Signed::sign_val` for `f64` (`src/core/helpers.rs`): NaN ↦ NaN, sign bit clear ↦ 1,
    sign bit set ↦ -1.  `Sign::ZERO` is unreachable in the source; the branch order is
    tied to the source by `Gen/Shape.lean`. -/
def signVal (x : α) : α :=
  if Num.isNaN x then Num.nan
  else if !(Num.signBit x) then one
  else -one

/-- `f64::signum`: NaN ↦ NaN, else ±1 by sign bit. -/
def signum (x : α) : α :=
  if Num.isNaN x then Num.nan
  else if Num.signBit x then -one else one

/-- `OrderedFloat::ge` (ordered-float 3.9.2): `self.0.is_nan() | (self.0 >= other.0)`. -/
@[inline] def ofGe (a b : α) : Bool := Num.isNaN a || Num.le b a
@[inline] def ofLt (a b : α) : Bool := !(ofGe a b)
@[inline] def ofLe (a b : α) : Bool := ofGe b a
@[inline] def ofGt (a b : α) : Bool := !(ofGe b a)

/-- `OrderedFloat::cmp`: NaN is greatest and equal to itself; `-0 == +0`. -/
def ofCmp (a b : α) : Ordering :=
  if ofLt a b then .lt else if ofGt a b then .gt else .eq

/-- `OrderedFloat::eq`. -/
def ofEq (a b : α) : Bool :=
  if Num.isNaN a then Num.isNaN b else Num.beq a b

end Num
