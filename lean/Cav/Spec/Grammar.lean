/-
  The grammar the parser theorems are stated against (DESIGN Appendix B), as inductive
  relations between a tree and the character strings that denote it — after deletion of all
  whitespace.  It is written top-down as a conventional expression grammar and does not
  mention the parser:

    expr    ::= mterm(neg ok)  { ('+' | '-') mterm(no neg) }*          left-associative
    mterm a ::= term a         { ('*' | '/') term(neg ok) }*            left-associative
    term a  ::= ['-' if a] power
    power   ::= atom [ '^' term(neg ok) | '**' i32 ]                    '^' right-associative,
                                                                         binds tighter than unary '-'
    atom    ::= '(' expr ')' | number | fname '(' expr ')' | cname | vname

  `Prints ctx t s` (= `PExpr`) is the FULL language (it includes the forms the code accepts
  beyond the conventional ones: a '+' in front of a number, `5.`, `.5`, `inf`, `nan`);
  `Conv t` singles out the conventional trees/renderings used by C06.

  The tokens are maximal: in a string of the language a name or a number word (`inf`, `nan`) is
  never directly followed by a further letter, simply because an atom is followed by an operator,
  a closing parenthesis or the end of the text.  The code agrees with this since the repair of
  `parse_const` (a number word directly followed by a letter is not a number), so the language is
  the accepted language for every context in which no registered name is itself `inf` or `nan`
  (`CtxOK'` below).
-/
import Cav.Model.Parse

namespace Cav.Grammar
open Cav

/-- non-empty string of ASCII digits -/
def Digits (s : List Char) : Prop := s ≠ [] ∧ ∀ c ∈ s, isDigit c = true

/-- decimal part: `digits [ '.' digits? ] | '.' digits` with value `m` and `fd` fraction digits -/
inductive Mantissa : Nat → Nat → List Char → Prop where
  | int (ip : List Char) : Digits ip → Mantissa (digitsVal ip) 0 ip
  | intDot (ip : List Char) : Digits ip → Mantissa (digitsVal ip) 0 (ip ++ ['.'])
  | intFrac (ip fp : List Char) : Digits ip → Digits fp →
      Mantissa (digitsVal (ip ++ fp)) fp.length (ip ++ '.' :: fp)
  | frac (fp : List Char) : Digits fp → Mantissa (digitsVal fp) fp.length ('.' :: fp)

/-- optional exponent part with value `ev` -/
inductive Exponent : Int → List Char → Prop where
  | none : Exponent 0 []
  | pos (c : Char) (ed : List Char) : (c = 'e' ∨ c = 'E') → Digits ed → Exponent (digitsVal ed) (c :: ed)
  | plus (c : Char) (ed : List Char) : (c = 'e' ∨ c = 'E') → Digits ed → Exponent (digitsVal ed) (c :: '+' :: ed)
  | minus (c : Char) (ed : List Char) : (c = 'e' ∨ c = 'E') → Digits ed → Exponent (-(digitsVal ed : Int)) (c :: '-' :: ed)

/-- number leaf: unsigned or '+'-signed decimal with optional exponent, or `nan` / `inf` in any case -/
inductive NumLeaf : E → List Char → Prop where
  | dec (m fd : Nat) (ev : Int) (ms es : List Char) :
      Mantissa m fd ms → Exponent ev es → NumLeaf (.lit m (ev - fd)) (ms ++ es)
  | plusDec (m fd : Nat) (ev : Int) (ms es : List Char) :
      Mantissa m fd ms → Exponent ev es → NumLeaf (.lit m (ev - fd)) ('+' :: ms ++ es)
  | nan (s : List Char) : s.map lower = ['n', 'a', 'n'] → NumLeaf .litNan s
  | inf (s : List Char) : s.map lower = ['i', 'n', 'f'] → NumLeaf .litInf s

/-- integer exponent of `**`: optional sign, digits, value within `i32` -/
inductive I32Text : Int → List Char → Prop where
  | pos (ds : List Char) : Digits ds → (digitsVal ds : Int) ≤ 2147483647 → I32Text (digitsVal ds) ds
  | plus (ds : List Char) : Digits ds → (digitsVal ds : Int) ≤ 2147483647 → I32Text (digitsVal ds) ('+' :: ds)
  | minus (ds : List Char) : Digits ds → (digitsVal ds : Int) ≤ 2147483648 → I32Text (-(digitsVal ds : Int)) ('-' :: ds)

/-- a name as the lexer sees it: non-empty, ASCII letters only -/
def IsName (n : List Char) : Prop := n ≠ [] ∧ ∀ c ∈ n, isAlpha c = true

mutual

/-- additive level -/
inductive PExpr (ctx : Ctx) : E → List Char → Prop where
  | add {l r : E} {s1 s2 : List Char} :
      PExpr ctx l s1 → PMul ctx false r s2 → PExpr ctx (.bin .add l r) (s1 ++ '+' :: s2)
  | sub {l r : E} {s1 s2 : List Char} :
      PExpr ctx l s1 → PMul ctx false r s2 → PExpr ctx (.bin .sub l r) (s1 ++ '-' :: s2)
  | up {t : E} {s : List Char} : PMul ctx true t s → PExpr ctx t s

/-- multiplicative level; the flag says whether the FIRST factor may carry a unary minus -/
inductive PMul (ctx : Ctx) : Bool → E → List Char → Prop where
  | mul {a : Bool} {l r : E} {s1 s2 : List Char} :
      PMul ctx a l s1 → PTerm ctx true r s2 → PMul ctx a (.bin .mul l r) (s1 ++ '*' :: s2)
  | div {a : Bool} {l r : E} {s1 s2 : List Char} :
      PMul ctx a l s1 → PTerm ctx true r s2 → PMul ctx a (.bin .div l r) (s1 ++ '/' :: s2)
  | up {a : Bool} {t : E} {s : List Char} : PTerm ctx a t s → PMul ctx a t s

/-- optionally negated power term; the minus applies to the whole power term -/
inductive PTerm (ctx : Ctx) : Bool → E → List Char → Prop where
  | neg {t : E} {s : List Char} : PPow ctx t s → PTerm ctx true (.un .neg t) ('-' :: s)
  | pos {a : Bool} {t : E} {s : List Char} : PPow ctx t s → PTerm ctx a t s

/-- power term: `^` is right-recursive through a (possibly negated) term; `**` takes an `i32` -/
inductive PPow (ctx : Ctx) : E → List Char → Prop where
  | pow {b e : E} {s1 s2 : List Char} :
      PAtom ctx b s1 → PTerm ctx true e s2 → PPow ctx (.bin .pow b e) (s1 ++ '^' :: s2)
  | powi {b : E} {n : Int} {s1 s2 : List Char} :
      PAtom ctx b s1 → I32Text n s2 → PPow ctx (.powi b n) (s1 ++ '*' :: '*' :: s2)
  | up {t : E} {s : List Char} : PAtom ctx t s → PPow ctx t s

/-- atoms -/
inductive PAtom (ctx : Ctx) : E → List Char → Prop where
  | paren {t : E} {s : List Char} : PExpr ctx t s → PAtom ctx t ('(' :: s ++ [')'])
  | num {t : E} {s : List Char} : NumLeaf t s → PAtom ctx t s
  | call {n : List Char} {t : E} {s : List Char} :
      IsName n → ctx.get (String.ofList n) = some .uop → PExpr ctx t s →
      PAtom ctx (.un ((UFn.ofName (String.ofList n)).getD (.user (String.ofList n))) t) (n ++ '(' :: s ++ [')'])
  | cst {n : List Char} : IsName n → ctx.get (String.ofList n) = some .const →
      PAtom ctx (.cst (String.ofList n)) n
  | var {n : List Char} {i : Nat} : IsName n → ctx.get (String.ofList n) = some (.var i) →
      PAtom ctx (.var i) n

end

/-- the language of `compile_expression` after whitespace removal -/
abbrev Prints (ctx : Ctx) (t : E) (s : List Char) : Prop := PExpr ctx t s

/-- the side condition of completeness (`Thm/C06Print.parse_print`): the context passes the arity
    check of `compile_expression`, and no registered name IS one of the two number words `nan`,
    `inf` (in any case).  Such a name would make the grammar ambiguous — `inf` would be both a
    number leaf and a name — and the code resolves it in favour of the number.

    Names that merely START with such a word (`info`, `nano`, `infinity`, `nanometre`) are fine
    since the repair of `parse_const`: `nom`'s `double` still consumes the word, but the result is
    discarded when the consumed text ends with a letter and a letter follows, so the whole name
    reaches `parse_func` / `parse_var`.  The relations above need no side condition for that:
    in a string of the language a number word is never followed by a letter, because whatever
    follows an atom is an operator, a closing parenthesis or the end of the text
    (`Lemmas/GrammarRuns.prints_letter_runs`: every maximal letter run of a string of the
    language is one complete token). -/
def CtxOK' (arity : Nat) (ctx : Ctx) : Prop :=
  (∀ p ∈ ctx, ∀ i, p.2 = .var i → i < arity) ∧
  (∀ p ∈ ctx, p.1.toList.map lower ≠ ['n', 'a', 'n'] ∧ p.1.toList.map lower ≠ ['i', 'n', 'f'])

/-- the side condition that was needed BEFORE the repair of `parse_const` (kept for reference; it
    implies `CtxOK'`, `Thm/C06Print.ctxOK_weaken`): `double` was tried before names and its word
    match was final, so a registered name was shadowed as soon as it STARTED (case-insensitively)
    with `nan` or `inf` -/
def CtxOK (arity : Nat) (ctx : Ctx) : Prop :=
  (∀ p ∈ ctx, ∀ i, p.2 = .var i → i < arity) ∧
  (∀ p ∈ ctx, (p.1.toList.take 3).map lower ≠ ['n', 'a', 'n'] ∧ (p.1.toList.take 3).map lower ≠ ['i', 'n', 'f'])

end Cav.Grammar
