import Cav.Num
import Cav.Inst.Rat
import Cav.Inst.Float
