import sys, re, subprocess, json
sys.path.insert(0,'/tmp/ag_tri3')
import gen_v
from gen_flows import FLOWS
name = sys.argv[1]
extra = []
for it in range(20):
    body = gen_v.vflow(name, extra)[1]
    path = f'/tmp/ag_tri3/lean/Scratch/V_{name}.lean'
    open(path,'w').write(gen_v.HDR.replace("RING",FLOWS[name]['ring']) + body + "\nend Cav.QuadVEvents\n")
    r = subprocess.run(['lake','env','lean',path], cwd='/tmp/ag_tri3/lean', capture_output=True, text=True)
    out = r.stdout + r.stderr
    if 'error' not in out:
        print(name, "DONE", json.dumps(extra)); break
    txt = re.sub(r'\s+', ' ', out)
    m = re.search(r'\(if ((?:vcP|wobP|wotP) [^=]*?) = true then', txt)
    if not m:
        print(name, "STUCK without mirror condition; extra so far:", json.dumps(extra))
        open(f'/tmp/ag_tri3/stuck_{name}.txt','w').write(out[:6000])
        break
    h = m.group(1).strip() + " = false"
    if h in extra:
        print(name, "LOOP on", h); open(f'/tmp/ag_tri3/stuck_{name}.txt','w').write(out[:6000]); break
    extra.append(h)
    print(name, "add", h, flush=True)
