import itertools
names = open('/tmp/ag_bowtie/gen/ord4_names.txt').read().strip()
def classify(perm):
    i1,i2,i3,i4 = perm
    if (i4 - i1) % 4 == 2:
        ring='O'; canon=(i1,i2,i4,i3); ori = ((i1-1)%4 == i2)
    elif (i2 - i1) % 4 in (1,3) and (i2 - i1) % 4 != (i4 - i1) % 4:
        ring='A'; canon=(i1,i2,i3,i4); ori = ((i1-1)%4 == i4)
    else:
        ring='Z'; canon=(i1,i3,i2,i4); ori = ((i1-1)%4 == i4)
    return ring, canon, ori
def kinds(perm, ring):
    i1,i2,i3,i4 = perm
    k = {i1:'.start', i4:'.end_'}
    if ring=='Z': k[i2]='.start'; k[i3]='.end_'
    else: k[i2]='.bend'; k[i3]='.bend'
    return [k[j] for j in range(4)]
def evs(perm, ring):
    i1,i2,i3,i4 = perm
    return f"[({i1}, []), ({i2}, [])]" if ring=='Z' else f"[({i1}, [])]"
hdr = open('/tmp/ag_bowtie/gen/c16quad_header.txt').read()
cases = []
pats = []
for perm in itertools.permutations(range(4)):
    i1,i2,i3,i4 = perm
    ring, canon, ori = classify(perm)
    ks = kinds(perm, ring)
    pats.append(f"(i1 = {i1} ∧ i2 = {i2} ∧ i3 = {i3} ∧ i4 = {i4})")
    cq = " ".join(f"(P {j})" for j in canon)
    simpset = f"fromTriplet, Pt.lt, Pt.gt, {names}"
    what = "second Start" if ring == 'Z' else "Bend"
    cases.append(f'''  · -- abscissae in the order of the input positions {perm}: ring `{ring}`, `P {i2}` is a {what}
    obtain ⟨{names}⟩ := ord4_fin (P {i1}) (P {i2}) (P {i3}) (P {i4}) h12 h23 h34
    have hbq : BowTie {cq} := by sym8 hb
    have hr := ring{ring}_bow {str(ori).lower()}
      (ringQ (Fq (P 0)) (Fq (P 1)) (Fq (P 2)) (Fq (P 3))) {i1} {i2} {i3} {i4} (P {i1}) (P {i2}) (P {i3}) (P {i4})
      rfl rfl rfl rfl h12 h23 h34 hbq
    have hsetup := setup_quad (Fq (P 0)) (Fq (P 1)) (Fq (P 2)) (Fq (P 3)) {evs(perm,ring)} {ks[0]} {ks[1]} {ks[2]} {ks[3]}
      (validPt_fq _ _ (by simp)) (validPt_fq _ _ (by simp [{names}]))
      (validPt_fq _ _ (by simp [{names}])) (validPt_fq _ _ (by simp [{names}]))
      (by simp [{simpset}]) (by simp [{simpset}]) (by simp [{simpset}]) (by simp [{simpset}])
      (by simp [{names}])
    exact ⟨sweep_quad_err hsetup hr, sweepMon_quad_err hsetup hr⟩''')
isperm = f'''/-- `i1 i2 i3 i4` is a permutation of `0 1 2 3` -/
def IsPerm4 (i1 i2 i3 i4 : Nat) : Prop :=
  {(" ∨"+chr(10)+"    ").join(pats)}

'''
thm = isperm + f'''/-- the bow-tie with corners `P 0, P 1, P 2, P 3` (input order) whose abscissae increase along
    the input positions `i1, i2, i3, i4`: the overlap is reported at the vertex `P i2` with the
    second smallest abscissa, by the Bend handler if `P i2` is a ring neighbour of the leftmost
    vertex `P i1` (positions of different parity), else by the Start handler -/
theorem bowtie_sorted (P : Nat → Rat × Rat) (i1 i2 i3 i4 : Nat)
    (hperm : IsPerm4 i1 i2 i3 i4)
    (h12 : (P i1).1 < (P i2).1) (h23 : (P i2).1 < (P i3).1) (h34 : (P i3).1 < (P i4).1)
    (hb : BowTie (P 0) (P 1) (P 2) (P 3)) :
    sweep [#[Fq (P 0), Fq (P 1), Fq (P 2), Fq (P 3)]] =
        .error (.overlap (if (i1 + i2) % 2 = 1 then .bend else .start) (Fq (P i2))) ∧
      sweepMon [#[Fq (P 0), Fq (P 1), Fq (P 2), Fq (P 3)]] =
        .error (.overlap (if (i1 + i2) % 2 = 1 then .bend else .start) (Fq (P i2))) := by
  unfold IsPerm4 at hperm
  rcases hperm with {" | ".join("⟨rfl, rfl, rfl, rfl⟩" for _ in pats)}
{chr(10).join(cases)}
'''
perms = list(itertools.permutations(range(4)))
def pair(i,j): return f"h{min(i,j)}{max(i,j)}"
pairs = [(0,1),(0,2),(0,3),(1,2),(1,3),(2,3)]
def leaf(dirs):
    less = lambda i,j: dirs[(i,j)] if i<j else not dirs[(j,i)]
    for perm in itertools.permutations(range(4)):
        if all(less(perm[k],perm[l]) for k in range(4) for l in range(k+1,4)):
            return f"exact key {perm[0]} {perm[1]} {perm[2]} {perm[3]} (by simp [IsPerm4]) {pair(perm[0],perm[1])} {pair(perm[1],perm[2])} {pair(perm[2],perm[3])}"
    return "exfalso; linarith"
def build(k, dirs, indent):
    if k==6: return " "*indent + leaf(dirs) + "\n"
    i,j = pairs[k]
    out = " "*indent + f"rcases lt_or_gt_of_ne n{i}{j} with h{i}{j} | h{i}{j}\n"
    for v in (True, False):
        d = dict(dirs); d[(i,j)] = v
        sub = build(k+1, d, indent+2)
        lines = sub.split("\n")
        lines[0] = " "*indent + "· " + lines[0].lstrip()
        out += "\n".join(lines)
    return out
tree = build(0, {}, 2).rstrip("\n")
final = open('/tmp/ag_bowtie/gen/c16quad_footer.txt').read().replace("@@TREE@@", tree).replace("@@RFLS@@", " | ".join("⟨rfl, rfl, rfl, rfl⟩" for _ in pats))
open('/tmp/ag_bowtie/lean/Cav/Thm/C16Quad.lean','w').write(hdr + thm + final)
