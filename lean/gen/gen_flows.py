import re
def E(a,b,c,d,x,o): return f"cmpEdgeP {a} {b} {c} {d} {x}.x = .{o}"
ringO = [("i2","i3"),("i4","i1"),("i1","i4"),("i3","i2")]
ringA = [("i4","i2"),("i1","i3"),("i2","i4"),("i3","i1")]
ringZ = [("i4","i3"),("i3","i4"),("i1","i2"),("i2","i1")]
FLOWS = {}
FLOWS['Oa'] = dict(ring='O', nb=ringO, evs="[(i1, [])]", signs={'123':'+','234':'-'},
  hyps=["cmpEdgeP p1 p2 p1 p3 p1.x = .lt", "cmpEdgeP p1 p3 p1 p2 p1.x = .gt",
   "cmpAtP p2 p4 p1 p3 p3.x true = .lt", "clockwiseSign p2 p1 p3 = .c",
   "ofLt (yExtrap p3 p4 p4.x true) (yExtrap p2 p4 p4.x true) = false",
   "ofGe (p2.grad p4) (p3.grad p4) = true", "cmpEdgeP p2 p4 p3 p4 p3.x = .lt",
   "clockwiseSign p2 p3 p4 = .c"], outs=[('p2','p3','p4'),('p2','p1','p3')])
FLOWS['Ob'] = dict(ring='O', nb=ringO, evs="[(i1, [])]", signs={'123':'-','234':'+'},
  hyps=["cmpEdgeP p1 p3 p1 p2 p1.x = .lt", "cmpEdgeP p1 p2 p1 p3 p1.x = .gt",
   "cmpAtP p2 p4 p1 p3 p3.x true = .gt", "clockwiseSign p3 p1 p2 = .c",
   "ofGt (yExtrap p3 p4 p4.x true) (yExtrap p2 p4 p4.x true) = false",
   "ofGe (p2.grad p4) (p3.grad p4) = false", "cmpEdgeP p3 p4 p2 p4 p3.x = .lt",
   "clockwiseSign p3 p2 p4 = .c"], outs=[('p3','p2','p4'),('p3','p1','p2')])
FLOWS['At'] = dict(ring='A', nb=ringA, evs="[(i1, [])]", signs={'124':'-','134':'-','123':'-'},
  hyps=["cmpEdgeP p1 p4 p1 p2 p1.x = .lt", "cmpEdgeP p1 p2 p1 p4 p1.x = .gt",
   "cmpAtP p2 p3 p1 p4 p3.x true = .gt", "clockwiseSign p1 p2 p3 = .c",
   "ofLt (yExtrap p3 p4 p4.x true) (yExtrap p1 p4 p4.x true) = false",
   "ofGe (p1.grad p4) (p3.grad p4) = true", "cmpEdgeP p1 p4 p3 p4 p3.x = .lt",
   "clockwiseSign p1 p3 p4 = .c"], outs=[('p1','p3','p4'),('p1','p2','p3')])
FLOWS['Atr'] = dict(ring='A', nb=ringA, evs="[(i1, [])]", signs={'124':'-','134':'-','123':'+','234':'-'},
  hyps=["cmpEdgeP p1 p4 p1 p2 p1.x = .lt", "cmpEdgeP p1 p2 p1 p4 p1.x = .gt",
   "cmpAtP p2 p3 p1 p4 p3.x true = .gt", "clockwiseSign p1 p2 p3 = .cc",
   "ofLt (yExtrap p3 p4 p4.x true) (yExtrap p1 p4 p4.x true) = false",
   "ofGe (p1.grad p4) (p3.grad p4) = true", "cmpEdgeP p1 p4 p3 p4 p3.x = .lt",
   "clockwiseSign p2 p3 p4 = .c", "clockwiseSign p1 p2 p4 = .c"], outs=[('p1','p2','p4'),('p2','p3','p4')])
FLOWS['Ab'] = dict(ring='A', nb=ringA, evs="[(i1, [])]", signs={'124':'+','134':'+','123':'+'},
  hyps=["cmpEdgeP p1 p2 p1 p4 p1.x = .lt", "cmpEdgeP p1 p4 p1 p2 p1.x = .gt",
   "cmpAtP p2 p3 p1 p4 p3.x true = .lt", "clockwiseSign p3 p2 p1 = .c",
   "ofGt (yExtrap p3 p4 p4.x true) (yExtrap p1 p4 p4.x true) = false",
   "ofGe (p1.grad p4) (p3.grad p4) = false", "cmpEdgeP p3 p4 p1 p4 p3.x = .lt",
   "clockwiseSign p3 p1 p4 = .c"], outs=[('p3','p1','p4'),('p3','p2','p1')])
FLOWS['Abr'] = dict(ring='A', nb=ringA, evs="[(i1, [])]", signs={'124':'+','134':'+','123':'-','234':'+'},
  hyps=["cmpEdgeP p1 p2 p1 p4 p1.x = .lt", "cmpEdgeP p1 p4 p1 p2 p1.x = .gt",
   "cmpAtP p2 p3 p1 p4 p3.x true = .lt", "clockwiseSign p3 p2 p1 = .cc",
   "ofGt (yExtrap p3 p4 p4.x true) (yExtrap p1 p4 p4.x true) = false",
   "ofGe (p1.grad p4) (p3.grad p4) = false", "cmpEdgeP p3 p4 p1 p4 p3.x = .lt",
   "clockwiseSign p2 p1 p4 = .c", "clockwiseSign p3 p2 p4 = .c"], outs=[('p3','p2','p4'),('p2','p1','p4')])
FLOWS['Zia'] = dict(ring='Z', nb=ringZ, evs="[(i1, []), (i2, [])]", signs={'134':'-','124':'-','123':'+','234':'-'},
  hyps=[E('p1','p4','p1','p3','p1','lt'), E('p1','p3','p1','p4','p1','gt'),
   E('p2','p4','p2','p3','p2','lt'), E('p2','p3','p2','p4','p2','gt'),
   E('p2','p4','p1','p4','p2','gt'), E('p2','p4','p1','p3','p2','lt'),
   E('p2','p3','p1','p4','p2','gt'), E('p2','p3','p1','p3','p2','lt'),
   E('p1','p4','p1','p3','p2','lt'), E('p1','p3','p1','p4','p2','gt'),
   "partialCmpEdgeP p1 p4 p1 p3 p2.x = some .lt",
   "ofLt (yExtrap p2 p4 p4.x true) (yExtrap p1 p4 p4.x true) = false",
   "ofGt (yExtrap p2 p3 p3.x true) (yExtrap p1 p3 p3.x true) = false",
   "ofGe (p1.grad p3) (p2.grad p3) = false",
   E('p1','p3','p2','p4','p2','gt'),
   "clockwiseSign p2 p1 p3 = .c",
   "ofGe (p1.grad p4) (p2.grad p4) = true",
   E('p1','p4','p2','p4','p3','lt'),
   "clockwiseSign p1 p2 p4 = .c"], outs=[('p1','p2','p4'),('p2','p1','p3')])
FLOWS['Zib'] = dict(ring='Z', nb=ringZ, evs="[(i1, []), (i2, [])]", signs={'134':'+','124':'+','123':'-','234':'+'},
  hyps=[E('p1','p3','p1','p4','p1','lt'), E('p1','p4','p1','p3','p1','gt'),
   E('p2','p3','p2','p4','p2','lt'), E('p2','p4','p2','p3','p2','gt'),
   E('p2','p3','p1','p3','p2','gt'), E('p2','p3','p1','p4','p2','lt'),
   E('p2','p4','p1','p3','p2','gt'), E('p2','p4','p1','p4','p2','lt'),
   E('p1','p3','p1','p4','p2','lt'), E('p1','p4','p1','p3','p2','gt'),
   "partialCmpEdgeP p1 p3 p1 p4 p2.x = some .lt",
   "ofLt (yExtrap p2 p3 p3.x true) (yExtrap p1 p3 p3.x true) = false",
   "ofGt (yExtrap p2 p4 p4.x true) (yExtrap p1 p4 p4.x true) = false",
   "ofGe (p1.grad p3) (p2.grad p3) = true",
   E('p1','p3','p2','p3','p2','lt'), E('p1','p3','p2','p4','p2','lt'),
   "clockwiseSign p1 p2 p3 = .c",
   "ofGe (p1.grad p4) (p2.grad p4) = false",
   E('p2','p4','p1','p4','p3','lt'),
   "clockwiseSign p2 p1 p4 = .c"], outs=[('p2','p1','p4'),('p1','p2','p3')])
FLOWS['Zab'] = dict(ring='Z', nb=ringZ, evs="[(i1, []), (i2, [])]", signs={'134':'-','123':'-','234':'+','124':'-'},
  hyps=[E('p1','p4','p1','p3','p1','lt'), E('p1','p3','p1','p4','p1','gt'),
   E('p2','p3','p2','p4','p2','lt'), E('p2','p4','p2','p3','p2','gt'),
   E('p2','p3','p1','p4','p2','gt'), E('p2','p3','p1','p3','p2','gt'),
   E('p2','p4','p1','p4','p2','gt'), E('p2','p4','p1','p3','p2','gt'),
   E('p1','p3','p1','p4','p2','gt'),
   "ofLt (yExtrap p2 p3 p3.x true) (yExtrap p1 p3 p3.x true) = false",
   "ofGe (p1.grad p3) (p2.grad p3) = true",
   E('p1','p3','p2','p3','p2','lt'), E('p1','p3','p2','p4','p2','lt'),
   "ofGt (yExtrap p1 p4 p4.x true) (yExtrap p2 p4 p4.x true) = false",
   "ofGe (p1.grad p4) (p2.grad p4) = true",
   E('p1','p4','p2','p4','p3','lt'),
   "clockwiseSign p3 p2 p4 = .c", "clockwiseSign p1 p3 p4 = .c"], outs=[('p1','p3','p4'),('p3','p2','p4')])
FLOWS['Zbe'] = dict(ring='Z', nb=ringZ, evs="[(i1, []), (i2, [])]", signs={'134':'+','123':'+','234':'-','124':'+'},
  hyps=[E('p1','p3','p1','p4','p1','lt'), E('p1','p4','p1','p3','p1','gt'),
   E('p2','p4','p2','p3','p2','lt'), E('p2','p3','p2','p4','p2','gt'),
   E('p2','p4','p1','p3','p2','lt'), E('p2','p4','p1','p4','p2','lt'),
   E('p2','p3','p1','p3','p2','lt'), E('p2','p3','p1','p4','p2','lt'),
   "ofGt (yExtrap p2 p3 p3.x true) (yExtrap p1 p3 p3.x true) = false",
   "ofGe (p1.grad p3) (p2.grad p3) = false",
   E('p1','p3','p2','p4','p2','gt'), E('p1','p3','p1','p4','p2','lt'),
   "ofGt (yExtrap p2 p4 p4.x true) (yExtrap p1 p4 p4.x true) = false",
   "ofGe (p1.grad p4) (p2.grad p4) = false",
   E('p2','p4','p1','p4','p3','lt'),
   "clockwiseSign p3 p1 p4 = .c", "clockwiseSign p2 p3 p4 = .c"], outs=[('p2','p3','p4'),('p3','p1','p4')])

def q(p): return 'q'+p[1]
def proof_of(h):
    """returns (term, required orient sign triple as (a,b,c,'+'/'-') or None)"""
    m = re.match(r"cmpEdgeP (p\d) (p\d) (p\d) (p\d) (p\d)\.x = \.(lt|gt)", h)
    if m:
        a,b,c,d,x,o = m.groups()
        if a==c and x==a:
            sg = '+' if o=='lt' else '-'
            return f"cmpE_fanL0_{o} {q(a)} {q(b)} {q(d)} (by xord) (by xord) (by osgn)", (a,b,d,sg)
        if a==c:
            sg = '+' if o=='lt' else '-'
            return f"cmpE_fanL_{o} {q(a)} {q(b)} {q(d)} {q(x)}.1 (by xord) (by xord) (by xord) (by osgn)", (a,b,d,sg)
        if x==a:
            sg = '+' if o=='gt' else '-'
            return f"cmpE_ptKey_{o} {q(a)} {q(b)} {q(c)} {q(d)} (by xord) (by xord) (by xord) (by xord) (by osgn)", (c,d,a,sg)
        if x==c:
            sg = '+' if o=='lt' else '-'
            return f"cmpE_ptOther_{o} {q(a)} {q(b)} {q(c)} {q(d)} (by xord) (by xord) (by xord) (by xord) (by osgn)", (a,b,c,sg)
        if b==d:
            sg = '-' if o=='lt' else '+'
            return f"cmpE_fanR_{o} {q(a)} {q(c)} {q(d)} {q(x)}.1 (by xord) (by xord) (by xord) (by osgn)", (a,c,d,sg)
        raise Exception("shape? "+h)
    m = re.match(r"cmpAtP (p\d) (p\d) (p\d) (p\d) (p\d)\.x true = \.(lt|gt)", h)
    if m:
        a,b,c,d,x,o = m.groups()
        if x==d:
            sg = '+' if o=='lt' else '-'
            return f"cmpAt_otherEnd_{o} {q(a)} {q(b)} {q(c)} {q(d)} (by xord) (by xord) (by xord) (by xord) (by osgn)", (a,b,d,sg)
        if x==b:
            sg = '+' if o=='gt' else '-'
            return f"cmpAt_keyEnd_{o} {q(a)} {q(b)} {q(c)} {q(d)} (by xord) (by xord) (by xord) (by xord) (by osgn)", (c,d,b,sg)
        raise Exception("shape? "+h)
    m = re.match(r"partialCmpEdgeP (p\d) (p\d) (p\d) (p\d) (p\d)\.x = some \.lt", h)
    if m:
        a,b,c,d,x = m.groups(); assert a==c
        return f"partialCmp_fanL_lt {q(a)} {q(b)} {q(d)} {q(x)}.1 (by xord) (by xord) (by xord) (by osgn)", (a,b,d,'+')
    m = re.match(r"of(Lt|Gt) \(yExtrap (p\d) (p\d) (p\d)\.x true\) \(yExtrap (p\d) (p\d) (p\d)\.x true\) = false", h)
    if m:
        k,a,d,x,c,d2,x2 = m.groups(); assert d==d2==x==x2
        return f"of{k}_right_false {q(a)} {q(c)} {q(d)} (by xord) (by xord)", None
    m = re.match(r"ofGe \((p\d)\.grad (p\d)\) \((p\d)\.grad (p\d)\) = (true|false)", h)
    if m:
        a,d,c,d2,v = m.groups(); assert d==d2
        sg = '-' if v=='true' else '+'
        return f"ofGe_gradR_{v} {q(a)} {q(c)} {q(d)} (by xord) (by xord) (by osgn)", (a,c,d,sg)
    m = re.match(r"clockwiseSign (p\d) (p\d) (p\d) = \.(cc|c)$", h)
    if m:
        a,b,c,v = m.groups()
        sg = '-' if v=='c' else '+'
        return f"cw_{v} {q(a)} {q(b)} {q(c)} (by osgn)", (a,b,c,sg)
    raise Exception("unparsed "+h)

def perm_sign(t):
    # sign of permutation sorting t (list of 3 distinct ints)
    t=list(t); s=1
    for i in range(3):
        for j in range(i+1,3):
            if t[i]>t[j]: s=-s
    return s
def check(name):
    f = FLOWS[name]
    for h in f['hyps']:
        term, req = proof_of(h)
        if req:
            a,b,c,sg = req
            idx = [int(a[1]),int(b[1]),int(c[1])]
            key = ''.join(str(i) for i in sorted(idx))
            if key not in f['signs']:
                print(name, "MISSING sign", key, "for", h); continue
            val = (1 if f['signs'][key]=='+' else -1)*perm_sign(idx)
            want = 1 if sg=='+' else -1
            if val!=want: print(name, "SIGN MISMATCH", h, req)
if __name__=="__main__":
    for n in FLOWS: check(n)
    print("checked")

def gen_quadflows():
    out = ['''/-
  The event chains of `QuadEvents*.lean` instantiated at finite points `q1 … q4` with increasing
  abscissae: every geometric hypothesis is discharged from the signs of the orientation
  determinants `orient qi qj qk` (lemmas of `QuadGeom.lean`).
-/
import Cav.Lemmas.QuadGeom
import Cav.Lemmas.QuadEventsO
import Cav.Lemmas.QuadEventsA
import Cav.Lemmas.QuadEventsZ

set_option linter.unusedSimpArgs false
set_option linter.unusedVariables false

namespace Cav.QuadFlows
open Cav Num Cav.Geo Cav.Sweep Cav.TriRun Cav.QuadRun Cav.QuadGeom Cav.QuadEvents

/-- order facts between the abscissae -/
macro "xord" : tactic =>
  `(tactic| first | assumption | exact le_of_lt (by assumption) | exact le_rfl)

/-- sign of an orientation determinant from the sign of a permuted one -/
macro "osgn" : tactic => `(tactic| (simp only [orient] at *; linarith))
''']
    for name,f in FLOWS.items():
        hl = []
        for k,(a,b) in enumerate(f['nb'], start=1):
            hl.append(f"    (h{k} : V[i{k}]? = some ⟨Fq q{k}, (nb ori {a} {b}).1, (nb ori {a} {b}).2⟩)")
        sg = []
        for key,v in f['signs'].items():
            t = ' '.join('q'+c for c in key)
            sg.append(f"(s{key} : " + (f"0 < orient {t}" if v=='+' else f"orient {t} < 0") + ")")
        outs = "[" + ", ".join("sort3 " + " ".join(f"(Fq {q(p)})" for p in t) for t in f['outs']) + "]"
        args = "\n".join("    (" + proof_of(h)[0] + ")" for h in f['hyps'])
        out.append(f'''
theorem run_{name} (ori : Bool) (V : Array (Vtx XQ)) (i1 i2 i3 i4 : Nat) (q1 q2 q3 q4 : Rat × Rat)
{chr(10).join(hl)}
    (h12 : q1.1 < q2.1) (h23 : q2.1 < q3.1) (h34 : q3.1 < q4.1)
    {' '.join(sg)} :
    ∃ s', Runs (stQ V {f['evs']}) (.ok ((), s')) (loop 5) ∧
      s'.out = {outs} ∧ s'.mono = true := by
  have h13 := lt_trans h12 h23
  have h24 := lt_trans h23 h34
  have h14 := lt_trans h13 h34
  exact flow_{name} ori V i1 i2 i3 i4 (Fq q1) (Fq q2) (Fq q3) (Fq q4) h1 h2 h3 h4
    (ord4_fin q1 q2 q3 q4 h12 h23 h34)
{args}
''')
    out.append("end Cav.QuadFlows\n")
    open('/tmp/ag_tri3/lean/Cav/Lemmas/QuadFlows.lean','w').write("".join(out))
if __name__=="__main__":
    gen_quadflows()

RINGS = {'O':(1,2,4,3),'A':(1,2,3,4),'Z':(1,3,2,4)}
RFLOWS = {'O':['Oa','Ob'], 'A':['At','Atr','Ab','Abr'], 'Z':['Zia','Zib','Zab','Zbe']}
# order of disjuncts of signs_r and the sign hypotheses names in each
SIGN_ORDER = {
 'O': [['123','234'],['123','234']],
 'A': [['124','134','123'],['124','134','123','234'],['124','134','123'],['124','134','123','234']],
 'Z': [['134','124','123','234'],['134','124','123','234'],['134','123','234','124'],['134','123','234','124']],
}
def osorted(i,j,k):
    key=''.join(map(str,sorted([i,j,k])))
    return "orient " + " ".join('q'+c for c in key)
def gen_ring(r):
    A,B,C,D = RINGS[r]
    qs = lambda t: " ".join(f"q{i}" for i in t)
    f0 = FLOWS[RFLOWS[r][0]]
    hl = []
    for k,(a,b) in enumerate(f0['nb'], start=1):
        hl.append(f"    (h{k} : V[i{k}]? = some ⟨Fq q{k}, (nb ori {a} {b}).1, (nb ori {a} {b}).2⟩)")
    lines = []
    lines.append(f'''
/-- ring `{r}`: every simple quadrilateral `q{A} q{B} q{C} q{D}` with `q1.1 < q2.1 < q3.1 < q4.1` is
    accepted, with two triangles that tile it -/
theorem ring{r}_run (ori : Bool) (V : Array (Vtx XQ)) (i1 i2 i3 i4 : Nat) (q1 q2 q3 q4 : Rat × Rat)
{chr(10).join(hl)}
    (h12 : q1.1 < q2.1) (h23 : q2.1 < q3.1) (h34 : q3.1 < q4.1)
    (hs : SimpleQuad {qs((A,B,C,D))}) :
    ∃ s' t1 t2, Runs (stQ V {f0['evs']}) (.ok ((), s')) (loop 5) ∧ s'.out = [t2, t1] ∧
      s'.mono = true ∧ QuadGood {qs((A,B,C,D))} t1 t2 := by
  obtain ⟨n1, n2, n3, n4, C1, C2⟩ := hs
  have h13 := lt_trans h12 h23
  have h24 := lt_trans h23 h34
  have h14 := lt_trans h13 h34''')
    # nonzero
    trip_n = {'n1':(A,B,C),'n2':(B,C,D),'n3':(C,D,A),'n4':(D,A,B)}
    for key,nmv in [('123','na'),('124','nb'),('134','nc'),('234','nd')]:
        src = [n for n,t in trip_n.items() if ''.join(map(str,sorted(t)))==key][0]
        lines.append(f"  have {nmv} : {osorted(*map(int,key))} ≠ 0 := by\n    intro h; apply {src}; simp only [orient] at *; linarith")
    # cross rewriting
    es = []
    cnt = 0
    for (P,Q,R,S) in [(A,B,C,D),(B,C,D,A)]:
        for t in [(P,Q,R),(P,Q,S),(R,S,P),(R,S,Q)]:
            if list(t)!=sorted(t):
                cnt += 1
                sgn = perm_sign(t)
                rhs = osorted(*t) if sgn>0 else "- " + osorted(*t)
                lines.append(f"  have e{cnt} : orient {qs(t)} = {rhs} := by unfold orient; ring")
                es.append(f"e{cnt}")
    lines.append(f"  simp only [Cross, {', '.join(es)}] at C1 C2")
    lines.append(f'''  have S := signs_{r} (orient q1 q2 q3) (orient q1 q2 q4) (orient q1 q3 q4) (orient q2 q3 q4)
    (q2.1 - q1.1) (q3.1 - q1.1) (q4.1 - q1.1) (q3.1 - q2.1) (q4.1 - q2.1) (q4.1 - q3.1)
    (sub_pos.mpr h12) (sub_pos.mpr h13) (sub_pos.mpr h14) (sub_pos.mpr h23) (sub_pos.mpr h24)
    (sub_pos.mpr h34) (rel_a q1 q2 q3 q4) (rel_b q1 q2 q3 q4) (rel_c q1 q2 q3 q4) (rel_d q1 q2 q3 q4)
    na nb nc nd C1 C2''')
    pats = []
    for fl, order in zip(RFLOWS[r], SIGN_ORDER[r]):
        pats.append("⟨" + ", ".join("s"+k for k in order) + "⟩")
    lines.append(f"  rcases S with {' | '.join(pats)}")
    for fl, order in zip(RFLOWS[r], SIGN_ORDER[r]):
        f = FLOWS[fl]
        sargs = " ".join("s"+k for k in f['signs'].keys())
        # triangles: out list = [second, first]; t1 = first emitted = outs[1], t2 = outs[0]
        T1 = f['outs'][1]; T2 = f['outs'][0]
        def tri_sign(T):
            idx=[int(p[1]) for p in T]; key=''.join(map(str,sorted(idx)))
            return (1 if f['signs'][key]=='+' else -1)*perm_sign(idx)
        def qt(T): return " ".join(q(p) for p in T)
        s1, s2 = tri_sign(T1), tri_sign(T2)
        X = f"orient {qt(T1)}"; Y = f"orient {qt(T2)}"
        PX = X if s1>0 else f"- {X}"; PY = Y if s2>0 else f"- {Y}"
        ne1 = f"(ne_of_gt (by osgn))" if s1>0 else f"(ne_of_lt (by osgn))"
        ne2 = f"(ne_of_gt (by osgn))" if s2>0 else f"(ne_of_lt (by osgn))"
        ex = "abs_of_pos hx" if s1>0 else "abs_of_neg (by linarith)"
        ey = "abs_of_pos hy" if s2>0 else "abs_of_neg (by linarith)"
        lines.append(f'''  · obtain ⟨s', hr, ho, hm⟩ := run_{fl} ori V i1 i2 i3 i4 q1 q2 q3 q4 h1 h2 h3 h4 h12 h23 h34 {sargs}
    refine ⟨s', _, _, hr, ho, hm, quadGood_sort3 {qs((A,B,C,D))} {qt(T1)} {qt(T2)}
      (by simp) (by simp) (by simp) (by simp) (by simp) (by simp) {ne1} {ne2} ?_⟩
    have hx : 0 < {PX} := by osgn
    have hy : 0 < {PY} := by osgn
    have hS : |shoelace {qs((A,B,C,D))}| = |{PX} + ({PY})| := by
      first
        | (congr 1; unfold shoelace cross2 orient; ring1)
        | (rw [← abs_neg]; congr 1; unfold shoelace cross2 orient; ring1)
    rw [hS, {ex}, {ey}, abs_of_pos (by linarith)]''')
    return "\n".join(lines) + "\n"

FINAL_LEMMA = """
/-- from the set-up state and the run of the event loop to the result of `sweepMon` -/
theorem sweepMon_quad {A B C D : Pt XQ} {evs : List (Nat × List Nat)} {s' : St XQ}
    {t1 t2 : Pt XQ × Pt XQ × Pt XQ}
    (hsetup : (forIn [#[A, B, C, D]] ([] : List (Pt XQ)) SweepSetup.polyBody).run (initSt : St XQ) =
      .ok ([D, C, B, A], stQ (QuadSetup.ringQ A B C D) evs))
    (hr : Runs (stQ (QuadSetup.ringQ A B C D) evs) (.ok ((), s')) (loop 5))
    (ho : s'.out = [t2, t1]) (hm : s'.mono = true) :
    sweepMon [#[A, B, C, D]] = .ok ([t1, t2], true) := by
  unfold sweepMon
  rw [SweepSetup.run_eq, hsetup]
  simp only []
  rw [show (stQ (QuadSetup.ringQ A B C D) evs).verts.size + 1 = 5 from rfl, hr.run]
  simp [ho, hm]
"""

def gen_quadcases():
    p='/tmp/ag_tri3/lean/Cav/Lemmas/QuadCases.lean'
    s=open(p).read()
    marker = "/-! ### the three ring types -/"
    if marker in s: s = s[:s.index(marker)]
    else: s = s[:s.index("end Cav.QuadCases")]
    s += marker + "\n" + "".join(gen_ring(r) for r in ['O','A','Z']) + FINAL_LEMMA + "\nend Cav.QuadCases\n"
    open(p,'w').write(s)
if __name__=="__main__":
    gen_quadcases()
