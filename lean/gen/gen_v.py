import sys, re
sys.path.insert(0,'/tmp/ag_tri3')
from gen_flows import FLOWS, RFLOWS
namesL = open('/tmp/ag_tri3/ord4L_names.txt').read()
VH = {}   # new mirror hypotheses per flow
def keep(h): return not (h.startswith("cmpAtP") or h.startswith("ofLt") or h.startswith("ofGt"))
def vflow(name, extra):
    f = FLOWS[name]
    hyps = [h for h in f['hyps'] if keep(h)] + extra
    hl = []
    for k,(a,b) in enumerate(f['nb'], start=1):
        hl.append(f"    (h{k} : V[i{k}]? = some ⟨p{k}, (nb ori {a} {b}).1, (nb ori {a} {b}).2⟩)")
    hy = "\n".join(f"    (g{n+1} : {h})" for n,h in enumerate(hyps))
    allg = ', '.join('g'+str(j+1) for j in range(len(hyps)))
    outs = "[" + ", ".join("sort3 " + " ".join(t) for t in f['outs']) + "]"
    st = "\n".join(f"      qevL [{allg}]" for s in range(4))
    return hyps, f'''/-- event chain `{name}` (see `QuadEvents{f['ring']}.lean`), valid for any coincidences of abscissae -/
theorem flowV_{name} (ori : Bool) (V : Array (Vtx XQ)) (i1 i2 i3 i4 : Nat) (p1 p2 p3 p4 : Pt XQ)
{chr(10).join(hl)}
    (hO : Ord4L p1 p2 p3 p4)
{hy} :
    ∃ s', Runs (stQ V {f['evs']}) (.ok ((), s')) (loop 5) ∧
      s'.out = {outs} ∧ s'.mono = true := by
  obtain ⟨{namesL}⟩ := hO
  unfold stQ
  cases ori <;> simp only [nb, if_true, if_false, Bool.false_eq_true] at h1 h2 h3 h4
  all_goals
    refine ⟨?_, ?run, ?out⟩
    case run =>
{st}
      refine Runs.loop_done (n := 0) ?_
      rfl
    case out => exact ⟨by rfl, by rfl⟩
'''
HDR = '''/-
  Event chains of a quadrilateral whose corners are in strictly increasing LEXICOGRAPHIC order
  `p1 < p2 < p3 < p4` (abscissae may coincide), ring RING: the chains of `QuadEventsRING.lean`
  with the tests of `verticalIsCrossed` and `willOverlapBot/Top` as hypotheses on their pure
  mirrors `vcP`, `wobP`, `wotP`.
-/
import Cav.Lemmas.QuadVRun

set_option linter.unusedSimpArgs false
set_option linter.unusedVariables false
set_option maxRecDepth 4000

namespace Cav.QuadVEvents
open Cav Num Cav.Sweep Cav.SweepRun Cav.TriRun Cav.QuadRun Cav.QuadVRun Cav.TriEvents

'''
def write(ring, path=None):
    body = "\n".join(vflow(n, VH.get(n, []))[1] for n in RFLOWS[ring])
    open(path or f'/tmp/ag_tri3/lean/Cav/Lemmas/QuadVEvents{ring}.lean','w').write(HDR.replace("RING",ring) + body + "\nend Cav.QuadVEvents\n")
import json, os
if os.path.exists('/tmp/ag_tri3/vh.json'):
    VH.update(json.load(open('/tmp/ag_tri3/vh.json')))
if __name__=="__main__":
    for r in ['O','A','Z']: write(r)

# ---------- QuadVFlows: discharge hypotheses from lexicographic order + orientation signs
from gen_flows import perm_sign
def q(p): return 'q'+p[1]
def rk(p): return int(p[1])
def sign_of(f, a, b, c):
    idx=[rk(a),rk(b),rk(c)]; key=''.join(map(str,sorted(idx)))
    if key not in f['signs']: return None
    return (1 if f['signs'][key]=='+' else -1)*perm_sign(idx)
def need(f, a,b,c, sg, h):
    v = sign_of(f,a,b,c)
    want = 1 if sg=='+' else -1
    if v is None: raise Exception(f"missing sign for {a}{b}{c} in {h}")
    if v != want: raise Exception(f"sign mismatch {a}{b}{c} want {sg} in {h}")
def vproof(f, h):
    m = re.match(r"cmpEdgeP (p\d) (p\d) (p\d) (p\d) (p\d)\.x = \.(lt|gt)$", h)
    if m:
        a,b,c,d,x,o = m.groups()
        if a==c and x==a:
            need(f,a,b,d,'+' if o=='lt' else '-',h)
            return f"cmpEL_fanL0_{o} {q(a)} {q(b)} {q(d)} (by lx) (by lx) (by osgn)"
        if a==c:
            need(f,a,b,d,'+' if o=='lt' else '-',h)
            return f"cmpEL_fanL_{o} {q(a)} {q(b)} {q(d)} {q(x)}.1 (by xw) (by xw) (by xw) (by lx) (by lx) (by osgn)"
        if x==a:
            sg = '+' if o=='gt' else '-'
            need(f,c,d,a,sg,h)
            if b==d: hv = "(fun _ h => absurd rfl h)"
            elif rk(b)-rk(a) >= 2: hv = "(fun h _ => absurd h (ne_of_lt (by xs)))"
            else:
                need(f,c,d,b,sg,h); hv = "(fun _ _ => by osgn)"
            return f"cmpEL_ptKey_{o} {q(a)} {q(b)} {q(c)} {q(d)} (by lx) (by xs) (by xw) (by xw) (by osgn) {hv}"
        if x==c:
            need(f,a,b,c,'+' if o=='lt' else '-',h)
            hv = "(fun _ => rfl)" if d==b else "(fun h => absurd h (ne_of_lt (by xs)))"
            return f"cmpEL_ptOther_{o} {q(a)} {q(b)} {q(c)} {q(d)} (by xs) (by lx) (by xw) (by xw) (by osgn) {hv}"
        if b==d:
            assert o=='lt'
            need(f,a,c,d,'-',h)
            return f"cmpEL_fanR_lt {q(a)} {q(c)} {q(d)} {q(x)}.1 (by xw) (by xw) (by xw) (by xs) (by xs) (by osgn)"
        raise Exception("shape "+h)
    m = re.match(r"partialCmpEdgeP (p\d) (p\d) (p\d) (p\d) (p\d)\.x = some \.lt$", h)
    if m:
        a,b,c,d,x = m.groups(); need(f,a,b,d,'+',h)
        return f"partialCmpL_fanL_lt {q(a)} {q(b)} {q(d)} {q(x)}.1 (by xw) (by xw) (by xw) (by xs) (by xs) (by osgn)"
    m = re.match(r"ofGe \((p\d)\.grad (p\d)\) \((p\d)\.grad (p\d)\) = (true|false)$", h)
    if m:
        a,d,c,d2,v = m.groups(); need(f,a,c,d,'-' if v=='true' else '+',h)
        return f"ofGeL_{v} {q(a)} {q(c)} {q(d)} (by lx) (by lx) (by osgn)"
    m = re.match(r"clockwiseSign (p\d) (p\d) (p\d) = \.(cc|c)$", h)
    if m:
        a,b,c,v = m.groups(); need(f,a,b,c,'-' if v=='c' else '+',h)
        return f"cw_{v} {q(a)} {q(b)} {q(c)} (by osgn)"
    m = re.match(r"(wobP|wotP) (p\d) (p\d) (p\d) (p\d) = false$", h)
    if m:
        k,le,re_,lb,rb = m.groups()
        if re_==rb:
            return f"{k}_sameR {q(le)} {q(lb)} {q(re_)} (by lx) (by lx)"
        if rk(rb) < rk(re_):
            need(f,le,re_,rb,'+' if k=='wotP' else '-',h)
            return f"{k}_otherEnd {q(le)} {q(re_)} {q(lb)} {q(rb)} (by xs) (by xs) (by xw) (by lx) (by osgn)"
        need(f,lb,rb,re_,'+' if k=='wobP' else '-',h)
        return f"{k}_keyEnd {q(le)} {q(re_)} {q(lb)} {q(rb)} (by lx) (by xs) (by xw) (by lx) (by osgn)"
    m = re.match(r"vcP (p\d) (p\d) \[(.*)\] = false$", h)
    if m:
        p,rp,ys = m.groups()
        if (rk(p),rk(rp))==(2,4):
            return f"vcP_nonvert {q(p)} {q(rp)} _ (by xs)"
        term = "(vcP_nil _ _)"
        for y in reversed([t.strip() for t in ys.split(',')]):
            mm = re.match(r"yExtrap (p\d) (p\d) (p\d)\.x true$", y); a,b,x = mm.groups(); assert x==p
            if b==rp:
                nbt = f"(nb_endsAt {q(p)} {q(rp)} {q(a)} (by xs))"
            else:
                s1 = sign_of(f,a,b,p); s2 = sign_of(f,a,b,rp)
                if s1 is None or s2 is None or s1!=s2: raise Exception("vc sides "+h)
                hs = "(Or.inl ⟨by osgn, by osgn⟩)" if s1>0 else "(Or.inr ⟨by osgn, by osgn⟩)"
                nbt = f"(nb_sameSide {q(p)} {q(rp)} {q(a)} {q(b)} (by xs) (by xw) (by xw) {hs})"
            term = f"(vcP_cons {q(p)} {q(rp)} _ _ {nbt} {term})"
        return term
    raise Exception("unparsed "+h)

def gen_vflows():
    out = ['''/-
  The event chains of `QuadVEvents*.lean` instantiated at finite points `q1 < q2 < q3 < q4` in
  LEXICOGRAPHIC order (`q1.1 < q3.1`, `q2.1 < q4.1`: no three on a vertical line): every
  geometric hypothesis is discharged from the signs of the orientation determinants
  (`QuadVGeom.lean`).
-/
import Cav.Lemmas.QuadVGeom
import Cav.Lemmas.QuadVEventsO
import Cav.Lemmas.QuadVEventsA
import Cav.Lemmas.QuadVEventsZ

set_option linter.unusedSimpArgs false
set_option linter.unusedVariables false

namespace Cav.QuadVFlows
open Cav Num Cav.Geo Cav.Sweep Cav.TriRun Cav.QuadRun Cav.QuadVRun Cav.QuadGeom Cav.QuadVGeom
  Cav.QuadVEvents

/-- lexicographic order facts -/
macro "lx" : tactic => `(tactic| assumption)
/-- weak / strict order facts between the abscissae -/
macro "xw" : tactic =>
  `(tactic| first | assumption | exact le_rfl | exact le_of_lt (by assumption))
macro "xs" : tactic => `(tactic| assumption)
/-- sign of an orientation determinant from the sign of a permuted one -/
macro "osgn" : tactic => `(tactic| (simp only [orient] at *; linarith))

theorem ord4L_fin (q1 q2 q3 q4 : Rat × Rat) (l12 : lexLt q1 q2) (l23 : lexLt q2 q3)
    (l34 : lexLt q3 q4) : Ord4L (Fq q1) (Fq q2) (Fq q3) (Fq q4) := by
  have l13 := C15.lexLt_trans l12 l23
  have l24 := C15.lexLt_trans l23 l34
  have l14 := C15.lexLt_trans l13 l34
  have ne : ∀ {p q : Rat × Rat}, lexLt p q → (Fq p).eq (Fq q) = false := by
    intro p q h
    rw [Geo.Pt.eq_fin]; simp only [decide_eq_false_iff_not]
    rintro ⟨h1, h2⟩
    exact C15.lexLt_irrefl q (by rwa [show p = q from Prod.ext h1 h2] at h)
  have ne' : ∀ {p q : Rat × Rat}, lexLt p q → (Fq q).eq (Fq p) = false := by
    intro p q h
    rw [Geo.Pt.eq_fin]; simp only [decide_eq_false_iff_not]
    rintro ⟨h1, h2⟩
    exact C15.lexLt_irrefl q (by rwa [show p = q from (Prod.ext h1 h2).symm] at h)
  exact {
    FLDS }
''']
    idx=[1,2,3,4]; fl=[]
    for i in idx: fl.append(f"f{i} := rfl")
    for i in idx:
        for j in idx:
            if i<j: fl.append(f"c{i}{j} := (Geo.Pt.cmp_fin_lt _ _ _ _).mpr l{i}{j}")
            elif i>j: fl.append(f"c{i}{j} := (Geo.Pt.cmp_fin_gt _ _ _ _).mpr l{j}{i}")
            else: fl.append(f"c{i}{j} := (Geo.Pt.cmp_fin_eq _ _ _ _).mpr ⟨rfl, rfl⟩")
    for i in idx:
        for j in idx:
            if i<j: fl.append(f"e{i}{j} := ne l{i}{j}")
            elif i>j: fl.append(f"e{i}{j} := ne' l{j}{i}")
    out[0] = out[0].replace("FLDS", ",\n    ".join(fl))
    for name,f in FLOWS.items():
        hyps,_ = vflow(name, VH[name])
        hl = []
        for k,(a,b) in enumerate(f['nb'], start=1):
            hl.append(f"    (h{k} : V[i{k}]? = some ⟨Fq q{k}, (nb ori {a} {b}).1, (nb ori {a} {b}).2⟩)")
        sg = []
        for key,v in f['signs'].items():
            t = ' '.join('q'+c for c in key)
            sg.append(f"(s{key} : " + (f"0 < orient {t}" if v=='+' else f"orient {t} < 0") + ")")
        outs = "[" + ", ".join("sort3 " + " ".join(f"(Fq {q(p)})" for p in t) for t in f['outs']) + "]"
        args = "\n".join("    (" + vproof(f,h) + ")" for h in hyps)
        out.append(f'''
theorem runV_{name} (ori : Bool) (V : Array (Vtx XQ)) (i1 i2 i3 i4 : Nat) (q1 q2 q3 q4 : Rat × Rat)
{chr(10).join(hl)}
    (l12 : lexLt q1 q2) (l23 : lexLt q2 q3) (l34 : lexLt q3 q4) (x13 : q1.1 < q3.1) (x24 : q2.1 < q4.1)
    {' '.join(sg)} :
    ∃ s', Runs (stQ V {f['evs']}) (.ok ((), s')) (loop 5) ∧
      s'.out = {outs} ∧ s'.mono = true := by
  have l13 := C15.lexLt_trans l12 l23
  have l24 := C15.lexLt_trans l23 l34
  have l14 := C15.lexLt_trans l13 l34
  have w12 := lexLt_le l12
  have w23 := lexLt_le l23
  have w34 := lexLt_le l34
  have x14 : q1.1 < q4.1 := lt_of_lt_of_le x13 w34
  have w13 := x13.le
  have w24 := x24.le
  have w14 := x14.le
  exact flowV_{name} ori V i1 i2 i3 i4 (Fq q1) (Fq q2) (Fq q3) (Fq q4) h1 h2 h3 h4
    (ord4L_fin q1 q2 q3 q4 l12 l23 l34)
{args}
''')
    out.append("end Cav.QuadVFlows\n")
    open('/tmp/ag_tri3/lean/Cav/Lemmas/QuadVFlows.lean','w').write("".join(out))
if __name__=="__main__":
    gen_vflows()

# ---------- QuadVCases ring lemmas
from gen_flows import RINGS, SIGN_ORDER, osorted
def gen_ringV(r):
    A,B,C,D = RINGS[r]
    qs = lambda t: " ".join(f"q{i}" for i in t)
    f0 = FLOWS[RFLOWS[r][0]]
    hl = []
    for k,(a,b) in enumerate(f0['nb'], start=1):
        hl.append(f"    (h{k} : V[i{k}]? = some ⟨Fq q{k}, (nb ori {a} {b}).1, (nb ori {a} {b}).2⟩)")
    lines = [f'''
/-- ring `{r}`, lexicographic order: every simple quadrilateral `q{A} q{B} q{C} q{D}` with
    `q1 < q2 < q3 < q4` is accepted, with two triangles that tile it -/
theorem ring{r}V_run (ori : Bool) (V : Array (Vtx XQ)) (i1 i2 i3 i4 : Nat) (q1 q2 q3 q4 : Rat × Rat)
{chr(10).join(hl)}
    (l12 : lexLt q1 q2) (l23 : lexLt q2 q3) (l34 : lexLt q3 q4)
    (hs : SimpleQuad {qs((A,B,C,D))}) :
    ∃ s' t1 t2, Runs (stQ V {f0['evs']}) (.ok ((), s')) (loop 5) ∧ s'.out = [t2, t1] ∧
      s'.mono = true ∧ QuadGood {qs((A,B,C,D))} t1 t2 := by
  obtain ⟨n1, n2, n3, n4, C1, C2⟩ := hs''']
    trip_n = {'n1':(A,B,C),'n2':(B,C,D),'n3':(C,D,A),'n4':(D,A,B)}
    for key,nmv in [('123','na'),('124','nb'),('134','nc'),('234','nd')]:
        src = [n for n,t in trip_n.items() if ''.join(map(str,sorted(t)))==key][0]
        lines.append(f"  have {nmv} : {osorted(*map(int,key))} ≠ 0 := by\n    intro h; apply {src}; simp only [orient] at *; linarith")
    lines.append("  have x13 := x_strict_of_orient q1 q2 q3 l12 l23 na")
    lines.append("  have x24 := x_strict_of_orient q2 q3 q4 l23 l34 nd")
    es=[]; cnt=0
    for (P,Q,R,S) in [(A,B,C,D),(B,C,D,A)]:
        for t in [(P,Q,R),(P,Q,S),(R,S,P),(R,S,Q)]:
            if list(t)!=sorted(t):
                cnt+=1; sgn=perm_sign(t)
                rhs = osorted(*t) if sgn>0 else "- "+osorted(*t)
                lines.append(f"  have e{cnt} : orient {qs(t)} = {rhs} := by unfold orient; ring")
                es.append(f"e{cnt}")
    lines.append(f"  simp only [Cross, {', '.join(es)}] at C1 C2")
    lines.append(f'''  obtain ⟨ε, g12, g23, g34⟩ := exists_shear q1 q2 q3 q4 l12 l23 l34
  have g13 := lt_trans g12 g23
  have g24 := lt_trans g23 g34
  have g14 := lt_trans g13 g34
  have S := signs_{r} (orient q1 q2 q3) (orient q1 q2 q4) (orient q1 q3 q4) (orient q2 q3 q4)
    ((shear ε q2).1 - (shear ε q1).1) ((shear ε q3).1 - (shear ε q1).1) ((shear ε q4).1 - (shear ε q1).1)
    ((shear ε q3).1 - (shear ε q2).1) ((shear ε q4).1 - (shear ε q2).1) ((shear ε q4).1 - (shear ε q3).1)
    (sub_pos.mpr g12) (sub_pos.mpr g13) (sub_pos.mpr g14) (sub_pos.mpr g23) (sub_pos.mpr g24)
    (sub_pos.mpr g34)
    (by have := rel_a (shear ε q1) (shear ε q2) (shear ε q3) (shear ε q4); simpa only [orient_shear] using this)
    (by have := rel_b (shear ε q1) (shear ε q2) (shear ε q3) (shear ε q4); simpa only [orient_shear] using this)
    (by have := rel_c (shear ε q1) (shear ε q2) (shear ε q3) (shear ε q4); simpa only [orient_shear] using this)
    (by have := rel_d (shear ε q1) (shear ε q2) (shear ε q3) (shear ε q4); simpa only [orient_shear] using this)
    na nb nc nd C1 C2
  clear g12 g23 g34 g13 g24 g14''')
    pats = ["⟨" + ", ".join("s"+k for k in order) + "⟩" for order in SIGN_ORDER[r]]
    lines.append(f"  rcases S with {' | '.join(pats)}")
    for fl in RFLOWS[r]:
        f = FLOWS[fl]
        sargs = " ".join("s"+k for k in f['signs'].keys())
        T1 = f['outs'][1]; T2 = f['outs'][0]
        def tri_sign(T):
            idx=[int(p[1]) for p in T]; key=''.join(map(str,sorted(idx)))
            return (1 if f['signs'][key]=='+' else -1)*perm_sign(idx)
        qt = lambda T: " ".join(q(p) for p in T)
        s1,s2 = tri_sign(T1), tri_sign(T2)
        X=f"orient {qt(T1)}"; Y=f"orient {qt(T2)}"
        PX = X if s1>0 else f"- {X}"; PY = Y if s2>0 else f"- {Y}"
        ne1 = "(ne_of_gt (by osgn))" if s1>0 else "(ne_of_lt (by osgn))"
        ne2 = "(ne_of_gt (by osgn))" if s2>0 else "(ne_of_lt (by osgn))"
        ex = "abs_of_pos hx" if s1>0 else "abs_of_neg (by linarith)"
        ey = "abs_of_pos hy" if s2>0 else "abs_of_neg (by linarith)"
        lines.append(f'''  · obtain ⟨s', hr, ho, hm⟩ := runV_{fl} ori V i1 i2 i3 i4 q1 q2 q3 q4 h1 h2 h3 h4 l12 l23 l34 x13 x24 {sargs}
    refine ⟨s', _, _, hr, ho, hm, quadGood_sort3 {qs((A,B,C,D))} {qt(T1)} {qt(T2)}
      (by simp) (by simp) (by simp) (by simp) (by simp) (by simp) {ne1} {ne2} ?_⟩
    have hx : 0 < {PX} := by osgn
    have hy : 0 < {PY} := by osgn
    have hS : |shoelace {qs((A,B,C,D))}| = |{PX} + ({PY})| := by
      first
        | (congr 1; unfold shoelace cross2 orient; ring1)
        | (rw [← abs_neg]; congr 1; unfold shoelace cross2 orient; ring1)
    rw [hS, {ex}, {ey}, abs_of_pos (by linarith)]''')
    return "\n".join(lines)+"\n"
def gen_vcases():
    p='/tmp/ag_tri3/lean/Cav/Lemmas/QuadVCases.lean'
    s=open(p).read()
    marker="/-! ### the three ring types -/"
    if marker in s: s=s[:s.index(marker)]
    else: s=s[:s.index("end Cav.QuadVCases")]
    s += marker+"\n"+"".join(gen_ringV(r) for r in ['O','A','Z'])+"\nend Cav.QuadVCases\n"
    open(p,'w').write(s)
if __name__=="__main__":
    gen_vcases()
