import itertools
names = open('/tmp/ag_tri3/ord4_names.txt').read()
def classify(perm):
    i1,i2,i3,i4 = perm
    if (i4 - i1) % 4 == 2:
        ring='O'; canon=(i1,i2,i4,i3); ori = ((i1-1)%4 == i2)
    elif (i2 - i1) % 4 in (1,3) and (i2 - i1) % 4 != (i4 - i1) % 4:
        ring='A'; canon=(i1,i2,i3,i4); ori = ((i1-1)%4 == i4)
    else:
        ring='Z'; canon=(i1,i3,i2,i4); ori = ((i1-1)%4 == i4)
    return ring, canon, ori
def kinds(perm, ring):
    i1,i2,i3,i4 = perm
    k = {i1:'.start', i4:'.end_'}
    if ring=='Z': k[i2]='.start'; k[i3]='.end_'
    else: k[i2]='.bend'; k[i3]='.bend'
    return [k[j] for j in range(4)]
def evs(perm, ring):
    i1,i2,i3,i4 = perm
    return f"[({i1}, []), ({i2}, [])]" if ring=='Z' else f"[({i1}, [])]"
hdr = '''/-
  C04 (every valid polygon set is accepted) for a single SIMPLE QUADRILATERAL in general position
  (pairwise distinct abscissae): for any four rational points `a b c d` forming, in this cyclic
  order, a simple quadrilateral (`SimpleQuad`: no three collinear, opposite edges do not cross —
  orientation determinants only), in any input rotation and either orientation, the sweep model
  over `XQ` accepts the polygon, emits exactly two triangles, every ordered look-up of the run was
  order-consistent (`mono = true`), the corners of both triangles are input points, both are
  non-degenerate, and their absolute doubled areas add up to the absolute doubled shoelace area
  of the quadrilateral.  All handler paths of the model occur: Start/Bend/End (convex and
  non-convex shapes with the reflex vertex at a Bend), the improper Start with a back-chain split
  (reflex vertex pointing left), and the End that merges two back-chains (reflex vertex pointing
  right).

  Proof: the ten event chains (`Cav/Lemmas/QuadEvents{O,A,Z}.lean`, symbolic execution with the
  geometric tests as hypotheses), their geometric hypotheses from orientation signs
  (`QuadGeom.lean`, `QuadFlows.lean`), the sign analysis of simple quadrilaterals
  (`QuadCases.lean`), and here the 24 orders of the abscissae.
-/
import Cav.Lemmas.QuadCases

set_option linter.unusedSimpArgs false
set_option linter.unusedVariables false
set_option linter.unusedTactic false
set_option linter.unreachableTactic false

namespace Cav.C04Quad
open Cav Num Cav.Geo Cav.Sweep Cav.SweepSetup Cav.TriRun Cav.QuadRun Cav.QuadGeom Cav.QuadSetup
  Cav.QuadCases

export Cav.QuadCases (SimpleQuad Cross shoelace cross2 QuadGood)
export Cav.QuadGeom (Fq)

/-- `SimpleQuad` and `QuadGood` are invariant under the eight symmetries of the 4-cycle -/
local macro "sym8" h:ident : tactic =>
  `(tactic| (first
      | exact $h
      | exact ($h).rot
      | exact ($h).rot.rot
      | exact ($h).rot.rot.rot
      | exact ($h).rev
      | exact ($h).rev.rot
      | exact ($h).rev.rot.rot
      | exact ($h).rev.rot.rot.rot))

theorem validPt_fq (seen : List (Pt XQ)) (q : Rat × Rat) (h : ∀ s ∈ seen, s.eq (Fq q) = false) :
    validPt seen (Fq q) = .ok (Fq q :: seen) :=
  (validPt_ok_iff _ _ _).mpr ⟨rfl, h, rfl⟩

'''
cases = []
pats = []
for perm in itertools.permutations(range(4)):
    i1,i2,i3,i4 = perm
    ring, canon, ori = classify(perm)
    ks = kinds(perm, ring)
    pats.append(f"(i1 = {i1} ∧ i2 = {i2} ∧ i3 = {i3} ∧ i4 = {i4})")
    cq = " ".join(f"(P {j})" for j in canon)
    simpset = f"fromTriplet, Pt.lt, Pt.gt, {names}"
    cases.append(f'''  · -- abscissae in the order of the input positions {perm}: ring `{ring}`
    obtain ⟨{names}⟩ := ord4_fin (P {i1}) (P {i2}) (P {i3}) (P {i4}) h12 h23 h34
    have hsq : SimpleQuad {cq} := by sym8 hs
    obtain ⟨s', t1, t2, hr, ho, hm, hg⟩ := ring{ring}_run {str(ori).lower()}
      (ringQ (Fq (P 0)) (Fq (P 1)) (Fq (P 2)) (Fq (P 3))) {i1} {i2} {i3} {i4} (P {i1}) (P {i2}) (P {i3}) (P {i4})
      rfl rfl rfl rfl h12 h23 h34 hsq
    refine ⟨t1, t2, sweepMon_quad (setup_quad _ _ _ _ {evs(perm,ring)} {ks[0]} {ks[1]} {ks[2]} {ks[3]}
      (validPt_fq _ _ (by simp)) (validPt_fq _ _ (by simp [{names}]))
      (validPt_fq _ _ (by simp [{names}])) (validPt_fq _ _ (by simp [{names}]))
      (by simp [{simpset}]) (by simp [{simpset}]) (by simp [{simpset}]) (by simp [{simpset}])
      (by simp [{names}])) hr ho hm, ?_⟩
    sym8 hg''')
thm = f'''/-- the quadrilateral with corners `P 0, P 1, P 2, P 3` (input order) whose abscissae increase
    along the input positions `i1, i2, i3, i4` -/
theorem quad_sorted (P : Nat → Rat × Rat) (i1 i2 i3 i4 : Nat)
    (hperm : {(" ∨"+chr(10)+"      ").join(pats)})
    (h12 : (P i1).1 < (P i2).1) (h23 : (P i2).1 < (P i3).1) (h34 : (P i3).1 < (P i4).1)
    (hs : SimpleQuad (P 0) (P 1) (P 2) (P 3)) :
    ∃ t1 t2, sweepMon [#[Fq (P 0), Fq (P 1), Fq (P 2), Fq (P 3)]] = .ok ([t1, t2], true) ∧
      QuadGood (P 0) (P 1) (P 2) (P 3) t1 t2 := by
  rcases hperm with {" | ".join("⟨rfl, rfl, rfl, rfl⟩" for _ in pats)}
{chr(10).join(cases)}

end Cav.C04Quad
'''
open('/tmp/ag_tri3/lean/Cav/Thm/C04Quad.lean','w').write(hdr + thm)

# ---- final theorem
perms = list(itertools.permutations(range(4)))
def pair(i,j): return f"h{min(i,j)}{max(i,j)}"
alts = "\n".join(f"      | exact key {p[0]} {p[1]} {p[2]} {p[3]} (by simp) {pair(p[0],p[1])} {pair(p[1],p[2])} {pair(p[2],p[3])}" for p in perms)

pairs = [(0,1),(0,2),(0,3),(1,2),(1,3),(2,3)]
def leaf(dirs):
    # dirs: dict pair -> True if x_i < x_j
    less = lambda i,j: dirs[(i,j)] if i<j else not dirs[(j,i)]
    for perm in itertools.permutations(range(4)):
        if all(less(perm[k],perm[l]) for k in range(4) for l in range(k+1,4)):
            return f"exact key {perm[0]} {perm[1]} {perm[2]} {perm[3]} (by simp) {pair(perm[0],perm[1])} {pair(perm[1],perm[2])} {pair(perm[2],perm[3])}"
    return "exfalso; linarith"
def build(k, dirs, indent):
    if k==6: return " "*indent + leaf(dirs) + "\n"
    i,j = pairs[k]
    out = " "*indent + f"rcases lt_or_gt_of_ne n{i}{j} with h{i}{j} | h{i}{j}\n"
    for v in (True, False):
        d = dict(dirs); d[(i,j)] = v
        sub = build(k+1, d, indent+2)
        lines = sub.split("\n")
        lines[0] = " "*indent + "· " + lines[0].lstrip()
        out += "\n".join(lines)
    return out
tree = build(0, {}, 2).rstrip("\n")

final = f'''
/-- the four corners as a function of the input position -/
def corner4 (a b c d : Rat × Rat) : Nat → Rat × Rat
  | 0 => a
  | 1 => b
  | 2 => c
  | _ => d

/-- the definition of `SimpleQuad`, spelled out -/
theorem simpleQuad_iff (a b c d : Rat × Rat) :
    SimpleQuad a b c d ↔
      orient a b c ≠ 0 ∧ orient b c d ≠ 0 ∧ orient c d a ≠ 0 ∧ orient d a b ≠ 0 ∧
        ¬ (orient a b c * orient a b d < 0 ∧ orient c d a * orient c d b < 0) ∧
        ¬ (orient b c d * orient b c a < 0 ∧ orient d a b * orient d a c < 0) := Iff.rfl

/-- **Every simple quadrilateral in general position is accepted** (C04 for a single
    quadrilateral; `QuadGood` packages the claims about the two triangles, see
    `quad_accepted`). -/
theorem quad_accepted_good (a b c d : Rat × Rat)
    (hx : a.1 ≠ b.1 ∧ a.1 ≠ c.1 ∧ a.1 ≠ d.1 ∧ b.1 ≠ c.1 ∧ b.1 ≠ d.1 ∧ c.1 ≠ d.1)
    (hs : SimpleQuad a b c d) :
    ∃ t1 t2, sweepMon [#[F a.1 a.2, F b.1 b.2, F c.1 c.2, F d.1 d.2]] = .ok ([t1, t2], true) ∧
      QuadGood a b c d t1 t2 := by
  obtain ⟨n01, n02, n03, n12, n13, n23⟩ := hx
  have key := fun i1 i2 i3 i4 hperm h12 h23 h34 =>
    quad_sorted (corner4 a b c d) i1 i2 i3 i4 hperm h12 h23 h34 hs
{tree}

/-- **C04 for a single simple quadrilateral, general position** — the statement in full:
    for rational points `a b c d` with pairwise distinct abscissae forming a simple quadrilateral
    in this cyclic order (any start vertex, either orientation), the model returns exactly two
    triangles and the ghost flag `mono` is `true`; all six corners are input points; both
    triangles are non-degenerate; and their absolute doubled areas add up to the absolute
    doubled shoelace area `|a×b + b×c + c×d + d×a|` of the quadrilateral. -/
theorem quad_accepted (a b c d : Rat × Rat)
    (hx : a.1 ≠ b.1 ∧ a.1 ≠ c.1 ∧ a.1 ≠ d.1 ∧ b.1 ≠ c.1 ∧ b.1 ≠ d.1 ∧ c.1 ≠ d.1)
    (hs : SimpleQuad a b c d) :
    ∃ t1 t2 : Pt XQ × Pt XQ × Pt XQ,
      sweepMon [#[F a.1 a.2, F b.1 b.2, F c.1 c.2, F d.1 d.2]] = .ok ([t1, t2], true) ∧
      (∀ p ∈ [t1.1, t1.2.1, t1.2.2, t2.1, t2.2.1, t2.2.2],
        p ∈ [F a.1 a.2, F b.1 b.2, F c.1 c.2, F d.1 d.2]) ∧
      orientPt t1.1 t1.2.1 t1.2.2 ≠ 0 ∧ orientPt t2.1 t2.2.1 t2.2.2 ≠ 0 ∧
      |orientPt t1.1 t1.2.1 t1.2.2| + |orientPt t2.1 t2.2.1 t2.2.2| =
        |(a.1 * b.2 - a.2 * b.1) + (b.1 * c.2 - b.2 * c.1) + (c.1 * d.2 - c.2 * d.1) +
          (d.1 * a.2 - d.2 * a.1)| := by
  obtain ⟨t1, t2, h, hg⟩ := quad_accepted_good a b c d hx hs
  exact ⟨t1, t2, h, hg⟩

/-- the plain result of the model (without the ghost flag) -/
theorem quad_accepted_sweep (a b c d : Rat × Rat)
    (hx : a.1 ≠ b.1 ∧ a.1 ≠ c.1 ∧ a.1 ≠ d.1 ∧ b.1 ≠ c.1 ∧ b.1 ≠ d.1 ∧ c.1 ≠ d.1)
    (hs : SimpleQuad a b c d) :
    ∃ t1 t2, sweep [#[F a.1 a.2, F b.1 b.2, F c.1 c.2, F d.1 d.2]] = .ok [t1, t2] := by
  obtain ⟨t1, t2, h, -⟩ := quad_accepted_good a b c d hx hs
  refine ⟨t1, t2, ?_⟩
  unfold sweepMon at h
  unfold sweep
  cases hr : (Sweep.run [#[F a.1 a.2, F b.1 b.2, F c.1 c.2, F d.1 d.2]]).run (Sweep.initSt : St XQ) with
  | error e => rw [hr] at h; cases h
  | ok r =>
    rw [hr] at h
    simp only [Except.ok.injEq, Prod.mk.injEq] at h
    simp only [h.1]

/-- a convex quadrilateral: all four corners turn the same way -/
def ConvexQuad (a b c d : Rat × Rat) : Prop :=
  (0 < orient a b c ∧ 0 < orient b c d ∧ 0 < orient c d a ∧ 0 < orient d a b) ∨
    (orient a b c < 0 ∧ orient b c d < 0 ∧ orient c d a < 0 ∧ orient d a b < 0)

theorem ConvexQuad.simple {{a b c d : Rat × Rat}} (h : ConvexQuad a b c d) : SimpleQuad a b c d := by
  have e1 : orient a b d = orient d a b := by unfold orient; ring
  have e2 : orient b c a = orient a b c := by unfold orient; ring
  rcases h with ⟨h1, h2, h3, h4⟩ | ⟨h1, h2, h3, h4⟩
  · refine ⟨ne_of_gt h1, ne_of_gt h2, ne_of_gt h3, ne_of_gt h4, ?_, ?_⟩
    · rintro ⟨hc, -⟩; rw [e1] at hc; nlinarith
    · rintro ⟨hc, -⟩; rw [e2] at hc; nlinarith
  · refine ⟨ne_of_lt h1, ne_of_lt h2, ne_of_lt h3, ne_of_lt h4, ?_, ?_⟩
    · rintro ⟨hc, -⟩; rw [e1] at hc; nlinarith
    · rintro ⟨hc, -⟩; rw [e2] at hc; nlinarith

/-- **every convex quadrilateral in general position is accepted** -/
theorem quad_accepted_convex (a b c d : Rat × Rat)
    (hx : a.1 ≠ b.1 ∧ a.1 ≠ c.1 ∧ a.1 ≠ d.1 ∧ b.1 ≠ c.1 ∧ b.1 ≠ d.1 ∧ c.1 ≠ d.1)
    (hc : ConvexQuad a b c d) :
    ∃ t1 t2, sweepMon [#[F a.1 a.2, F b.1 b.2, F c.1 c.2, F d.1 d.2]] = .ok ([t1, t2], true) ∧
      QuadGood a b c d t1 t2 :=
  quad_accepted_good a b c d hx hc.simple
'''
s = open('/tmp/ag_tri3/lean/Cav/Thm/C04Quad.lean').read()
s = s.replace("\nend Cav.C04Quad\n", final + "\nend Cav.C04Quad\n")
open('/tmp/ag_tri3/lean/Cav/Thm/C04Quad.lean','w').write(s)

examples = '''
/-! ### non-vacuity: one concrete quadrilateral per class, evaluated by the kernel, and the
    theorem applied to it (so its hypotheses are satisfiable) -/

-- convex, the two bends on different chains (ring `O`)
example : sweepMon [#[F 0 0, F 2 (-2), F 5 0, F 3 2]] =
    .ok ([(F 0 0, F 2 (-2), F 3 2), (F 2 (-2), F 3 2, F 5 0)], true) := by decide +kernel
example : ∃ t1 t2, sweepMon [#[F 0 0, F 2 (-2), F 5 0, F 3 2]] = .ok ([t1, t2], true) ∧
    QuadGood (0, 0) (2, -2) (5, 0) (3, 2) t1 t2 :=
  quad_accepted_convex (0, 0) (2, -2) (5, 0) (3, 2) (by norm_num) (by unfold ConvexQuad orient; norm_num)
-- convex, both bends on the upper chain (ring `A`)
example : sweepMon [#[F 0 0, F 1 2, F 3 3, F 5 0]] =
    .ok ([(F 0 0, F 1 2, F 3 3), (F 0 0, F 3 3, F 5 0)], true) := by decide +kernel
example : ∃ t1 t2, sweepMon [#[F 0 0, F 1 2, F 3 3, F 5 0]] = .ok ([t1, t2], true) ∧
    QuadGood (0, 0) (1, 2) (3, 3) (5, 0) t1 t2 :=
  quad_accepted_good (0, 0) (1, 2) (3, 3) (5, 0) (by norm_num) (by decide +kernel)
-- reflex vertex at a Bend (ring `A`, nothing emitted at the second Bend)
example : sweepMon [#[F 0 0, F 1 1, F 2 4, F 5 0]] =
    .ok ([(F 1 1, F 2 4, F 5 0), (F 0 0, F 1 1, F 5 0)], true) := by decide +kernel
example : ∃ t1 t2, sweepMon [#[F 0 0, F 1 1, F 2 4, F 5 0]] = .ok ([t1, t2], true) ∧
    QuadGood (0, 0) (1, 1) (2, 4) (5, 0) t1 t2 :=
  quad_accepted_good (0, 0) (1, 1) (2, 4) (5, 0) (by norm_num) (by decide +kernel)
-- dart, reflex vertex pointing left: improper Start (back-chain split), ring `Z`
example : sweepMon [#[F 0 0, F 4 0, F 1 1, F 2 3]] =
    .ok ([(F 0 0, F 1 1, F 2 3), (F 0 0, F 1 1, F 4 0)], true) := by decide +kernel
example : ∃ t1 t2, sweepMon [#[F 0 0, F 4 0, F 1 1, F 2 3]] = .ok ([t1, t2], true) ∧
    QuadGood (0, 0) (4, 0) (1, 1) (2, 3) t1 t2 :=
  quad_accepted_good (0, 0) (4, 0) (1, 1) (2, 3) (by norm_num) (by decide +kernel)
-- the same dart, other start vertex and other orientation
example : ∃ t1 t2, sweepMon [#[F 2 3, F 1 1, F 4 0, F 0 0]] = .ok ([t1, t2], true) ∧
    QuadGood (2, 3) (1, 1) (4, 0) (0, 0) t1 t2 :=
  quad_accepted_good (2, 3) (1, 1) (4, 0) (0, 0) (by norm_num) (by decide +kernel)
example : sweepMon [#[F 2 3, F 1 1, F 4 0, F 0 0]] =
    .ok ([(F 0 0, F 1 1, F 2 3), (F 0 0, F 1 1, F 4 0)], true) := by decide +kernel
-- dart, reflex vertex pointing right: the first End merges two back-chains, ring `Z`
example : sweepMon [#[F 0 0, F 4 0, F 1 5, F 2 1]] =
    .ok ([(F 1 5, F 2 1, F 4 0), (F 0 0, F 2 1, F 4 0)], true) := by decide +kernel
example : ∃ t1 t2, sweepMon [#[F 0 0, F 4 0, F 1 5, F 2 1]] = .ok ([t1, t2], true) ∧
    QuadGood (0, 0) (4, 0) (1, 5) (2, 1) t1 t2 :=
  quad_accepted_good (0, 0) (4, 0) (1, 5) (2, 1) (by norm_num) (by decide +kernel)
-- the full statement on the left-pointing dart: areas 1·… add up to the shoelace area
example : ∃ t1 t2 : Pt XQ × Pt XQ × Pt XQ,
    sweepMon [#[F 0 0, F 4 0, F 1 1, F 2 3]] = .ok ([t1, t2], true) ∧
      (∀ p ∈ [t1.1, t1.2.1, t1.2.2, t2.1, t2.2.1, t2.2.2], p ∈ [F 0 0, F 4 0, F 1 1, F 2 3]) ∧
      orientPt t1.1 t1.2.1 t1.2.2 ≠ 0 ∧ orientPt t2.1 t2.2.1 t2.2.2 ≠ 0 ∧
      |orientPt t1.1 t1.2.1 t1.2.2| + |orientPt t2.1 t2.2.1 t2.2.2| = 5 := by
  obtain ⟨t1, t2, h1, h2, h3, h4, h5⟩ :=
    quad_accepted (0, 0) (4, 0) (1, 1) (2, 3) (by norm_num) (by decide +kernel)
  refine ⟨t1, t2, h1, h2, h3, h4, ?_⟩
  rw [h5]; norm_num
-- darts with two vertices on a vertical line (NOT covered by the theorem: abscissae not
-- distinct); the model accepts them as well
example : sweepMon [#[F 0 0, F 3 1, F 0 2, F 1 1]] =
    .ok ([(F 0 2, F 1 1, F 3 1), (F 0 0, F 1 1, F 3 1)], true) := by decide +kernel
example : sweepMon [#[F 3 0, F 0 1, F 3 2, F 2 1]] =
    .ok ([(F 0 1, F 2 1, F 3 0), (F 0 1, F 2 1, F 3 2)], true) := by decide +kernel
-- the hypothesis `SimpleQuad` is needed: a self-crossing quadrilateral (bow-tie) is rejected
example : ¬ SimpleQuad (0, 0) (4, 3) (4, 0) (0, 3) := by decide +kernel
example : ∀ t1 t2, sweepMon [#[F 0 0, F 5 3, F 4 0, F 1 4]] ≠ .ok ([t1, t2], true) := by
  intro t1 t2 h
  have : (sweepMon [#[F 0 0, F 5 3, F 4 0, F 1 4]]).toBool = false := by decide +kernel
  rw [h] at this
  cases this
'''
s = open('/tmp/ag_tri3/lean/Cav/Thm/C04Quad.lean').read()
s = s.replace("\nend Cav.C04Quad\n", examples + "\nend Cav.C04Quad\n")
open('/tmp/ag_tri3/lean/Cav/Thm/C04Quad.lean','w').write(s)
