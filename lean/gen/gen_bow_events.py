names = "f1, f2, f3, f4, c11, c12, c13, c14, c21, c22, c23, c24, c31, c32, c33, c34, c41, c42, c43, c44, e12, e13, e14, e21, e23, e24, e31, e32, e34, e41, e42, e43, x11, x12, x13, x14, x21, x22, x23, x24, x31, x32, x33, x34, x41, x42, x43, x44, m12, m13, m14, m21, m23, m24, m31, m32, m34, m41, m42, m43"
hdr = '''/-
  Event chains of a SELF-INTERSECTING quadrilateral (bow-tie) in general position
  (`p1.x < p2.x < p3.x < p4.x`), evaluated symbolically on the sweep model up to the event whose
  handler reports the overlap.  As in `QuadEvents{O,A,Z}.lean` the vertex ring `V` is abstract
  (look-ups at the four vertices, both ring orientations `ori`), the points are abstract, and the
  outcome of every pure geometric test of the model is a hypothesis `g…`.

  In all eight configurations the error is reported at the SECOND event (the vertex `p2`):
  * rings `A` (`p1 p2 p3 p4`) and `O` (`p1 p2 p4 p3`): `p2` is a Bend; after the edge `p1 p2` has
    been replaced by the edge out of `p2`, its nesting partner (the other edge out of `p1`) is on
    the wrong side at the nearer right end point: `will_overlap_bot` / `will_overlap_top` of the
    Bend arm;
  * ring `Z` (`p1 p3 p2 p4`): `p2` is a second Start lying outside the wedge of the two edges out
    of `p1`; one new edge gets an edge out of `p1` as nesting partner and is on the wrong side of
    it at `p3.x`: `will_overlap_top` (Start below the wedge) / `will_overlap_bot` (Start above the
    wedge) of the Start arm.
-/
import Cav.Lemmas.BowRun

set_option linter.unusedSimpArgs false
set_option linter.unusedVariables false
set_option maxRecDepth 4000

namespace Cav.BowEvents
open Cav Num Cav.Sweep Cav.SweepRun Cav.TriRun Cav.QuadRun Cav.TriEvents Cav.BowRun

'''
ringA = '''    (h1 : V[i1]? = some ⟨p1, (nb ori i4 i2).1, (nb ori i4 i2).2⟩)
    (h2 : V[i2]? = some ⟨p2, (nb ori i1 i3).1, (nb ori i1 i3).2⟩)
    (h3 : V[i3]? = some ⟨p3, (nb ori i2 i4).1, (nb ori i2 i4).2⟩)
    (h4 : V[i4]? = some ⟨p4, (nb ori i3 i1).1, (nb ori i3 i1).2⟩)'''
ringO = '''    (h1 : V[i1]? = some ⟨p1, (nb ori i2 i3).1, (nb ori i2 i3).2⟩)
    (h2 : V[i2]? = some ⟨p2, (nb ori i4 i1).1, (nb ori i4 i1).2⟩)
    (h3 : V[i3]? = some ⟨p3, (nb ori i1 i4).1, (nb ori i1 i4).2⟩)
    (h4 : V[i4]? = some ⟨p4, (nb ori i3 i2).1, (nb ori i3 i2).2⟩)'''
ringZ = '''    (h1 : V[i1]? = some ⟨p1, (nb ori i4 i3).1, (nb ori i4 i3).2⟩)
    (h2 : V[i2]? = some ⟨p2, (nb ori i3 i4).1, (nb ori i3 i4).2⟩)
    (h3 : V[i3]? = some ⟨p3, (nb ori i1 i2).1, (nb ori i1 i2).2⟩)
    (h4 : V[i4]? = some ⟨p4, (nb ori i2 i1).1, (nb ori i2 i1).2⟩)'''

def flow(name, doc, ring, evs, kind, gs):
    ghyps = "\n".join(f"    (g{k+1} : {g})" for k, g in enumerate(gs))
    gl = ", ".join(f"g{k+1}" for k in range(len(gs)))
    return f'''/-- {doc} -/
theorem {name} (ori : Bool) (V : Array (Vtx XQ)) (i1 i2 i3 i4 : Nat) (p1 p2 p3 p4 : Pt XQ)
{ring}
    (hO : Ord4 p1 p2 p3 p4)
{ghyps} :
    Runs (stQ V {evs}) (.error (.overlap {kind} p2)) (loop 5) := by
  obtain ⟨{names}⟩ := hO
  unfold stQ
  cases ori <;> simp only [nb, if_true, if_false, Bool.false_eq_true] at h1 h2 h3 h4
  all_goals
    qev [{gl}]
    qev_err [{gl}]

'''
out = hdr
out += flow("bow_At", "ring `p1 p2 p3 p4`, `p2` above the edge `p1 p4`, `p3` below it: `will_overlap_bot` at the Bend `p2`",
  ringA, "[(i1, [])]", ".bend",
  ["cmpEdgeP p1 p4 p1 p2 p1.x = .lt", "cmpEdgeP p1 p2 p1 p4 p1.x = .gt", "cmpAtP p2 p3 p1 p4 p3.x true = .lt"])
out += flow("bow_Ab", "ring `p1 p2 p3 p4`, `p2` below the edge `p1 p4`, `p3` above it: `will_overlap_top` at the Bend `p2`",
  ringA, "[(i1, [])]", ".bend",
  ["cmpEdgeP p1 p2 p1 p4 p1.x = .lt", "cmpEdgeP p1 p4 p1 p2 p1.x = .gt", "cmpAtP p2 p3 p1 p4 p3.x true = .gt"])
out += flow("bow_Oa", "ring `p1 p2 p4 p3`, `p2` below the edge `p1 p3`, the edge `p2 p4` above `p3`: `will_overlap_top` at the Bend `p2`",
  ringO, "[(i1, [])]", ".bend",
  ["cmpEdgeP p1 p2 p1 p3 p1.x = .lt", "cmpEdgeP p1 p3 p1 p2 p1.x = .gt", "cmpAtP p2 p4 p1 p3 p3.x true = .gt"])
out += flow("bow_Ob", "ring `p1 p2 p4 p3`, `p2` above the edge `p1 p3`, the edge `p2 p4` below `p3`: `will_overlap_bot` at the Bend `p2`",
  ringO, "[(i1, [])]", ".bend",
  ["cmpEdgeP p1 p3 p1 p2 p1.x = .lt", "cmpEdgeP p1 p2 p1 p3 p1.x = .gt", "cmpAtP p2 p4 p1 p3 p3.x true = .lt"])
def zbelow(lo, hi):
    return [f"cmpEdgeP p1 {lo} p1 {hi} p1.x = .lt", f"cmpEdgeP p1 {hi} p1 {lo} p1.x = .gt",
            f"cmpEdgeP p2 {lo} p2 {hi} p2.x = .lt", f"cmpEdgeP p2 {hi} p2 {lo} p2.x = .gt",
            f"cmpEdgeP p2 {lo} p1 {lo} p2.x = .lt", f"cmpEdgeP p2 {lo} p1 {hi} p2.x = .lt",
            f"cmpEdgeP p2 {hi} p1 {lo} p2.x = .lt", f"cmpEdgeP p2 {hi} p1 {hi} p2.x = .lt",
            f"cmpEdgeP p1 {lo} p1 {hi} p2.x = .lt",
            f"cmpAtP p2 {hi} p1 {lo} p3.x true = .gt"]
def zabove(lo, hi):
    return [f"cmpEdgeP p1 {lo} p1 {hi} p1.x = .lt", f"cmpEdgeP p1 {hi} p1 {lo} p1.x = .gt",
            f"cmpEdgeP p2 {lo} p2 {hi} p2.x = .lt", f"cmpEdgeP p2 {hi} p2 {lo} p2.x = .gt",
            f"cmpEdgeP p2 {lo} p1 {lo} p2.x = .gt", f"cmpEdgeP p2 {lo} p1 {hi} p2.x = .gt",
            f"cmpEdgeP p2 {hi} p1 {lo} p2.x = .gt", f"cmpEdgeP p2 {hi} p1 {hi} p2.x = .gt",
            f"cmpEdgeP p1 {hi} p1 {lo} p2.x = .gt",
            f"cmpAtP p2 {lo} p1 {hi} p3.x true = .lt"]
out += flow("bow_Zb34", "ring `p1 p3 p2 p4`, edge `p1 p3` below edge `p1 p4`, `p2` below both, the edge `p2 p4` above `p3`: `will_overlap_top` at the Start `p2`",
  ringZ, "[(i1, []), (i2, [])]", ".start", zbelow("p3", "p4"))
out += flow("bow_Zb43", "ring `p1 p3 p2 p4`, edge `p1 p4` below edge `p1 p3`, `p2` below both, `p3` above the edge `p1 p4`: `will_overlap_top` at the Start `p2`",
  ringZ, "[(i1, []), (i2, [])]", ".start", zbelow("p4", "p3"))
out += flow("bow_Za34", "ring `p1 p3 p2 p4`, edge `p1 p3` below edge `p1 p4`, `p2` above both, `p3` below the edge `p1 p4`: `will_overlap_bot` at the Start `p2`",
  ringZ, "[(i1, []), (i2, [])]", ".start", zabove("p3", "p4"))
out += flow("bow_Za43", "ring `p1 p3 p2 p4`, edge `p1 p4` below edge `p1 p3`, `p2` above both, the edge `p2 p4` below `p3`: `will_overlap_bot` at the Start `p2`",
  ringZ, "[(i1, []), (i2, [])]", ".start", zabove("p4", "p3"))
out += "end Cav.BowEvents\n"
open('/tmp/ag_bowtie/lean/Cav/Lemmas/BowEvents.lean','w').write(out)
