names = open('/tmp/ag_tri3/ord4_names.txt').read()
def flow(name, ringdoc, nbrs, evs, hyps, outs, steps):
    hl = []
    for k,(a,b) in enumerate(nbrs, start=1):
        hl.append(f"    (h{k} : V[i{k}]? = some ⟨p{k}, (nb ori {a} {b}).1, (nb ori {a} {b}).2⟩)")
    hy = "\n".join(f"    (g{n+1} : {h})" for n,h in enumerate(hyps))
    allg = ', '.join('g'+str(j+1) for j in range(len(hyps)))
    st = "\n".join(f"      qev [{allg}]" for s in range(steps))
    return f'''/-- {ringdoc} -/
theorem {name} (ori : Bool) (V : Array (Vtx XQ)) (i1 i2 i3 i4 : Nat) (p1 p2 p3 p4 : Pt XQ)
{chr(10).join(hl)}
    (hO : Ord4 p1 p2 p3 p4)
{hy} :
    ∃ s', Runs (stQ V {evs}) (.ok ((), s')) (loop 5) ∧
      s'.out = {outs} ∧ s'.mono = true := by
  obtain ⟨{names}⟩ := hO
  unfold stQ
  cases ori <;> simp only [nb, if_true, if_false, Bool.false_eq_true] at h1 h2 h3 h4
  all_goals
    refine ⟨?_, ?run, ?out⟩
    case run =>
{st}
      refine Runs.loop_done (n := 0) ?_
      rfl
    case out => exact ⟨by rfl, by rfl⟩
'''
hdr = '''/-
  Event chains of a quadrilateral in general position (`p1.x < p2.x < p3.x < p4.x`), evaluated
  symbolically on the sweep model: ring RING.  The vertex ring `V` is abstract (look-ups at the
  four vertices, both ring orientations `ori`), the points are abstract, and the outcome of every
  pure geometric test of the model is a hypothesis `g…`.
-/
import Cav.Lemmas.QuadRun

set_option linter.unusedSimpArgs false
set_option linter.unusedVariables false

namespace Cav.QuadEvents
open Cav Num Cav.Sweep Cav.SweepRun Cav.TriRun Cav.QuadRun Cav.TriEvents

'''
ringZ = [("i4","i3"),("i3","i4"),("i1","i2"),("i2","i1")]
def E(a,b,c,d,x,o): return f"cmpEdgeP {a} {b} {c} {d} {x}.x = .{o}"
Zia = flow("flow_Zia", "ring `p1 p3 p2 p4`, edge `p1 p4` below edge `p1 p3`, `p2` between them: improper Start", ringZ, "[(i1, []), (i2, [])]",
  [E('p1','p4','p1','p3','p1','lt'), E('p1','p3','p1','p4','p1','gt'),
   E('p2','p4','p2','p3','p2','lt'), E('p2','p3','p2','p4','p2','gt'),
   E('p2','p4','p1','p4','p2','gt'), E('p2','p4','p1','p3','p2','lt'),
   E('p2','p3','p1','p4','p2','gt'), E('p2','p3','p1','p3','p2','lt'),
   E('p1','p4','p1','p3','p2','lt'), E('p1','p3','p1','p4','p2','gt'),
   "partialCmpEdgeP p1 p4 p1 p3 p2.x = some .lt",
   "ofLt (yExtrap p2 p4 p4.x true) (yExtrap p1 p4 p4.x true) = false",
   "ofGt (yExtrap p2 p3 p3.x true) (yExtrap p1 p3 p3.x true) = false",
   "ofGe (p1.grad p3) (p2.grad p3) = false",
   E('p1','p3','p2','p4','p2','gt'),
   "clockwiseSign p2 p1 p3 = .c",
   "ofGe (p1.grad p4) (p2.grad p4) = true",
   E('p1','p4','p2','p4','p3','lt'),
   "clockwiseSign p1 p2 p4 = .c"],
  "[sort3 p1 p2 p4, sort3 p2 p1 p3]", 4)
Zib = flow("flow_Zib", "ring `p1 p3 p2 p4`, edge `p1 p3` below edge `p1 p4`, `p2` between them: improper Start", ringZ, "[(i1, []), (i2, [])]",
  [E('p1','p3','p1','p4','p1','lt'), E('p1','p4','p1','p3','p1','gt'),
   E('p2','p3','p2','p4','p2','lt'), E('p2','p4','p2','p3','p2','gt'),
   E('p2','p3','p1','p3','p2','gt'), E('p2','p3','p1','p4','p2','lt'),
   E('p2','p4','p1','p3','p2','gt'), E('p2','p4','p1','p4','p2','lt'),
   E('p1','p3','p1','p4','p2','lt'), E('p1','p4','p1','p3','p2','gt'),
   "partialCmpEdgeP p1 p3 p1 p4 p2.x = some .lt",
   "ofLt (yExtrap p2 p3 p3.x true) (yExtrap p1 p3 p3.x true) = false",
   "ofGt (yExtrap p2 p4 p4.x true) (yExtrap p1 p4 p4.x true) = false",
   "ofGe (p1.grad p3) (p2.grad p3) = true",
   E('p1','p3','p2','p3','p2','lt'), E('p1','p3','p2','p4','p2','lt'),
   "clockwiseSign p1 p2 p3 = .c",
   "ofGe (p1.grad p4) (p2.grad p4) = false",
   E('p2','p4','p1','p4','p3','lt'),
   "clockwiseSign p2 p1 p4 = .c"],
  "[sort3 p2 p1 p4, sort3 p1 p2 p3]", 4)
Zab = flow("flow_Zab", "ring `p1 p3 p2 p4`, edge `p1 p4` below edge `p1 p3`, `p2` above both: the End at `p3` merges two chains", ringZ, "[(i1, []), (i2, [])]",
  [E('p1','p4','p1','p3','p1','lt'), E('p1','p3','p1','p4','p1','gt'),
   E('p2','p3','p2','p4','p2','lt'), E('p2','p4','p2','p3','p2','gt'),
   E('p2','p3','p1','p4','p2','gt'), E('p2','p3','p1','p3','p2','gt'),
   E('p2','p4','p1','p4','p2','gt'), E('p2','p4','p1','p3','p2','gt'),
   E('p1','p3','p1','p4','p2','gt'),
   "ofLt (yExtrap p2 p3 p3.x true) (yExtrap p1 p3 p3.x true) = false",
   "ofGe (p1.grad p3) (p2.grad p3) = true",
   E('p1','p3','p2','p3','p2','lt'), E('p1','p3','p2','p4','p2','lt'),
   "ofGt (yExtrap p1 p4 p4.x true) (yExtrap p2 p4 p4.x true) = false",
   "ofGe (p1.grad p4) (p2.grad p4) = true",
   E('p1','p4','p2','p4','p3','lt'),
   "clockwiseSign p3 p2 p4 = .c", "clockwiseSign p1 p3 p4 = .c"],
  "[sort3 p1 p3 p4, sort3 p3 p2 p4]", 4)
Zbe = flow("flow_Zbe", "ring `p1 p3 p2 p4`, edge `p1 p3` below edge `p1 p4`, `p2` below both: the End at `p3` merges two chains", ringZ, "[(i1, []), (i2, [])]",
  [E('p1','p3','p1','p4','p1','lt'), E('p1','p4','p1','p3','p1','gt'),
   E('p2','p4','p2','p3','p2','lt'), E('p2','p3','p2','p4','p2','gt'),
   E('p2','p4','p1','p3','p2','lt'), E('p2','p4','p1','p4','p2','lt'),
   E('p2','p3','p1','p3','p2','lt'), E('p2','p3','p1','p4','p2','lt'),
   "ofGt (yExtrap p2 p3 p3.x true) (yExtrap p1 p3 p3.x true) = false",
   "ofGe (p1.grad p3) (p2.grad p3) = false",
   E('p1','p3','p2','p4','p2','gt'), E('p1','p3','p1','p4','p2','lt'),
   "ofGt (yExtrap p2 p4 p4.x true) (yExtrap p1 p4 p4.x true) = false",
   "ofGe (p1.grad p4) (p2.grad p4) = false",
   E('p2','p4','p1','p4','p3','lt'),
   "clockwiseSign p3 p1 p4 = .c", "clockwiseSign p2 p3 p4 = .c"],
  "[sort3 p2 p3 p4, sort3 p3 p1 p4]", 4)
open('Cav/Lemmas/QuadEventsZ.lean','w').write(hdr.replace("RING","`Z` (cyclic order `p1 p3 p2 p4`: Start Start End End; the second Start is improper (inside the polygon) or the first End merges two back-chains)") + "\n".join([Zia,Zib,Zab,Zbe]) + "\nend Cav.QuadEvents\n")
