hdr = '''/-
  The bow-tie event chains of `BowEvents.lean` instantiated at finite points `q1 … q4` with
  increasing abscissae: every geometric hypothesis is discharged from the signs of the
  orientation determinants `orient qi qj qk` (lemmas of `QuadGeom.lean`).
-/
import Cav.Lemmas.QuadFlows
import Cav.Lemmas.BowEvents

set_option linter.unusedSimpArgs false
set_option linter.unusedVariables false

namespace Cav.BowFlows
open Cav Num Cav.Geo Cav.Sweep Cav.TriRun Cav.QuadRun Cav.QuadGeom Cav.QuadFlows Cav.BowEvents

'''
ringA = '''    (h1 : V[i1]? = some ⟨Fq q1, (nb ori i4 i2).1, (nb ori i4 i2).2⟩)
    (h2 : V[i2]? = some ⟨Fq q2, (nb ori i1 i3).1, (nb ori i1 i3).2⟩)
    (h3 : V[i3]? = some ⟨Fq q3, (nb ori i2 i4).1, (nb ori i2 i4).2⟩)
    (h4 : V[i4]? = some ⟨Fq q4, (nb ori i3 i1).1, (nb ori i3 i1).2⟩)'''
ringO = '''    (h1 : V[i1]? = some ⟨Fq q1, (nb ori i2 i3).1, (nb ori i2 i3).2⟩)
    (h2 : V[i2]? = some ⟨Fq q2, (nb ori i4 i1).1, (nb ori i4 i1).2⟩)
    (h3 : V[i3]? = some ⟨Fq q3, (nb ori i1 i4).1, (nb ori i1 i4).2⟩)
    (h4 : V[i4]? = some ⟨Fq q4, (nb ori i3 i2).1, (nb ori i3 i2).2⟩)'''
ringZ = '''    (h1 : V[i1]? = some ⟨Fq q1, (nb ori i4 i3).1, (nb ori i4 i3).2⟩)
    (h2 : V[i2]? = some ⟨Fq q2, (nb ori i3 i4).1, (nb ori i3 i4).2⟩)
    (h3 : V[i3]? = some ⟨Fq q3, (nb ori i1 i2).1, (nb ori i1 i2).2⟩)
    (h4 : V[i4]? = some ⟨Fq q4, (nb ori i2 i1).1, (nb ori i2 i1).2⟩)'''
X4 = "(by xord) (by xord) (by xord) (by xord) (by osgn)"
X2 = "(by xord) (by xord) (by osgn)"
X3 = "(by xord) (by xord) (by xord) (by osgn)"
def run(name, flow, doc, ring, evs, kind, signs, args):
    sh = " ".join(f"({n} : {t})" for n, t in signs)
    a = "\n".join("    " + x for x in args)
    return f'''/-- {doc} -/
theorem {name} (ori : Bool) (V : Array (Vtx XQ)) (i1 i2 i3 i4 : Nat) (q1 q2 q3 q4 : Rat × Rat)
{ring}
    (h12 : q1.1 < q2.1) (h23 : q2.1 < q3.1) (h34 : q3.1 < q4.1)
    {sh} :
    Runs (stQ V {evs}) (.error (.overlap {kind} (Fq q2))) (loop 5) := by
  have h13 := lt_trans h12 h23
  have h24 := lt_trans h23 h34
  have h14 := lt_trans h13 h34
  exact {flow} ori V i1 i2 i3 i4 (Fq q1) (Fq q2) (Fq q3) (Fq q4) h1 h2 h3 h4
    (ord4_fin q1 q2 q3 q4 h12 h23 h34)
{a}

'''
out = hdr
e1 = "[(i1, [])]"; e2 = "[(i1, []), (i2, [])]"
out += run("runBow_At", "bow_At", "ring `q1 q2 q3 q4`: `q2` above, `q3` below the line `q1 q4`", ringA, e1, ".bend",
  [("s124", "orient q1 q2 q4 < 0"), ("s134", "0 < orient q1 q3 q4")],
  [f"(cmpE_fanL0_lt q1 q4 q2 {X2})", f"(cmpE_fanL0_gt q1 q2 q4 {X2})", f"(cmpAt_keyEnd_lt q2 q3 q1 q4 {X4})"])
out += run("runBow_Ab", "bow_Ab", "ring `q1 q2 q3 q4`: `q2` below, `q3` above the line `q1 q4`", ringA, e1, ".bend",
  [("s124", "0 < orient q1 q2 q4"), ("s134", "orient q1 q3 q4 < 0")],
  [f"(cmpE_fanL0_lt q1 q2 q4 {X2})", f"(cmpE_fanL0_gt q1 q4 q2 {X2})", f"(cmpAt_keyEnd_gt q2 q3 q1 q4 {X4})"])
out += run("runBow_Oa", "bow_Oa", "ring `q1 q2 q4 q3`: `q2` below the line `q1 q3`, `q3` below the line `q2 q4`", ringO, e1, ".bend",
  [("s123", "0 < orient q1 q2 q3"), ("s234", "0 < orient q2 q3 q4")],
  [f"(cmpE_fanL0_lt q1 q2 q3 {X2})", f"(cmpE_fanL0_gt q1 q3 q2 {X2})", f"(cmpAt_otherEnd_gt q2 q4 q1 q3 {X4})"])
out += run("runBow_Ob", "bow_Ob", "ring `q1 q2 q4 q3`: `q2` above the line `q1 q3`, `q3` above the line `q2 q4`", ringO, e1, ".bend",
  [("s123", "orient q1 q2 q3 < 0"), ("s234", "orient q2 q3 q4 < 0")],
  [f"(cmpE_fanL0_lt q1 q3 q2 {X2})", f"(cmpE_fanL0_gt q1 q2 q3 {X2})", f"(cmpAt_otherEnd_lt q2 q4 q1 q3 {X4})"])
def zargs(lo, hi, below):
    c = "lt" if below else "gt"
    l = [f"(cmpE_fanL0_lt q1 {lo} {hi} {X2})", f"(cmpE_fanL0_gt q1 {hi} {lo} {X2})",
         f"(cmpE_fanL0_lt q2 {lo} {hi} {X2})", f"(cmpE_fanL0_gt q2 {hi} {lo} {X2})",
         f"(cmpE_ptKey_{c} q2 {lo} q1 {lo} {X4})", f"(cmpE_ptKey_{c} q2 {lo} q1 {hi} {X4})",
         f"(cmpE_ptKey_{c} q2 {hi} q1 {lo} {X4})", f"(cmpE_ptKey_{c} q2 {hi} q1 {hi} {X4})"]
    if below:
        l.append(f"(cmpE_fanL_lt q1 {lo} {hi} q2.1 {X3})")
        # cmpAtP p2 hi p1 lo p3.x = gt
        if hi == "q4": l.append(f"(cmpAt_otherEnd_gt q2 q4 q1 q3 {X4})")
        else: l.append(f"(cmpAt_keyEnd_gt q2 q3 q1 q4 {X4})")
    else:
        l.append(f"(cmpE_fanL_gt q1 {hi} {lo} q2.1 {X3})")
        # cmpAtP p2 lo p1 hi p3.x = lt
        if lo == "q4": l.append(f"(cmpAt_otherEnd_lt q2 q4 q1 q3 {X4})")
        else: l.append(f"(cmpAt_keyEnd_lt q2 q3 q1 q4 {X4})")
    return l
pos = lambda t: f"0 < {t}"; neg = lambda t: f"{t} < 0"
A,B,C,D = "orient q1 q2 q3", "orient q1 q2 q4", "orient q1 q3 q4", "orient q2 q3 q4"
out += run("runBow_Zb34", "bow_Zb34", "ring `q1 q3 q2 q4`, the edges `q1 q3` and `q2 q4` cross, `q2` below", ringZ, e2, ".start",
  [("s123", pos(A)), ("s124", pos(B)), ("s134", pos(C)), ("s234", pos(D))], zargs("q3", "q4", True))
out += run("runBow_Za43", "bow_Za43", "ring `q1 q3 q2 q4`, the edges `q1 q3` and `q2 q4` cross, `q2` above", ringZ, e2, ".start",
  [("s123", neg(A)), ("s124", neg(B)), ("s134", neg(C)), ("s234", neg(D))], zargs("q4", "q3", False))
out += run("runBow_Zb43", "bow_Zb43", "ring `q1 q3 q2 q4`, the edges `q2 q3` and `q1 q4` cross, `q2` below", ringZ, e2, ".start",
  [("s123", pos(A)), ("s124", pos(B)), ("s134", neg(C)), ("s234", neg(D))], zargs("q4", "q3", True))
out += run("runBow_Za34", "bow_Za34", "ring `q1 q3 q2 q4`, the edges `q2 q3` and `q1 q4` cross, `q2` above", ringZ, e2, ".start",
  [("s123", neg(A)), ("s124", neg(B)), ("s134", pos(C)), ("s234", pos(D))], zargs("q3", "q4", False))
out += "end Cav.BowFlows\n"
open('/tmp/ag_bowtie/lean/Cav/Lemmas/BowFlows.lean','w').write(out)
