/-
  `cavdrv`: line-protocol driver for the executable models at `α = Float`
  (DESIGN §1.3 (K)).  One request per line on stdin, one answer per line on stdout.
  Floats cross the pipe as 16 hex digits of their bit pattern.
-/
import Cav.Drv.Quad
import Cav.Drv.Parse
import Cav.Drv.Sweep
import Cav.Drv.Disp

open Cav Cav.Drv

def step (line : String) : String :=
  let toks := (line.trimAscii.toString.splitOn " ").filter (· ≠ "")
  match toks with
  | "quad1d" :: rest => drvQuad1d rest
  | "quad2d" :: rest => drvQuad2d rest
  | "tri" :: rest => drvTri rest
  | "panel" :: rest => drvPanel rest
  | "parse" :: rest => drvParse rest
  | "evalf" :: rest => drvEvalF rest
  | "evalad" :: rest => drvEvalAD rest
  | "intervals" :: rest => drvIntervals rest
  | "polygons" :: rest => drvPolygons rest
  | "ad" :: rest => drvAd rest
  | "d1def" :: rest => drvD1Def rest
  | "sweep" :: rest => drvSweep rest
  | "sweepq" :: rest => drvSweepQ rest
  | "api2d" :: rest => drvApi2d rest
  | "api3d" :: rest => drvApi3d rest
  | "split" :: rest => drvSplit rest
  | "splitt" :: rest => drvSplitT rest
  | _ => "bad-request"

partial def loop (h : IO.FS.Stream) (out : IO.FS.Stream) : IO Unit := do
  let line ← h.getLine
  if line.isEmpty then return ()
  out.putStrLn (step line)
  loop h out

def main : IO Unit := do
  let out ← IO.getStdout
  loop (← IO.getStdin) out
  out.flush
