#!/usr/bin/env python3
"""seedrun.py <patch.diff> <ID> [<ID> ...] [--tier quick|thorough]
Apply a seeded change to /repo, run the given checks, undo the change, restore evidence.
Used only to test the checks against kept mutations (seeded/<id>/); /repo is left clean."""
import os, shutil, subprocess, sys, tempfile
V = os.path.dirname(os.path.abspath(__file__))
args = sys.argv[1:]
tier = "quick"
if "--tier" in args:
    i = args.index("--tier"); tier = args[i + 1]; del args[i:i + 2]
patch, ids = os.path.abspath(args[0]), args[1:]
st = subprocess.run(["git", "-C", "/repo", "status", "--porcelain"], capture_output=True, text=True).stdout.strip()
if st:
    print("refusing: /repo working tree is not clean:\n" + st); sys.exit(2)
bak = tempfile.mkdtemp(prefix="evbak")
shutil.copytree(V + "/evidence", bak + "/evidence")
rc = subprocess.run(["git", "-C", "/repo", "apply", patch], capture_output=True).returncode
if rc != 0:
    # the patch was made against an earlier commit (e.g. before a verification hook was added): three-way merge
    rc = subprocess.run(["git", "-C", "/repo", "apply", "--3way", patch], capture_output=True).returncode
    subprocess.run(["git", "-C", "/repo", "reset", "-q"])   # --3way stages the result; keep it in the working tree only
if rc != 0:
    # leave /repo as it was (a failed three-way merge writes conflict markers)
    subprocess.run(["git", "-C", "/repo", "reset", "-q"])
    subprocess.run(["git", "-C", "/repo", "checkout", "--", "."])
    shutil.rmtree(bak, ignore_errors=True)
    print("patch does not apply"); sys.exit(2)
res = {}
try:
    for pid in ids:
        p = subprocess.run([V + "/check", pid, tier], cwd=V, capture_output=True, text=True)
        lines = [l for l in p.stdout.splitlines() if l.startswith("VIOLATION") or l.startswith(pid + " ")]
        res[pid] = (p.returncode, lines)
        print(pid, "exit", p.returncode)
        for l in lines: print("   ", l[:300])
finally:
    subprocess.run(["git", "-C", "/repo", "reset", "-q"])
    subprocess.run(["git", "-C", "/repo", "checkout", "--", "."])
    subprocess.run(["git", "-C", "/repo", "clean", "-fdq", "--", "tests", "src"])
    shutil.rmtree(V + "/evidence"); shutil.copytree(bak + "/evidence", V + "/evidence"); shutil.rmtree(bak)
    # the generated Lean files were last written from the patched tree: regenerate them from the restored one
    for t in sorted(os.listdir(V + "/translate")):
        if t.endswith(".py") and t not in ("common.py", "rustexpr.py"):
            subprocess.run([sys.executable, t], cwd=V + "/translate", env=dict(os.environ, CAV_REPO="/repo"), capture_output=True)
caught = [p for p, (rc, _) in res.items() if rc != 0]
print("CAUGHT-BY:", ",".join(caught) if caught else "none")
